(* shared AST transport self-test: parse the compact AST text and print it back *)
let ast_echo (line : string) : string =
  let d = Lib_ast.document_of_string line in
  Lib_ast.string_of_document d ^ " size=" ^ string_of_int (Util.int_of_n (Model.ast_doc_size d))
let families = [ ("ast_echo", ast_echo) ]
