(* shared AST transport self-test: parse the compact AST text and print it back *)
let ast_echo (line : string) : string =
  let d = Lib_ast.document_of_string line in
  Lib_ast.string_of_document d ^ " size=" ^ string_of_int (Util.int_of_n (Model.ast_doc_size d))
let families = [ ("ast_echo", ast_echo) ]
let schema_echo (line : string) : string =
  let s = Lib_schema.schema_of_string line in
  Lib_schema.string_of_schema s ^ " types=" ^ string_of_int (Util.int_of_n (Model.sch_type_count s))
let families = families @ [ ("schema_echo", schema_echo) ]
