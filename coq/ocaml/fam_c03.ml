(* C03 families: lex, lex_limit.  Observation: the item list, no messages.
   T:<kind>:<hexdata>:<index>   E:<hexdata>:<index>   L:<index> (token limit reached) *)
open Model
open Util

let c03_kind_names = [| "Whitespace"; "Comment"; "Bang"; "Dollar"; "Amp"; "Spread"; "Comma"; "Colon"; "Eq"; "At";
  "LParen"; "RParen"; "LBracket"; "RBracket"; "LCurly"; "RCurly"; "Pipe"; "Eof"; "Name"; "StringValue";
  "Int"; "Float" |]
let c03_kind_name (k : tkind) : string = c03_kind_names.(int_of_n (tkind_code k))

let c03_show_item (i : item) : string =
  match i with
  | ITok (k, d, n) -> "T:" ^ c03_kind_name k ^ ":" ^ hex_of_str d ^ ":" ^ string_of_int (int_of_n n)
  | IErr (ELex, d, n) -> "E:" ^ hex_of_str d ^ ":" ^ string_of_int (int_of_n n)
  | IErr (ELimit, _, n) -> "L:" ^ string_of_int (int_of_n n)

let c03_show (l : item list) : string =
  if l = [] then "model-out-of-fuel" else String.concat " " (List.map c03_show_item l)

(* input: <hex source> *)
let c03_lex (line : string) : string = c03_show (lex_all (str_of_hex line))

(* input: <limit> <hex source> *)
let c03_lex_limit (line : string) : string =
  match String.split_on_char ' ' line with
  | [lim; h] -> c03_show (lex_limited (n_of_int (int_of_string lim)) (str_of_hex h))
  | _ -> failwith "lex_limit line"

let families = [ ("lex", c03_lex); ("lex_limit", c03_lex_limit) ]
