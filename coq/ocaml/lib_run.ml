(* shared by the C26/C27/C28 families *)
open Model
open Util

(* Schema::parse always defines the five built-in scalars (unused ones are pruned only after validation of
   documents that cannot mention them); the `u` schema dump leaves built-in definitions out to keep case lines
   small, so they are added back here. *)
let builtin_scalars : ext_type list =
  List.map (fun n -> EScalar (None, str_of_ascii n, [], true)) ["Int"; "Float"; "String"; "Boolean"; "ID"]

let with_builtin_scalars (s : schema) : schema =
  let have n = List.exists (fun t -> et_name t = n) s.sch_types in
  { s with sch_types = s.sch_types @ List.filter (fun t -> not (have (et_name t))) builtin_scalars }
