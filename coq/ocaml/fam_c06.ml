(* C06 family: str_decode
   input : hex of the literal (token text with its quotes)
   output: ok <hex value>     the literal is exactly one valid StringValue token; value by the code model
           quirk <hex value>  not valid, but the lexer's own rule accepts it (leading raw line terminator)
           invalid            the lexer rejects it / it is not exactly one string token
           panic              the code model panics on an accepted literal *)
open Model
open Util

let str_decode (line : string) : string =
  let text = str_of_hex line in
  let value () = match su_string_of_token text with SuOk v -> Some v | SuPanic -> None in
  match sl_classify_literal text with
  | SlInvalid ->
    if sl_lexer_accepts_literal text then
      (match value () with Some v -> "quirk " ^ hex_of_str v | None -> "panic")
    else "invalid"
  | SlQuoted _ -> (match value () with Some v -> "ok " ^ hex_of_str v | None -> "panic")
  | SlBlock body ->
    (match value () with
     | None -> "panic"
     | Some v ->
       (* cross-check of the theorem C06_block on this input: the spec function on the raw value *)
       let spec = bs_BlockStringValue (su_replace_esc3 body) in
       if spec <> v then "model-failure code model and BlockStringValue differ"
       else "ok " ^ hex_of_str v)

let families = [ ("str_decode", str_decode) ]
