(* C31 families: fileid_sched, fileid_free, fileid_search (model only), tfi_pack.
   Numbers on the wire are lowercase hex; they are converted to the extracted N bit by bit (no OCaml int in
   between: ids reach 2^64). *)
open Model
open Util

let n_of_hexnum (s : string) : n =
  let p = ref None in
  String.iter (fun c ->
    let v = hexval c in
    List.iter (fun b ->
      let bit = (v lsr b) land 1 = 1 in
      p := (match !p with
            | None -> if bit then Some XH else None
            | Some q -> Some (if bit then XI q else XO q))) [3; 2; 1; 0]) s;
  match !p with None -> N0 | Some q -> Npos q

let hexnum_of_n (x : n) : string =
  match x with
  | N0 -> "0"
  | Npos p ->
    (* bits, least significant first *)
    let rec bits p = match p with XH -> [1] | XO q -> 0 :: bits q | XI q -> 1 :: bits q in
    let bs = Array.of_list (bits p) in
    let nd = (Array.length bs + 3) / 4 in
    String.init nd (fun i ->
      let d = nd - 1 - i in
      let v = ref 0 in
      for b = 3 downto 0 do
        let k = 4 * d + b in
        v := !v * 2 + (if k < Array.length bs then bs.(k) else 0)
      done;
      "0123456789abcdef".[!v])

let rec nat_of_int (i : int) : nat = if i <= 0 then O else S (nat_of_int (i - 1))

(* program wire format: instructions separated by ';', each `<op>/<cont>`;
   op: fa:<hex> | ld | sc:<hex> | sr:<hex> ; cont: n | r | riu | ru | g<decimal pc> ; '-' = empty program *)
let parse_instr (s : string) : instr =
  match String.split_on_char '/' s with
  | [o; k] ->
    let op =
      if o = "ld" then ALoad else
      match String.split_on_char ':' o with
      | ["fa"; d] -> AFetchAdd (n_of_hexnum d)
      | ["sc"; v] -> AStoreConst (n_of_hexnum v)
      | ["sr"; d] -> AStoreRegPlus (n_of_hexnum d)
      | _ -> failwith "op" in
    let ct =
      match k with
      | "n" -> KNext | "r" -> KRet | "riu" -> KRetIfUntagged | "ru" -> KRetUnit
      | _ when String.length k > 1 && k.[0] = 'g' ->
        KGoto (nat_of_int (int_of_string (String.sub k 1 (String.length k - 1))))
      | _ -> failwith "cont" in
    { i_op = op; i_k = ct }
  | _ -> failwith "instr"

let parse_program (s : string) : instr list =
  if s = "-" then [] else List.map parse_instr (String.split_on_char ';' s)

let parse_todos (s : string) : call list list =
  List.map (fun t ->
    if t = "-" then [] else
    List.init (String.length t) (fun i -> if t.[i] = 'n' then CallNew else CallReset))
    (String.split_on_char ',' s)

let show_ids (s : state) : string =
  String.concat "/" (List.map (fun t ->
    match List.rev t.t_ids with
    | [] -> "-"
    | l -> String.concat "." (List.map hexnum_of_n l)) s.s_threads)

(* `<prog_new> <prog_reset> <start> <todos> <sched>` *)
let fileid_sched (line : string) : string =
  match String.split_on_char ' ' line with
  | [pn; pr; start; todos; sched] ->
    let p = { p_new = parse_program pn; p_reset = parse_program pr } in
    let todos = parse_todos todos in
    let nthreads = List.length todos in
    let sched = if sched = "-" then [] else
      List.filter (fun i -> i < nthreads) (List.map int_of_string (String.split_on_char ',' sched)) in
    let s = run p (init_state (n_of_hexnum start) todos) (List.map nat_of_int sched) in
    Printf.sprintf "ids=%s cell=%s done=%d" (show_ids s) (hexnum_of_n s.s_cell) (if finished s then 1 else 0)
  | _ -> failwith "fileid_sched line"

(* `<prog_new> <prog_reset> <start> <threads> <calls>`: the model's answer under the sequential schedule
   (thread 0 to completion, then thread 1, ...); by C31_unique the summary is the same for every schedule
   while the counter stays below 2^63 *)
let fileid_free (line : string) : string =
  match String.split_on_char ' ' line with
  | [pn; pr; start; threads; calls] ->
    let p = { p_new = parse_program pn; p_reset = parse_program pr } in
    let t = int_of_string threads and k = int_of_string calls in
    let todos = List.init t (fun _ -> List.init k (fun _ -> CallNew)) in
    let sched = List.concat (List.init t (fun i -> List.init (3 * k + 3) (fun _ -> nat_of_int i))) in
    let s = run p (init_state (n_of_hexnum start) todos) sched in
    let ids = all_ids s in
    let pad h = String.make (16 - String.length h) '0' ^ h in
    let hs = List.sort compare (List.map (fun x -> pad (hexnum_of_n x)) ids) in
    let inrange = List.for_all id_ok ids in
    let rec distinct = function a :: (b :: _ as r) -> a <> b && distinct r | _ -> true in
    let start_n = n_of_hexnum start in
    let rec contiguous cur = function
      | [] -> true
      | h :: r -> h = pad (hexnum_of_n cur) && contiguous (N.add cur (Util.n_of_int 1)) r in
    let wraps = pad (hexnum_of_n (N.add start_n (Util.n_of_int (List.length ids)))) > "8000000000000000" in
    let b x = if x then "1" else "0" in
    Printf.sprintf "n=%d inrange=%s distinct=%s contiguous=%s" (List.length ids) (b inrange)
      (if wraps then "-" else b (distinct hs)) (if wraps then "-" else b (contiguous start_n hs))
  | _ -> failwith "fileid_free line"

(* `<prog_new> <prog_reset> <start> <todos> <fuel>` -> `found <sched>` | `none` *)
let fileid_search (line : string) : string =
  match String.split_on_char ' ' line with
  | [pn; pr; start; todos; fuel] ->
    let p = { p_new = parse_program pn; p_reset = parse_program pr } in
    (match search_from (nat_of_int (int_of_string fuel)) p (n_of_hexnum start) (parse_todos todos) with
     | None -> "none"
     | Some l ->
       let rec int_of_nat = function O -> 0 | S m -> 1 + int_of_nat m in
       "found " ^ (if l = [] then "-" else String.concat "," (List.map (fun i -> string_of_int (int_of_nat i)) l)))
  | _ -> failwith "fileid_search line"

(* `<id> <tag>` *)
let tfi_pack_fam (line : string) : string =
  match String.split_on_char ' ' line with
  | [id; tag] ->
    let id = n_of_hexnum id in
    if id = N0 then "none" else
    let p = tfi_pack (tag = "1") id in
    Printf.sprintf "packed=%s tag=%s id=%s" (hexnum_of_n p) (if tfi_tag p then "1" else "0")
      (hexnum_of_n (tfi_file_id p))
  | _ -> failwith "tfi_pack line"

let families = [
  ("fileid_sched", fileid_sched); ("fileid_free", fileid_free); ("fileid_search", fileid_search);
  ("tfi_pack", tfi_pack_fam) ]
