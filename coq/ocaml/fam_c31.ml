(* C31 families: fileid_sched, fileid_free, fileid_search (model only), tfi_pack.
   Numbers on the wire are lowercase hex; they are converted to the extracted N bit by bit (no OCaml int in
   between: ids reach 2^64). *)
open Model
open Util

let n_of_hexnum (s : string) : n =
  let p = ref None in
  String.iter (fun c ->
    let v = hexval c in
    List.iter (fun b ->
      let bit = (v lsr b) land 1 = 1 in
      p := (match !p with
            | None -> if bit then Some XH else None
            | Some q -> Some (if bit then XI q else XO q))) [3; 2; 1; 0]) s;
  match !p with None -> N0 | Some q -> Npos q

let hexnum_of_n (x : n) : string =
  match x with
  | N0 -> "0"
  | Npos p ->
    (* bits, least significant first *)
    let rec bits p = match p with XH -> [1] | XO q -> 0 :: bits q | XI q -> 1 :: bits q in
    let bs = Array.of_list (bits p) in
    let nd = (Array.length bs + 3) / 4 in
    String.init nd (fun i ->
      let d = nd - 1 - i in
      let v = ref 0 in
      for b = 3 downto 0 do
        let k = 4 * d + b in
        v := !v * 2 + (if k < Array.length bs then bs.(k) else 0)
      done;
      "0123456789abcdef".[!v])

let rec nat_of_int (i : int) : nat = if i <= 0 then O else S (nat_of_int (i - 1))

(* program wire format: instructions separated by ';', each `<op>/<cont>`;
   op: fa:<hex> | ld | sc:<hex> | sr:<hex> ; cont: n | r | riu | ru | g<decimal pc> ; '-' = empty program *)
let parse_instr (s : string) : fi_instr =
  match String.split_on_char '/' s with
  | [o; k] ->
    let op =
      if o = "ld" then FiLoad else
      match String.split_on_char ':' o with
      | ["fa"; d] -> FiFetchAdd (n_of_hexnum d)
      | ["sc"; v] -> FiStoreConst (n_of_hexnum v)
      | ["sr"; d] -> FiStoreRegPlus (n_of_hexnum d)
      | _ -> failwith "op" in
    let ct =
      match k with
      | "n" -> FiKNext | "r" -> FiKRet | "riu" -> FiKRetIfUntagged | "ru" -> FiKRetUnit
      | _ when String.length k > 1 && k.[0] = 'g' ->
        FiKGoto (nat_of_int (int_of_string (String.sub k 1 (String.length k - 1))))
      | _ -> failwith "cont" in
    { fi_op = op; fi_k = ct }
  | _ -> failwith "instr"

let parse_program (s : string) : fi_instr list =
  if s = "-" then [] else List.map parse_instr (String.split_on_char ';' s)

let parse_todos (s : string) : fi_call list list =
  List.map (fun t ->
    if t = "-" then [] else
    List.init (String.length t) (fun i -> if t.[i] = 'n' then FiCallNew else FiCallReset))
    (String.split_on_char ',' s)

let show_ids (s : fi_state) : string =
  String.concat "/" (List.map (fun t ->
    match List.rev t.fi_t_ids with
    | [] -> "-"
    | l -> String.concat "." (List.map hexnum_of_n l)) s.fi_s_threads)

(* `<prog_new> <prog_reset> <start> <todos> <sched>` *)
let fileid_sched (line : string) : string =
  match String.split_on_char ' ' line with
  | [pn; pr; start; todos; sched] ->
    let p = { fi_p_new = parse_program pn; fi_p_reset = parse_program pr } in
    let todos = parse_todos todos in
    let nthreads = List.length todos in
    let sched = if sched = "-" then [] else
      List.filter (fun i -> i < nthreads) (List.map int_of_string (String.split_on_char ',' sched)) in
    let s = fi_run p (fi_init_state (n_of_hexnum start) todos) (List.map nat_of_int sched) in
    Printf.sprintf "ids=%s cell=%s done=%d" (show_ids s) (hexnum_of_n s.fi_s_cell) (if fi_finished s then 1 else 0)
  | _ -> failwith "fileid_sched line"

(* `<prog_new> <prog_reset> <start> <threads> <calls>`: the model's answer under the sequential schedule
   (thread 0 to completion, then thread 1, ...); by C31_unique the summary is the same for every schedule
   while the counter stays below 2^63 *)
let fileid_free (line : string) : string =
  match String.split_on_char ' ' line with
  | [pn; pr; start; threads; calls] ->
    let p = { fi_p_new = parse_program pn; fi_p_reset = parse_program pr } in
    let t = int_of_string threads and k = int_of_string calls in
    let todos = List.init t (fun _ -> List.init k (fun _ -> FiCallNew)) in
    let sched = List.concat (List.init t (fun i -> List.init (3 * k + 3) (fun _ -> nat_of_int i))) in
    let s = fi_run p (fi_init_state (n_of_hexnum start) todos) sched in
    let ids = fi_all_ids s in
    let pad h = String.make (16 - String.length h) '0' ^ h in
    let hs = List.sort compare (List.map (fun x -> pad (hexnum_of_n x)) ids) in
    let inrange = List.for_all fi_id_ok ids in
    let rec distinct = function a :: (b :: _ as r) -> a <> b && distinct r | _ -> true in
    let start_n = n_of_hexnum start in
    let rec contiguous cur = function
      | [] -> true
      | h :: r -> h = pad (hexnum_of_n cur) && contiguous (N.add cur (Util.n_of_int 1)) r in
    let wraps = pad (hexnum_of_n (N.add start_n (Util.n_of_int (List.length ids)))) > "8000000000000000" in
    let b x = if x then "1" else "0" in
    Printf.sprintf "n=%d inrange=%s distinct=%s contiguous=%s" (List.length ids) (b inrange)
      (if wraps then "-" else b (distinct hs)) (if wraps then "-" else b (contiguous start_n hs))
  | _ -> failwith "fileid_free line"

(* `<prog_new> <prog_reset> <start> <todos> <fuel>` -> `found <sched>` | `none` *)
let fileid_search (line : string) : string =
  match String.split_on_char ' ' line with
  | [pn; pr; start; todos; fuel] ->
    let p = { fi_p_new = parse_program pn; fi_p_reset = parse_program pr } in
    (match fi_search_from (nat_of_int (int_of_string fuel)) p (n_of_hexnum start) (parse_todos todos) with
     | None -> "none"
     | Some l ->
       let rec int_of_nat = function O -> 0 | S m -> 1 + int_of_nat m in
       "found " ^ (if l = [] then "-" else String.concat "," (List.map (fun i -> string_of_int (int_of_nat i)) l)))
  | _ -> failwith "fileid_search line"

(* `<id> <tag>` *)
let tfi_pack_fam (line : string) : string =
  match String.split_on_char ' ' line with
  | [id; tag] ->
    let id = n_of_hexnum id in
    if id = N0 then "none" else
    let p = tfi_pack (tag = "1") id in
    Printf.sprintf "packed=%s tag=%s id=%s" (hexnum_of_n p) (if tfi_tag p then "1" else "0")
      (hexnum_of_n (tfi_file_id p))
  | _ -> failwith "tfi_pack line"

let families = [
  ("fileid_sched", fileid_sched); ("fileid_free", fileid_free); ("fileid_search", fileid_search);
  ("tfi_pack", tfi_pack_fam) ]
