(* C19 families: typed document -> AST (to_ast) for documents, field sets and mixed documents *)
open Model
open Util
open Lib_ast
open Lib_xdoc

let xroundtrip (line : string) : string =
  let c = read_case line in
  let (d, errs) = xb_from_ast c.xc_schema c.xc_ast in
  let a = xt_doc d in
  (* C19_to_ast_left_inverse on this case *)
  let reorder = if errs = [] then (if a = xt_reorder c.xc_ast then "t" else "f") else "-" in
  let closed = match c.xc_schema with None -> "-" | Some s -> if xs_closedb s then "t" else "f" in
  "build=" ^ (if errs = [] then "ok" else "err") ^ " ast=" ^ string_of_document a ^ " reorder=" ^ reorder ^ " closed=" ^ closed

(* <hex schema> <hex type name> <hex text> <schema term> <selections term> *)
let xfieldset (line : string) : string =
  match String.split_on_char ' ' line with
  | _ :: ty :: _ :: sch :: sels :: _ ->
    let s = schema_of_term_cached sch in
    let l = selections_of_string sels in
    let (xs, errs) = xb_field_set s (str_of_hex ty) l in
    let a = xt_sels xs in
    let same = if errs = [] then (if a = l then "t" else "f") else "-" in
    "build=" ^ (if errs = [] then "ok" else "err") ^ " sels=" ^ p_list p_sel a ^ " same=" ^ same
  | _ -> failwith "xfieldset line"

(* <hex mixed text> <schema term> <ast term> *)
let xmixed (line : string) : string =
  match String.split_on_char ' ' line with
  | _ :: sch :: ast :: _ ->
    let s = schema_of_term_cached sch in
    let a0 = document_of_string ast in
    let (d, errs) = xb_document (Some s) false a0 in
    let a = xt_doc d in
    let reorder = if errs = [] then (if a = xt_reorder a0 then "t" else "f") else "-" in
    "build=" ^ (if errs = [] then "ok" else "err") ^ " ast=" ^ string_of_document a ^ " reorder=" ^ reorder
  | _ -> failwith "xmixed line"

let families = [ ("xroundtrip", xroundtrip); ("xfieldset", xfieldset); ("xmixed", xmixed) ]
