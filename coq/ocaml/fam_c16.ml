(* C16 families: c16_hist (the key list of `types` along validate / add field / validate / validate),
   c16_exec (implementation-only oracle) *)
open Model
open Util
open Lib_schemabuild

let keys (s : schema) : string = String.concat "," (List.map ascii_of_str (vs_type_names s))

(* input: <hex source> <ast> <type name | -> <B1,B2,.. | -> *)
let c16_hist (line : string) : string =
  match String.split_on_char ' ' line with
  | [_; ast; tname; adds] ->
    let b0 = Lazy.force builtin in
    let all = vs_all_of b0 in
    let adds = if adds = "-" then [] else String.split_on_char ',' adds in
    (match sb_build { sbc_adopt = false; sbc_ignore_builtin = false } b0 (Lib_ast.document_of_string ast) with
     | SbPanic -> "panic"
     | SbBuilt (s0, _) ->
       let pv s = match vs_post_validate all s with Some s' -> s' | None -> failwith "post_validate panics" in
       let s1 = pv s0 in
       let s1' =
         List.fold_left (fun s (i, b) ->
           vs_add_field (str_of_ascii tname)
             { fd_desc = None; fd_name = str_of_ascii ("zz" ^ string_of_int i); fd_args = [];
               fd_ty = TNamed (str_of_ascii b); fd_dirs = [] } s)
           s1 (List.mapi (fun i b -> (i, b)) adds) in
       let s2 = pv s1' in
       let s3 = pv s2 in
       "k0=" ^ keys s0 ^ " k1=" ^ keys s1 ^ " k2=" ^ keys s2 ^ " k3=" ^ keys s3)
  | _ -> failwith "c16_hist line"

let families = [ ("c16_hist", c16_hist); ("c16_exec", fun _ -> "-") ]
