(* C12 families: sb_build (the builder on a list of documents), c12_rt (build, to_ast, build again) *)
open Model
open Util
open Lib_schemabuild

(* input: <cfg> <n> <hex source>*n <ast>*n ; output: errs=[..] <observation> | panic *)
let sb_build_line (line : string) : string =
  match String.split_on_char ' ' line with
  | cfg :: n :: rest ->
    let n = int_of_string n in
    let asts = List.filteri (fun i _ -> i >= n) rest in
    let docs = List.map Lib_ast.document_of_string asts in
    (match sb_build_docs (cfg_of cfg) (Lazy.force builtin) docs with
     | SbPanic -> "panic"
     | SbBuilt (s, errs) -> "errs=" ^ errs_str errs ^ " " ^ observe_schema s)
  | _ -> failwith "sb_build line"

(* input: <cfg> <hex source> <ast> ; output: builderr | ok known=<b> ast=.. s1=.. s2=.. e2=[..] *)
let c12_rt (line : string) : string =
  match String.split_on_char ' ' line with
  | [cfg; _; ast] ->
    let cfg = cfg_of cfg in
    let b0 = Lazy.force builtin in
    (match sb_build cfg b0 (Lib_ast.document_of_string ast) with
     | SbPanic -> "panic"
     | SbBuilt (_, _ :: _) -> "builderr"
     | SbBuilt (s1, []) ->
       let doc = sch_to_ast s1 in
       (match sb_build cfg b0 doc with
        | SbPanic -> "panic2"
        | SbBuilt (s2, e2) ->
          "ok known=" ^ (if c12_known s1 then "1" else "0")
          ^ " docok=" ^ (if bi_doc_ok (Lib_ast.document_of_string ast) then "1" else "0") ^ " ast=" ^ Lib_ast.string_of_document doc
          ^ " s1=" ^ observe_schema s1 ^ " s2=" ^ observe_schema s2 ^ " e2=" ^ errs_str e2))
  | _ -> failwith "c12_rt line"

(* the decidable hypothesis of the C12 theorems about the built-in initial state, on the real data *)
let sb_b0_ok (_ : string) : string = if bi_b0_ok (Lazy.force builtin) then "b0_ok" else "b0_not_ok"

let families = [ ("sb_build", sb_build_line); ("c12_rt", c12_rt); ("sb_b0_ok", sb_b0_ok) ]
