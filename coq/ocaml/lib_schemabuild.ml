(* Shared glue for the schema-builder families (C12, C13, C16): the built-in initial state taken from
   the real crate (file named by $VERIF_BUILTIN_SCHEMA: the output of `implrun schema_dump` on `b -`),
   printing of error classes and of the observation of a schema (same shape as harness/src/c12.rs). *)
open Model
open Util
open Lib_ast
open Lib_schema

let builtin : schema Lazy.t = lazy (
  let path = try Sys.getenv "VERIF_BUILTIN_SCHEMA" with Not_found -> failwith "VERIF_BUILTIN_SCHEMA not set" in
  let ic = open_in path in
  let line = input_line ic in
  close_in ic;
  match String.split_on_char ' ' line with
  | ["ok"; s] -> schema_of_string s
  | _ -> failwith "VERIF_BUILTIN_SCHEMA: expected `ok <schema>`")

let cfg_of (s : string) : sb_cfg =
  { sbc_adopt = String.contains s 'a'; sbc_ignore_builtin = String.contains s 'i' }

let kind_str = function
  | SbScalar -> "scalar" | SbObject -> "object" | SbInterface -> "interface" | SbUnion -> "union"
  | SbEnum -> "enum" | SbInput -> "input"
let op_str = function OpQuery -> "query" | OpMutation -> "mutation" | OpSubscription -> "subscription"

let err_str (e : sberr) : string =
  let a = ascii_of_str in
  match e with
  | SbeExecutableDefinition -> "ExecutableDefinition()"
  | SbeSchemaDefinitionCollision -> "SchemaDefinitionCollision(schema)"
  | SbeDirectiveDefinitionCollision n -> "DirectiveDefinitionCollision(@" ^ a n ^ ")"
  | SbeTypeDefinitionCollision n -> "TypeDefinitionCollision(" ^ a n ^ ")"
  | SbeBuiltInScalarTypeRedefinition -> "BuiltInScalarTypeRedefinition()"
  | SbeOrphanSchemaExtension -> "OrphanSchemaExtension()"
  | SbeOrphanTypeExtension n -> "OrphanTypeExtension(" ^ a n ^ ")"
  | SbeTypeExtensionKindMismatch (n, x, d) ->
    "TypeExtensionKindMismatch(" ^ a n ^ "," ^ kind_str x ^ "," ^ kind_str d ^ ")"
  | SbeDuplicateRootOperation op -> "DuplicateRootOperation(" ^ op_str op ^ ")"
  (* message order: object type `{type_name}` implements interface `{name}` *)
  | SbeDupImplObject (i, t) -> "DuplicateImplementsInterfaceInObject(" ^ a t ^ "," ^ a i ^ ")"
  | SbeDupImplInterface (i, t) -> "DuplicateImplementsInterfaceInInterface(" ^ a t ^ "," ^ a i ^ ")"
  | SbeObjectFieldCollision (f, t) -> "ObjectFieldNameCollision(" ^ a f ^ "," ^ a t ^ ")"
  | SbeInterfaceFieldCollision (f, t) -> "InterfaceFieldNameCollision(" ^ a f ^ "," ^ a t ^ ")"
  | SbeEnumValueCollision (f, t) -> "EnumValueNameCollision(" ^ a f ^ "," ^ a t ^ ")"
  | SbeUnionMemberCollision (f, t) -> "UnionMemberNameCollision(" ^ a f ^ "," ^ a t ^ ")"
  | SbeInputFieldCollision (f, t) -> "InputFieldNameCollision(" ^ a f ^ "," ^ a t ^ ")"

(* sorted: the real list is sorted by location when it is returned, the push order is not observable *)
let errs_str (l : sberr list) : string = "[" ^ String.concat ";" (List.sort compare (List.map err_str l)) ^ "]"

(* extension ids renumbered by first textual appearance, as harness/src/c12.rs `renumber` *)
let renumber (text : string) : string =
  let n = String.length text in
  let b = Buffer.create n in
  let seen = Hashtbl.create 16 in
  let i = ref 0 in
  while !i < n do
    if text.[!i] = 'O' && !i + 4 <= n && text.[!i + 1] = 'x' && text.[!i + 2] = '(' && text.[!i + 3] = 'n' then begin
      Buffer.add_string b "Ox(n";
      let j = String.index_from text (!i + 4) ')' in
      let id = String.sub text (!i + 4) (j - !i - 4) in
      let k = match Hashtbl.find_opt seen id with
        | Some k -> k
        | None -> let k = Hashtbl.length seen in Hashtbl.add seen id k; k in
      Buffer.add_string b (string_of_int k);
      i := j
    end else begin
      Buffer.add_char b text.[!i]; incr i
    end
  done;
  Buffer.contents b

let type_origins (t : ext_type) : origin list =
  let o l = List.map (fun c -> c.c_origin) l in
  match t with
  | EScalar (_, _, d, _) -> o d
  | EObject (_, _, i, d, f, _) | EInterface (_, _, i, d, f, _) -> o i @ o d @ o f
  | EUnion (_, _, d, m, _) -> o d @ o m
  | EEnum (_, _, d, v, _) -> o d @ o v
  | EInput (_, _, d, f, _) -> o d @ o f

let has_extension t = List.exists (function OExt _ -> true | ODef -> false) (type_origins t)

let observe_schema (s : schema) : string =
  let user = { sch_def = s.sch_def;
               sch_dirdefs = List.filter (fun d -> not d.dd_builtin) s.sch_dirdefs;
               sch_types = List.filter (fun t -> not (et_builtin t)) s.sch_types } in
  let bi = List.filter (fun t -> et_builtin t && has_extension t) s.sch_types in
  let dk = List.map (fun d -> ascii_of_str d.dd_name) s.sch_dirdefs in
  let tk = List.map (fun t -> ascii_of_str (et_name t)) s.sch_types in
  renumber (string_of_schema user ^ " bi=[" ^ String.concat ";" (List.map p_ext_type bi) ^ "] dk="
            ^ String.concat "," dk ^ " tk=" ^ String.concat "," tk)
