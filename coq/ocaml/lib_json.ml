(* Reader / printer for the compact JSON text of harness/src/c28.rs (Run/Json.v's `json`).
   Integers are arbitrary-size decimals <-> the extracted binary Z (no machine-integer detour). *)
open Model
open Util
open Lib_ast

(* decimal digit list (most significant first) -> (quotient, remainder) by 2 *)
let dec_halve (ds : int list) : int list * int =
  let rec go carry acc = function
    | [] -> (List.rev acc, carry)
    | d :: r -> let x = carry * 10 + d in go (x land 1) ((x lsr 1) :: acc) r in
  let (q, r) = go 0 [] ds in
  let rec strip = function 0 :: (_ :: _ as t) -> strip t | l -> l in
  (strip q, r)

let rec pos_of_dec (ds : int list) : positive =
  (* ds > 0 *)
  let (q, r) = dec_halve ds in
  if q = [0] || q = [] then XH
  else if r = 0 then XO (pos_of_dec q) else XI (pos_of_dec q)

let z_of_decimal (s : string) : z =
  let neg = String.length s > 0 && s.[0] = '-' in
  let body = if neg then String.sub s 1 (String.length s - 1) else s in
  let ds = List.init (String.length body) (fun i -> Char.code body.[i] - 48) in
  if List.for_all (fun d -> d = 0) ds then Z0
  else if neg then Zneg (pos_of_dec ds) else Zpos (pos_of_dec ds)

(* decimal digit list, least significant first *)
let dec_double_plus (ds : int list) (c : int) : int list =
  let rec go carry = function
    | [] -> if carry = 0 then [] else [carry]
    | d :: r -> let x = 2 * d + carry in (x mod 10) :: go (x / 10) r in
  go c ds

let rec dec_of_pos (p : positive) : int list =
  match p with
  | XH -> [1]
  | XO q -> dec_double_plus (dec_of_pos q) 0
  | XI q -> dec_double_plus (dec_of_pos q) 1

let string_of_digits_lsf ds = String.concat "" (List.rev_map string_of_int ds)
let decimal_of_z (x : z) : string =
  match x with
  | Z0 -> "0"
  | Zpos p -> string_of_digits_lsf (dec_of_pos p)
  | Zneg p -> "-" ^ string_of_digits_lsf (dec_of_pos p)

let rec d_json = function
  | T ("Jn", []) -> JNull
  | T ("Jt", []) -> JBool true
  | T ("Jx", []) -> JBool false
  | T ("Ji", [T (d, [])]) -> JInt (z_of_decimal d)
  | T ("Jd", [t]) -> JFloat (d_str t)
  | T ("Js", [t]) -> JStr (d_str t)
  | T ("Ja", [l]) -> JArr (d_list d_json l)
  | T ("Jo", [l]) -> JObj (d_list d_jfield l)
  | _ -> failwith "json: value"
and d_jfield = function T ("P", [k; v]) -> (d_str k, d_json v) | _ -> failwith "json: field"

let json_of_string (s : string) : json = d_json (parse_term s)

let rec p_json (sorted : bool) (v : json) : string =
  match v with
  | JNull -> "Jn"
  | JBool true -> "Jt"
  | JBool false -> "Jx"
  | JInt z -> "Ji(" ^ decimal_of_z z ^ ")"
  | JFloat t -> "Jd(" ^ p_str t ^ ")"
  | JStr t -> "Js(" ^ p_str t ^ ")"
  | JArr l -> "Ja(" ^ p_list (p_json sorted) l ^ ")"
  | JObj m -> "Jo(" ^ p_jmap sorted m ^ ")"
and p_jmap sorted (m : (str * json) list) : string =
  let items = List.map (fun (k, v) -> (bytes_of_hex (hex_of_str k), k, v)) m in
  let items = if sorted then List.stable_sort (fun (a, _, _) (b, _, _) -> compare a b) items else items in
  p_list (fun (_, k, v) -> "P(" ^ p_str k ^ "," ^ p_json sorted v ^ ")") items
