(* C32 families: smith_names, smith_facts *)
open Model
open Util

let rec nat_of_int32 (i : int) : nat = if i <= 0 then O else S (nat_of_int32 (i - 1))

(* input: <count> <bytes-hex> ; output: the names, ','-separated (or fuel) *)
let smith_names (line : string) : string =
  match String.split_on_char ' ' line with
  | [count; h] ->
    let raw = bytes_of_hex h in
    let bytes = List.init (String.length raw) (fun i -> n_of_int (Char.code raw.[i])) in
    (match nm_type_names (nat_of_int32 (int_of_string count)) [] bytes with
     | None -> "fuel"
     | Some l -> String.concat "," (List.map ascii_of_str l))
  | _ -> failwith "smith_names line"

let b01 b = if b then "1" else "0"

(* input: <document-text-hex> <ast-dump> ; output: the mechanism-level facts of the document *)
let smith_facts (line : string) : string =
  match String.split_on_char ' ' line with
  | [_text; dump] ->
    let d = Lib_ast.document_of_string dump in
    (match cl_doc_facts d, pr_doc_kept d with
     | Some f, Some kept ->
       let kept = List.sort compare (List.map ascii_of_str kept) in
       Printf.sprintf "dup=%d closure=%s acyclic=%s fields=%s conflict=%s dupobj=%s dupiface=%s kept=%s spreads=%s tydepth=%d seldepth=%d"
         (int_of_n (sf_doc_dups d)) (b01 f.cf_closure) (b01 f.cf_acyclic) (b01 f.cf_fields) (b01 f.cf_conflict)
         (b01 f.cf_dup_obj) (b01 f.cf_dup_iface)
         (if kept = [] then "-" else String.concat "," kept) (b01 (pr_doc_spreads_resolve d))
         (int_of_n (sd_doc_wrappers d)) (int_of_n (sd_doc_sel_depth d))
     | _ -> "fuel")
  | _ -> failwith "smith_facts line"

let families = [ ("smith_names", smith_names); ("smith_facts", smith_facts) ]
