(* C21 families: the verdicts of the guarded traversals of validation on real ASTs / schemas,
   field-merging depth on an abstract graph of merged field sets, DiagnosticList::sort.
   In a two-field case `<model input> <hex source>` the second field is for the implementation runner. *)
open Model
open Util

let field0 (line : string) : string =
  match String.index_opt line ' ' with Some i -> String.sub line 0 i | None -> line

let verdict_str = function
  | GvOk -> "ok" | GvCycle -> "cycle" | GvLimit -> "limit" | GvPanic -> "model-panic" | GvFuel -> "model-fuel"

let show_verdicts (l : (str * gd_verdict) list) : string =
  if l = [] then "-" else
  String.concat "," (List.map (fun (n, v) -> ascii_of_str n ^ "=" ^ verdict_str v) l)

let gd_input_cycle line =
  show_verdicts (gd_schema_input_verdicts (Lib_schema.schema_of_string (field0 line)))

let gd_dir_cycle line =
  show_verdicts (gd_schema_dir_verdicts (Lib_schema.schema_of_string (field0 line)))

let gd_frag_cycle line =
  show_verdicts (gd_doc_frag_verdicts (Lib_ast.document_of_string (field0 line)))

(* `<ast dump> <hex document source> <schema dump>`: the schema the document is validated against, as built by
   the real builder, gives the typing functions of validate_selection_set *)
let gd_walk line =
  let ty = match String.split_on_char ' ' line with
    | [_; _; sch] -> vs_typing_of_schema (Lib_schema.schema_of_string sch)
    | _ -> failwith "gd_walk: <ast dump> <hex source> <schema dump>" in
  let o = gd_doc_walk_obs ty (Lib_ast.document_of_string (field0 line)) in
  Printf.sprintf "rec=%d used=%d defer_root=%d uncond=%d undef=%d sel=%d trunc=%d"
    (int_of_n o.gwo_recursion) (int_of_n o.gwo_used_limit) (int_of_n o.gwo_defer_root) (int_of_n o.gwo_uncond)
    (int_of_n o.gwo_undefined) (int_of_n o.gwo_sel_limit)
    (if o.gwo_defer_truncated then 1 else 0)

(* graph: `id:kid,kid;id:;...@root,root` (ids are ASCII) *)
let gd_merge line =
  let g = field0 line in
  let (edges, roots) = match String.split_on_char '@' g with
    | [e; r] -> (e, r) | _ -> failwith "merge graph" in
  let tbl = List.map (fun e ->
      match String.split_on_char ':' e with
      | [n; kids] -> (n, split_on ',' kids)
      | _ -> failwith "merge edge") (split_on ';' edges) in
  let children (n : str) : str list =
    match List.assoc_opt (ascii_of_str n) tbl with
    | Some l -> List.map str_of_ascii l
    | None -> [] in
  match gd_merge_document children children (List.map str_of_ascii (split_on ',' roots)) with
  | GrOk flags -> if flags = [] then "-" else String.concat "," (List.map (fun b -> if b then "1" else "0") flags)
  | GrPanic -> "model-panic" | GrFuel -> "model-fuel" | _ -> "model-error"

(* elements `f.o.h` (file rank or `n`, offset, payload), separated by `;` *)
let gd_sort line =
  if line = "-" then "-" else
  let parse e = match String.split_on_char '.' e with
    | ["n"; _; h] -> (None, n_of_int (int_of_string h))
    | [f; o; h] -> (Some (n_of_int (int_of_string f), n_of_int (int_of_string o)), n_of_int (int_of_string h))
    | _ -> failwith "sort element" in
  let show (k, h) = match k with
    | None -> Printf.sprintf "n.0.%d" (int_of_n h)
    | Some (f, o) -> Printf.sprintf "%d.%d.%d" (int_of_n f) (int_of_n o) (int_of_n h) in
  String.concat ";" (List.map show (gd_sort_pairs (List.map parse (String.split_on_char ';' line))))

let families = [
  ("c21_pipeline", (fun _ -> "ok"));
  ("gd_input_cycle", gd_input_cycle);
  ("gd_dir_cycle", gd_dir_cycle);
  ("gd_frag_cycle", gd_frag_cycle);
  ("gd_walk", gd_walk);
  ("gd_merge", gd_merge);
  ("gd_sort", gd_sort);
]
