(* Reader for the compact AST text produced by harness/src/astdump.rs (no spaces, so it is one wire field).
   term := ident [ '(' term {',' term} ')' ] | '[' [ term {';' term} ] ']'
   Decoding is by expected type (see astdump.rs for the constructors). *)
open Model
open Util

type term = T of string * term list | L of term list

let parse_term (s : string) : term =
  let n = String.length s in
  let pos = ref 0 in
  let peek () = if !pos < n then s.[!pos] else '\000' in
  let rec term () =
    if peek () = '[' then begin
      incr pos;
      if peek () = ']' then (incr pos; L [])
      else begin
        let items = ref [term ()] in
        while peek () = ';' do incr pos; items := term () :: !items done;
        if peek () <> ']' then failwith "ast: expected ]";
        incr pos; L (List.rev !items)
      end
    end else begin
      let start = !pos in
      while (match peek () with 'A'..'Z' | 'a'..'z' | '0'..'9' | '_' | '-' -> true | _ -> false) do incr pos done;
      let id = String.sub s start (!pos - start) in
      if id = "" then failwith ("ast: unexpected char at " ^ string_of_int !pos);
      if peek () = '(' then begin
        incr pos;
        let args = ref [term ()] in
        while peek () = ',' do incr pos; args := term () :: !args done;
        if peek () <> ')' then failwith "ast: expected )";
        incr pos; T (id, List.rev !args)
      end else T (id, [])
    end
  in
  let t = term () in
  if !pos <> n then failwith "ast: trailing input";
  t

let d_str = function
  | T ("e", []) -> []
  | T (h, []) when String.length h > 0 && h.[0] = 'h' -> str_of_hex (String.sub h 1 (String.length h - 1))
  | _ -> failwith "ast: str"
let d_list f = function L l -> List.map f l | _ -> failwith "ast: list"
let d_opt f = function T ("N", []) -> None | T ("S", [x]) -> Some (f x) | _ -> failwith "ast: opt"
let d_bool = function T ("t", []) -> true | T ("f", []) -> false | _ -> failwith "ast: bool"

let rec d_ty = function
  | T ("Tn", [n]) -> TNamed (d_str n)
  | T ("TN", [n]) -> TNonNullNamed (d_str n)
  | T ("Tl", [t]) -> TList (d_ty t)
  | T ("TL", [t]) -> TNonNullList (d_ty t)
  | _ -> failwith "ast: ty"

let rec d_value = function
  | T ("Vn", []) -> VNull
  | T ("Ve", [n]) -> VEnum (d_str n)
  | T ("Vv", [n]) -> VVar (d_str n)
  | T ("Vs", [n]) -> VString (d_str n)
  | T ("Vf", [n]) -> VFloat (d_str n)
  | T ("Vi", [n]) -> VInt (d_str n)
  | T ("Vt", []) -> VBool true
  | T ("Vx", []) -> VBool false
  | T ("Vl", [l]) -> VList (d_list d_value l)
  | T ("Vo", [l]) -> VObject (d_list d_arg l)
  | _ -> failwith "ast: value"
and d_arg = function T ("P", [n; v]) -> (d_str n, d_value v) | _ -> failwith "ast: arg"

let d_dir = function
  | T ("D", [n; args]) -> { d_name = d_str n; d_args = d_list d_arg args }
  | _ -> failwith "ast: directive"
let d_dirs = d_list d_dir

let rec d_sel = function
  | T ("F", [alias; name; args; dirs; sels]) ->
    SField (d_opt d_str alias, d_str name, d_list d_arg args, d_dirs dirs, d_list d_sel sels)
  | T ("Sp", [name; dirs]) -> SSpread (d_str name, d_dirs dirs)
  | T ("In", [cond; dirs; sels]) -> SInline (d_opt d_str cond, d_dirs dirs, d_list d_sel sels)
  | _ -> failwith "ast: selection"

let d_optype = function
  | T ("q", []) -> OpQuery | T ("m", []) -> OpMutation | T ("s", []) -> OpSubscription
  | _ -> failwith "ast: optype"

let d_loc = function
  | T (l, []) -> (match l with
    | "QUERY" -> LQuery | "MUTATION" -> LMutation | "SUBSCRIPTION" -> LSubscription | "FIELD" -> LField
    | "FRAGMENT_DEFINITION" -> LFragmentDefinition | "FRAGMENT_SPREAD" -> LFragmentSpread
    | "INLINE_FRAGMENT" -> LInlineFragment | "VARIABLE_DEFINITION" -> LVariableDefinition
    | "SCHEMA" -> LSchema | "SCALAR" -> LScalar | "OBJECT" -> LObject | "FIELD_DEFINITION" -> LFieldDefinition
    | "ARGUMENT_DEFINITION" -> LArgumentDefinition | "INTERFACE" -> LInterface | "UNION" -> LUnion
    | "ENUM" -> LEnum | "ENUM_VALUE" -> LEnumValue | "INPUT_OBJECT" -> LInputObject
    | "INPUT_FIELD_DEFINITION" -> LInputFieldDefinition | _ -> failwith "ast: loc")
  | _ -> failwith "ast: loc"

let d_vardef = function
  | T ("Vd", [n; t; d; dirs]) -> { v_name = d_str n; v_ty = d_ty t; v_default = d_opt d_value d; v_dirs = d_dirs dirs }
  | _ -> failwith "ast: vardef"
let d_iv = function
  | T ("Iv", [desc; n; t; d; dirs]) ->
    { iv_desc = d_opt d_str desc; iv_name = d_str n; iv_ty = d_ty t; iv_default = d_opt d_value d; iv_dirs = d_dirs dirs }
  | _ -> failwith "ast: inputvaldef"
let d_fd = function
  | T ("Fd", [desc; n; args; t; dirs]) ->
    { fd_desc = d_opt d_str desc; fd_name = d_str n; fd_args = d_list d_iv args; fd_ty = d_ty t; fd_dirs = d_dirs dirs }
  | _ -> failwith "ast: fielddef"
let d_ev = function
  | T ("Ev", [desc; n; dirs]) -> { ev_desc = d_opt d_str desc; ev_value = d_str n; ev_dirs = d_dirs dirs }
  | _ -> failwith "ast: enumvaldef"
let d_root = function T ("P", [o; n]) -> (d_optype o, d_str n) | _ -> failwith "ast: rootop"
let d_names = d_list d_str

let d_def = function
  | T ("DOp", [o; n; vars; dirs; sels]) ->
    DOperation (d_optype o, d_opt d_str n, d_list d_vardef vars, d_dirs dirs, d_list d_sel sels)
  | T ("DFr", [n; c; dirs; sels]) -> DFragment (d_str n, d_str c, d_dirs dirs, d_list d_sel sels)
  | T ("DDi", [desc; n; args; rep; locs]) ->
    DDirective (d_opt d_str desc, d_str n, d_list d_iv args, d_bool rep, d_list d_loc locs)
  | T ("DSc", [desc; dirs; roots]) -> DSchema (d_opt d_str desc, d_dirs dirs, d_list d_root roots)
  | T ("DSa", [desc; n; dirs]) -> DScalar (d_opt d_str desc, d_str n, d_dirs dirs)
  | T ("DOb", [desc; n; impls; dirs; fields]) ->
    DObject (d_opt d_str desc, d_str n, d_names impls, d_dirs dirs, d_list d_fd fields)
  | T ("DIf", [desc; n; impls; dirs; fields]) ->
    DInterface (d_opt d_str desc, d_str n, d_names impls, d_dirs dirs, d_list d_fd fields)
  | T ("DUn", [desc; n; dirs; members]) -> DUnion (d_opt d_str desc, d_str n, d_dirs dirs, d_names members)
  | T ("DEn", [desc; n; dirs; values]) -> DEnum (d_opt d_str desc, d_str n, d_dirs dirs, d_list d_ev values)
  | T ("DIn", [desc; n; dirs; fields]) -> DInput (d_opt d_str desc, d_str n, d_dirs dirs, d_list d_iv fields)
  | T ("XSc", [dirs; roots]) -> XSchema (d_dirs dirs, d_list d_root roots)
  | T ("XSa", [n; dirs]) -> XScalar (d_str n, d_dirs dirs)
  | T ("XOb", [n; impls; dirs; fields]) -> XObject (d_str n, d_names impls, d_dirs dirs, d_list d_fd fields)
  | T ("XIf", [n; impls; dirs; fields]) -> XInterface (d_str n, d_names impls, d_dirs dirs, d_list d_fd fields)
  | T ("XUn", [n; dirs; members]) -> XUnion (d_str n, d_dirs dirs, d_names members)
  | T ("XEn", [n; dirs; values]) -> XEnum (d_str n, d_dirs dirs, d_list d_ev values)
  | T ("XIn", [n; dirs; fields]) -> XInput (d_str n, d_dirs dirs, d_list d_iv fields)
  | _ -> failwith "ast: definition"

let document_of_string (s : string) : definition list = d_list d_def (parse_term s)
let selections_of_string (s : string) : selection list = d_list d_sel (parse_term s)
let ty_of_string (s : string) : ty = d_ty (parse_term s)
let value_of_string (s : string) : value = d_value (parse_term s)

(* ---- printers (the inverse), for families that return ASTs ---- *)
let p_str (s : str) : string = let h = hex_of_str s in if h = "-" then "e" else "h" ^ h
let p_list f l = "[" ^ String.concat ";" (List.map f l) ^ "]"
let p_opt f = function None -> "N" | Some x -> "S(" ^ f x ^ ")"
let rec p_ty = function
  | TNamed n -> "Tn(" ^ p_str n ^ ")" | TNonNullNamed n -> "TN(" ^ p_str n ^ ")"
  | TList t -> "Tl(" ^ p_ty t ^ ")" | TNonNullList t -> "TL(" ^ p_ty t ^ ")"
let rec p_value = function
  | VNull -> "Vn" | VEnum n -> "Ve(" ^ p_str n ^ ")" | VVar n -> "Vv(" ^ p_str n ^ ")"
  | VString n -> "Vs(" ^ p_str n ^ ")" | VFloat n -> "Vf(" ^ p_str n ^ ")" | VInt n -> "Vi(" ^ p_str n ^ ")"
  | VBool true -> "Vt" | VBool false -> "Vx"
  | VList l -> "Vl(" ^ p_list p_value l ^ ")"
  | VObject l -> "Vo(" ^ p_list p_arg l ^ ")"
and p_arg (n, v) = "P(" ^ p_str n ^ "," ^ p_value v ^ ")"
let p_dir d = "D(" ^ p_str d.d_name ^ "," ^ p_list p_arg d.d_args ^ ")"
let p_dirs = p_list p_dir
let rec p_sel = function
  | SField (a, n, args, dirs, sels) ->
    "F(" ^ p_opt p_str a ^ "," ^ p_str n ^ "," ^ p_list p_arg args ^ "," ^ p_dirs dirs ^ "," ^ p_list p_sel sels ^ ")"
  | SSpread (n, dirs) -> "Sp(" ^ p_str n ^ "," ^ p_dirs dirs ^ ")"
  | SInline (c, dirs, sels) -> "In(" ^ p_opt p_str c ^ "," ^ p_dirs dirs ^ "," ^ p_list p_sel sels ^ ")"
let p_optype = function OpQuery -> "q" | OpMutation -> "m" | OpSubscription -> "s"
let p_loc = function
  | LQuery -> "QUERY" | LMutation -> "MUTATION" | LSubscription -> "SUBSCRIPTION" | LField -> "FIELD"
  | LFragmentDefinition -> "FRAGMENT_DEFINITION" | LFragmentSpread -> "FRAGMENT_SPREAD"
  | LInlineFragment -> "INLINE_FRAGMENT" | LVariableDefinition -> "VARIABLE_DEFINITION"
  | LSchema -> "SCHEMA" | LScalar -> "SCALAR" | LObject -> "OBJECT" | LFieldDefinition -> "FIELD_DEFINITION"
  | LArgumentDefinition -> "ARGUMENT_DEFINITION" | LInterface -> "INTERFACE" | LUnion -> "UNION"
  | LEnum -> "ENUM" | LEnumValue -> "ENUM_VALUE" | LInputObject -> "INPUT_OBJECT"
  | LInputFieldDefinition -> "INPUT_FIELD_DEFINITION"
let p_vardef v = "Vd(" ^ p_str v.v_name ^ "," ^ p_ty v.v_ty ^ "," ^ p_opt p_value v.v_default ^ "," ^ p_dirs v.v_dirs ^ ")"
let p_iv v = "Iv(" ^ p_opt p_str v.iv_desc ^ "," ^ p_str v.iv_name ^ "," ^ p_ty v.iv_ty ^ "," ^ p_opt p_value v.iv_default ^ "," ^ p_dirs v.iv_dirs ^ ")"
let p_fd f = "Fd(" ^ p_opt p_str f.fd_desc ^ "," ^ p_str f.fd_name ^ "," ^ p_list p_iv f.fd_args ^ "," ^ p_ty f.fd_ty ^ "," ^ p_dirs f.fd_dirs ^ ")"
let p_ev e = "Ev(" ^ p_opt p_str e.ev_desc ^ "," ^ p_str e.ev_value ^ "," ^ p_dirs e.ev_dirs ^ ")"
let p_root (o, n) = "P(" ^ p_optype o ^ "," ^ p_str n ^ ")"
let p_names = p_list p_str
let p_bool b = if b then "t" else "f"
let p_def = function
  | DOperation (o, n, vars, dirs, sels) ->
    "DOp(" ^ p_optype o ^ "," ^ p_opt p_str n ^ "," ^ p_list p_vardef vars ^ "," ^ p_dirs dirs ^ "," ^ p_list p_sel sels ^ ")"
  | DFragment (n, c, dirs, sels) -> "DFr(" ^ p_str n ^ "," ^ p_str c ^ "," ^ p_dirs dirs ^ "," ^ p_list p_sel sels ^ ")"
  | DDirective (d, n, args, rep, locs) ->
    "DDi(" ^ p_opt p_str d ^ "," ^ p_str n ^ "," ^ p_list p_iv args ^ "," ^ p_bool rep ^ "," ^ p_list p_loc locs ^ ")"
  | DSchema (d, dirs, roots) -> "DSc(" ^ p_opt p_str d ^ "," ^ p_dirs dirs ^ "," ^ p_list p_root roots ^ ")"
  | DScalar (d, n, dirs) -> "DSa(" ^ p_opt p_str d ^ "," ^ p_str n ^ "," ^ p_dirs dirs ^ ")"
  | DObject (d, n, i, dirs, f) -> "DOb(" ^ p_opt p_str d ^ "," ^ p_str n ^ "," ^ p_names i ^ "," ^ p_dirs dirs ^ "," ^ p_list p_fd f ^ ")"
  | DInterface (d, n, i, dirs, f) -> "DIf(" ^ p_opt p_str d ^ "," ^ p_str n ^ "," ^ p_names i ^ "," ^ p_dirs dirs ^ "," ^ p_list p_fd f ^ ")"
  | DUnion (d, n, dirs, m) -> "DUn(" ^ p_opt p_str d ^ "," ^ p_str n ^ "," ^ p_dirs dirs ^ "," ^ p_names m ^ ")"
  | DEnum (d, n, dirs, v) -> "DEn(" ^ p_opt p_str d ^ "," ^ p_str n ^ "," ^ p_dirs dirs ^ "," ^ p_list p_ev v ^ ")"
  | DInput (d, n, dirs, f) -> "DIn(" ^ p_opt p_str d ^ "," ^ p_str n ^ "," ^ p_dirs dirs ^ "," ^ p_list p_iv f ^ ")"
  | XSchema (dirs, roots) -> "XSc(" ^ p_dirs dirs ^ "," ^ p_list p_root roots ^ ")"
  | XScalar (n, dirs) -> "XSa(" ^ p_str n ^ "," ^ p_dirs dirs ^ ")"
  | XObject (n, i, dirs, f) -> "XOb(" ^ p_str n ^ "," ^ p_names i ^ "," ^ p_dirs dirs ^ "," ^ p_list p_fd f ^ ")"
  | XInterface (n, i, dirs, f) -> "XIf(" ^ p_str n ^ "," ^ p_names i ^ "," ^ p_dirs dirs ^ "," ^ p_list p_fd f ^ ")"
  | XUnion (n, dirs, m) -> "XUn(" ^ p_str n ^ "," ^ p_dirs dirs ^ "," ^ p_names m ^ ")"
  | XEnum (n, dirs, v) -> "XEn(" ^ p_str n ^ "," ^ p_dirs dirs ^ "," ^ p_list p_ev v ^ ")"
  | XInput (n, dirs, f) -> "XIn(" ^ p_str n ^ "," ^ p_dirs dirs ^ "," ^ p_list p_iv f ^ ")"
let string_of_document (d : definition list) : string = p_list p_def d
