(* C29 families: c29_assignable, c29_usage, c29_impl, c29_subtype *)
open Model
open Util

let b01 b = if b then "1" else "0"
let tref_of_desc = Fam_c10.tref_of_desc

(* input: <self> <target> *)
let c29_assignable (line : string) : string =
  match String.split_on_char ' ' line with
  | [a; b] -> b01 (compat_is_assignable_to (tref_of_desc a 0) (tref_of_desc b 0))
  | _ -> failwith "c29_assignable line"

let default_of = function
  | "-" -> None | "null" -> Some CvNull | "val" -> Some CvOther | _ -> failwith "default"

(* input: <site> <vartype> <vardefault> <loctype> <locdefault>; defaults are - | null | val *)
let c29_usage (line : string) : string =
  match String.split_on_char ' ' line with
  | [_site; vt; vd; lt; ld] ->
    let d = { cv_ty = tref_of_desc vt 0; cv_default = default_of vd } in
    let u = { cu_ty = tref_of_desc lt 0; cu_default = default_of ld } in
    "allowed=" ^ b01 (compat_usage_allowed d u)
  | _ -> failwith "c29_usage line"

(* schema description: entries separated by ';' : Name:o:I,J (object implements) | Name:i:I (interface
   implements) | Name:u:A,B (union members) | Name:s: (scalar) *)
let parse_types (desc : string) : (str * compat_tydef) list =
  List.map (fun e ->
    match String.split_on_char ':' e with
    | [n; k; l] ->
      let names = List.map str_of_ascii (split_on ',' l) in
      (str_of_ascii n,
       (match k with "o" -> CtObject names | "i" -> CtInterface names | "u" -> CtUnion names | _ -> CtOther))
    | _ -> failwith "schema entry") (split_on ';' desc)

(* input: <schema> <site> <ifacetype> <impltype> *)
let c29_impl (line : string) : string =
  match String.split_on_char ' ' line with
  | [sch; _site; a; b] ->
    let types = parse_types sch in
    "valid=" ^ b01 (compat_valid_impl_field_type (compat_is_subtype types) (tref_of_desc a 0) (tref_of_desc b 0))
  | _ -> failwith "c29_impl line"

(* input: <schema> <abstract> <maybe_subtype> *)
let c29_subtype (line : string) : string =
  match String.split_on_char ' ' line with
  | [sch; a; b] -> b01 (compat_is_subtype (parse_types sch) (str_of_ascii a) (str_of_ascii b))
  | _ -> failwith "c29_subtype line"

let families = [
  ("c29_assignable", c29_assignable); ("c29_usage", c29_usage); ("c29_impl", c29_impl);
  ("c29_subtype", c29_subtype) ]
