(* C23 families: coord_parse, coord_lookup *)
open Model
open Util

let show_coord (c : coord) : string =
  match c with
  | CType t -> "T " ^ hex_of_str t
  | CAttr (t, a) -> "A " ^ hex_of_str t ^ " " ^ hex_of_str a
  | CFieldArg (t, f, a) -> "F " ^ hex_of_str t ^ " " ^ hex_of_str f ^ " " ^ hex_of_str a
  | CDir d -> "D " ^ hex_of_str d
  | CDirArg (d, a) -> "G " ^ hex_of_str d ^ " " ^ hex_of_str a

(* input: <hex of candidate string> ; output: ok <coord> print=<hex> | err *)
let coord_parse (line : string) : string =
  match parse_coord (str_of_hex line) with
  | None -> "err"
  | Some c -> "ok " ^ show_coord c ^ " print=" ^ hex_of_str (print_coord c)

(* coord_schema description (names are ASCII):
     types:  Name:kind:attr(arg,arg)/attr()/...   separated by ';'   kind in s,o,i,u,e,n
     dirs:   name(arg,arg)                         separated by ';'
   line: <types> <dirs> <coord>     with '-' for an empty part
   coord: T:Ty | A:Ty,attr | F:Ty,f,a | D:d | G:d,a *)
let parse_field (s : string) : coord_field =
  let i = String.index s '(' in
  let name = String.sub s 0 i in
  let args = String.sub s (i+1) (String.length s - i - 2) in
  { cf_name = str_of_ascii name; cf_args = List.map str_of_ascii (split_on ',' args) }

let kind_of = function
  | "s" -> CKScalar | "o" -> CKObject | "i" -> CKInterface | "u" -> CKUnion | "e" -> CKEnum | "n" -> CKInput
  | _ -> failwith "kind"
let kind_str = function
  | CKScalar -> "s" | CKObject -> "o" | CKInterface -> "i" | CKUnion -> "u" | CKEnum -> "e" | CKInput -> "n"

let parse_type (s : string) : (str * coord_type) =
  match String.split_on_char ':' s with
  | [name; k; attrs] ->
    let fs = List.map parse_field (split_on '/' attrs) in
    (str_of_ascii name,
     { ct_name = str_of_ascii name; ct_kind = kind_of k; ct_attrs = List.map (fun f -> (f.cf_name, f)) fs })
  | _ -> failwith "type"

let parse_schema (types : string) (dirs : string) : coord_schema =
  let types = if types = "-" then "" else types in
  let dirs = if dirs = "-" then "" else dirs in
  { cs_types = List.map parse_type (split_on ';' types);
    cs_dirs = List.map (fun d -> let f = parse_field d in (f.cf_name, f)) (split_on ';' dirs) }

let parse_coord_desc (s : string) : coord =
  let tag = String.sub s 0 1 in
  let names = List.map str_of_ascii (String.split_on_char ',' (String.sub s 2 (String.length s - 2))) in
  match tag, names with
  | "T", [t] -> CType t
  | "A", [t; a] -> CAttr (t, a)
  | "F", [t; f; a] -> CFieldArg (t, f, a)
  | "D", [d] -> CDir d
  | "G", [d; a] -> CDirArg (d, a)
  | _ -> failwith "coord"

let fam_coord_lookup (line : string) : string =
  match String.split_on_char ' ' line with
  | types :: dirs :: c :: _ ->
    (match coord_lookup (parse_coord_desc c) (parse_schema types dirs) with
     | CoordErr _ -> "err"
     | CoordOk (CFType (n, k)) -> "ok type:" ^ kind_str k ^ " " ^ ascii_of_str n
     | CoordOk (CFDirective n) -> "ok directive " ^ ascii_of_str n
     | CoordOk (CFField n) -> "ok field " ^ ascii_of_str n
     | CoordOk (CFInputField n) -> "ok inputfield " ^ ascii_of_str n
     | CoordOk (CFEnumValue n) -> "ok enumvalue " ^ ascii_of_str n
     | CoordOk (CFArgument n) -> "ok argument " ^ ascii_of_str n)
  | _ -> failwith "coord_lookup line"

let families = [ ("coord_parse", coord_parse); ("coord_lookup", fam_coord_lookup) ]
