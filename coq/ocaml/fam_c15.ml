(* C15 family.  c15_check: `<hex source> R` -> `rejected`;
   `<hex source> A <P..|F> <dump of the validated schema>` -> `accepted consistent=<1|0> scalars=<1|0>`
   (with the names of the failing conjunct rules when not consistent) *)
open Model
open Util

(* same order as ConsistentB.cs_consistent_rules *)
let cs_rule_names = [
  "root_query"; "root_object"; "root_distinct"; "reserved_names";
  "field_output_types"; "arg_input_types"; "input_field_types"; "dirdef_arg_types";
  "union_members_object"; "implements_targets"; "transitive_interfaces";
  "interface_fields_present"; "interface_field_types"; "interface_field_args";
  "interface_extra_args"; "input_no_nonnull_cycle" ]

let c15_check (line : string) : string =
  match String.split_on_char ' ' line with
  | [_src; "R"] -> "rejected"
  | [_src; "A"; mark; dump] ->
    let s = Fam_c14.schema_of_transport mark dump in
    let v = cs_consistent_vector s in
    if List.length v <> List.length cs_rule_names then failwith "vector length";
    let failed = List.concat (List.map2 (fun n b -> if b then [] else [n]) cs_rule_names v) in
    let c = cs_consistent_b s in
    if c <> (failed = []) then failwith "consistent_b does not decompose";
    Printf.sprintf "accepted consistent=%d scalars=%d%s" (if c then 1 else 0)
      (if cs_scalars_exact_b s then 1 else 0)
      (if failed = [] then "" else " failed=" ^ String.concat "," failed)
  | _ -> failwith "c15_check line"

let families = [ ("c15_check", c15_check); ("c15_hist", fun _ -> "-") ]
