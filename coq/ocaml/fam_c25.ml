(* C25 family: c25_depth
   line: <mode> <hex doc> <hex expanded doc> <frags> <op>     (the model reads the last two fields)
     sels  := md_sel*
     md_sel   := 'f' name '(' sels ')'  |  'i(' sels ')'  |  's' name ';'
     frags := '-' | name '=' sels ('|' name '=' sels)*
   output: ok|err|panic  x=<expanded depth>|none  e=<expanded depth of the expansion>  old=<md_verdict of the
           model of the code before the D16 fix, informational> *)
open Model
open Util

let c25_parse_sels (s : string) (pos : int ref) : md_sel list =
  let n = String.length s in
  let read_name stop =
    let st = !pos in
    while !pos < n && not (List.mem s.[!pos] stop) do incr pos done;
    str_of_ascii (String.sub s st (!pos - st)) in
  let rec sels () =
    if !pos >= n || s.[!pos] = ')' then []
    else begin
      let x = one () in
      x :: sels ()
    end
  and one () =
    let tag = s.[!pos] in
    incr pos;
    match tag with
    | 'f' ->
      let name = read_name ['('] in
      incr pos;
      let sub = sels () in
      incr pos;
      MdField (name, sub)
    | 'i' ->
      incr pos;
      let sub = sels () in
      incr pos;
      MdInline sub
    | 's' ->
      let name = read_name [';'] in
      incr pos;
      MdSpread name
    | _ -> failwith "c25 md_sel tag"
  in
  let r = sels () in
  if !pos <> n then failwith "c25 trailing";
  r

let c25_parse_frags (s : string) : (n list * md_sel list) list =
  if s = "-" then [] else
  List.map (fun d ->
      let i = String.index d '=' in
      let body = String.sub d (i + 1) (String.length d - i - 1) in
      (str_of_ascii (String.sub d 0 i), c25_parse_sels body (ref 0)))
    (String.split_on_char '|' s)

let rec nat_of_int (i : int) : nat = if i = 0 then O else S (nat_of_int (i - 1))

let c25_depth (line : string) : string =
  match String.split_on_char ' ' line with
  | [_; _; _; frags; op] ->
    let frs = c25_parse_frags frags in
    let op = if op = "-" then [] else c25_parse_sels op (ref 0) in
    let fuel = nat_of_int (64 + String.length line) in
    let v = match md_check_max_depth fuel frs op with
      | MdVOk -> "ok" | MdVErr -> "err" | MdVPanic -> "panic" | MdVOutOfFuel -> "model-outoffuel" in
    let x = match md_xdepth fuel frs op with Some x -> string_of_int (int_of_n x) | None -> "none" in
    let k = match md_check_max_depth_old fuel frs op with
      | MdVOk -> "ok" | MdVErr -> "err" | MdVPanic -> "panic" | MdVOutOfFuel -> "model-outoffuel" in
    let e = match md_expand fuel frs op, md_xdepth fuel [] (match md_expand fuel frs op with Some e -> e | None -> []) with
      | Some _, Some y -> string_of_int (int_of_n y) | _ -> "none" in
    Printf.sprintf "%s x=%s e=%s old=%s" v x e k
  | _ -> failwith "c25_depth line"

let families = [ ("c25_depth", c25_depth) ]
