(* C14 families.  c14_validate: `<hex source> <number of build errors> <schema dump>` ->
   `valid` | `invalid rules=<names of the specification rules that fail>` (the per-rule verdict vector) *)
open Model
open Util

(* same order as Valid.sv_rules *)
let sv_rule_names = [
  "root_query"; "root_object"; "root_distinct";
  "reserved_names";
  "fields_nonempty"; "field_output_types"; "arg_input_types"; "arg_unique";
  "implements_targets"; "no_self_implement"; "transitive_interfaces";
  "interface_fields_present"; "interface_field_types"; "interface_field_args";
  "interface_extra_args";
  "union_nonempty"; "union_members_object";
  "enum_nonempty"; "enum_value_names";
  "input_nonempty"; "input_field_types"; "input_no_nonnull_cycle";
  "dirdef_arg_types"; "dirdef_no_self_ref"; "builtin_redefinition";
  "dir_defined"; "dir_location"; "dir_unique"; "dir_known_args";
  "dir_arg_unique"; "dir_required_args"; "dir_arg_input_fields_unique"; "dir_arg_values";
  "default_values" ]

let params_of (flags : string) : sv_params =
  (* three characters t/f: check_default_values, builtin_redefinable_once, typecheck_schema_directive_arguments *)
  if flags = "apollo" then sv_apollo_params else
  { svp_check_default_values = flags.[0] = 't';
    svp_builtin_redefinable_once = flags.[1] = 't';
    svp_typecheck_schema_directive_arguments = flags.[2] = 't' }

let failed_rules p s =
  let v = sv_rule_vector p s in
  if List.length v <> List.length sv_rule_names then failwith "rule vector length";
  List.concat (List.map2 (fun n b -> if b then [] else [n]) sv_rule_names v)

let verdict_line p nbuild s =
  let failed = failed_rules p s in
  let failed = if nbuild > 0 then "build_errors" :: failed else failed in
  let v = sv_verdict p (n_of_int nbuild) s in
  if v <> (failed = []) then failwith "verdict does not decompose";
  let cls =
    if v || nbuild > 0 then ""
    else if sv_known_builtin_scalar_directives p s then " class=builtin_scalar_directives"
    else if sv_known_nested_scalar_object_dup p s then " class=nested_scalar_object_dup"
    else "" in
  if v then "valid" else "invalid rules=" ^ String.concat "," failed ^ cls

(* the pristine built-in definitions (dump of Schema::new()), read once from the file named by C14_BUILTINS;
   a case marked P carries only the user's definitions and is completed with them, a case marked F is a full dump *)
let pristine : schema Lazy.t = lazy (
  let path = try Sys.getenv "C14_BUILTINS" with Not_found -> failwith "C14_BUILTINS not set" in
  let ic = open_in path in
  let line = input_line ic in
  close_in ic;
  Lib_schema.schema_of_string line)

let schema_of_transport (mark : string) (dump : string) : schema =
  let s = Lib_schema.schema_of_string dump in
  if mark = "F" then s
  else match String.split_on_char '-' mark with
  | "P" :: removed ->
    let b = Lazy.force pristine in
    let removed = List.map str_of_ascii removed in
    let keep t = not (List.mem (et_name t) removed) in
    { sch_def = s.sch_def; sch_dirdefs = b.sch_dirdefs @ s.sch_dirdefs;
      sch_types = List.filter keep b.sch_types @ s.sch_types }
  | _ -> failwith "transport mark"

(* number of build errors: when the AST of the source is given (no syntax error), the literal model of
   SchemaBuilder (Schema/Build.v, default configuration, real built-in initial state) decides; otherwise the
   count reported by the implementation (syntax errors are the parser's business, C05) *)
let nbuild_of (nbuild : string) (ast : string) : int =
  if ast = "-" then int_of_string nbuild
  else
    match sb_build_docs (Lib_schemabuild.cfg_of "-") (Lazy.force Lib_schemabuild.builtin) [Lib_ast.document_of_string ast] with
    | SbPanic -> failwith "builder model panicked"
    | SbBuilt (_, errs) -> List.length errs

let c14_validate (line : string) : string =
  match String.split_on_char ' ' line with
  | [_src; nbuild; mark; dump] ->
    verdict_line sv_apollo_params (int_of_string nbuild) (schema_of_transport mark dump)
  | [_src; nbuild; mark; dump; ast] ->
    verdict_line sv_apollo_params (nbuild_of nbuild ast) (schema_of_transport mark dump)
  | _ -> failwith "c14_validate line"

(* `<flags> <hex source> <number of build errors> <schema dump>`: the verdict under other parameters *)
let c14_validate_params (line : string) : string =
  match String.split_on_char ' ' line with
  | [flags; _src; nbuild; mark; dump] ->
    verdict_line (params_of flags) (int_of_string nbuild) (schema_of_transport mark dump)
  | [flags; _src; nbuild; mark; dump; ast] ->
    verdict_line (params_of flags) (nbuild_of nbuild ast) (schema_of_transport mark dump)
  | _ -> failwith "c14_validate_params line"

(* the literal models of apollo's two cycle searches (Schema/Cycles.v) on every input object / directive
   definition of the schema: `ri=` some input object search returns Recursed, `rd=` some directive search
   returns Recursed, `deep=` some search hits the recursion limit *)
let c14_cycles (line : string) : string =
  match String.split_on_char ' ' line with
  | _src :: _nbuild :: mark :: dump :: _ ->
    let s = schema_of_transport mark dump in
    let ri = ref false and rd = ref false and deep = ref false in
    let note flag r = (match r with
      | CyRecursed -> flag := true | CyLimit -> deep := true
      | CyFuel -> failwith "cycle search out of fuel" | CyOk -> ()) in
    List.iter (fun t -> match t with
      | EInput (_, n, _, fs, _) -> note ri (cy_input_check s n (List.map (fun c -> c.c_val) fs))
      | _ -> ()) s.sch_types;
    List.iter (fun d -> note rd (cy_dir_check s d)) s.sch_dirdefs;
    let b x = if !x then "1" else "0" in
    "ri=" ^ b ri ^ " rd=" ^ b rd ^ " deep=" ^ b deep
  | _ -> failwith "c14_cycles line"

let families = [ ("c14_validate", c14_validate); ("c14_validate_params", c14_validate_params);
                 ("c14_cycles", c14_cycles) ]
