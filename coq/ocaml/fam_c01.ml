(* C01/C02/C04/C07 families: the parser model run on the items the real lexer yielded.
   The c02/c04 lines end with the model-only ghost field ` dropped=<n>` (tokens ty::parse popped and never
   gave to the tree, known finding D3); the driver strips it before comparing.
   case line: <entry> <tl|-> <rl> <hex source> <items>     (the model reads entry, rl and items only)
   items: Kind.hexdata.index | !lex.hexdata.index | !limit.hexdata.index, comma separated, "-" if none *)
open Model
open Util

let skind_name (k : skind) : string =
  match k with
  | SK_WHITESPACE -> "WHITESPACE"
  | SK_COMMENT -> "COMMENT"
  | SK_COMMA -> "COMMA"
  | SK_ERROR -> "ERROR"
  | SK_IDENT -> "IDENT"
  | SK_STRING -> "STRING"
  | SK_INT -> "INT"
  | SK_FLOAT -> "FLOAT"
  | SK_BANG -> "BANG"
  | SK_DOLLAR -> "DOLLAR"
  | SK_AMP -> "AMP"
  | SK_SPREAD -> "SPREAD"
  | SK_COLON -> "COLON"
  | SK_EQ -> "EQ"
  | SK_AT -> "AT"
  | SK_L_PAREN -> "L_PAREN"
  | SK_R_PAREN -> "R_PAREN"
  | SK_L_BRACK -> "L_BRACK"
  | SK_R_BRACK -> "R_BRACK"
  | SK_L_CURLY -> "L_CURLY"
  | SK_R_CURLY -> "R_CURLY"
  | SK_PIPE -> "PIPE"
  | SK_query_KW -> "query_KW"
  | SK_mutation_KW -> "mutation_KW"
  | SK_subscription_KW -> "subscription_KW"
  | SK_fragment_KW -> "fragment_KW"
  | SK_on_KW -> "on_KW"
  | SK_null_KW -> "null_KW"
  | SK_true_KW -> "true_KW"
  | SK_false_KW -> "false_KW"
  | SK_extend_KW -> "extend_KW"
  | SK_schema_KW -> "schema_KW"
  | SK_scalar_KW -> "scalar_KW"
  | SK_implements_KW -> "implements_KW"
  | SK_interface_KW -> "interface_KW"
  | SK_union_KW -> "union_KW"
  | SK_enum_KW -> "enum_KW"
  | SK_input_KW -> "input_KW"
  | SK_directive_KW -> "directive_KW"
  | SK_type_KW -> "type_KW"
  | SK_repeatable_KW -> "repeatable_KW"
  | SK_QUERY_KW -> "QUERY_KW"
  | SK_MUTATION_KW -> "MUTATION_KW"
  | SK_SUBSCRIPTION_KW -> "SUBSCRIPTION_KW"
  | SK_FIELD_KW -> "FIELD_KW"
  | SK_FRAGMENT_DEFINITION_KW -> "FRAGMENT_DEFINITION_KW"
  | SK_FRAGMENT_SPREAD_KW -> "FRAGMENT_SPREAD_KW"
  | SK_INLINE_FRAGMENT_KW -> "INLINE_FRAGMENT_KW"
  | SK_VARIABLE_DEFINITION_KW -> "VARIABLE_DEFINITION_KW"
  | SK_SCHEMA_KW -> "SCHEMA_KW"
  | SK_SCALAR_KW -> "SCALAR_KW"
  | SK_OBJECT_KW -> "OBJECT_KW"
  | SK_FIELD_DEFINITION_KW -> "FIELD_DEFINITION_KW"
  | SK_ARGUMENT_DEFINITION_KW -> "ARGUMENT_DEFINITION_KW"
  | SK_INTERFACE_KW -> "INTERFACE_KW"
  | SK_UNION_KW -> "UNION_KW"
  | SK_ENUM_KW -> "ENUM_KW"
  | SK_ENUM_VALUE_KW -> "ENUM_VALUE_KW"
  | SK_INPUT_OBJECT_KW -> "INPUT_OBJECT_KW"
  | SK_INPUT_FIELD_DEFINITION_KW -> "INPUT_FIELD_DEFINITION_KW"
  | SK_DOCUMENT -> "DOCUMENT"
  | SK_OPERATION_DEFINITION -> "OPERATION_DEFINITION"
  | SK_OPERATION_TYPE -> "OPERATION_TYPE"
  | SK_SELECTION_SET -> "SELECTION_SET"
  | SK_FIELD -> "FIELD"
  | SK_ALIAS -> "ALIAS"
  | SK_NAME -> "NAME"
  | SK_ARGUMENTS -> "ARGUMENTS"
  | SK_ARGUMENT -> "ARGUMENT"
  | SK_FRAGMENT_SPREAD -> "FRAGMENT_SPREAD"
  | SK_INLINE_FRAGMENT -> "INLINE_FRAGMENT"
  | SK_FRAGMENT_DEFINITION -> "FRAGMENT_DEFINITION"
  | SK_FRAGMENT_NAME -> "FRAGMENT_NAME"
  | SK_TYPE_CONDITION -> "TYPE_CONDITION"
  | SK_VARIABLE -> "VARIABLE"
  | SK_VARIABLE_DEFINITIONS -> "VARIABLE_DEFINITIONS"
  | SK_VARIABLE_DEFINITION -> "VARIABLE_DEFINITION"
  | SK_DEFAULT_VALUE -> "DEFAULT_VALUE"
  | SK_STRING_VALUE -> "STRING_VALUE"
  | SK_INT_VALUE -> "INT_VALUE"
  | SK_FLOAT_VALUE -> "FLOAT_VALUE"
  | SK_BOOLEAN_VALUE -> "BOOLEAN_VALUE"
  | SK_NULL_VALUE -> "NULL_VALUE"
  | SK_ENUM_VALUE -> "ENUM_VALUE"
  | SK_LIST_VALUE -> "LIST_VALUE"
  | SK_OBJECT_VALUE -> "OBJECT_VALUE"
  | SK_OBJECT_FIELD -> "OBJECT_FIELD"
  | SK_TYPE -> "TYPE"
  | SK_NAMED_TYPE -> "NAMED_TYPE"
  | SK_LIST_TYPE -> "LIST_TYPE"
  | SK_NON_NULL_TYPE -> "NON_NULL_TYPE"
  | SK_DIRECTIVES -> "DIRECTIVES"
  | SK_DIRECTIVE -> "DIRECTIVE"
  | SK_DESCRIPTION -> "DESCRIPTION"
  | SK_SCHEMA_DEFINITION -> "SCHEMA_DEFINITION"
  | SK_SCHEMA_EXTENSION -> "SCHEMA_EXTENSION"
  | SK_ROOT_OPERATION_TYPE_DEFINITION -> "ROOT_OPERATION_TYPE_DEFINITION"
  | SK_SCALAR_TYPE_DEFINITION -> "SCALAR_TYPE_DEFINITION"
  | SK_SCALAR_TYPE_EXTENSION -> "SCALAR_TYPE_EXTENSION"
  | SK_OBJECT_TYPE_DEFINITION -> "OBJECT_TYPE_DEFINITION"
  | SK_OBJECT_TYPE_EXTENSION -> "OBJECT_TYPE_EXTENSION"
  | SK_IMPLEMENTS_INTERFACES -> "IMPLEMENTS_INTERFACES"
  | SK_FIELDS_DEFINITION -> "FIELDS_DEFINITION"
  | SK_FIELD_DEFINITION -> "FIELD_DEFINITION"
  | SK_ARGUMENTS_DEFINITION -> "ARGUMENTS_DEFINITION"
  | SK_INPUT_VALUE_DEFINITION -> "INPUT_VALUE_DEFINITION"
  | SK_INTERFACE_TYPE_DEFINITION -> "INTERFACE_TYPE_DEFINITION"
  | SK_INTERFACE_TYPE_EXTENSION -> "INTERFACE_TYPE_EXTENSION"
  | SK_UNION_TYPE_DEFINITION -> "UNION_TYPE_DEFINITION"
  | SK_UNION_TYPE_EXTENSION -> "UNION_TYPE_EXTENSION"
  | SK_UNION_MEMBER_TYPES -> "UNION_MEMBER_TYPES"
  | SK_ENUM_TYPE_DEFINITION -> "ENUM_TYPE_DEFINITION"
  | SK_ENUM_TYPE_EXTENSION -> "ENUM_TYPE_EXTENSION"
  | SK_ENUM_VALUES_DEFINITION -> "ENUM_VALUES_DEFINITION"
  | SK_ENUM_VALUE_DEFINITION -> "ENUM_VALUE_DEFINITION"
  | SK_INPUT_OBJECT_TYPE_DEFINITION -> "INPUT_OBJECT_TYPE_DEFINITION"
  | SK_INPUT_OBJECT_TYPE_EXTENSION -> "INPUT_OBJECT_TYPE_EXTENSION"
  | SK_INPUT_FIELDS_DEFINITION -> "INPUT_FIELDS_DEFINITION"
  | SK_DIRECTIVE_DEFINITION -> "DIRECTIVE_DEFINITION"
  | SK_DIRECTIVE_LOCATIONS -> "DIRECTIVE_LOCATIONS"
  | SK_DIRECTIVE_LOCATION -> "DIRECTIVE_LOCATION"

let tkind_code (s : string) : int =
  match s with
  | "Whitespace" -> 0
  | "Comment" -> 1
  | "Bang" -> 2
  | "Dollar" -> 3
  | "Amp" -> 4
  | "Spread" -> 5
  | "Comma" -> 6
  | "Colon" -> 7
  | "Eq" -> 8
  | "At" -> 9
  | "LParen" -> 10
  | "RParen" -> 11
  | "LBracket" -> 12
  | "RBracket" -> 13
  | "LCurly" -> 14
  | "RCurly" -> 15
  | "Pipe" -> 16
  | "Eof" -> 17
  | "Name" -> 18
  | "StringValue" -> 19
  | "Int" -> 20
  | "Float" -> 21
  | _ -> failwith ("token kind " ^ s)

let item_of_string (s : string) : item =
  match String.split_on_char '.' s with
  | [k; d; i] ->
    let data = str_of_hex d and index = n_of_int (int_of_string i) in
    if k = "!lex" then pw_mk_err false data index
    else if k = "!limit" then pw_mk_err true data index
    else pw_mk_tok (n_of_int (tkind_code k)) data index
  | _ -> failwith "item"

let items_of_string (s : string) : item list =
  if s = "-" then [] else List.map item_of_string (String.split_on_char ',' s)

let entry_of = function
  | "doc" -> PW_doc | "selset" -> PW_selset | "type" -> PW_type | _ -> failwith "entry"

(* with a 5th field: the parser model on the given items (interim tie);
   without: lexer model and parser model composed on the source string *)
let run_case (line : string) : pw_obs =
  match String.split_on_char ' ' line with
  | entry :: _tl :: rl :: _src :: items :: _ ->
    pw_run (entry_of entry) false (n_of_int (int_of_string rl)) (items_of_string items)
  | [entry; tl; rl; src] ->
    let tl = if tl = "-" then None else Some (n_of_int (int_of_string tl)) in
    pw_run_src (entry_of entry) false (n_of_int (int_of_string rl)) tl (str_of_hex src)
  | _ -> failwith "parse case line"

let status (o : pw_obs) (k : unit -> string) : string =
  match int_of_n o.pw_status with
  | 0 -> k ()
  | 1 -> "panic"
  | _ -> "model-out-of-fuel"

let c01_parse line =
  let o = run_case line in
  status o (fun () ->
    "ok e=" ^ (if o.pw_errors = [] then "-" else
      String.concat "" (List.map (fun (l, _) -> if l then "l" else "s") o.pw_errors)))

let c02_parse line =
  let o = run_case line in
  status o (fun () ->
    "ok leaves=" ^ (if o.pw_leaves = [] then "-" else
      String.concat "," (List.map (fun (k, t) -> skind_name k ^ ":" ^ hex_of_str t) o.pw_leaves))
    ^ " range=0-" ^ string_of_int (int_of_n o.pw_range_end)
    ^ " dropped=" ^ string_of_int (int_of_n o.pw_dropped))

let c04_parse line =
  let o = run_case line in
  status o (fun () ->
    "ok errs=" ^ (if o.pw_errors = [] then "-" else
      String.concat "," (List.map (fun (l, i) -> (if l then "l@" else "s@") ^ string_of_int (int_of_n i))
                           o.pw_errors))
    ^ " high=" ^ string_of_int (int_of_n o.pw_rec_high) ^ "," ^ string_of_int (int_of_n o.pw_tok_high)
    ^ " tlen=" ^ string_of_int (int_of_n o.pw_range_end)
    ^ " dropped=" ^ string_of_int (int_of_n o.pw_dropped))

let c07_parse line =
  let o = run_case line in
  status o (fun () ->
    if o.pw_errors <> [] then "ok err" else
    let sigl = List.filter (fun (k, _) -> match k with SK_WHITESPACE | SK_COMMENT | SK_COMMA -> false | _ -> true)
                 o.pw_leaves in
    let texts = List.map (fun (_, t) -> utf8_of_codepoints (List.map int_of_n t)) sigl in
    "ok noerr sig=" ^ hex_of_bytes (String.concat " " texts))

let parse_struct line =
  let o = run_case line in
  status o (fun () ->
    let b = Buffer.create 256 in
    let first = ref true in
    List.iter (fun t ->
      match t with
      | PW_open k -> if not !first then Buffer.add_char b ' '; first := false;
                     Buffer.add_char b '('; Buffer.add_string b (skind_name k)
      | PW_leaf (k, s) -> Buffer.add_char b ' '; Buffer.add_string b (skind_name k);
                          Buffer.add_char b ':'; Buffer.add_string b (hex_of_str s)
      | PW_close -> Buffer.add_char b ')') o.pw_struct;
    "ok " ^ Buffer.contents b)

let families = [
  ("c01_parse", c01_parse); ("c02_parse", c02_parse); ("c04_parse", c04_parse);
  ("c07_parse", c07_parse); ("parse_struct", parse_struct) ]
