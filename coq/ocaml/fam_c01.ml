(* C01/C02/C04/C07 families: the parser model run on the items the real lexer yielded.
   The c02/c04 lines end with the model-only ghost field ` dropped=<n>` (tokens ty::parse popped and never
   gave to the tree, known finding D3); the driver strips it before comparing.
   case line: <entry> <tl|-> <rl> <hex source> <items>     (the model reads entry, rl and items only)
   items: Kind.hexdata.index | !lex.hexdata.index | !limit.hexdata.index, comma separated, "-" if none *)
open Model
open Util

let skind_name (k : skind) : string =
  match k with
  | WHITESPACE -> "WHITESPACE"
  | COMMENT -> "COMMENT"
  | COMMA -> "COMMA"
  | ERROR -> "ERROR"
  | IDENT -> "IDENT"
  | STRING -> "STRING"
  | INT -> "INT"
  | FLOAT -> "FLOAT"
  | BANG -> "BANG"
  | DOLLAR -> "DOLLAR"
  | AMP -> "AMP"
  | SPREAD -> "SPREAD"
  | COLON -> "COLON"
  | EQ -> "EQ"
  | AT -> "AT"
  | L_PAREN -> "L_PAREN"
  | R_PAREN -> "R_PAREN"
  | L_BRACK -> "L_BRACK"
  | R_BRACK -> "R_BRACK"
  | L_CURLY -> "L_CURLY"
  | R_CURLY -> "R_CURLY"
  | PIPE -> "PIPE"
  | Query_KW -> "query_KW"
  | Mutation_KW -> "mutation_KW"
  | Subscription_KW -> "subscription_KW"
  | Fragment_KW -> "fragment_KW"
  | On_KW -> "on_KW"
  | Null_KW -> "null_KW"
  | True_KW -> "true_KW"
  | False_KW -> "false_KW"
  | Extend_KW -> "extend_KW"
  | Schema_KW -> "schema_KW"
  | Scalar_KW -> "scalar_KW"
  | Implements_KW -> "implements_KW"
  | Interface_KW -> "interface_KW"
  | Union_KW -> "union_KW"
  | Enum_KW -> "enum_KW"
  | Input_KW -> "input_KW"
  | Directive_KW -> "directive_KW"
  | Type_KW -> "type_KW"
  | Repeatable_KW -> "repeatable_KW"
  | QUERY_KW -> "QUERY_KW"
  | MUTATION_KW -> "MUTATION_KW"
  | SUBSCRIPTION_KW -> "SUBSCRIPTION_KW"
  | FIELD_KW -> "FIELD_KW"
  | FRAGMENT_DEFINITION_KW -> "FRAGMENT_DEFINITION_KW"
  | FRAGMENT_SPREAD_KW -> "FRAGMENT_SPREAD_KW"
  | INLINE_FRAGMENT_KW -> "INLINE_FRAGMENT_KW"
  | VARIABLE_DEFINITION_KW -> "VARIABLE_DEFINITION_KW"
  | SCHEMA_KW -> "SCHEMA_KW"
  | SCALAR_KW -> "SCALAR_KW"
  | OBJECT_KW -> "OBJECT_KW"
  | FIELD_DEFINITION_KW -> "FIELD_DEFINITION_KW"
  | ARGUMENT_DEFINITION_KW -> "ARGUMENT_DEFINITION_KW"
  | INTERFACE_KW -> "INTERFACE_KW"
  | UNION_KW -> "UNION_KW"
  | ENUM_KW -> "ENUM_KW"
  | ENUM_VALUE_KW -> "ENUM_VALUE_KW"
  | INPUT_OBJECT_KW -> "INPUT_OBJECT_KW"
  | INPUT_FIELD_DEFINITION_KW -> "INPUT_FIELD_DEFINITION_KW"
  | DOCUMENT -> "DOCUMENT"
  | OPERATION_DEFINITION -> "OPERATION_DEFINITION"
  | OPERATION_TYPE -> "OPERATION_TYPE"
  | SELECTION_SET -> "SELECTION_SET"
  | FIELD -> "FIELD"
  | ALIAS -> "ALIAS"
  | NAME -> "NAME"
  | ARGUMENTS -> "ARGUMENTS"
  | ARGUMENT -> "ARGUMENT"
  | FRAGMENT_SPREAD -> "FRAGMENT_SPREAD"
  | INLINE_FRAGMENT -> "INLINE_FRAGMENT"
  | FRAGMENT_DEFINITION -> "FRAGMENT_DEFINITION"
  | FRAGMENT_NAME -> "FRAGMENT_NAME"
  | TYPE_CONDITION -> "TYPE_CONDITION"
  | VARIABLE -> "VARIABLE"
  | VARIABLE_DEFINITIONS -> "VARIABLE_DEFINITIONS"
  | VARIABLE_DEFINITION -> "VARIABLE_DEFINITION"
  | DEFAULT_VALUE -> "DEFAULT_VALUE"
  | STRING_VALUE -> "STRING_VALUE"
  | INT_VALUE -> "INT_VALUE"
  | FLOAT_VALUE -> "FLOAT_VALUE"
  | BOOLEAN_VALUE -> "BOOLEAN_VALUE"
  | NULL_VALUE -> "NULL_VALUE"
  | ENUM_VALUE -> "ENUM_VALUE"
  | LIST_VALUE -> "LIST_VALUE"
  | OBJECT_VALUE -> "OBJECT_VALUE"
  | OBJECT_FIELD -> "OBJECT_FIELD"
  | TYPE -> "TYPE"
  | NAMED_TYPE -> "NAMED_TYPE"
  | LIST_TYPE -> "LIST_TYPE"
  | NON_NULL_TYPE -> "NON_NULL_TYPE"
  | DIRECTIVES -> "DIRECTIVES"
  | DIRECTIVE -> "DIRECTIVE"
  | DESCRIPTION -> "DESCRIPTION"
  | SCHEMA_DEFINITION -> "SCHEMA_DEFINITION"
  | SCHEMA_EXTENSION -> "SCHEMA_EXTENSION"
  | ROOT_OPERATION_TYPE_DEFINITION -> "ROOT_OPERATION_TYPE_DEFINITION"
  | SCALAR_TYPE_DEFINITION -> "SCALAR_TYPE_DEFINITION"
  | SCALAR_TYPE_EXTENSION -> "SCALAR_TYPE_EXTENSION"
  | OBJECT_TYPE_DEFINITION -> "OBJECT_TYPE_DEFINITION"
  | OBJECT_TYPE_EXTENSION -> "OBJECT_TYPE_EXTENSION"
  | IMPLEMENTS_INTERFACES -> "IMPLEMENTS_INTERFACES"
  | FIELDS_DEFINITION -> "FIELDS_DEFINITION"
  | FIELD_DEFINITION -> "FIELD_DEFINITION"
  | ARGUMENTS_DEFINITION -> "ARGUMENTS_DEFINITION"
  | INPUT_VALUE_DEFINITION -> "INPUT_VALUE_DEFINITION"
  | INTERFACE_TYPE_DEFINITION -> "INTERFACE_TYPE_DEFINITION"
  | INTERFACE_TYPE_EXTENSION -> "INTERFACE_TYPE_EXTENSION"
  | UNION_TYPE_DEFINITION -> "UNION_TYPE_DEFINITION"
  | UNION_TYPE_EXTENSION -> "UNION_TYPE_EXTENSION"
  | UNION_MEMBER_TYPES -> "UNION_MEMBER_TYPES"
  | ENUM_TYPE_DEFINITION -> "ENUM_TYPE_DEFINITION"
  | ENUM_TYPE_EXTENSION -> "ENUM_TYPE_EXTENSION"
  | ENUM_VALUES_DEFINITION -> "ENUM_VALUES_DEFINITION"
  | ENUM_VALUE_DEFINITION -> "ENUM_VALUE_DEFINITION"
  | INPUT_OBJECT_TYPE_DEFINITION -> "INPUT_OBJECT_TYPE_DEFINITION"
  | INPUT_OBJECT_TYPE_EXTENSION -> "INPUT_OBJECT_TYPE_EXTENSION"
  | INPUT_FIELDS_DEFINITION -> "INPUT_FIELDS_DEFINITION"
  | DIRECTIVE_DEFINITION -> "DIRECTIVE_DEFINITION"
  | DIRECTIVE_LOCATIONS -> "DIRECTIVE_LOCATIONS"
  | DIRECTIVE_LOCATION -> "DIRECTIVE_LOCATION"

let tkind_code (s : string) : int =
  match s with
  | "Whitespace" -> 0
  | "Comment" -> 1
  | "Bang" -> 2
  | "Dollar" -> 3
  | "Amp" -> 4
  | "Spread" -> 5
  | "Comma" -> 6
  | "Colon" -> 7
  | "Eq" -> 8
  | "At" -> 9
  | "LParen" -> 10
  | "RParen" -> 11
  | "LBracket" -> 12
  | "RBracket" -> 13
  | "LCurly" -> 14
  | "RCurly" -> 15
  | "Pipe" -> 16
  | "Eof" -> 17
  | "Name" -> 18
  | "StringValue" -> 19
  | "Int" -> 20
  | "Float" -> 21
  | _ -> failwith ("token kind " ^ s)

let item_of_string (s : string) : item =
  match String.split_on_char '.' s with
  | [k; d; i] ->
    let data = str_of_hex d and index = n_of_int (int_of_string i) in
    if k = "!lex" then pw_mk_err false data index
    else if k = "!limit" then pw_mk_err true data index
    else pw_mk_tok (n_of_int (tkind_code k)) data index
  | _ -> failwith "item"

let items_of_string (s : string) : item list =
  if s = "-" then [] else List.map item_of_string (String.split_on_char ',' s)

let run_case (line : string) : pw_obs =
  match String.split_on_char ' ' line with
  | entry :: _tl :: rl :: _src :: items :: _ ->
    let e = (match entry with "doc" -> PW_doc | "selset" -> PW_selset | "type" -> PW_type
                            | _ -> failwith "entry") in
    pw_run e false (n_of_int (int_of_string rl)) (items_of_string items)
  | _ -> failwith "parse case line"

let status (o : pw_obs) (k : unit -> string) : string =
  match int_of_n o.pw_status with
  | 0 -> k ()
  | 1 -> "panic"
  | _ -> "model-out-of-fuel"

let c01_parse line =
  let o = run_case line in
  status o (fun () ->
    "ok e=" ^ (if o.pw_errors = [] then "-" else
      String.concat "" (List.map (fun (l, _) -> if l then "l" else "s") o.pw_errors)))

let c02_parse line =
  let o = run_case line in
  status o (fun () ->
    "ok leaves=" ^ (if o.pw_leaves = [] then "-" else
      String.concat "," (List.map (fun (k, t) -> skind_name k ^ ":" ^ hex_of_str t) o.pw_leaves))
    ^ " range=0-" ^ string_of_int (int_of_n o.pw_range_end)
    ^ " dropped=" ^ string_of_int (int_of_n o.pw_dropped))

let c04_parse line =
  let o = run_case line in
  status o (fun () ->
    "ok errs=" ^ (if o.pw_errors = [] then "-" else
      String.concat "," (List.map (fun (l, i) -> (if l then "l@" else "s@") ^ string_of_int (int_of_n i))
                           o.pw_errors))
    ^ " high=" ^ string_of_int (int_of_n o.pw_rec_high) ^ "," ^ string_of_int (int_of_n o.pw_tok_high)
    ^ " tlen=" ^ string_of_int (int_of_n o.pw_range_end)
    ^ " dropped=" ^ string_of_int (int_of_n o.pw_dropped))

let c07_parse line =
  let o = run_case line in
  status o (fun () ->
    if o.pw_errors <> [] then "ok err" else
    let sigl = List.filter (fun (k, _) -> match k with WHITESPACE | COMMENT | COMMA -> false | _ -> true)
                 o.pw_leaves in
    let texts = List.map (fun (_, t) -> utf8_of_codepoints (List.map int_of_n t)) sigl in
    "ok noerr sig=" ^ hex_of_bytes (String.concat " " texts))

let parse_struct line =
  let o = run_case line in
  status o (fun () ->
    let b = Buffer.create 256 in
    let first = ref true in
    List.iter (fun t ->
      match t with
      | PW_open k -> if not !first then Buffer.add_char b ' '; first := false;
                     Buffer.add_char b '('; Buffer.add_string b (skind_name k)
      | PW_leaf (k, s) -> Buffer.add_char b ' '; Buffer.add_string b (skind_name k);
                          Buffer.add_char b ':'; Buffer.add_string b (hex_of_str s)
      | PW_close -> Buffer.add_char b ')') o.pw_struct;
    "ok " ^ Buffer.contents b)

let families = [
  ("c01_parse", c01_parse); ("c02_parse", c02_parse); ("c04_parse", c04_parse);
  ("c07_parse", c07_parse); ("parse_struct", parse_struct) ]
