(* C10 families: c10_name, c10_num_syntax, c10_i32, c10_f64, c10_type *)
open Model
open Util

let b01 b = if b then "1" else "0"

(* every constructor of the model; they must agree (the harness checks the same of the real ones) *)
let c10_name (line : string) : string =
  let s = str_of_hex line in
  let v = name_is_valid_syntax s in
  let all = [name_new s; name_new_static s; name_try_from_arc s; name_try_from_str s; name_deserialize s] in
  let expect = if v then Some s else None in
  if List.for_all (fun r -> r = expect) all then "valid=" ^ b01 v else "model-failure constructors disagree"

let c10_num_syntax (line : string) : string =
  let s = str_of_hex line in
  let i = (match num_int_deserialize s with Some _ -> true | None -> false) in
  let f = (match num_float_deserialize s with Some _ -> true | None -> false) in
  "int=" ^ b01 i ^ " float=" ^ b01 f

(* Z glue (decimal text <-> extracted Z); OCaml ints are 63 bit, the cases are i32 *)
let z_of_int (i : int) : z = if i = 0 then Z0 else if i > 0 then Zpos (pos_of_int i) else Zneg (pos_of_int (- i))
let int_of_z (x : z) : int = match x with Z0 -> 0 | Zpos p -> int_of_pos p | Zneg p -> - (int_of_pos p)

(* input: decimal i32; output: lit=<text> back=<decimal|err> *)
let c10_i32 (line : string) : string =
  let z = z_of_int (int_of_string line) in
  match num_int_from_i32 z with
  | None -> "model-failure out of fuel"
  | Some lit ->
    let back = (match num_parse_i32 lit with Some b -> string_of_int (int_of_z b) | None -> "err") in
    "lit=" ^ ascii_of_str lit ^ " back=" ^ back

(* input: <bits hex16> <hex of Rust's to_string>; output: lit=<hex> valid=<0|1> *)
let c10_f64 (line : string) : string =
  match String.split_on_char ' ' line with
  | [_bits; raw] ->
    let lit = num_float_fixup (str_of_hex raw) in
    "lit=" ^ hex_of_str lit ^ " valid=" ^ b01 (num_float_valid_syntax lit)
  | _ -> failwith "c10_f64 line"

(* type descriptor: wrappers 'l' (List) / 'L' (NonNullList), then 'n' (Named) / 'N' (NonNullNamed), then the name *)
let rec tref_of_desc (d : string) (i : int) : ty =
  match d.[i] with
  | 'l' -> TList (tref_of_desc d (i+1))
  | 'L' -> TNonNullList (tref_of_desc d (i+1))
  | 'n' -> TNamed (str_of_ascii (String.sub d (i+1) (String.length d - i - 1)))
  | 'N' -> TNonNullNamed (str_of_ascii (String.sub d (i+1) (String.length d - i - 1)))
  | _ -> failwith "type descriptor"
let rec desc_of_tref (t : ty) : string =
  match t with
  | TList i -> "l" ^ desc_of_tref i
  | TNonNullList i -> "L" ^ desc_of_tref i
  | TNamed n -> "n" ^ ascii_of_str n
  | TNonNullNamed n -> "N" ^ ascii_of_str n

let rec nat_of_int (i : int) : nat = if i = 0 then O else S (nat_of_int (i - 1))

(* input: descriptor; output: print=<hex> back=<descriptor|err> *)
let c10_type (line : string) : string =
  let t = tref_of_desc line 0 in
  let p = tref_print t in
  let back = (match tref_parse tref_default_limit p with Some b -> desc_of_tref b | None -> "err") in
  "print=" ^ hex_of_str p ^ " back=" ^ back

let families = [
  ("c10_name", c10_name); ("c10_num_syntax", c10_num_syntax); ("c10_i32", c10_i32);
  ("c10_f64", c10_f64); ("c10_type", c10_type) ]
