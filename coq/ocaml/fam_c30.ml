(* C30 family nn_history: `<threads> <tok>;<tok>;...` -> the observation line (same format as harness/src/c30.rs).
   Tokens before the first barrier `|` are executed in the given order; every later phase is executed thread by
   thread (thread 0's operations, then thread 1's, ...), which is one of its interleavings. *)
open Model
open Util

let rec nat_of_int30 (i : int) : nat = if i <= 0 then O else S (nat_of_int30 (i - 1))
(* same helpers as in fam_c31.ml (each family file is self-contained) *)
let n_of_hexnum (s : string) : n =
  let p = ref None in
  String.iter (fun c ->
    let v = hexval c in
    List.iter (fun b ->
      let bit = (v lsr b) land 1 = 1 in
      p := (match !p with
            | None -> if bit then Some XH else None
            | Some q -> Some (if bit then XI q else XO q))) [3; 2; 1; 0]) s;
  match !p with None -> N0 | Some q -> Npos q

let hexnum_of_n (x : n) : string =
  match x with
  | N0 -> "0"
  | Npos p ->
    (* bits, least significant first *)
    let rec bits p = match p with XH -> [1] | XO q -> 0 :: bits q | XI q -> 1 :: bits q in
    let bs = Array.of_list (bits p) in
    let nd = (Array.length bs + 3) / 4 in
    String.init nd (fun i ->
      let d = nd - 1 - i in
      let v = ref 0 in
      for b = 3 downto 0 do
        let k = 4 * d + b in
        v := !v * 2 + (if k < Array.length bs then bs.(k) else 0)
      done;
      "0123456789abcdef".[!v])

let num s = n_of_hexnum s
let shown x = hexnum_of_n x

let parse_op (f : string array) : nn_op =
  let ix k = nat_of_int30 (int_of_string f.(k)) in
  let st k = str_of_hex f.(k) in
  match f.(1) with
  | "nh" -> NnNewHeap (ix 2, st 3)
  | "ns" -> NnNewStatic (ix 2, ix 3)
  | "na" -> NnFromArc (ix 2, st 3)
  | "nc" -> NnClone (ix 2, ix 3)
  | "nd" -> NnDrop (ix 2)
  | "nm" -> NnMove (ix 2, ix 3)
  | "nw" -> NnWithLoc (ix 2, num f.(3), num f.(4))
  | "nr" -> NnRead (ix 2)
  | "nt" -> NnToArc (ix 2)
  | "ni" -> NnIntoArc (ix 2)
  | "nq" -> NnCmp (ix 2, ix 3)
  | "nx" -> NnCloneTo (ix 2, ix 3, ix 4)
  | "dn" -> NdNew (ix 2, st 3)
  | "dp" -> NdNewParsed (ix 2, st 3, num f.(4), num f.(5), num f.(6))
  | "dc" -> NdClone (ix 2, ix 3)
  | "dd" -> NdDrop (ix 2)
  | "dm" -> NdMove (ix 2, ix 3)
  | "dr" -> NdRead (ix 2)
  | "dq" -> NdCmp (ix 2, ix 3)
  | "dg" -> NdGetMut (ix 2, st 3)
  | "dk" -> NdMakeMut (ix 2, st 3)
  | "ds" -> NdSameLoc (ix 2, ix 3, st 4)
  | "dx" -> NdCloneTo (ix 2, ix 3, ix 4)
  | _ -> failwith "op"

let b x = if x then "1" else "0"
let show_span = function
  | None -> "~"
  | Some ((f, s), e) -> shown f ^ ":" ^ shown s ^ ":" ^ shown e

let show_obs (counts : bool) (o : nn_obs) : string =
  let cnt c = if counts then string_of_int (int_of_n c) else "*" in
  match o with
  | NnONone -> "-"
  | NnORead (s, loc, st) ->
    "s=" ^ hex_of_str s ^ ",loc=" ^ show_span loc ^ ",st=" ^ (match st with None -> "~" | Some x -> hex_of_str x)
  | NnOArc None -> "arc=~"
  | NnOArc (Some (s, c)) -> "arc=" ^ hex_of_str s ^ ":" ^ cnt c
  | NnOCmp (e, h, o) -> "eq=" ^ b e ^ ",heq=" ^ b h ^ ",ord=" ^ string_of_int (int_of_n o)
  | NdORead (s, loc) -> "s=" ^ hex_of_str s ^ ",loc=" ^ show_span loc
  | NdOCmp (p, e, h) -> "peq=" ^ b p ^ ",eq=" ^ b e ^ ",heq=" ^ b h
  | NdOGot g -> "got=" ^ b g

let probes_str (st : nn_state) : string =
  "@" ^ String.concat "," (List.map (fun l -> string_of_int (int_of_n (hp_strong_of st.nn_heap l))) st.nn_probes)

let why = function HpUseAfterFree -> "use-after-free" | HpDoubleFree -> "double-free"

exception Stop of string

let nn_history (line : string) : string =
  let i = String.index line ' ' in
  let threads = int_of_string (String.sub line 0 i) in
  let hist = String.sub line (i + 1) (String.length line - i - 1) in
  let toks = if hist = "-" || hist = "" then [] else String.split_on_char ';' hist in
  let phases = List.fold_left (fun acc t ->
      if t = "|" then [] :: acc else (match acc with p :: r -> (t :: p) :: r | [] -> [[t]])) [[]] toks in
  let phases = List.rev_map List.rev phases in
  let buf = Buffer.create 256 in
  let st = ref (nn_init (nat_of_int30 threads)) in
  let run_tok counts tok =
    let f = Array.of_list (String.split_on_char '.' tok) in
    let tid = int_of_string f.(0) in
    match nn_step !st (nat_of_int30 tid) (parse_op f) with
    | HpPanic w -> raise (Stop ("PANIC:" ^ why w))
    | HpOk (s2, o) ->
      st := s2;
      Buffer.add_string buf (show_obs counts o);
      if counts then Buffer.add_string buf (probes_str !st);
      Buffer.add_char buf ';' in
  (try
    List.iteri (fun pi phase ->
      if pi = 0 then List.iter (run_tok true) phase
      else begin
        for t = 0 to threads - 1 do
          List.iter (fun tok ->
            if int_of_string (List.hd (String.split_on_char '.' tok)) = t then run_tok false tok) phase
        done;
        Buffer.add_char buf '|';
        Buffer.add_string buf (probes_str !st);
        Buffer.add_char buf ';'
      end) phases;
    (match nn_drop_all !st with
     | HpPanic w -> Buffer.add_string buf ("end@PANIC:" ^ why w)
     | HpOk s2 -> Buffer.add_string buf ("end@live=" ^ string_of_int (int_of_n (hp_live_count s2.nn_heap))))
  with Stop m -> Buffer.add_string buf m);
  Buffer.contents buf

let families = [ ("nn_history", nn_history) ]
