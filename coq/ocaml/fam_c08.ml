(* C08 family c08_print: the serializer model under the six configurations.
   input : <hex source> <ast text>   (the source is for the implementation side; the AST text is what
           the real parser made of it, harness family ast_dump)
   output: ok <hex text cfg0> ... <hex text cfg5>     (a panicking configuration prints panic<code>) *)
open Model
open Util

let c08_configs : print_config list =
  let mk p l = { pc_prefix = p; pc_level = n_of_int l } in
  [ mk (Some (str_of_ascii "  ")) 0;
    mk None 0;
    mk (Some (str_of_ascii "\t")) 0;
    mk (Some (str_of_ascii "    ")) 3;
    mk (Some []) 0;
    mk (Some (str_of_ascii " ")) 1 ]

let c08_print (line : string) : string =
  match String.split_on_char ' ' line with
  | [_src; ast] ->
    let d = Lib_ast.document_of_string ast in
    "ok " ^ String.concat " " (List.map (fun cfg ->
      match ast_print cfg d with
      | ApOk t -> hex_of_str t
      | ApPanic w -> "panic" ^ string_of_int (int_of_n w)) c08_configs)
  | _ -> failwith "c08_print line"

(* model-internal self test (not part of the tie): the token view renders to the same text, unseparated
   neighbours are adjacent_safe, and a well-formed AST gives well-formed tokens *)
let c08_selftest (line : string) : string =
  match String.split_on_char ' ' line with
  | [_src; ast] ->
    let d = Lib_ast.document_of_string ast in
    let wf = pwfd d in
    let bad = List.filter_map (fun cfg ->
      let toks = ptokens cfg d in
      match ast_print cfg d with
      | ApOk t when t = pt_render toks && pt_consecutive_safe toks
                    && (not wf || List.for_all (fun t -> ptok_wf t.pt_tok) toks) -> None
      | _ -> Some "x") c08_configs in
    if bad = [] then (if wf then "ok wf" else "ok notwf") else "bad"
  | _ -> failwith "c08_selftest line"

let families = [ ("c08_print", c08_print); ("c08_print_partial", c08_print);
                 ("c08_selftest", c08_selftest) ]
