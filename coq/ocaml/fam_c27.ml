(* C27 family: exec_async.  input: as exec_sync plus `<k0,k1,...|->` (the schedule)
   output: ok data=.. errors=.. log=[..] dl=0 | reqerr   (the model has no deadlock) *)
open Model

let rec nat_of_int (i : int) : nat = if i <= 0 then O else S (nat_of_int (i - 1))

let exec_async (line : string) : string =
  let (s, d, values, w, rest) = Fam_c26.parse_case line in
  let sched = match rest with
    | [x] -> List.map (fun k -> nat_of_int (int_of_string k)) (Util.split_on ',' (if x = "-" then "" else x))
    | _ -> failwith "schedule" in
  let ((o, log), _polls) = execute_request_async (sigma_of sched) s d values w in
  match o with
  | EoResponse _ -> Lib_xrun.p_outcome o log ^ " dl=0"
  | _ -> Lib_xrun.p_outcome o log

let rec int_of_nat = function O -> 0 | S n -> 1 + int_of_nat n

(* number of await points of the synchronous run (the driver sizes its schedules with it) *)
let exec_points (line : string) : string =
  let (s, d, values, w, _) = Fam_c26.parse_case line in
  string_of_int (int_of_nat (request_points s d values w))

let families = [ ("exec_async", exec_async); ("exec_points", exec_points) ]
