(* C13 families: c13_three (several documents; one extension moved), c13_exec (implementation-only oracle) *)
open Model
open Util
open Lib_schemabuild

let show cfg docs =
  match sb_build_docs cfg (Lazy.force builtin) docs with
  | SbPanic -> "panic"
  | SbBuilt (s, errs) -> "errs=" ^ errs_str errs ^ " " ^ observe_schema s

(* input: <cfg> <k> <hex chunk>*k <hex moved | -> <ast chunk>*k <ast moved | -> *)
let c13_three (line : string) : string =
  match String.split_on_char ' ' line with
  | cfg :: k :: rest ->
    let k = int_of_string k in
    let asts = List.filteri (fun i _ -> i > k && i <= 2 * k) rest in
    let moved = List.nth rest (2 * k + 1) in
    let cfg = cfg_of cfg in
    let docs = List.map Lib_ast.document_of_string asts in
    let a = show cfg docs in
    let c = if moved = "-" then "-" else show cfg [Lib_ast.document_of_string moved] in
    (* hypothesis bi_doc_ok of C13_extension_commutes on what the parser produced *)
    let docok = List.for_all bi_doc_ok docs in
    "docok=" ^ (if docok then "1" else "0") ^ " A: " ^ a ^ " C: " ^ c
  | _ -> failwith "c13_three line"

let families = [ ("c13_three", c13_three); ("c13_exec", fun _ -> "-") ]
