(* C11 families: c11_linecol, c11_linecol_spec, c11_range, c11_spans *)
open Model
open Util

let c11_show_res (r : lcres) : string =
  match r with
  | LcNone -> "none"
  | LcPanic -> "panic"
  | LcSome (l, c) -> Printf.sprintf "%d:%d" (int_of_n l) (int_of_n c)

let c11_show_opt (r : (n * n) option) : string =
  match r with
  | None -> "none"
  | Some (l, c) -> Printf.sprintf "%d:%d" (int_of_n l) (int_of_n c)

let c11_offsets (s : n list) : int list =
  let len = int_of_n (blen s) in
  List.init (len + 2) (fun i -> i)

(* input: hex source; output: the model of SourceFile::get_line_column at every offset 0..=len+1.
   The one-pass form lc_impl_scan (proved equal in LineColProofs.v) is cross-checked on the way. *)
let c11_linecol (line : string) : string =
  let s = str_of_hex line in
  String.concat "," (List.map (fun off ->
      let o = n_of_int off in
      let a = c11_show_res (lc_impl_line_col s o) in
      let b = c11_show_opt (lc_impl_scan s o (n_of_int 1) (n_of_int 1)) in
      if a <> b then failwith ("lc_impl_scan differs from lc_impl_line_col at " ^ string_of_int off);
      a) (c11_offsets s))

(* input: hex source; output: the specification at every offset, with the class flags sep/col/eof *)
let c11_linecol_spec (line : string) : string =
  let s = str_of_hex line in
  let b x = if x then "1" else "0" in
  String.concat "," (List.map (fun off ->
      let o = n_of_int off in
      c11_show_opt (lc_line_col s o) ^ "/" ^ b (lc_k_sep s o) ^ b (lc_k_col s o) ^ b (lc_k_eof s o)) (c11_offsets s))

(* input: <hex source> <start> <end> *)
let c11_range (line : string) : string =
  match String.split_on_char ' ' line with
  | [h; a; b] ->
    (match lc_impl_range (str_of_hex h) (n_of_int (int_of_string a)) (n_of_int (int_of_string b)) with
     | None -> "none"
     | Some ((l1, c1), (l2, c2)) ->
       Printf.sprintf "%d:%d-%d:%d" (int_of_n l1) (int_of_n c1) (int_of_n l2) (int_of_n c2))
  | _ -> failwith "c11_range line"

(* spans are checked by the harness's oracle alone (no parser model here) *)
let c11_spans (_ : string) : string = "spans"

let families = [ ("c11_linecol", c11_linecol); ("c11_linecol_spec", c11_linecol_spec);
                 ("c11_range", c11_range); ("c11_spans", c11_spans) ]
