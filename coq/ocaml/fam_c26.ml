(* C26 family: exec_sync.  input: <schema dump (u)> <ast dump> <compact json variables> <world, leaves as compact json>
   output: as harness/src/c26.rs *)
open Model

let parse_case (line : string) =
  match String.split_on_char ' ' line with
  | sch :: doc :: vals :: w :: rest ->
    let s = Lib_xrun.with_builtin_scalars (Lib_schema.schema_of_string sch) in
    let d = Lib_ast.document_of_string doc in
    let values = match Lib_json.json_of_string vals with JObj m -> m | _ -> failwith "variables object" in
    (s, d, values, Lib_xrun.world_of_string w, rest)
  | _ -> failwith "exec line"

let exec_sync (line : string) : string =
  let (s, d, values, w, _) = parse_case line in
  let (o, log) = execute_request s d values w in
  Lib_xrun.p_outcome o log

(* the reference executor (Run/RefExecute.v): response only *)
let exec_ref (line : string) : string =
  let (s, d, values, w, _) = parse_case line in
  match ref_execute s d values w with
  | EoResponse r -> "ok " ^ Lib_xrun.p_response r
  | o -> Lib_xrun.p_outcome o []

(* the decidable hypotheses of C26_eq_reference_decidable on the case (Run/ExecRefDefs.v): schema well-formed
   (including sch_impl_covariant), one field name per response key, no fragment cycle *)
let exec_hyps (line : string) : string =
  let (s, d, _, _, _) = parse_case line in
  let b x = if x then "1" else "0" in
  match td_build s d with
  | Some rd -> "wf=" ^ b (sch_exec_wf s) ^ " alias=" ^ b (rd_alias_consistent rd) ^ " acyclic=" ^ b (rd_acyclic rd)
  | None -> "untyped"

let families = [ ("exec_sync", exec_sync); ("exec_ref", exec_ref); ("exec_hyps", exec_hyps) ]
