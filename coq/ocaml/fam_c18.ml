(* C18 family xbuild: build the typed document from (schema, AST), print it and the two iterators *)
open Model
open Util
open Lib_ast
open Lib_xdoc

let xbuild (line : string) : string =
  let c = read_case line in
  let (d, errs) = xb_from_ast c.xc_schema c.xc_ast in
  let ops = xd_ops d in
  let its = List.map (fun o ->
      let r = xi_root_fields d o and a = xi_all_fields d o in
      (* the declarative walk must agree with the machine (it does by C18_root_fields / C18_all_fields) *)
      let chk = if r = xi_dfs_fields_once false d o.xo_sels && a = xi_dfs_fields_once true d o.xo_sels then "" else "!dfs" in
      "it(" ^ px_iter r ^ "," ^ px_iter a ^ ")" ^ chk) ops in
  "build=" ^ (if errs = [] then "ok" else "err") ^ " " ^ px_doc d ^ " " ^ p_list (fun x -> x) its

let families = [ ("xbuild", xbuild) ]
