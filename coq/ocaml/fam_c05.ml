(* C05 family: c05_accept.  input: <hex of source text>
   output: rej | acc <kind>:<hex name or ->;...   (kind = rg_defkind_code = number of the cst::Definition variant) *)
open Model
open Util

let c05_show_def ((k, n) : rg_def) : string =
  string_of_int (int_of_n (rg_defkind_code k)) ^ ":" ^ (match n with None -> "-" | Some s -> hex_of_str s)

let c05_accept (line : string) : string =
  match rg_parse_source (str_of_hex line) with
  | None -> "rej"
  | Some [] -> "acc -"
  | Some ds -> "acc " ^ String.concat ";" (List.map c05_show_def ds)

(* c05_tokens: the significant tokens of a source as the model sees them: <code>:<hex text> ... | lexerr *)
let c05_tokens (line : string) : string =
  match rg_significant (lex_all (str_of_hex line)) with
  | None -> "lexerr"
  | Some ts ->
    if ts = [] then "-" else
    String.concat " " (List.map (fun (k, d) -> string_of_int (int_of_n (tkind_code k)) ^ ":" ^ hex_of_str d) ts)

let families = [ ("c05_accept", c05_accept); ("c05_tokens", c05_tokens) ]
