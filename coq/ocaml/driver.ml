(* modelrun <family> : one case per stdin line, one canonical observation per stdout line *)
let families = List.concat [ Fam_c23.families ]

let () =
  let fam = Sys.argv.(1) in
  match List.assoc_opt fam families with
  | None -> prerr_endline ("unknown family " ^ fam); exit 2
  | Some f ->
    Util.iter_lines (fun line ->
      try f line with
      | Stack_overflow -> "model-stack-overflow"
      | Failure m -> "model-failure " ^ m)
