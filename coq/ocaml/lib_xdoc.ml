(* Printers for the typed executable document (Exec/Doc.v), the canonical text compared with
   harness/src/c18.rs, and the case-line reader shared by the C18/C19/C20 families. *)
open Model
open Util
open Lib_ast

(* F(alias,name,def,selty,[subs]) | S(name) | I(cond,ty,[subs]) *)
let rec px_sel = function
  | XsField (def, alias, name, _, _, ty, sub) ->
    "F(" ^ p_opt p_str alias ^ "," ^ p_str name ^ "," ^ p_fd def ^ "," ^ p_str ty ^ "," ^ p_list px_sel sub ^ ")"
  | XsSpread (name, _) -> "S(" ^ p_str name ^ ")"
  | XsInline (cond, _, ty, sub) -> "I(" ^ p_opt p_str cond ^ "," ^ p_str ty ^ "," ^ p_list px_sel sub ^ ")"

let px_op (o : xop) =
  "op(" ^ p_optype o.xo_type ^ "," ^ p_opt p_str o.xo_name ^ "," ^ p_str o.xo_ty ^ ","
  ^ string_of_int (List.length o.xo_vars) ^ "," ^ p_list px_sel o.xo_sels ^ ")"

let px_frag (f : xfrag) = "fr(" ^ p_str f.xf_name ^ "," ^ p_str f.xf_ty ^ "," ^ p_list px_sel f.xf_sels ^ ")"

let px_doc (d : xdoc) =
  "doc(" ^ p_opt px_op d.xd_anon ^ "," ^ p_list (fun (_, o) -> px_op o) d.xd_named ^ ","
  ^ p_list (fun (_, f) -> px_frag f) d.xd_frags ^ ")"

(* one yielded field: P(response key, name, selection set type) *)
let px_yield = function
  | XsField (_, alias, name, _, _, ty, _) ->
    "P(" ^ p_str (xs_response_key alias name) ^ "," ^ p_str name ^ "," ^ p_str ty ^ ")"
  | _ -> "notafield"

let px_iter = function
  | None -> "outoffuel"
  | Some l -> p_list px_yield l

(* case line: <S|N> <hex schema> <hex doc> <schema term|-> <ast term> *)
type xcase = { xc_schema : schema option; xc_ast : definition list }
(* consecutive cases share schemas: remember the last schema term read *)
let last_schema : (string * schema) option ref = ref None
let schema_of_term_cached (t : string) : schema =
  match !last_schema with
  | Some (k, v) when k = t -> v
  | _ -> let v = Lib_schema.schema_of_string t in last_schema := Some (t, v); v
let read_case (line : string) : xcase =
  match String.split_on_char ' ' line with
  | mode :: _ :: _ :: sch :: ast :: _ ->
    { xc_schema = (if mode = "N" then None else Some (schema_of_term_cached sch));
      xc_ast = document_of_string ast }
  | _ -> failwith "exec case line"
