(* C17 families.  c17_valid: `<schema dump (with built-ins)> <ast dump of the executable document>`
   -> `valid` | `invalid <names of the violated rules>` | `outside-limits` | `fuel` *)
open Model
open Util

let rule_names = [
  "executable_definitions"; "operation_name_unique"; "lone_anonymous"; "subscription_single_root";
  "fields_defined"; "fields_merge"; "leaf_selections"; "argument_names"; "argument_unique";
  "required_arguments"; "fragment_name_unique"; "fragment_type_exists"; "fragment_on_composite";
  "fragments_used"; "spread_target_defined"; "no_fragment_cycles"; "spread_possible";
  "values_correct_type"; "input_field_names"; "input_field_unique"; "input_required_fields";
  "variable_unique"; "variables_input_types"; "variables_defined"; "variables_used";
  "variable_usages_allowed"; "directives_defined"; "directive_locations"; "directives_unique";
  "root_operation_defined"; "subscription_no_skip_include" ]

(* pure caching of the last schema text (cases of one schema are contiguous) *)
let last_schema : (string * schema) option ref = ref None
let schema_of (txt : string) : schema =
  match !last_schema with
  | Some (t, s) when String.equal t txt -> s
  | _ -> let s = Lib_schema.schema_of_string txt in last_schema := Some (txt, s); s

let failed_rules (v : bool list) : string list =
  if List.length v <> List.length rule_names then failwith "c17: rule vector length";
  List.concat (List.map2 (fun n b -> if b then [] else [n]) rule_names v)

let c17_valid (line : string) : string =
  match String.index_opt line ' ' with
  | None -> failwith "c17_valid line"
  | Some i ->
    let s = schema_of (String.sub line 0 i) in
    let d = Lib_ast.document_of_string (String.sub line (i + 1) (String.length line - i - 1)) in
    if not (xv_within_limits d) then "outside-limits"
    else if xv_merge_out_of_fuel s d then "fuel"
    else
      let v = xv_rule_vector xv_apollo_params s d in
      (* model against model: the literal models of selection.rs and fragment.rs against the specification's rules *)
      let acyclic = xv_r_no_fragment_cycles d in
      let cyc = if fc_all_ok d = acyclic then "agree" else "differ" in
      let xing =
        if not acyclic then "na"
        (* same_value / by_name assume what 5.4.2 and 5.6.3 guarantee: no repeated argument or object field *)
        else if not (xv_r_argument_unique s d && xv_r_input_field_unique s d) then "na-dup"
        (* from_ast.rs drops undefined fields, leaf fields with a sub-selection and fragments on undefined types:
           the two are compared on documents that are built without loss *)
        else if not (xv_r_fields_defined s d && xv_r_leaf_selections s d && xv_r_fragment_type_exists s d
                     && xv_r_fragment_on_composite s d) then "na-dropped"
        else match mx_document_ok s d, xv_merge_verdict s d with
          | Some a, Some b -> if a = b then "agree" else "differ"
          | _, _ -> "fuel" in
      (match failed_rules v with
       | [] -> "valid"
       | l -> "invalid " ^ String.concat "," l) ^ " xing=" ^ xing ^ " cycles=" ^ cyc

let families = [ ("c17_valid", c17_valid) ]
