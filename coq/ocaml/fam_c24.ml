(* C24 families: c24_introspect, c24_builtins (the reference side).
   case line: <hex schema> <hex query> <schema dump (b)> <ast dump of the query>   (the first two are for implrun) *)
open Model
open Util

(* JSON text of an IrJson.  An order-free list is written {"#bag":[...]} and an IrErr as {"#err":n}:
   `#` cannot start a response key, so neither can be confused with response data. *)
let json_string (b : Buffer.t) (s : n list) : unit =
  Buffer.add_char b '"';
  List.iter (fun c ->
    let c = int_of_n c in
    if c = 34 then Buffer.add_string b "\\\""
    else if c = 92 then Buffer.add_string b "\\\\"
    else if c < 32 || c = 127 then Buffer.add_string b (Printf.sprintf "\\u%04x" c)
    else Buffer.add_string b (utf8_of_codepoints [c])) s;
  Buffer.add_char b '"'

let rec json (b : Buffer.t) (j : irJson) : unit =
  match j with
  | IrNull -> Buffer.add_string b "null"
  | IrBool true -> Buffer.add_string b "true"
  | IrBool false -> Buffer.add_string b "false"
  | IrStr s -> json_string b s
  | IrNum t -> Buffer.add_string b (ascii_of_str t)
  | IrArr (free, l) ->
    if free then Buffer.add_string b "{\"#bag\":";
    Buffer.add_char b '[';
    List.iteri (fun i x -> if i > 0 then Buffer.add_char b ','; json b x) l;
    Buffer.add_char b ']';
    if free then Buffer.add_char b '}'
  | IrObj kv ->
    Buffer.add_char b '{';
    List.iteri (fun i (k, x) -> if i > 0 then Buffer.add_char b ','; json_string b k; Buffer.add_char b ':'; json b x) kv;
    Buffer.add_char b '}'
  | IrErr c -> Buffer.add_string b (Printf.sprintf "{\"#err\":%d}" (int_of_n c))

let fields line = Array.of_list (String.split_on_char ' ' line)

let dumped what (s : string) : string option =
  (* `ok <dump>` from schema_dump / ast_dump; anything else means the real front end rejected the input *)
  if String.length s > 3 && String.sub s 0 3 = "ok:" then Some (String.sub s 3 (String.length s - 3)) else None

let c24_introspect (line : string) : string =
  let f = fields line in
  match dumped "schema" f.(2), dumped "query" f.(3) with
  | Some sd, Some qd ->
    let s = Lib_schema.schema_of_string sd in
    let doc = Lib_ast.document_of_string qd in
    let b = Buffer.create 65536 in
    json b (ir_introspect_doc s doc);
    "ok e=0 " ^ Buffer.contents b
    ^ (if ir_is_standard_query doc then " std" else "")
  | _ -> "not-dumped"

let c24_builtins (line : string) : string =
  let f = fields line in
  match dumped "schema" f.(1) with
  | Some sd ->
    let s = Lib_schema.schema_of_string sd in
    let c = int_of_n (ir_builtins_check s) in
    if c <> 0 then Printf.sprintf "bad builtins=%d" c
    else if not (ir_wf s) then "bad wf"
    else "ok"
  | None -> "not-dumped"

let families = [ ("c24_introspect", c24_introspect); ("c24_builtins", c24_builtins) ]
