(* Reader / printer for the compact Schema text of harness/src/schemadump.rs (Schema/Model.v types). *)
open Model
open Util
open Lib_ast

let d_nat = function
  | T (n, []) when String.length n > 1 && n.[0] = 'n' -> n_of_int (int_of_string (String.sub n 1 (String.length n - 1)))
  | _ -> failwith "schema: nat"
let d_origin = function
  | T ("Od", []) -> ODef | T ("Ox", [n]) -> OExt (d_nat n) | _ -> failwith "schema: origin"
let d_comp f = function
  | T ("C", [o; v]) -> { c_origin = d_origin o; c_val = f v } | _ -> failwith "schema: comp"
let d_sdirs = d_list (d_comp d_dir)

let d_ext_type = function
  | T ("ESa", [d; n; dirs; b]) -> EScalar (d_opt d_str d, d_str n, d_sdirs dirs, d_bool b)
  | T ("EOb", [d; n; i; dirs; f; b]) ->
    EObject (d_opt d_str d, d_str n, d_list (d_comp d_str) i, d_sdirs dirs, d_list (d_comp d_fd) f, d_bool b)
  | T ("EIf", [d; n; i; dirs; f; b]) ->
    EInterface (d_opt d_str d, d_str n, d_list (d_comp d_str) i, d_sdirs dirs, d_list (d_comp d_fd) f, d_bool b)
  | T ("EUn", [d; n; dirs; m; b]) -> EUnion (d_opt d_str d, d_str n, d_sdirs dirs, d_list (d_comp d_str) m, d_bool b)
  | T ("EEn", [d; n; dirs; v; b]) -> EEnum (d_opt d_str d, d_str n, d_sdirs dirs, d_list (d_comp d_ev) v, d_bool b)
  | T ("EIn", [d; n; dirs; f; b]) -> EInput (d_opt d_str d, d_str n, d_sdirs dirs, d_list (d_comp d_iv) f, d_bool b)
  | _ -> failwith "schema: ext_type"

let d_dirdef = function
  | T ("DD", [d; n; args; rep; locs; b]) ->
    { dd_desc = d_opt d_str d; dd_name = d_str n; dd_args = d_list d_iv args; dd_repeatable = d_bool rep;
      dd_locs = d_list d_loc locs; dd_builtin = d_bool b }
  | _ -> failwith "schema: dirdef"

let d_schema_def = function
  | T ("SD", [d; dirs; q; m; s]) ->
    { sd_desc = d_opt d_str d; sd_dirs = d_sdirs dirs; sd_query = d_opt (d_comp d_str) q;
      sd_mutation = d_opt (d_comp d_str) m; sd_subscription = d_opt (d_comp d_str) s }
  | _ -> failwith "schema: schema_def"

let schema_of_term = function
  | T ("Sch", [sd; dds; tys]) ->
    { sch_def = d_schema_def sd; sch_dirdefs = d_list d_dirdef dds; sch_types = d_list d_ext_type tys }
  | _ -> failwith "schema: schema"
let schema_of_string (s : string) : schema = schema_of_term (parse_term s)

let p_origin = function ODef -> "Od" | OExt n -> "Ox(n" ^ string_of_int (int_of_n n) ^ ")"
let p_comp f c = "C(" ^ p_origin c.c_origin ^ "," ^ f c.c_val ^ ")"
let p_sdirs = p_list (p_comp p_dir)
let p_ext_type = function
  | EScalar (d, n, dirs, b) -> "ESa(" ^ p_opt p_str d ^ "," ^ p_str n ^ "," ^ p_sdirs dirs ^ "," ^ p_bool b ^ ")"
  | EObject (d, n, i, dirs, f, b) ->
    "EOb(" ^ p_opt p_str d ^ "," ^ p_str n ^ "," ^ p_list (p_comp p_str) i ^ "," ^ p_sdirs dirs ^ "," ^ p_list (p_comp p_fd) f ^ "," ^ p_bool b ^ ")"
  | EInterface (d, n, i, dirs, f, b) ->
    "EIf(" ^ p_opt p_str d ^ "," ^ p_str n ^ "," ^ p_list (p_comp p_str) i ^ "," ^ p_sdirs dirs ^ "," ^ p_list (p_comp p_fd) f ^ "," ^ p_bool b ^ ")"
  | EUnion (d, n, dirs, m, b) ->
    "EUn(" ^ p_opt p_str d ^ "," ^ p_str n ^ "," ^ p_sdirs dirs ^ "," ^ p_list (p_comp p_str) m ^ "," ^ p_bool b ^ ")"
  | EEnum (d, n, dirs, v, b) ->
    "EEn(" ^ p_opt p_str d ^ "," ^ p_str n ^ "," ^ p_sdirs dirs ^ "," ^ p_list (p_comp p_ev) v ^ "," ^ p_bool b ^ ")"
  | EInput (d, n, dirs, f, b) ->
    "EIn(" ^ p_opt p_str d ^ "," ^ p_str n ^ "," ^ p_sdirs dirs ^ "," ^ p_list (p_comp p_iv) f ^ "," ^ p_bool b ^ ")"
let p_dirdef d =
  "DD(" ^ p_opt p_str d.dd_desc ^ "," ^ p_str d.dd_name ^ "," ^ p_list p_iv d.dd_args ^ "," ^ p_bool d.dd_repeatable ^ ","
  ^ p_list p_loc d.dd_locs ^ "," ^ p_bool d.dd_builtin ^ ")"
let p_schema_def sd =
  "SD(" ^ p_opt p_str sd.sd_desc ^ "," ^ p_sdirs sd.sd_dirs ^ "," ^ p_opt (p_comp p_str) sd.sd_query ^ ","
  ^ p_opt (p_comp p_str) sd.sd_mutation ^ "," ^ p_opt (p_comp p_str) sd.sd_subscription ^ ")"
let string_of_schema (s : schema) : string =
  "Sch(" ^ p_schema_def s.sch_def ^ "," ^ p_list p_dirdef s.sch_dirdefs ^ "," ^ p_list p_ext_type s.sch_types ^ ")"
