(* Hand-written glue (trusted): hex / UTF-8 / number conversions between the wire format and the
   extracted datatypes.  N, positive stay the extracted inductives. *)
open Model

let rec pos_of_int (i : int) : positive =
  if i = 1 then XH else if i land 1 = 0 then XO (pos_of_int (i lsr 1)) else XI (pos_of_int (i lsr 1))
let n_of_int (i : int) : n = if i = 0 then N0 else Npos (pos_of_int i)
let rec int_of_pos (p : positive) : int =
  match p with XH -> 1 | XO q -> 2 * int_of_pos q | XI q -> 2 * int_of_pos q + 1
let int_of_n (x : n) : int = match x with N0 -> 0 | Npos p -> int_of_pos p

let hexval c = match c with
  | '0'..'9' -> Char.code c - 48 | 'a'..'f' -> Char.code c - 87 | 'A'..'F' -> Char.code c - 55
  | _ -> failwith "bad hex"

(* "-" encodes the empty string *)
let bytes_of_hex (h : string) : string =
  if h = "-" then "" else
  String.init (String.length h / 2) (fun i -> Char.chr (hexval h.[2*i] * 16 + hexval h.[2*i+1]))

let hex_of_bytes (s : string) : string =
  if s = "" then "-" else
  let b = Buffer.create (2 * String.length s) in
  String.iter (fun c -> Buffer.add_string b (Printf.sprintf "%02x" (Char.code c))) s;
  Buffer.contents b

(* UTF-8 decode (input is valid UTF-8: it comes from a Rust &str / Python str) *)
let codepoints_of_utf8 (s : string) : int list =
  let n = String.length s in
  let rec go i acc =
    if i >= n then List.rev acc else
    let c = Char.code s.[i] in
    if c < 0x80 then go (i+1) (c :: acc)
    else if c < 0xE0 then go (i+2) ((((c land 0x1F) lsl 6) lor (Char.code s.[i+1] land 0x3F)) :: acc)
    else if c < 0xF0 then
      go (i+3) ((((c land 0x0F) lsl 12) lor ((Char.code s.[i+1] land 0x3F) lsl 6) lor (Char.code s.[i+2] land 0x3F)) :: acc)
    else
      go (i+4) ((((c land 0x07) lsl 18) lor ((Char.code s.[i+1] land 0x3F) lsl 12)
                 lor ((Char.code s.[i+2] land 0x3F) lsl 6) lor (Char.code s.[i+3] land 0x3F)) :: acc)
  in go 0 []

let utf8_of_codepoints (l : int list) : string =
  let b = Buffer.create 16 in
  List.iter (fun c ->
    if c < 0x80 then Buffer.add_char b (Char.chr c)
    else if c < 0x800 then (Buffer.add_char b (Char.chr (0xC0 lor (c lsr 6)));
                            Buffer.add_char b (Char.chr (0x80 lor (c land 0x3F))))
    else if c < 0x10000 then (Buffer.add_char b (Char.chr (0xE0 lor (c lsr 12)));
                              Buffer.add_char b (Char.chr (0x80 lor ((c lsr 6) land 0x3F)));
                              Buffer.add_char b (Char.chr (0x80 lor (c land 0x3F))))
    else (Buffer.add_char b (Char.chr (0xF0 lor (c lsr 18)));
          Buffer.add_char b (Char.chr (0x80 lor ((c lsr 12) land 0x3F)));
          Buffer.add_char b (Char.chr (0x80 lor ((c lsr 6) land 0x3F)));
          Buffer.add_char b (Char.chr (0x80 lor (c land 0x3F))))) l;
  Buffer.contents b

let str_of_hex (h : string) : n list = List.map n_of_int (codepoints_of_utf8 (bytes_of_hex h))
let hex_of_str (s : n list) : string = hex_of_bytes (utf8_of_codepoints (List.map int_of_n s))
let str_of_ascii (a : string) : n list = List.map n_of_int (codepoints_of_utf8 a)
let ascii_of_str (s : n list) : string = utf8_of_codepoints (List.map int_of_n s)

let split_on c s = if s = "" then [] else String.split_on_char c s

let iter_lines (f : string -> string) : unit =
  (try
    while true do
      let line = input_line stdin in
      print_string (f line); print_char '\n'
    done
  with End_of_file -> ());
  flush stdout
