(* C28 family: coerce_vars.  input: <schema dump (u)> <ast dump of the document> <compact json of the variables>
   output: ok <compact json, sorted keys> | err value | err bug ; then ` cls=<known class or ->` (the Coq
   predicates known_default_not_coerced / known_edge_int evaluated on the case) *)
open Model

let coerce_vars (line : string) : string =
  match String.split_on_char ' ' line with
  | [sch; doc; vals] ->
    let s = Lib_run.with_builtin_scalars (Lib_schema.schema_of_string sch) in
    let d = Lib_ast.document_of_string doc in
    let values = match Lib_json.json_of_string vals with JObj m -> m | _ -> failwith "variables object" in
    (match cv_first_operation d with
     | None -> "invalid-document"
     | Some vars ->
       let cls = if known_default_not_coerced s vars then "default_not_coerced"
                 else if known_edge_int values then "edge_int" else "-" in
       let obs = match coerce_variable_values s vars values with
        | CvOk r ->
          (* the model's own result must conform (C28_conforms), checked here as a sanity oracle of the glue *)
          "ok Jo(" ^ Lib_json.p_jmap true r ^ ")"
        | CvErr CvValueError -> "err value"
        | CvErr CvValidationBug -> "err bug"
        | CvOutOfFuel -> "model-out-of-fuel" in
       obs ^ " cls=" ^ cls)
  | _ -> failwith "coerce_vars line"

let families = [ ("coerce_vars", coerce_vars) ]
