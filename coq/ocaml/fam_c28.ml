(* C28 family: coerce_vars.  input: <schema dump (u)> <ast dump of the document> <compact json of the variables>
   output: ok <compact json, sorted keys> | err value | err bug ; then ` cls=<known class or ->` (the Coq
   predicate known_default_not_coerced evaluated on the case) *)
open Model

let coerce_vars (line : string) : string =
  match String.split_on_char ' ' line with
  | [sch; doc; vals] ->
    let s = Lib_xrun.with_builtin_scalars (Lib_schema.schema_of_string sch) in
    let d = Lib_ast.document_of_string doc in
    let values = match Lib_json.json_of_string vals with JObj m -> m | _ -> failwith "variables object" in
    (match cv_first_operation d with
     | None -> "invalid-document"
     | Some vars ->
       let cls = if known_default_not_coerced s vars then "default_not_coerced" else "-" in
       let obs = match coerce_variable_values s vars values with
        | CvOk r ->
          (* the model's own result must conform (C28_conforms), checked here as a sanity oracle of the glue *)
          "ok Jo(" ^ Lib_json.p_jmap true r ^ ")"
        | CvErr CvValueError -> "err value"
        | CvErr CvValidationBug -> "err bug"
        | CvOutOfFuel -> "model-out-of-fuel" in
       obs ^ " cls=" ^ cls)
  | _ -> failwith "coerce_vars line"

(* the property's own predicates (C28_domain, C28_conforms) evaluated on a result produced by the IMPLEMENTATION:
   input: <schema dump> <ast dump> <values json> <result json as printed by the harness>
   output: ok | bad:domain | bad:conforms:<hex variable name> *)
let c28_oracle (line : string) : string =
  match String.split_on_char ' ' line with
  | [sch; doc; vals; res] ->
    let s = Lib_xrun.with_builtin_scalars (Lib_schema.schema_of_string sch) in
    let d = Lib_ast.document_of_string doc in
    let obj x = match Lib_json.json_of_string x with JObj m -> m | _ -> failwith "object" in
    let values = obj vals and r = obj res in
    (match cv_first_operation d with
     | None -> "invalid-document"
     | Some vars ->
       let expect = List.sort compare (List.map (fun vd -> vd.v_name) (List.filter (cv_var_present values) vars)) in
       let got = List.sort compare (List.map fst r) in
       if expect <> got then "bad:domain" else
       match List.find_opt (fun vd -> match jmap_get vd.v_name r with
                                      | Some rv -> not (conforms_input s rv vd.v_ty) | None -> false) vars with
       | Some vd -> "bad:conforms:" ^ Util.hex_of_str vd.v_name
       | None -> "ok")
  | _ -> failwith "c28_oracle line"

let families = [ ("coerce_vars", coerce_vars); ("c28_oracle", c28_oracle) ]
