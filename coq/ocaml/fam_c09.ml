(* C09 family: ser_string
   input : <cfg 0..5> <context> <depth 0..3> <hex string>
   output: lit <hex of the printed literal> | panic
   The configuration table and the context table (which indent level / single-line mode the string is
   printed at in each document position) mirror harness/src/c09.rs; both are part of the tie. *)
open Model
open Util

(* (indent_prefix, initial_indent_level) *)
let config = function
  | 0 -> (Some "  ", 0) | 1 -> (None, 0) | 2 -> (Some "\t", 0) | 3 -> (Some "    ", 3)
  | 4 -> (Some "", 0) | 5 -> (Some " ", 1)
  | _ -> failwith "cfg"

(* context -> (printed on a single line (on_single_line), levels above the initial one, is_description,
               does each enclosing list add a level) *)
let context = function
  | "argval" | "vardef" | "argdef_default_single" | "dirval" -> (true, 0, false, false)
  | "desc_type" | "desc_schema" | "desc_directive" | "desc_scalar" | "desc_input" | "desc_enum"
  | "desc_interface" | "desc_union" -> (false, 0, true, false)
  | "desc_field" | "desc_enumval" | "desc_inputfield" | "desc_dirarg" | "desc_ifield" -> (false, 1, true, false)
  | "desc_arg" -> (false, 2, true, false)
  | "value" -> (false, 0, false, true)
  | "input_default" -> (false, 1, false, true)
  | "argdef_default" -> (false, 2, false, true)
  | _ -> failwith "context"

let ser_string (line : string) : string =
  match String.split_on_char ' ' line with
  | [cfg; ctx; depth; h] ->
    let (prefix, init) = config (int_of_string cfg) in
    let (single, base, is_desc, lists) = context ctx in
    let depth = int_of_string depth in
    let level = init + base + (if lists then depth else 0) in
    let st = { se_prefix = (if single then None else Option.map str_of_ascii prefix);
               se_level = n_of_int level } in
    let s = str_of_hex h in
    let res =
      if is_desc then
        (match se_serialize_description st (Some s) with SuOk (lit, _) -> SuOk lit | SuPanic -> SuPanic)
      else se_serialize_string_value st false s in
    (match res with
     | SuPanic -> "panic"
     | SuOk lit ->
       (* cross-check of C09_chooser on this input *)
       (match sl_classify_literal lit, su_string_of_token lit with
        | (SlQuoted _ | SlBlock _), SuOk v when v = s -> "lit " ^ hex_of_str lit
        | _ -> "model-failure the model's literal does not decode to the string: " ^ hex_of_str lit))
  | _ -> failwith "ser_string line"

let families = [ ("ser_string", ser_string) ]
