(* shared by the C26/C27/C28 families *)
open Model
open Util

(* Schema::parse always defines the five built-in scalars (unused ones are pruned only after validation of
   documents that cannot mention them); the `u` schema dump leaves built-in definitions out to keep case lines
   small, so they are added back here. *)
let builtin_scalars : ext_type list =
  List.map (fun n -> EScalar (None, str_of_ascii n, [], true)) ["Int"; "Float"; "String"; "Boolean"; "ID"]

let with_builtin_scalars (s : schema) : schema =
  let have n = List.exists (fun t -> et_name t = n) s.sch_types in
  { s with sch_types = s.sch_types @ List.filter (fun t -> not (have (et_name t))) builtin_scalars }

(* ---- resolver worlds and execution observations (harness/src/c26.rs) ---- *)
open Lib_ast

let rec d_behav = function
  | T ("Rl", [j]) -> BhLeaf (Lib_json.d_json j)
  | T ("Ro", [id; ty]) -> BhObject (Lib_schema.d_nat id, d_str ty)
  | T ("Ra", [l]) -> BhList (d_list d_behav l)
  | T ("Re", []) -> BhErr
  | T ("Rs", []) -> BhSkip
  | T ("Rg", []) -> BhEcho
  | _ -> failwith "world: behaviour"

let d_world (t : term) = d_list (function
  | T ("W", [o; f; b]) -> ((Lib_schema.d_nat o, d_str f), d_behav b)
  | _ -> failwith "world: entry") t

let world_of_string (s : string) = d_world (parse_term s)

let p_class = function EcResolver -> "r" | EcBug -> "b" | _ -> "f"
let p_seg = function PsKey k -> "k" ^ p_str k | PsIdx i -> "i" ^ string_of_int (int_of_n i)
let p_err e = "E(" ^ p_class e.ge_class ^ "," ^ p_list p_seg e.ge_path ^ ")"
let p_call c = "C(n" ^ string_of_int (int_of_n c.ec_obj) ^ "," ^ p_str c.ec_field ^ ",Jo(" ^ Lib_json.p_jmap false c.ec_args ^ "))"

let p_response (r : eresponse) : string =
  let data = match r.er_data with None -> "N" | Some m -> "S(Jo(" ^ Lib_json.p_jmap false m ^ "))" in
  "data=" ^ data ^ " errors=" ^ p_list p_err r.er_errors

let p_outcome (o : eoutcome) (log : ecall list) : string =
  match o with
  | EoResponse r -> "ok " ^ p_response r ^ " log=" ^ p_list p_call log
  | EoRequestError -> "reqerr"
  | EoInvalid -> "invalid-document"
  | EoFuel -> "model-out-of-fuel"
