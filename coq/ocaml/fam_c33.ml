(* C33 family: smith_response
   input:  <null> <min> <max> <streams> <opname> <schema-src-hex> <doc-src-hex> <schema-dump> <ast-dump>
     null    : none | <n>/<d>
     streams : ';'-separated; each '-' (empty) or '.'-separated decimal choices
     opname  : '-' (None) or hex
   the model reads the dumps (produced by the real parser / schema builder: two-stage tie), not the sources.
   output: one result per stream, joined by ';' : ok:<json> | exhausted | emptychoose | panic | invalid | fuel *)
open Model
open Util

let rec nat_of_int (i : int) : nat = if i <= 0 then O else S (nat_of_int (i - 1))

let int_of_z = function Z0 -> 0 | Zpos p -> int_of_pos p | Zneg p -> - (int_of_pos p)

let rec show_json (j : rs_json) : string =
  match j with
  | RJNull -> "null"
  | RJBool b -> if b then "true" else "false"
  | RJInt z -> string_of_int (int_of_z z)
  | RJFloat h -> "F" ^ string_of_int (int_of_z h)
  | RJString s -> "\"" ^ ascii_of_str s ^ "\""
  | RJArray l -> "[" ^ String.concat "," (List.map show_json l) ^ "]"
  | RJObject kvs ->
    "{" ^ String.concat "," (List.map (fun (k, v) -> "\"" ^ ascii_of_str k ^ "\":" ^ show_json v) kvs) ^ "}"

let parse_stream (s : string) : n list =
  if s = "-" then [] else List.map (fun x -> n_of_int (int_of_string x)) (String.split_on_char '.' s)

let parse_null (s : string) : (n * n) option =
  if s = "none" then None else
  match String.split_on_char '/' s with
  | [a; b] -> Some (n_of_int (int_of_string a), n_of_int (int_of_string b))
  | _ -> failwith "null ratio"

let c33_fuel = nat_of_int 60

let smith_response (line : string) : string =
  match String.split_on_char ' ' line with
  | [nul; mn; mx; streams; opname; _ssrc; _dsrc; sdump; adump] ->
    let cfg = { rc_min = n_of_int (int_of_string mn); rc_max = n_of_int (int_of_string mx); rc_null = parse_null nul } in
    let s = Lib_schema.schema_of_string sdump in
    let d = Lib_ast.document_of_string adump in
    let op = if opname = "-" then None else Some (str_of_hex opname) in
    let one st =
      match rs_build_data c33_fuel cfg s d op (parse_stream st) with
      | RsOk (j, _) -> "ok:" ^ show_json j
      | RsExhausted -> "exhausted"
      | RsEmptyChoose -> "emptychoose"
      | RsPanic -> "panic"
      | RsInvalidDoc -> "invalid"
      | RsFuel -> "fuel" in
    String.concat ";" (List.map one (String.split_on_char ';' streams))
  | _ -> failwith "smith_response line"

(* input: <opname> <schema-src-hex> <doc-src-hex> <schema-dump> <ast-dump>;
   output: cov=<0|1> (rs_known_covariant) typed=<0|1> (rs_typed_operation: the hypotheses of C33_no_panic) *)
let smith_class (line : string) : string =
  match String.split_on_char ' ' line with
  | [opname; _ssrc; _dsrc; sdump; adump] ->
    let s = Lib_schema.schema_of_string sdump in
    let d = Lib_ast.document_of_string adump in
    let op = if opname = "-" then None else Some (str_of_hex opname) in
    "cov=" ^ (if rs_known_covariant s d then "1" else "0")
    ^ " typed=" ^ (if rs_typed_operation s d op then "1" else "0")
  | _ -> failwith "smith_class line"

let families = [ ("smith_response", smith_response); ("smith_class", smith_class) ]
