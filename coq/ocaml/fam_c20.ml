(* C20 family xstandalone: the standalone verdict of the model, and the standalone rules evaluated on the
   document typed against the schema (the conjuncts of validation with a schema that C20 is about) *)
open Model
open Util
open Lib_xdoc

let xstandalone (line : string) : string =
  let c = read_case line in
  let b x = if x then "t" else "f" in
  let alone = xv_validate_standalone_executable c.xc_ast in
  let (d0, e0) = xb_from_ast None c.xc_ast in
  let fuel = ref (xv_fuel_ok d0) in
  let typed = match c.xc_schema with
    | None -> "-"
    | Some s ->
      let (d, errs) = xb_from_ast (Some s) c.xc_ast in
      fuel := !fuel && xv_fuel_ok d;
      b (errs = [] && xv_standalone_valid d) in
  let closed = match c.xc_schema with None -> "-" | Some s -> b (xs_closedb s) in
  "alone=" ^ b alone ^ " typed=" ^ typed ^ " closed=" ^ closed ^ " fuel=" ^ (if !fuel then "ok" else "out")
  ^ " rules=" ^ b (e0 = []) ^ b (xv_operation_definitions d0) ^ b (xv_fragments_used d0) ^ b (xv_defer d0)

let families = [ ("xstandalone", xstandalone) ]
