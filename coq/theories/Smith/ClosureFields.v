(* The field half of one backfill iteration: every field of the map inherited from the direct parents
   (first parent wins) is, afterwards, the field the definitions of `name` have under that name. *)
From Coq Require Import Lia.
From ApolloVerif Require Import Base.Chars Ast.Ast Smith.Closure Smith.ClosureProofs.

Definition cl_fname_is (fname : str) (f : cl_field) : bool := streq (clf_name f) fname.

(* all fields the definitions of `name` declare, in order *)
Definition cl_all_fields (defs : list cl_def) (name : str) : list cl_field :=
  flat_map (fun d => if streq (cld_name d) name then cld_fields d else []) defs.

Lemma cl_sig_get_find m fname : cl_sig_get m fname = find (cl_fname_is fname) m.
Proof. reflexivity. Qed.

Lemma cl_find_app {A} (p : A -> bool) a b :
  find p (a ++ b) = match find p a with Some x => Some x | None => find p b end.
Proof. induction a as [|x a IH]; cbn [app find]; [reflexivity|]. destruct (p x); auto. Qed.

Lemma cl_fold_insert_find L : forall m fname,
  find (cl_fname_is fname) (fold_left cl_sig_insert L m) =
  match find (cl_fname_is fname) m with Some x => Some x | None => find (cl_fname_is fname) L end.
Proof.
  induction L as [|f L IH]; intros m fname; cbn [fold_left find].
  - destruct (find _ m); reflexivity.
  - rewrite IH. unfold cl_sig_insert. rewrite cl_sig_get_find.
    destruct (find (cl_fname_is (clf_name f)) m) as [e|] eqn:Em.
    + destruct (find (cl_fname_is fname) m) eqn:E; [reflexivity|].
      destruct (cl_fname_is fname f) eqn:Ef; [|reflexivity].
      (* f's name is fname, and m has an entry of f's name: contradiction with E *)
      unfold cl_fname_is in Ef. apply streq_eq in Ef. rewrite Ef in Em. congruence.
    + rewrite cl_find_app. cbn [find]. destruct (find (cl_fname_is fname) m); [reflexivity|].
      destruct (cl_fname_is fname f); reflexivity.
Qed.

Lemma cl_fields_of_flat defs name : forall m,
  fold_left (fun m d => if streq (cld_name d) name then fold_left cl_sig_insert (cld_fields d) m else m) defs m
  = fold_left cl_sig_insert (cl_all_fields defs name) m.
Proof.
  induction defs as [|d defs IH]; intros m; cbn [fold_left cl_all_fields flat_map]; [reflexivity|].
  rewrite IH. fold (cl_all_fields defs name). rewrite fold_left_app.
  destruct (streq (cld_name d) name); reflexivity.
Qed.

(* looking a field up in the (first-wins) signature map of `name` = the first field of that name *)
Lemma cl_fields_of_lookup defs name fname :
  cl_sig_get (cl_fields_of defs name) fname = find (cl_fname_is fname) (cl_all_fields defs name).
Proof. unfold cl_fields_of. rewrite cl_fields_of_flat, cl_sig_get_find, cl_fold_insert_find. reflexivity. Qed.

(* ---- the inherited map has one entry per field name ---- *)
Definition cl_names (m : list cl_field) : list str := map clf_name m.

Lemma cl_find_none_names m fname : find (cl_fname_is fname) m = None <-> ~ In fname (cl_names m).
Proof.
  induction m as [|f m IH]; cbn [find cl_names map In]; [tauto|]. unfold cl_fname_is at 1.
  destruct (streq (clf_name f) fname) eqn:E.
  - apply streq_eq in E. split; [discriminate|]. intros H. exfalso. apply H. now left.
  - apply cl_streq_false in E. rewrite IH. unfold cl_names. tauto.
Qed.

Lemma cl_sig_insert_nodup m f : NoDup (cl_names m) -> NoDup (cl_names (cl_sig_insert m f)).
Proof.
  intros H. unfold cl_sig_insert. rewrite cl_sig_get_find. destruct (find _ m) eqn:E; [exact H|].
  apply cl_find_none_names in E. unfold cl_names. rewrite map_app. cbn [map].
  apply cl_nodup_app; auto.
  - constructor; [intros []|constructor].
  - intros y [<-|[]]. exact E.
Qed.

Lemma cl_fold_insert_nodup L : forall m, NoDup (cl_names m) -> NoDup (cl_names (fold_left cl_sig_insert L m)).
Proof. induction L as [|f L IH]; intros m H; cbn [fold_left]; auto. apply IH. now apply cl_sig_insert_nodup. Qed.

Lemma cl_parent_fields_nodup parents defs : NoDup (cl_names (cl_parent_fields parents defs)).
Proof.
  unfold cl_parent_fields.
  assert (G : forall ps m, NoDup (cl_names m) ->
     NoDup (cl_names (fold_left (fun m p =>
        fold_left (fun m' d => if streq (cld_name d) p then fold_left cl_sig_insert (cld_fields d) m' else m') defs m)
        ps m))).
  { induction ps as [|p ps IH]; intros m H; cbn [fold_left]; auto. apply IH.
    clear IH. revert m H. induction defs as [|d ds IHd]; intros m H; cbn [fold_left]; auto.
    apply IHd. destruct (streq (cld_name d) p); auto. now apply cl_fold_insert_nodup. }
  apply G. constructor.
Qed.

(* ---- rewriting the declared fields ---- *)
Lemma cl_rewrite_fields_app a : forall b inh,
  cl_rewrite_fields (a ++ b) inh =
  let (a', i1) := cl_rewrite_fields a inh in let (b', i2) := cl_rewrite_fields b i1 in (a' ++ b', i2).
Proof.
  induction a as [|f a IH]; intros b inh; cbn [app cl_rewrite_fields].
  - destruct (cl_rewrite_fields b inh); reflexivity.
  - destruct (cl_sig_get inh (clf_name f)) as [pf|].
    + rewrite IH. destruct (cl_rewrite_fields a (cl_sig_remove inh (clf_name f))) as [a' i1].
      destruct (cl_rewrite_fields b i1) as [b' i2]. reflexivity.
    + rewrite IH. destruct (cl_rewrite_fields a inh) as [a' i1]. destruct (cl_rewrite_fields b i1) as [b' i2].
      reflexivity.
Qed.

Lemma cl_rewrite_defs_flat defs name : forall inh defs2 rest,
  cl_rewrite_defs defs name inh = (defs2, rest) ->
  cl_rewrite_fields (cl_all_fields defs name) inh = (cl_all_fields defs2 name, rest).
Proof.
  induction defs as [|d defs IH]; intros inh defs2 rest H; cbn [cl_rewrite_defs] in H.
  - injection H as <- <-. reflexivity.
  - cbn [cl_all_fields flat_map]. fold (cl_all_fields defs name). destruct (streq (cld_name d) name) eqn:E.
    + destruct (cl_rewrite_fields (cld_fields d) inh) as [fs' inh1] eqn:Ef.
      destruct (cl_rewrite_defs defs name inh1) as [r' inh2] eqn:Er. injection H as <- <-.
      rewrite cl_rewrite_fields_app, Ef, (IH _ _ _ Er). cbn [cl_all_fields flat_map cld_name cld_fields].
      rewrite E. reflexivity.
    + destruct (cl_rewrite_defs defs name inh) as [r' inh2] eqn:Er. injection H as <- <-.
      cbn [app]. rewrite (IH _ _ _ Er). cbn [cl_all_fields flat_map]. rewrite E. reflexivity.
Qed.

Lemma cl_sig_remove_names inh fname x : In x (cl_names (cl_sig_remove inh fname)) <-> In x (cl_names inh) /\ x <> fname.
Proof.
  unfold cl_sig_remove, cl_names. rewrite !in_map_iff. split.
  - intros (f & <- & Hf). apply filter_In in Hf as [Hf Hn]. apply negb_true_iff, cl_streq_false in Hn. eauto.
  - intros [(f & <- & Hf) Hne]. exists f. split; auto. apply filter_In. split; auto.
    now apply negb_true_iff, cl_streq_false.
Qed.

Lemma cl_sig_remove_In inh fname pf : In pf (cl_sig_remove inh fname) <-> In pf inh /\ clf_name pf <> fname.
Proof.
  unfold cl_sig_remove. rewrite filter_In. split; intros [H1 H2]; split; auto.
  - now apply negb_true_iff, cl_streq_false in H2.
  - now apply negb_true_iff, cl_streq_false.
Qed.

Lemma cl_find_In_nodup m pf :
  NoDup (cl_names m) -> In pf m -> find (cl_fname_is (clf_name pf)) m = Some pf.
Proof.
  induction m as [|f m IH]; intros Hnd Hin; [destruct Hin|]. destruct Hin as [<-|Hin]; cbn [find]; unfold cl_fname_is at 1.
  - now rewrite streq_refl.
  - inversion Hnd as [|? ? Hf Hm]; subst. destruct (streq (clf_name f) (clf_name pf)) eqn:E.
    + apply streq_eq in E. exfalso. apply Hf. rewrite E. now apply in_map.
    + now apply IH.
Qed.

(* what rewriting does: names are kept; an inherited field whose name is declared replaces the first field of
   that name; the others are left over *)
Lemma cl_rewrite_fields_spec L : forall inh L2 rest,
  NoDup (cl_names inh) ->
  cl_rewrite_fields L inh = (L2, rest) ->
  cl_names L2 = cl_names L /\
  (forall pf, In pf rest <-> In pf inh /\ ~ In (clf_name pf) (cl_names L)) /\
  NoDup (cl_names rest) /\
  (forall pf, In pf inh -> In (clf_name pf) (cl_names L) -> find (cl_fname_is (clf_name pf)) L2 = Some pf).
Proof.
  induction L as [|f L IH]; intros inh L2 rest Hnd H; cbn [cl_rewrite_fields] in H.
  - injection H as <- <-. repeat split; auto; try tauto. intros pf _ [].
  - destruct (cl_sig_get inh (clf_name f)) as [pf0|] eqn:Eg.
    + destruct (cl_rewrite_fields L (cl_sig_remove inh (clf_name f))) as [r' inh'] eqn:Er. injection H as <- <-.
      assert (Hnd' : NoDup (cl_names (cl_sig_remove inh (clf_name f)))).
      { unfold cl_names, cl_sig_remove. clear - Hnd. induction inh as [|x inh IHi]; cbn [filter map]; [constructor|].
        inversion Hnd as [|? ? Hx Hi]; subst. destruct (negb (streq (clf_name x) (clf_name f))); cbn [map]; auto.
        constructor; auto. intros Hin. apply Hx. apply in_map_iff in Hin as (y & Hy & Hyin).
        apply filter_In in Hyin as [Hyin _]. rewrite <- Hy. now apply in_map. }
      destruct (IH _ _ _ Hnd' Er) as (H1 & H2 & H3 & H4).
      rewrite cl_sig_get_find in Eg. pose proof (find_some _ _ Eg) as [Hin0 Hn0].
      unfold cl_fname_is in Hn0. apply streq_eq in Hn0.
      split; [unfold cl_names in *; cbn [map]; now rewrite Hn0, H1|]. split.
      { intros pf. rewrite H2, cl_sig_remove_In. cbn [cl_names map In]. intuition congruence. }
      split; [exact H3|].
      intros pf Hpf Hname. cbn [find]. unfold cl_fname_is at 1. destruct (streq (clf_name pf0) (clf_name pf)) eqn:E.
      * apply streq_eq in E. f_equal.
        (* unique names in inh: pf0 and pf have the same name *)
        pose proof (cl_find_In_nodup inh pf Hnd Hpf) as Hf1. pose proof (cl_find_In_nodup inh pf0 Hnd Hin0) as Hf0.
        rewrite E in Hf0. congruence.
      * apply cl_streq_false in E. apply H4.
        -- apply cl_sig_remove_In. split; auto. congruence.
        -- cbn [cl_names map In] in Hname. destruct Hname as [Hh|Hh]; [congruence|exact Hh].
    + destruct (cl_rewrite_fields L inh) as [r' inh'] eqn:Er. injection H as <- <-.
      destruct (IH _ _ _ Hnd Er) as (H1 & H2 & H3 & H4).
      rewrite cl_sig_get_find in Eg. apply cl_find_none_names in Eg.
      split; [unfold cl_names in *; cbn [map]; now rewrite H1|]. split.
      { intros pf. rewrite H2. cbn [cl_names map In]. split; [|tauto].
        intros [Hi Hn]. split; auto. intros [Hh|Hh]; [|contradiction]. apply Eg. rewrite Hh. now apply in_map. }
      split; [exact H3|].
      intros pf Hpf Hname. cbn [find]. unfold cl_fname_is at 1. destruct (streq (clf_name f) (clf_name pf)) eqn:E.
      * apply streq_eq in E. exfalso. apply Eg. rewrite E. now apply in_map.
      * apply H4; auto. cbn [cl_names map In] in Hname. destruct Hname as [Hh|Hh]; [|exact Hh].
        apply cl_streq_false in E. congruence.
Qed.

(* appending the left-over fields to the base definition: they land inside the field list of `name` *)
Lemma cl_update_at_fields defs rest name : forall base bd,
  nth_error defs base = Some bd -> cld_name bd = name ->
  exists pre post,
    cl_all_fields defs name = pre ++ post /\
    cl_all_fields (cl_update_at defs base (fun d =>
        {| cld_name := cld_name d; cld_extend := cld_extend d; cld_impls := cld_impls d;
           cld_fields := cld_fields d ++ rest |})) name = pre ++ rest ++ post.
Proof.
  induction defs as [|d defs IH]; intros [|base] bd Hn Hb; cbn [nth_error] in Hn; try discriminate.
  - injection Hn as ->. cbn [cl_update_at cl_all_fields flat_map cld_name cld_fields]. rewrite Hb, streq_refl.
    exists (cld_fields bd), (cl_all_fields defs name). fold (cl_all_fields defs name). split; auto.
    now rewrite <- !app_assoc.
  - destruct (IH base bd Hn Hb) as (pre & post & H1 & H2).
    cbn [cl_update_at cl_all_fields flat_map]. fold (cl_all_fields defs name).
    fold (cl_all_fields (cl_update_at defs base (fun d0 =>
        {| cld_name := cld_name d0; cld_extend := cld_extend d0; cld_impls := cld_impls d0;
           cld_fields := cld_fields d0 ++ rest |})) name).
    rewrite H1, H2. exists ((if streq (cld_name d) name then cld_fields d else []) ++ pre), post.
    now rewrite <- !app_assoc.
Qed.

Lemma cl_parent_fields_ext parents a b :
  map (fun d => (cld_name d, cld_fields d)) a = map (fun d => (cld_name d, cld_fields d)) b ->
  cl_parent_fields parents a = cl_parent_fields parents b.
Proof.
  intros E. unfold cl_parent_fields.
  assert (G : forall p m,
     fold_left (fun m' d => if streq (cld_name d) p then fold_left cl_sig_insert (cld_fields d) m' else m') a m =
     fold_left (fun m' d => if streq (cld_name d) p then fold_left cl_sig_insert (cld_fields d) m' else m') b m).
  { intros p. revert b E. induction a as [|x a IH]; intros [|y b] E m; try discriminate; [reflexivity|].
    injection E as E1 E2 E3. cbn [fold_left]. rewrite E1, E2. now apply IH. }
  assert (H : forall ps m,
     fold_left (fun m p => fold_left (fun m' d => if streq (cld_name d) p then fold_left cl_sig_insert (cld_fields d) m' else m') a m) ps m =
     fold_left (fun m p => fold_left (fun m' d => if streq (cld_name d) p then fold_left cl_sig_insert (cld_fields d) m' else m') b m) ps m).
  { induction ps as [|p ps IH]; intros m; cbn [fold_left]; [reflexivity|]. now rewrite G, IH. }
  apply H.
Qed.

Lemma cl_update_at_name_fields defs i f :
  (forall d, cld_name (f d) = cld_name d /\ cld_fields (f d) = cld_fields d) ->
  map (fun d => (cld_name d, cld_fields d)) (cl_update_at defs i f) = map (fun d => (cld_name d, cld_fields d)) defs.
Proof.
  intros Hf. revert i. induction defs as [|d defs IH]; intros [|i]; cbn [cl_update_at map]; auto.
  - destruct (Hf d) as [-> ->]. reflexivity.
  - now rewrite IH.
Qed.

Lemma cl_shape_names a : forall b, map cl_shape a = map cl_shape b -> map cld_name a = map cld_name b.
Proof.
  induction a as [|x a IH]; intros [|y b] E; try discriminate; auto.
  injection E as E1 _ E2. cbn [map]. rewrite E1. f_equal. now apply IH.
Qed.

(* C32_closure_fields_local: after one iteration for `name`, every field of the inherited map (the first-wins
   union of the direct parents' fields) is the field `name` has under that name *)
Theorem cl_backfill_one_inherits is_iface ifaces defs g name defs' :
  cl_backfill_one is_iface ifaces defs g name = Some defs' ->
  (exists d, In d defs /\ cld_name d = name) ->
  forall pf, In pf (cl_parent_fields (cl_direct_parents g name) (if is_iface then defs else ifaces)) ->
  cl_sig_get (cl_fields_of defs' name) (clf_name pf) = Some pf.
Proof.
  intros H Hhas pf Hpf. unfold cl_backfill_one in H.
  destruct (cl_base_index defs name) as [base|] eqn:Eb.
  2:{ destruct Hhas as (d & Hd & Hn). exfalso. eapply cl_base_index_none; eauto. }
  destruct (cl_base_index_spec _ _ _ Eb) as (bd & Hnth & Hbn).
  unfold cl_expand in H. destruct (cl_closure g name) as [cls|]; [|discriminate].
  set (upd := fun d : cl_def => {| cld_name := cld_name d; cld_extend := cld_extend d;
                                    cld_impls := _; cld_fields := cld_fields d |}) in H.
  set (defs1 := cl_update_at defs base upd) in H.
  assert (Enf : map (fun d => (cld_name d, cld_fields d)) defs1 = map (fun d => (cld_name d, cld_fields d)) defs).
  { unfold defs1. apply cl_update_at_name_fields. intros d. split; reflexivity. }
  set (inherited := cl_parent_fields (cl_direct_parents g name) (if is_iface then defs1 else ifaces)) in H.
  assert (Einh : inherited = cl_parent_fields (cl_direct_parents g name) (if is_iface then defs else ifaces)).
  { unfold inherited. destruct is_iface; [now apply cl_parent_fields_ext|reflexivity]. }
  rewrite <- Einh in Hpf.
  destruct (cl_rewrite_defs defs1 name inherited) as [defs2 rest] eqn:Er. injection H as <-.
  pose proof (cl_rewrite_defs_flat _ _ _ _ _ Er) as Hflat.
  assert (Hnd : NoDup (cl_names inherited)) by apply cl_parent_fields_nodup.
  destruct (cl_rewrite_fields_spec _ _ _ _ Hnd Hflat) as (Hnames & Hrest & Hrnd & Hfirst).
  (* the base definition is still at `base` in defs2, with the same name *)
  assert (Hnth2 : exists bd2, nth_error defs2 base = Some bd2 /\ cld_name bd2 = name).
  { pose proof (cl_rewrite_defs_shape _ _ _ _ _ Er) as Hs2.
    assert (Hs1 : map cld_name defs1 = map cld_name defs) by (unfold defs1; now apply cl_update_at_names).
    assert (Hn2 : map cld_name defs2 = map cld_name defs).
    { rewrite <- Hs1. now apply cl_shape_names. }
    assert (Hnm : nth_error (map cld_name defs2) base = Some name).
    { rewrite Hn2. rewrite nth_error_map, Hnth. cbn. now rewrite Hbn. }
    rewrite nth_error_map in Hnm. destruct (nth_error defs2 base) as [bd2|]; [|discriminate].
    exists bd2. split; auto. cbn in Hnm. congruence. }
  destruct Hnth2 as (bd2 & Hnth2 & Hbn2).
  destruct (cl_update_at_fields defs2 rest name base bd2 Hnth2 Hbn2) as (pre & post & Hpp & Hupd).
  rewrite cl_fields_of_lookup, Hupd.
  destruct (in_dec (list_eq_dec N.eq_dec) (clf_name pf) (cl_names (cl_all_fields defs1 name))) as [Hin|Hnin].
  - (* declared: the first field of that name was replaced by pf; the left-overs do not have that name *)
    specialize (Hfirst pf Hpf Hin). rewrite Hpp in Hfirst. rewrite cl_find_app in Hfirst.
    rewrite !cl_find_app. destruct (find (cl_fname_is (clf_name pf)) pre); [exact Hfirst|].
    assert (Hr : find (cl_fname_is (clf_name pf)) rest = None).
    { apply cl_find_none_names. intros Hc. apply in_map_iff in Hc as (q & Hq & Hqin). apply Hrest in Hqin as [_ Hqn].
      apply Hqn. now rewrite Hq. }
    now rewrite Hr.
  - (* not declared: pf is among the left-overs, and no declared field has its name *)
    assert (Hnone : forall l, incl (cl_names l) (cl_names (cl_all_fields defs2 name)) ->
                              find (cl_fname_is (clf_name pf)) l = None).
    { intros l Hl. apply cl_find_none_names. intros Hc. apply Hnin. rewrite <- Hnames. now apply Hl. }
    rewrite !cl_find_app.
    rewrite (Hnone pre) by (rewrite Hpp; unfold cl_names; rewrite map_app; intros x Hx; apply in_or_app; now left).
    assert (Hinr : In pf rest) by (apply Hrest; auto).
    now rewrite (cl_find_In_nodup rest pf Hrnd Hinr).
Qed.
