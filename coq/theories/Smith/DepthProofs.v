(* Proofs about Smith/Depth.v: with the bounds of repairs fix2-c32-3 / fix2-c32-4 the two nesting recursions of
   apollo-smith end within the bound for EVERY source, and their output nests at most that deep; without the
   bounds (the code before the repairs) a byte string of n ones gives a type with n list wrappers, and on an
   exhausted source the selection-set recursion over `type Query { q: Query }` has no result for any fuel. *)
From Coq Require Import Lia Arith PeanoNat.
Open Scope N_scope.
From ApolloVerif Require Import Base.Chars Ast.Ast Smith.Names Smith.Depth.

Lemma sd_at_bound_true b d : sd_at_bound (Some b) d = true <-> b <= d.
Proof. cbn [sd_at_bound]. apply N.leb_le. Qed.
Lemma sd_at_bound_false b d : sd_at_bound (Some b) d = false <-> d < b.
Proof. cbn [sd_at_bound]. apply N.leb_gt. Qed.

(* ------------------------------------------------------------------ types *)
Section Ty.
Context {Src : Type}.
Variable draw : N -> N -> Src -> N * Src.
Variable leaf : Src -> option (N * Src).

(* every type that comes out has at most b - depth wrappers *)
Lemma sd_gen_ty_bounded b : forall fuel nullable depth src t s',
  depth <= b ->
  sd_gen_ty draw fuel (Some b) leaf nullable depth src = SdOk (t, s') ->
  depth + sd_wrappers t <= b.
Proof.
  induction fuel as [|f IH]; intros nullable depth src t s' Hd H; [discriminate|].
  cbn [sd_gen_ty] in H.
  destruct (sd_at_bound (Some b) depth) eqn:Eb.
  - cbn [N.eqb] in H. destruct (leaf src) as [[i s2]|]; [|discriminate].
    injection H as <- _. cbn [sd_wrappers]. lia.
  - apply sd_at_bound_false in Eb. destruct (draw 0 2 src) as [kind s1].
    destruct (kind =? 0).
    + destruct (leaf s1) as [[i s2]|]; [|discriminate]. injection H as <- _. cbn [sd_wrappers]. lia.
    + destruct (kind =? 1).
      * destruct (sd_gen_ty draw f (Some b) leaf true (depth + 1) s1) as [[t1 s2]| |] eqn:E; try discriminate.
        injection H as <- _. apply IH in E; [|lia]. cbn [sd_wrappers]. lia.
      * destruct nullable.
        -- destruct (sd_gen_ty draw f (Some b) leaf false (depth + 1) s1) as [[t1 s2]| |] eqn:E; try discriminate.
           injection H as <- _. apply IH in E; [|lia]. cbn [sd_wrappers]. lia.
        -- apply IH in H; lia.
Qed.

(* b - depth + 1 levels of recursion are always enough *)
Lemma sd_gen_ty_terminates b : forall fuel nullable depth src,
  (N.to_nat (b - depth) < fuel)%nat ->
  sd_gen_ty draw fuel (Some b) leaf nullable depth src <> SdFuel.
Proof.
  induction fuel as [|f IH]; intros nullable depth src Hf; [inversion Hf|].
  cbn [sd_gen_ty].
  destruct (sd_at_bound (Some b) depth) eqn:Eb.
  - cbn [N.eqb]. destruct (leaf src) as [[i s2]|]; discriminate.
  - apply sd_at_bound_false in Eb. destruct (draw 0 2 src) as [kind s1].
    assert (Hf' : (N.to_nat (b - (depth + 1)) < f)%nat) by lia.
    destruct (kind =? 0); [destruct (leaf s1) as [[i s2]|]; discriminate|].
    destruct (kind =? 1).
    + specialize (IH true (depth + 1) s1 Hf').
      destruct (sd_gen_ty draw f (Some b) leaf true (depth + 1) s1) as [[t1 s2]| |]; try discriminate. contradiction.
    + destruct nullable.
      * specialize (IH false (depth + 1) s1 Hf').
        destruct (sd_gen_ty draw f (Some b) leaf false (depth + 1) s1) as [[t1 s2]| |]; try discriminate. contradiction.
      * now apply IH.
Qed.
End Ty.

(* choose_ty as it is: at most MAX_TY_DEPTH wrappers, within MAX_TY_DEPTH + 1 levels, for every source *)
Theorem sd_choose_ty_bounded {Src} (draw : N -> N -> Src -> N * Src) ntypes src :
  exists r, sd_choose_ty draw 11 (Some sd_max_ty_depth) ntypes src = r /\ r <> SdFuel /\
            forall t s', r = SdOk (t, s') -> sd_wrappers t <= sd_max_ty_depth.
Proof.
  eexists. split; [reflexivity|]. split.
  - apply sd_gen_ty_terminates. unfold sd_max_ty_depth. lia.
  - intros t s' H. apply sd_gen_ty_bounded in H; [lia|]. unfold sd_max_ty_depth. lia.
Qed.

(* the code before repair fix2-c32-4 over arbitrary's byte source: 501 bytes of value 1 give 501 list wrappers,
   more than the parser's recursion limit of 500 *)
Fixpoint sd_lists (t : sd_ty) : N := match t with SdList t' => 1 + sd_lists t' | _ => 0 end.

Lemma sd_choose_ty_old_unbounded :
  exists t rest, sd_choose_ty nm_int_in_range 600 None 6 (repeat 1 501) = SdOk (t, rest) /\
                 sd_lists t = 501 /\ 500 < sd_wrappers t.
Proof. eexists. eexists. split; [vm_compute; reflexivity|]. split; vm_compute; reflexivity. Qed.

(* the same bytes with the bound: ten wrappers *)
Lemma sd_choose_ty_same_bytes_bounded :
  exists t rest, sd_choose_ty nm_int_in_range 11 (Some sd_max_ty_depth) 6 (repeat 1 501) = SdOk (t, rest) /\
                 sd_wrappers t = 10.
Proof. eexists. eexists. split; vm_compute; reflexivity. Qed.

(* ------------------------------------------------------------------ selection sets *)

Lemma sd_sels_depth_app a b : sd_sels_depth (a ++ b) = N.max (sd_sels_depth a) (sd_sels_depth b).
Proof.
  unfold sd_sels_depth. induction a as [|x a IH]; cbn [app fold_right]; [now rewrite N.max_0_l|].
  rewrite IH. now rewrite N.max_assoc.
Qed.

Lemma sd_sel_depth_field_some i sub : sd_sel_depth (SdField i (Some sub)) = 1 + sd_sels_depth sub.
Proof. reflexivity. Qed.
Lemma sd_sel_depth_inline sub : sd_sel_depth (SdInline sub) = 1 + sd_sels_depth sub.
Proof. reflexivity. Qed.
Lemma sd_sels_depth_one s : sd_sels_depth [s] = sd_sel_depth s.
Proof. unfold sd_sels_depth. cbn [fold_right]. now rewrite N.max_0_r. Qed.

(* the positions sd_leaf_positions lists are positions of leaf fields *)
Lemma sd_leaf_positions_leaf : forall fs i p,
  In p (sd_leaf_positions fs i) -> i <= p /\ nth (N.to_nat (p - i)) fs SdLeaf = SdLeaf.
Proof.
  induction fs as [|k fs IH]; intros i p H; cbn [sd_leaf_positions] in H; [destruct H|].
  assert (G : In p (sd_leaf_positions fs (i + 1)) -> i <= p /\ nth (N.to_nat (p - i)) (k :: fs) SdLeaf = SdLeaf).
  { intros H'. apply IH in H' as [Hle Hn]. split; [lia|].
    replace (N.to_nat (p - i)) with (S (N.to_nat (p - (i + 1)))) by lia. exact Hn. }
  destruct (sd_is_leaf k) eqn:Ek; [|now apply G].
  destruct H as [<-|H]; [|now apply G].
  split; [lia|]. rewrite N.sub_diag. cbn [N.to_nat nth]. now destruct k.
Qed.

Section Sel.
Context {Src : Type}.
Variable draw : N -> N -> Src -> N * Src.
Variable skip : Src -> Src.
Variable spread : Src -> option Src.
Variable schema : sd_schema.
Variable b : N.

Definition sd_call_ok (c : sd_call) (r : list sd_sel) : Prop :=
  match c with
  | SdCallSet _ d => d < b -> d + 1 + sd_sels_depth r <= b
  | SdCallSels _ _ d | SdCallSel _ d | SdCallField _ d => d <= b -> d + sd_sels_depth r <= b
  end.

(* every selection set the bounded recursion builds lies within the bound *)
Lemma sd_run_bounded : forall fuel c src r s',
  sd_run draw skip spread fuel (Some b) schema c src = SdOk (r, s') -> sd_call_ok c r.
Proof.
  induction fuel as [|f IH]; intros c src r s' H; [discriminate|].
  cbn [sd_run] in H. destruct c as [cur d|n cur d|cur d|cur d]; cbn [sd_call_ok].
  - destruct (draw 1 5 src) as [n s1]. apply IH in H. cbn [sd_call_ok] in H. intros Hd. specialize (H ltac:(lia)). lia.
  - destruct n as [|n'].
    + injection H as <- _. intros Hd. unfold sd_sels_depth. cbn [fold_right]. lia.
    + destruct (draw 0 (N.of_nat (length cur)) src) as [ix s1].
      destruct (sd_run draw skip spread f (Some b) schema (SdCallSel cur d) s1) as [[sel s2]| |] eqn:E1; try discriminate.
      destruct (sd_run draw skip spread f (Some b) schema (SdCallSels n' cur d) s2) as [[rest s3]| |] eqn:E2;
        try discriminate.
      injection H as <- _. apply IH in E1. apply IH in E2. cbn [sd_call_ok] in E1, E2. intros Hd.
      rewrite sd_sels_depth_app. specialize (E1 Hd). specialize (E2 Hd). lia.
  - destruct (draw 0 2 src) as [kind s1].
    destruct (kind =? 0); [apply IH in H; exact H|].
    destruct (kind =? 1).
    + destruct (spread s1) as [s2|]; [|apply IH in H; exact H].
      injection H as <- _. intros Hd. rewrite sd_sels_depth_one. cbn [sd_sel_depth]. lia.
    + destruct (sd_at_bound (Some b) d) eqn:Eb; [apply IH in H; exact H|].
      apply sd_at_bound_false in Eb.
      destruct (sd_run draw skip spread f (Some b) schema (SdCallSet cur d) (skip s1)) as [[sub s2]| |] eqn:E;
        try discriminate.
      injection H as <- _. apply IH in E. cbn [sd_call_ok] in E. intros _.
      rewrite sd_sels_depth_one, sd_sel_depth_inline. specialize (E Eb). lia.
  - intros Hd. destruct (sd_at_bound (Some b) d) eqn:Eb.
    + apply sd_at_bound_true in Eb.
      destruct (sd_leaf_positions cur 0) as [|p0 ps] eqn:Ep.
      * injection H as <- _. rewrite sd_sels_depth_one. cbn [sd_sel_depth]. lia.
      * destruct (draw 0 (N.of_nat (length (p0 :: ps)) - 1) src) as [j s1]. cbv beta iota zeta in H.
        set (p := nth (N.to_nat j) (p0 :: ps) p0) in H.
        assert (Hin : In p (sd_leaf_positions cur 0)).
        { rewrite Ep. unfold p. destruct (Nat.lt_ge_cases (N.to_nat j) (length (p0 :: ps))) as [Hlt|Hge].
          - now apply nth_In.
          - rewrite nth_overflow by exact Hge. now left. }
        apply sd_leaf_positions_leaf in Hin as [_ Hleaf]. rewrite N.sub_0_r in Hleaf. rewrite Hleaf in H.
        injection H as <- _. rewrite sd_sels_depth_one. cbn [sd_sel_depth]. lia.
    + apply sd_at_bound_false in Eb. destruct cur as [|k0 cur0]; [discriminate|].
      destruct (draw 0 (N.of_nat (length (k0 :: cur0)) - 1) src) as [j s1]. cbv beta iota zeta in H.
      destruct (nth (N.to_nat j) (k0 :: cur0) SdLeaf) as [ty| |].
      * destruct (sd_run draw skip spread f (Some b) schema (SdCallSet (nth (N.to_nat ty) schema []) d) (skip s1))
          as [[sub s3]| |] eqn:E; try discriminate.
        injection H as <- _. apply IH in E. cbn [sd_call_ok] in E. specialize (E Eb).
        rewrite sd_sels_depth_one, sd_sel_depth_field_some. lia.
      * injection H as <- _. rewrite sd_sels_depth_one, sd_sel_depth_field_some, sd_sels_depth_one.
        cbn [sd_sel_depth]. lia.
      * injection H as <- _. rewrite sd_sels_depth_one. cbn [sd_sel_depth]. lia.
Qed.

(* termination: a source that answers within the requested range draws at most five selections per set; then
   eight levels of the model's recursion per remaining level of nesting are enough *)
Hypothesis draw_in_range : forall lo hi src, lo <= hi -> lo <= fst (draw lo hi src) <= hi.

Definition sd_call_fuel (c : sd_call) : nat :=
  match c with
  | SdCallSet _ d => 8 * N.to_nat (b - d)
  | SdCallSels n _ d => 8 * N.to_nat (b - d) + 2 + n
  | SdCallSel _ d => 8 * N.to_nat (b - d) + 2
  | SdCallField _ d => 8 * N.to_nat (b - d) + 1
  end.
Definition sd_call_pre (c : sd_call) : Prop :=
  match c with
  | SdCallSet _ d => d < b
  | SdCallSels n _ d => d <= b /\ (n <= 5)%nat
  | SdCallSel _ d | SdCallField _ d => d <= b
  end.

Lemma sd_run_terminates : forall fuel c src,
  sd_call_pre c -> (sd_call_fuel c <= fuel)%nat ->
  sd_run draw skip spread fuel (Some b) schema c src <> SdFuel.
Proof.
  induction fuel as [|f IH]; intros c src Hpre Hf.
  { exfalso. destruct c as [cur d|n cur d|cur d|cur d]; cbn [sd_call_fuel sd_call_pre] in *; lia. }
  cbn [sd_run]. destruct c as [cur d|n cur d|cur d|cur d]; cbn [sd_call_fuel sd_call_pre] in *.
  - pose proof (draw_in_range 1 5 src ltac:(lia)) as Hn. destruct (draw 1 5 src) as [n s1]. cbn [fst] in Hn.
    apply IH; cbn [sd_call_fuel sd_call_pre]; lia.
  - destruct n as [|n']; [discriminate|].
    destruct (draw 0 (N.of_nat (length cur)) src) as [ix s1].
    assert (H1 : sd_run draw skip spread f (Some b) schema (SdCallSel cur d) s1 <> SdFuel)
      by (apply IH; cbn [sd_call_fuel sd_call_pre]; lia).
    destruct (sd_run draw skip spread f (Some b) schema (SdCallSel cur d) s1) as [[sel s2]| |]; try discriminate;
      [|contradiction].
    assert (H2 : sd_run draw skip spread f (Some b) schema (SdCallSels n' cur d) s2 <> SdFuel)
      by (apply IH; cbn [sd_call_fuel sd_call_pre]; lia).
    destruct (sd_run draw skip spread f (Some b) schema (SdCallSels n' cur d) s2) as [[rest s3]| |]; try discriminate.
    contradiction.
  - destruct (draw 0 2 src) as [kind s1].
    assert (HF : forall s, sd_run draw skip spread f (Some b) schema (SdCallField cur d) s <> SdFuel)
      by (intros s; apply IH; cbn [sd_call_fuel sd_call_pre]; lia).
    destruct (kind =? 0); [apply HF|].
    destruct (kind =? 1); [destruct (spread s1); [discriminate|apply HF]|].
    destruct (sd_at_bound (Some b) d) eqn:Eb; [apply HF|]. apply sd_at_bound_false in Eb.
    assert (H1 : sd_run draw skip spread f (Some b) schema (SdCallSet cur d) (skip s1) <> SdFuel)
      by (apply IH; cbn [sd_call_fuel sd_call_pre]; lia).
    destruct (sd_run draw skip spread f (Some b) schema (SdCallSet cur d) (skip s1)) as [[sub s2]| |]; try discriminate.
    contradiction.
  - destruct (sd_at_bound (Some b) d) eqn:Eb.
    + destruct (sd_leaf_positions cur 0) as [|p0 ps] eqn:Ep; [discriminate|].
      destruct (draw 0 (N.of_nat (length (p0 :: ps)) - 1) src) as [j s1]. cbv beta iota zeta.
      set (p := nth (N.to_nat j) (p0 :: ps) p0).
      assert (Hin : In p (sd_leaf_positions cur 0)).
      { rewrite Ep. unfold p. destruct (Nat.lt_ge_cases (N.to_nat j) (length (p0 :: ps))) as [Hlt|Hge].
        - now apply nth_In.
        - rewrite nth_overflow by exact Hge. now left. }
      apply sd_leaf_positions_leaf in Hin as [_ Hleaf]. rewrite N.sub_0_r in Hleaf. rewrite Hleaf. discriminate.
    + apply sd_at_bound_false in Eb. destruct cur as [|k0 cur0]; [discriminate|].
      destruct (draw 0 (N.of_nat (length (k0 :: cur0)) - 1) src) as [j s1]. cbv beta iota zeta.
      destruct (nth (N.to_nat j) (k0 :: cur0) SdLeaf) as [ty| |]; try discriminate.
      assert (H1 : sd_run draw skip spread f (Some b) schema (SdCallSet (nth (N.to_nat ty) schema []) d) (skip s1)
                   <> SdFuel) by (apply IH; cbn [sd_call_fuel sd_call_pre]; lia).
      destruct (sd_run draw skip spread f (Some b) schema (SdCallSet (nth (N.to_nat ty) schema []) d) (skip s1))
        as [[sub s3]| |]; try discriminate.
      contradiction.
Qed.
End Sel.

(* selection_set() called from an operation or a fragment definition (selection_set_depth = 0), as it is: the
   selection sets nest at most MAX_SELECTION_SET_DEPTH deep, for every schema and every source *)
Theorem sd_selection_set_bounded {Src} (draw : N -> N -> Src -> N * Src) skip spread schema fuel cur src r s' :
  sd_run draw skip spread fuel (Some sd_max_selection_set_depth) schema (SdCallSet cur 0) src = SdOk (r, s') ->
  1 + sd_sels_depth r <= sd_max_selection_set_depth.
Proof.
  intros H. apply sd_run_bounded in H. cbn [sd_call_ok] in H. unfold sd_max_selection_set_depth in *.
  specialize (H ltac:(lia)). lia.
Qed.

(* and the recursion ends, on every schema (recursive types included) and every source that answers in range *)
Theorem sd_selection_set_terminates {Src} (draw : N -> N -> Src -> N * Src) skip spread schema cur src :
  (forall lo hi s, lo <= hi -> lo <= fst (draw lo hi s) <= hi) ->
  sd_run draw skip spread 80 (Some sd_max_selection_set_depth) schema (SdCallSet cur 0) src <> SdFuel.
Proof.
  intros Hdraw. apply sd_run_terminates; [exact Hdraw| |]; cbn [sd_call_pre sd_call_fuel];
    unfold sd_max_selection_set_depth; lia.
Qed.

(* the code before repair fix2-c32-3 on `type Query { q: Query }` with an exhausted source (int_in_range answers
   the lower end, no fragment to spread): no result, whatever the fuel -- the stack overflow *)
Definition sd_exhausted (lo hi : N) (s : unit) : N * unit := (lo, s).
Definition sd_rec_schema : sd_schema := [[SdComposite 0]].

Lemma sd_selection_set_old_diverges : forall fuel,
  sd_run sd_exhausted (fun s => s) (fun _ => None) fuel None sd_rec_schema (SdCallSet [SdComposite 0] 0) tt = SdFuel.
Proof.
  assert (G : forall fuel c, (match c with
                              | SdCallSet cur _ | SdCallSel cur _ | SdCallField cur _ => cur = [SdComposite 0]
                              | SdCallSels n cur _ => cur = [SdComposite 0] /\ n <> O
                              end) ->
              sd_run sd_exhausted (fun s => s) (fun _ => None) fuel None sd_rec_schema c tt = SdFuel).
  { induction fuel as [|f IH]; intros c Hc; [reflexivity|].
    cbn [sd_run]. destruct c as [cur d|n cur d|cur d|cur d].
    - subst cur. cbn [sd_exhausted]. apply IH. split; [reflexivity|]. cbn. discriminate.
    - destruct Hc as [-> Hn]. destruct n as [|n']; [contradiction|]. cbn [sd_exhausted].
      rewrite (IH (SdCallSel [SdComposite 0] d) eq_refl). reflexivity.
    - subst cur. cbn [sd_exhausted N.eqb]. apply IH. reflexivity.
    - subst cur. cbn [sd_at_bound sd_exhausted length N.of_nat]. cbv beta iota zeta.
      cbn [N.to_nat nth sd_rec_schema]. rewrite (IH (SdCallSet [SdComposite 0] d) eq_refl). reflexivity. }
  intros fuel. now apply G.
Qed.

(* the same schema and source with the bound: ten selection sets, the innermost selecting __typename *)
Lemma sd_selection_set_same_case_bounded :
  exists r, sd_run sd_exhausted (fun s => s) (fun _ => None) 80 (Some sd_max_selection_set_depth) sd_rec_schema
                   (SdCallSet [SdComposite 0] 0) tt = SdOk (r, tt) /\
            1 + sd_sels_depth r = 10.
Proof. eexists. split; vm_compute; reflexivity. Qed.
