(* Proofs about Smith/Closure.v: closure is graph reachability; candidate rejection keeps the implements graph
   acyclic; after backfill every definition lists the transitive closure of its interfaces. *)
From Coq Require Import Lia.
From ApolloVerif Require Import Base.Chars Ast.Ast Smith.Closure.

(* ------------------------------------------------------------------ reachability in the implements graph *)

Definition ClEdge (g : cl_graph) (a b : str) : Prop := In (a, b) (clg_edges g).

Inductive ClReach (g : cl_graph) : str -> str -> Prop :=
| ClReach_refl a : ClReach g a a
| ClReach_step a b c : ClEdge g a b -> ClReach g b c -> ClReach g a c.

(* at least one edge *)
Definition ClPath (g : cl_graph) (a b : str) : Prop := exists c, ClEdge g a c /\ ClReach g c b.
Definition ClAcyclic (g : cl_graph) : Prop := forall a, ~ ClPath g a a.
(* node_for is called for both ends of every edge *)
Definition ClWf (g : cl_graph) : Prop := forall a b, ClEdge g a b -> In a (clg_nodes g) /\ In b (clg_nodes g).

Lemma ClReach_trans g a b c : ClReach g a b -> ClReach g b c -> ClReach g a c.
Proof. induction 1; auto. intros. eapply ClReach_step; eauto. Qed.

Lemma ClReach_snoc g a b c : ClReach g a b -> ClEdge g b c -> ClReach g a c.
Proof. intros H E. eapply ClReach_trans; [exact H|]. eapply ClReach_step; [exact E|constructor]. Qed.

Lemma cl_mem_In n l : cl_mem n l = true <-> In n l.
Proof.
  unfold cl_mem. rewrite existsb_exists. split.
  - intros (x & Hx & E). apply streq_eq in E. now subst.
  - intros H. exists n. split; auto. apply streq_refl.
Qed.

Lemma cl_mem_false n l : cl_mem n l = false <-> ~ In n l.
Proof. rewrite <- cl_mem_In. destruct (cl_mem n l); split; intros; congruence. Qed.

Lemma cl_neighbors_In g x y : In y (cl_neighbors g x) <-> ClEdge g x y.
Proof.
  unfold cl_neighbors, ClEdge. rewrite <- in_rev, in_map_iff. split.
  - intros ([a b] & <- & Hin). apply filter_In in Hin as [Hin E]. cbn [fst snd] in *.
    apply streq_eq in E. now subst.
  - intros H. exists (x, y). split; auto. apply filter_In. split; auto. cbn [fst]. apply streq_refl.
Qed.

(* the newly discovered successors of one BFS step *)
Definition cl_fresh (seen nbrs : list str) : list str :=
  fold_left (fun acc y => if cl_mem y (seen ++ acc) then acc else acc ++ [y]) nbrs [].

Lemma cl_fresh_spec seen nbrs : forall acc,
  NoDup acc -> (forall y, In y acc -> ~ In y seen) ->
  let r := fold_left (fun acc y => if cl_mem y (seen ++ acc) then acc else acc ++ [y]) nbrs acc in
  NoDup r /\ (forall y, In y r -> (In y acc \/ In y nbrs) /\ ~ In y seen) /\
  (forall y, In y acc \/ In y nbrs -> In y seen \/ In y r).
Proof.
  induction nbrs as [|n nbrs IH]; intros acc Hnd Hdis; cbn [fold_left].
  - split; [exact Hnd|]. split.
    + intros y Hy. split; [now left|now apply Hdis].
    + intros y [H|[]]. now right.
  - destruct (cl_mem n (seen ++ acc)) eqn:E.
    + apply cl_mem_In in E. destruct (IH acc Hnd Hdis) as (H1 & H2 & H3). split; [exact H1|]. split.
      * intros y Hy. destruct (H2 y Hy) as [[Ha|Hn] Hs]; split; cbn [In]; auto.
      * intros y [Ha|[<-|Hn]]; auto. apply in_app_or in E as [E|E]; auto.
    + apply cl_mem_false in E.
      assert (Hnd' : NoDup (acc ++ [n])).
      { clear IH Hdis. induction acc as [|a acc IHa]; cbn [app]; [constructor; auto; constructor|].
        inversion Hnd as [|? ? Ha Hacc]; subst. constructor.
        - intros Hin. apply in_app_or in Hin as [Hin|[<-|[]]]; [contradiction|].
          apply E. apply in_or_app. right. now left.
        - apply IHa; auto. intros Hin. apply E. apply in_app_or in Hin as [Hin|Hin]; apply in_or_app; auto.
          right. now right. }
      assert (Hdis' : forall y, In y (acc ++ [n]) -> ~ In y seen).
      { intros y Hy. apply in_app_or in Hy as [Hy|[<-|[]]]; [now apply Hdis|].
        intros Hs. apply E. apply in_or_app. now left. }
      destruct (IH _ Hnd' Hdis') as (H1 & H2 & H3). split; [exact H1|]. split.
      * intros y Hy. destruct (H2 y Hy) as [[Ha|Hn] Hs]; split; cbn [In]; auto.
        apply in_app_or in Ha as [Ha|[<-|[]]]; auto.
      * intros y [Ha|[<-|Hn]]; apply H3; auto; left; apply in_or_app; cbn [In]; auto.
Qed.

Lemma cl_nodup_app (l f : list str) :
  NoDup l -> NoDup f -> (forall y, In y f -> ~ In y l) -> NoDup (l ++ f).
Proof.
  intros Hl Hf Hd. induction l as [|a l IH]; cbn [app]; [exact Hf|].
  inversion Hl as [|? ? Ha Hl']; subst. constructor.
  - intros Hin. apply in_app_or in Hin as [Hin|Hin]; [contradiction|]. apply (Hd a Hin). now left.
  - apply IH; auto. intros y Hy Hin. apply (Hd y Hy). now right.
Qed.

Section Bfs.
Variables (g : cl_graph) (start : str).
Hypothesis Hwf : ClWf g.

Definition ClBfsInv (queue out : list str) : Prop :=
  (forall y, In y (out ++ queue) -> ClReach g start y) /\
  In start (out ++ queue) /\
  (forall x y, In x out -> ClEdge g x y -> In y (out ++ queue)) /\
  NoDup (out ++ queue) /\
  incl (out ++ queue) (clg_nodes g).

Lemma cl_bfs_step x q out :
  ClBfsInv (x :: q) out ->
  ClBfsInv (q ++ cl_fresh (out ++ x :: q) (cl_neighbors g x)) (out ++ [x]).
Proof.
  intros (Ha & Hb & Hc & Hd & He).
  destruct (cl_fresh_spec (out ++ x :: q) (cl_neighbors g x) [] (NoDup_nil _) ltac:(intros y [])) as (F1 & F2 & F3).
  fold (cl_fresh (out ++ x :: q) (cl_neighbors g x)) in F1, F2, F3.
  set (fresh := cl_fresh (out ++ x :: q) (cl_neighbors g x)) in *.
  assert (Eq : (out ++ [x]) ++ q ++ fresh = (out ++ x :: q) ++ fresh).
  { rewrite <- !app_assoc. reflexivity. }
  unfold ClBfsInv. rewrite Eq. repeat split.
  - intros y Hy. apply in_app_or in Hy as [Hy|Hy]; [now apply Ha|].
    destruct (F2 y Hy) as [[[]|Hn] _]. apply cl_neighbors_In in Hn.
    eapply ClReach_snoc; [|exact Hn]. apply Ha. apply in_or_app. right. now left.
  - apply in_or_app. now left.
  - intros x' y Hx' He'. apply in_app_or in Hx' as [Hx'|[<-|[]]].
    + apply in_or_app. left. eapply Hc; eauto.
    + destruct (F3 y) as [Hs|Hf]; [right; now apply cl_neighbors_In|apply in_or_app; auto..].
  - apply cl_nodup_app; auto. intros y Hy. now apply F2.
  - intros y Hy. apply in_app_or in Hy as [Hy|Hy]; [now apply He|].
    destruct (F2 y Hy) as [[[]|Hn] _]. apply cl_neighbors_In in Hn. now apply Hwf in Hn as [_ Hn].
Qed.

Lemma cl_bfs_unfold fuel x q out :
  cl_bfs (S fuel) g (x :: q) out = cl_bfs fuel g (q ++ cl_fresh (out ++ x :: q) (cl_neighbors g x)) (out ++ [x]).
Proof. reflexivity. Qed.

Lemma cl_bfs_exact fuel : forall queue out R,
  ClBfsInv queue out -> cl_bfs fuel g queue out = Some R -> forall y, In y R <-> ClReach g start y.
Proof.
  induction fuel as [|f IH]; intros queue out R Hinv H; [discriminate|].
  destruct queue as [|x q].
  - cbn [cl_bfs] in H. injection H as <-. destruct Hinv as (Ha & Hb & Hc & _).
    assert (G : forall a y, ClReach g a y -> In a out -> In y out).
    { intros a y Hr. induction Hr as [a|a b c Hab Hbc IHr]; auto.
      intros Hin. apply IHr. specialize (Hc a b Hin Hab). now rewrite app_nil_r in Hc. }
    intros y. split.
    + intros Hy. apply Ha. now rewrite app_nil_r.
    + intros Hr. apply (G start y Hr). now rewrite app_nil_r in Hb.
  - rewrite cl_bfs_unfold in H. eapply IH; [|exact H]. now apply cl_bfs_step.
Qed.

Lemma cl_bfs_total fuel : forall queue out,
  ClBfsInv queue out -> (length (clg_nodes g) < fuel + length out)%nat ->
  exists R, cl_bfs fuel g queue out = Some R.
Proof.
  induction fuel as [|f IH]; intros queue out Hinv Hf.
  - exfalso. destruct Hinv as (_ & _ & _ & Hd & He). pose proof (NoDup_incl_length Hd He) as Hl.
    rewrite app_length in Hl. lia.
  - destruct queue as [|x q]; [cbn; eauto|]. rewrite cl_bfs_unfold. apply IH; [now apply cl_bfs_step|].
    rewrite app_length. cbn [length]. lia.
Qed.
End Bfs.

(* closure(start) is the set of names reachable from start *)
Theorem cl_closure_exact g start :
  ClWf g -> In start (clg_nodes g) ->
  exists cls, cl_closure g start = Some cls /\ forall y, In y cls <-> ClReach g start y.
Proof.
  intros Hwf Hn. unfold cl_closure. replace (cl_mem start (clg_nodes g)) with true by (symmetry; now apply cl_mem_In).
  assert (Hinv : ClBfsInv g start [start] []).
  { unfold ClBfsInv. cbn [app]. repeat split.
    - intros y [<-|[]]. constructor.
    - now left.
    - intros x y [].
    - constructor; [intros []|constructor].
    - intros y [<-|[]]. exact Hn. }
  destruct (cl_bfs_total g start Hwf (S (length (clg_nodes g))) [start] [] Hinv) as [R HR]; [cbn; lia|].
  exists R. split; [exact HR|]. eapply cl_bfs_exact; eauto.
Qed.

Lemma cl_closure_absent g start : ~ In start (clg_nodes g) -> cl_closure g start = Some [].
Proof. intros H. unfold cl_closure. apply cl_mem_false in H. now rewrite H. Qed.

Lemma cl_closure_sound g start cls :
  ClWf g -> cl_closure g start = Some cls -> forall y, In y cls -> ClReach g start y.
Proof.
  intros Hwf H y Hy. destruct (in_dec (list_eq_dec N.eq_dec) start (clg_nodes g)) as [Hin|Hn].
  - destruct (cl_closure_exact g start Hwf Hin) as (c & Hc & He). rewrite H in Hc. injection Hc as <-. now apply He.
  - rewrite (cl_closure_absent g start Hn) in H. injection H as <-. destruct Hy.
Qed.

(* ------------------------------------------------------------------ node_for, add_edge, link *)

Lemma cl_node_for_edges g n : clg_edges (cl_node_for g n) = clg_edges g.
Proof. unfold cl_node_for. destruct (cl_mem n (clg_nodes g)); reflexivity. Qed.

Lemma cl_node_for_nodes g n x : In x (clg_nodes (cl_node_for g n)) <-> In x (clg_nodes g) \/ x = n.
Proof.
  unfold cl_node_for. destruct (cl_mem n (clg_nodes g)) eqn:E; cbn [clg_nodes].
  - apply cl_mem_In in E. split; [auto|]. intros [H| ->]; auto.
  - rewrite in_app_iff. cbn [In]. intuition congruence.
Qed.

Lemma cl_has_edge_spec g a b : cl_has_edge g a b = true <-> ClEdge g a b.
Proof.
  unfold cl_has_edge, ClEdge. rewrite existsb_exists. split.
  - intros ([x y] & Hin & E). cbn [fst snd] in E. apply andb_true_iff in E as [E1 E2].
    apply streq_eq in E1, E2. now subst.
  - intros H. exists (a, b). split; auto. cbn [fst snd]. now rewrite !streq_refl.
Qed.

Lemma cl_add_edge_edges g a b x y : ClEdge (cl_add_edge g a b) x y <-> ClEdge g x y \/ (x = a /\ y = b).
Proof.
  unfold cl_add_edge. set (g1 := cl_node_for (cl_node_for g a) b).
  assert (E1 : clg_edges g1 = clg_edges g) by (unfold g1; now rewrite !cl_node_for_edges).
  destruct (cl_has_edge g1 a b) eqn:E.
  - apply cl_has_edge_spec in E. unfold ClEdge in *. rewrite E1 in *. split; [auto|].
    intros [H|[-> ->]]; auto.
  - unfold ClEdge. cbn [clg_edges]. rewrite E1, in_app_iff. cbn [In]. split.
    + intros [H|[[= <- <-]|[]]]; auto.
    + intros [H|[-> ->]]; auto.
Qed.

Lemma cl_add_edge_nodes g a b x :
  In x (clg_nodes (cl_add_edge g a b)) <-> In x (clg_nodes g) \/ x = a \/ x = b.
Proof.
  unfold cl_add_edge. set (g1 := cl_node_for (cl_node_for g a) b).
  assert (E1 : In x (clg_nodes g1) <-> In x (clg_nodes g) \/ x = a \/ x = b).
  { unfold g1. rewrite !cl_node_for_nodes. tauto. }
  destruct (cl_has_edge g1 a b); exact E1.
Qed.

Lemma cl_link_edges parents : forall g name x y,
  ClEdge (fold_left (fun g p => cl_add_edge g name p) parents g) x y <-> ClEdge g x y \/ (x = name /\ In y parents).
Proof.
  induction parents as [|p ps IH]; intros g name x y; cbn [fold_left In]; [tauto|].
  rewrite IH, cl_add_edge_edges. intuition (subst; auto).
Qed.

Lemma cl_link_spec g name parents x y :
  ClEdge (cl_link g name parents) x y <-> ClEdge g x y \/ (x = name /\ In y parents).
Proof.
  unfold cl_link. rewrite cl_link_edges.
  assert (E : ClEdge (cl_node_for g name) x y <-> ClEdge g x y) by (unfold ClEdge; now rewrite cl_node_for_edges).
  tauto.
Qed.

Lemma cl_link_nodes_fold parents : forall g name x,
  In x (clg_nodes (fold_left (fun g p => cl_add_edge g name p) parents g)) <->
  In x (clg_nodes g) \/ (parents <> [] /\ x = name) \/ In x parents.
Proof.
  induction parents as [|p ps IH]; intros g name x; cbn [fold_left In].
  - intuition congruence.
  - rewrite IH, cl_add_edge_nodes. split.
    + intros [[H|[H|H]]|[[_ H]|H]]; auto; right; left; split; auto; discriminate.
    + intros [H|[[_ H]|[H|H]]]; auto.
Qed.

Lemma cl_link_wf g name parents : ClWf g -> ClWf (cl_link g name parents).
Proof.
  intros Hwf a b He. apply cl_link_spec in He. unfold cl_link.
  rewrite !cl_link_nodes_fold, !cl_node_for_nodes.
  destruct He as [He|[-> Hin]]; [apply Hwf in He as [H1 H2]; auto|]. split; auto.
Qed.

Lemma cl_link_has_node g name parents : In name (clg_nodes (cl_link g name parents)).
Proof. unfold cl_link. rewrite cl_link_nodes_fold, cl_node_for_nodes. auto. Qed.

(* ------------------------------------------------------------------ acyclicity is preserved *)

Section Link.
Variables (g : cl_graph) (name : str) (parents : list str).
Let g' := cl_link g name parents.

(* up to the first new edge *)
Lemma cl_reach_prefix x y : ClReach g' x y -> ClReach g x y \/ ClReach g x name.
Proof.
  induction 1 as [a|a b c Hab Hbc IH]; [left; constructor|].
  apply cl_link_spec in Hab as [Hab|[-> _]]; [|right; constructor].
  destruct IH as [IH|IH]; [left|right]; eapply ClReach_step; eauto.
Qed.

(* after the last new edge *)
Lemma cl_reach_suffix x y : ClReach g' x y -> ClReach g x y \/ exists p, In p parents /\ ClReach g p y.
Proof.
  induction 1 as [a|a b c Hab Hbc IH]; [left; constructor|].
  apply cl_link_spec in Hab as [Hab|[-> Hin]].
  - destruct IH as [IH|IH]; [left; eapply ClReach_step; eauto|right; exact IH].
  - destruct IH as [IH|IH]; [right; eauto|right; exact IH].
Qed.

(* adding the edges name -> p keeps the graph acyclic when name is not reachable from any p *)
Theorem cl_link_acyclic :
  ClAcyclic g -> (forall p, In p parents -> ~ ClReach g p name) -> ClAcyclic g'.
Proof.
  intros Hac Hnot a (c & Hac' & Hca). apply cl_link_spec in Hac' as [He|[-> Hin]].
  - destruct (cl_reach_prefix c a Hca) as [Hg|Hg].
    + apply (Hac a). exists c. auto.
    + destruct (cl_reach_suffix c a Hca) as [Hs|(p & Hp & Hs)].
      * apply (Hac a). exists c. auto.
      * apply (Hnot p Hp). eapply ClReach_trans; [exact Hs|]. eapply ClReach_step; eauto.
  - apply (Hnot c Hin). destruct (cl_reach_prefix c name Hca); auto.
Qed.
End Link.

(* ------------------------------------------------------------------ what additional_implements accepts *)

Lemma cl_accept_names_incl ifaces cls : forall st x,
  In x (fst (cl_accept_names ifaces cls st)) -> In x (fst st) \/ In x cls.
Proof.
  unfold cl_accept_names. induction cls as [|n cls IH]; intros st x H; cbn [fold_left] in H; [auto|].
  apply IH in H as [H|H]; [|right; now right].
  destruct (cl_mem n (fst st)); [auto|]. cbn [fst] in H. apply in_app_or in H as [H|[<-|[]]]; auto.
  right. now left.
Qed.

(* every accepted name lies in the closure of a candidate that passed the cycle test *)
Definition ClAcceptedOk (g : cl_graph) (self : option str) (cands already accepted : list str) : Prop :=
  forall x, In x accepted -> In x already \/
    exists cand cls, In cand cands /\ cl_closure g cand = Some cls /\ In x cls /\
                     match self with Some n => ~ In n cls | None => True end.

Lemma cl_try_accept_ok ifaces g self cands already cand st st' :
  In cand cands ->
  ClAcceptedOk g self cands already (fst st) -> cl_try_accept ifaces g self cand st = Some st' ->
  ClAcceptedOk g self cands already (fst st').
Proof.
  intros Hcand Hok H. unfold cl_try_accept in H. destruct (cl_closure g cand) as [cls|] eqn:Ec; [|discriminate].
  destruct (match self with Some n => cl_mem n cls | None => false end) eqn:Ecyc; cbn [orb] in H.
  - injection H as <-. exact Hok.
  - destruct (existsb _ cls); injection H as <-; [exact Hok|].
    intros x Hx. apply cl_accept_names_incl in Hx as [Hx|Hx]; [now apply Hok|].
    right. exists cand, cls. repeat split; auto.
    destruct self as [n|]; [|exact I]. now apply cl_mem_false.
Qed.

Lemma cl_additional_implements_ok ifaces g existing self cands impls :
  cl_additional_implements ifaces g existing self cands = Some impls ->
  forall x, In x impls ->
    exists cand cls, In cand cands /\ cl_closure g cand = Some cls /\ In x cls /\
                     match self with Some n => ~ In n cls | None => True end.
Proof.
  unfold cl_additional_implements. destruct ifaces as [|i0 ifaces0]; [intros [= <-] x []|].
  set (ifaces := i0 :: ifaces0). set (already := match self with Some n => cl_direct_parents g n | None => [] end).
  set (accum := fold_left _ already existing).
  assert (G : forall cs st r, incl cs cands ->
            match st with Some s => ClAcceptedOk g self cands already (fst s) | None => True end ->
            fold_left (fun st c => match st with None => None | Some st' => cl_try_accept ifaces g self c st' end)
                      cs st = Some r -> ClAcceptedOk g self cands already (fst r)).
  { induction cs as [|c cs IH]; intros st r Hincl Hst Hr; cbn [fold_left] in Hr.
    - subst st. exact Hst.
    - destruct st as [s|].
      + eapply IH; [intros y Hy; apply Hincl; now right| |exact Hr].
        destruct (cl_try_accept ifaces g self c s) eqn:Et; [|exact I].
        eapply cl_try_accept_ok; eauto. apply Hincl. now left.
      + exfalso. clear - Hr. induction cs; cbn in Hr; [discriminate|auto]. }
  intros H x Hx.
  destruct (fold_left _ cands (Some (already, accum))) as [[accepted acc']|] eqn:Ef; [|discriminate].
  injection H as <-. apply filter_In in Hx as [Hx Hn]. apply negb_true_iff, cl_mem_false in Hn.
  pose proof (G cands (Some (already, accum)) (accepted, acc') (incl_refl _) ltac:(intros y Hy; now left) Ef x Hx)
    as [Ha|Hb]; [contradiction|exact Hb].
Qed.

(* C32_closure_acyclic, interfaces: a new or extended interface keeps the implements graph acyclic *)
Theorem cl_add_interface_acyclic st extend name cands new_fields st' :
  ClWf (cls_graph st) -> ClAcyclic (cls_graph st) ->
  cl_add_interface st extend name cands new_fields = Some st' ->
  ClWf (cls_graph st') /\ ClAcyclic (cls_graph st').
Proof.
  intros Hwf Hac H. unfold cl_add_interface in H.
  destruct (cl_additional_implements _ _ _ (Some name) cands) as [impls|] eqn:Ea; [|discriminate].
  injection H as <-. cbn [cls_graph]. split; [now apply cl_link_wf|].
  apply cl_link_acyclic; auto. intros p Hp Hreach.
  destruct (cl_additional_implements_ok _ _ _ _ _ _ Ea p Hp) as (cand & cls & _ & Hc & Hin & Hnot).
  apply Hnot.
  destruct (in_dec (list_eq_dec N.eq_dec) cand (clg_nodes (cls_graph st))) as [Hn|Hn].
  - destruct (cl_closure_exact _ cand Hwf Hn) as (cls' & Hc' & He). rewrite Hc in Hc'. injection Hc' as <-.
    apply He. eapply ClReach_trans; [|exact Hreach]. now apply He.
  - rewrite (cl_closure_absent _ _ Hn) in Hc. injection Hc as <-. destruct Hin.
Qed.

(* objects: the cycle test (made since self_name is the object's name) is not what keeps the graph acyclic;
   that the object's name is the target of no edge and is not among the candidates is enough (candidates are
   interface names, and type names are unique) *)
Theorem cl_add_object_acyclic st extend name cands new_fields st' :
  ClWf (cls_graph st) -> ClAcyclic (cls_graph st) ->
  (forall a, ~ ClEdge (cls_graph st) a name) -> ~ In name cands ->
  cl_add_object st extend name cands new_fields = Some st' ->
  ClWf (cls_graph st') /\ ClAcyclic (cls_graph st') /\ forall a, ~ ClEdge (cls_graph st') a name.
Proof.
  intros Hwf Hac Hnoin Hnc H. unfold cl_add_object, cl_add_object_with in H.
  destruct (cl_additional_implements _ _ _ (Some name) cands) as [impls|] eqn:Ea; [|discriminate].
  injection H as <-. cbn [cls_graph].
  assert (Hreach : forall p, ClReach (cls_graph st) p name -> p = name).
  { assert (G : forall p q, ClReach (cls_graph st) p q -> q = name -> p = name).
    { intros p q Hr. induction Hr as [a|a b c Hab Hbc IH]; auto.
      intros Hc. specialize (IH Hc). subst b. exfalso. eapply Hnoin; eauto. }
    intros p Hr. now apply (G p name). }
  assert (Hne : forall p, In p impls -> p <> name).
  { intros p Hp ->.
    destruct (cl_additional_implements_ok _ _ _ _ _ _ Ea name Hp) as (cand & cls & Hcand & Hc & Hin & _).
    pose proof (cl_closure_sound _ _ _ Hwf Hc name Hin) as Hr. apply Hreach in Hr. subst cand. contradiction. }
  split; [now apply cl_link_wf|]. split.
  - apply cl_link_acyclic; auto. intros p Hp Hr. apply Hreach in Hr. now apply (Hne p).
  - intros a He. apply cl_link_spec in He as [He|[-> Hin]]; [now apply (Hnoin a)|]. now apply (Hne name).
Qed.

(* ------------------------------------------------------------------ backfill: the implements lists *)

Lemma ClReach_path g a b : ClReach g a b -> a = b \/ ClPath g a b.
Proof. intros H. inversion H; subst; [now left|right; eexists; eauto]. Qed.

Lemma ClPath_reach g a b : ClPath g a b -> ClReach g a b.
Proof. intros (c & He & Hr). eapply ClReach_step; eauto. Qed.

Lemma cl_fold_insert_In l : forall acc x, In x (fold_left cl_insert l acc) <-> In x acc \/ In x l.
Proof.
  induction l as [|n l IH]; intros acc x; cbn [fold_left In]; [tauto|].
  rewrite IH. unfold cl_insert. destruct (cl_mem n acc) eqn:E.
  - apply cl_mem_In in E. intuition (subst; auto).
  - rewrite in_app_iff. cbn [In]. intuition.
Qed.

Lemma cl_declared_In defs name p :
  In p (cl_declared defs name) <-> exists d, In d defs /\ cld_name d = name /\ In p (cld_impls d).
Proof.
  unfold cl_declared. rewrite in_flat_map. split.
  - intros (d & Hd & Hp). destruct (streq (cld_name d) name) eqn:E; [|destruct Hp].
    apply streq_eq in E. eauto.
  - intros (d & Hd & <- & Hp). exists d. split; auto. now rewrite streq_refl.
Qed.

(* ------------------------------------------------------------------ no interface is picked twice *)

Lemma cl_nodup_snoc (l : list str) n : NoDup l -> ~ In n l -> NoDup (l ++ [n]).
Proof.
  intros Hl Hn. apply cl_nodup_app; [exact Hl|repeat constructor; intros []|]. intros y [<-|[]]. exact Hn.
Qed.

Lemma cl_insert_nodup l n : NoDup l -> NoDup (cl_insert l n).
Proof.
  intros H. unfold cl_insert. destruct (cl_mem n l) eqn:E; [exact H|].
  apply cl_mem_false in E. apply cl_nodup_snoc; auto.
Qed.

Lemma cl_fold_insert_nodup l : forall acc, NoDup acc -> NoDup (fold_left cl_insert l acc).
Proof. induction l as [|n l IH]; intros acc H; cbn [fold_left]; [exact H|]. apply IH. now apply cl_insert_nodup. Qed.

Lemma cl_direct_parents_nodup g n : NoDup (cl_direct_parents g n).
Proof.
  unfold cl_direct_parents. destruct (cl_mem n (clg_nodes g)); [|constructor].
  apply cl_fold_insert_nodup. constructor.
Qed.

Lemma cl_direct_parents_In g n p : ClWf g -> (In p (cl_direct_parents g n) <-> ClEdge g n p).
Proof.
  intros Hwf. unfold cl_direct_parents. destruct (cl_mem n (clg_nodes g)) eqn:E.
  - rewrite cl_fold_insert_In, cl_neighbors_In. cbn [In]. tauto.
  - apply cl_mem_false in E. split; [intros []|]. intros He. destruct (Hwf _ _ He) as [Hn _]. contradiction.
Qed.

Lemma cl_accept_names_nodup ifaces cls : forall st,
  NoDup (fst st) -> NoDup (fst (cl_accept_names ifaces cls st)).
Proof.
  unfold cl_accept_names. induction cls as [|n cls IH]; intros st H; cbn [fold_left]; [exact H|].
  apply IH. destruct (cl_mem n (fst st)) eqn:E; [exact H|]. cbn [fst].
  apply cl_mem_false in E. apply cl_nodup_snoc; auto.
Qed.

Lemma cl_try_accept_nodup ifaces g self cand st st' :
  NoDup (fst st) -> cl_try_accept ifaces g self cand st = Some st' -> NoDup (fst st').
Proof.
  intros Hnd H. unfold cl_try_accept in H. destruct (cl_closure g cand) as [cls|]; [|discriminate].
  destruct (_ || _); injection H as <-; [exact Hnd|]. now apply cl_accept_names_nodup.
Qed.

(* what additional_implements returns lists no name twice and none of the parents `self` already has *)
Lemma cl_additional_implements_fresh ifaces g existing n cands impls :
  cl_additional_implements ifaces g existing (Some n) cands = Some impls ->
  NoDup impls /\ forall x, In x impls -> ~ In x (cl_direct_parents g n).
Proof.
  unfold cl_additional_implements. destruct ifaces as [|i0 ifaces0]; [intros [= <-]; split; [constructor|intros x []]|].
  set (ifaces := i0 :: ifaces0). set (already := cl_direct_parents g n).
  set (accum := fold_left _ already existing).
  assert (G : forall cs st r,
            match st with Some s => NoDup (fst s) | None => True end ->
            fold_left (fun st c => match st with None => None | Some st' => cl_try_accept ifaces g (Some n) c st' end)
                      cs st = Some r -> NoDup (fst r)).
  { induction cs as [|c cs IH]; intros st r Hst Hr; cbn [fold_left] in Hr.
    - subst st. exact Hst.
    - destruct st as [s|].
      + eapply IH; [|exact Hr]. destruct (cl_try_accept ifaces g (Some n) c s) eqn:Et; [|exact I].
        eapply cl_try_accept_nodup; eauto.
      + exfalso. clear - Hr. induction cs; cbn in Hr; [discriminate|auto]. }
  intros H.
  destruct (fold_left _ cands (Some (already, accum))) as [[accepted acc']|] eqn:Ef; [|discriminate].
  injection H as <-.
  pose proof (G cands (Some (already, accum)) (accepted, acc') (cl_direct_parents_nodup g n) Ef) as Hnd.
  cbn [fst] in Hnd. split; [now apply NoDup_filter|].
  intros x Hx. apply filter_In in Hx as [_ Hn]. now apply negb_true_iff, cl_mem_false in Hn.
Qed.

Lemma cl_declared_snoc defs d n :
  cl_declared (defs ++ [d]) n = cl_declared defs n ++ (if streq (cld_name d) n then cld_impls d else []).
Proof. unfold cl_declared. rewrite flat_map_app. cbn [flat_map]. now rewrite app_nil_r. Qed.

(* the step shared by cl_add_interface and cl_add_object: appending a definition of `name` whose implements list
   comes from additional_implements with self_name = name keeps every declared list duplicate-free and inside
   the graph's edges *)
Lemma cl_append_def_nodup ifaces g existing defs name cands impls extend new_fields :
  ClWf g ->
  (forall n p, In p (cl_declared defs n) -> ClEdge g n p) ->
  (forall n, NoDup (cl_declared defs n)) ->
  cl_additional_implements ifaces g existing (Some name) cands = Some impls ->
  let d := {| cld_name := name; cld_extend := extend; cld_impls := impls; cld_fields := new_fields |} in
  (forall n, NoDup (cl_declared (defs ++ [d]) n)) /\
  (forall n p, In p (cl_declared (defs ++ [d]) n) -> ClEdge (cl_link g name impls) n p).
Proof.
  intros Hwf Hsound Hnd Ha d. destruct (cl_additional_implements_fresh _ _ _ _ _ _ Ha) as [Hni Hfresh]. split.
  - intros n. rewrite cl_declared_snoc. cbn [cld_name cld_impls d].
    destruct (streq name n) eqn:E; [|rewrite app_nil_r; apply Hnd].
    apply streq_eq in E. subst n. apply cl_nodup_app; auto.
    intros x Hx' Hx. apply (Hfresh x Hx'). apply cl_direct_parents_In; auto.
  - intros n p Hp. rewrite cl_declared_snoc in Hp. cbn [cld_name cld_impls d] in Hp.
    apply cl_link_spec. apply in_app_or in Hp as [Hp|Hp]; [left; now apply Hsound|].
    destruct (streq name n) eqn:E; [|destruct Hp]. apply streq_eq in E. subst n. now right.
Qed.

(* C32_closure_no_duplicates: an object definition or extension never lists an interface the object already
   lists (self_name = Some name since repair fix2-c32-1) *)
Theorem cl_add_object_nodup st extend name cands new_fields st' :
  ClWf (cls_graph st) ->
  (forall n p, In p (cl_declared (cls_objs st) n) -> ClEdge (cls_graph st) n p) ->
  (forall n, NoDup (cl_declared (cls_objs st) n)) ->
  cl_add_object st extend name cands new_fields = Some st' ->
  (forall n, NoDup (cl_declared (cls_objs st') n)) /\
  (forall n p, In p (cl_declared (cls_objs st') n) -> ClEdge (cls_graph st') n p).
Proof.
  intros Hwf Hsound Hnd H. unfold cl_add_object, cl_add_object_with in H.
  destruct (cl_additional_implements _ _ _ (Some name) cands) as [impls|] eqn:Ea; [|discriminate].
  injection H as <-. cbn [cls_objs cls_graph]. eapply cl_append_def_nodup; eauto.
Qed.

Theorem cl_add_interface_nodup st extend name cands new_fields st' :
  ClWf (cls_graph st) ->
  (forall n p, In p (cl_declared (cls_ifaces st) n) -> ClEdge (cls_graph st) n p) ->
  (forall n, NoDup (cl_declared (cls_ifaces st) n)) ->
  cl_add_interface st extend name cands new_fields = Some st' ->
  (forall n, NoDup (cl_declared (cls_ifaces st') n)) /\
  (forall n p, In p (cl_declared (cls_ifaces st') n) -> ClEdge (cls_graph st') n p).
Proof.
  intros Hwf Hsound Hnd H. unfold cl_add_interface in H.
  destruct (cl_additional_implements _ _ _ (Some name) cands) as [impls|] eqn:Ea; [|discriminate].
  injection H as <-. cbn [cls_ifaces cls_graph]. eapply cl_append_def_nodup; eauto.
Qed.

Lemma cl_index_where_spec p defs : forall i0 i,
  cl_index_where p defs i0 = Some i ->
  exists k d, i = (i0 + k)%nat /\ nth_error defs k = Some d /\ p d = true.
Proof.
  induction defs as [|d defs IH]; intros i0 i H; cbn [cl_index_where] in H; [discriminate|].
  destruct (p d) eqn:E.
  - injection H as <-. exists 0%nat, d. repeat split; auto; lia.
  - apply IH in H as (k & d' & -> & Hn & Hp). exists (S k), d'. repeat split; auto; lia.
Qed.

Lemma cl_base_index_spec defs name i :
  cl_base_index defs name = Some i -> exists d, nth_error defs i = Some d /\ cld_name d = name.
Proof.
  unfold cl_base_index. intros H.
  destruct (cl_index_where (fun d => negb (cld_extend d) && streq (cld_name d) name) defs 0) as [j|] eqn:E.
  - injection H as <-. apply cl_index_where_spec in E as (k & d & -> & Hn & Hp). exists d. split; auto.
    apply andb_true_iff in Hp as [_ Hp]. now apply streq_eq in Hp.
  - apply cl_index_where_spec in H as (k & d & -> & Hn & Hp). exists d. split; auto. now apply streq_eq in Hp.
Qed.

Lemma cl_base_index_none defs name :
  cl_base_index defs name = None -> forall d, In d defs -> cld_name d <> name.
Proof.
  unfold cl_base_index.
  destruct (cl_index_where (fun d => negb (cld_extend d) && streq (cld_name d) name) defs 0); [discriminate|].
  intros H d Hd Hn.
  assert (G : forall defs i0, cl_index_where (fun d => streq (cld_name d) name) defs i0 = None ->
                              forall d, In d defs -> cld_name d <> name).
  { induction defs0 as [|d0 ds IH]; intros i0 H0 d' Hin; [destruct Hin|].
    cbn [cl_index_where] in H0. destruct Hin as [<-|Hin].
    - destruct (streq (cld_name d0) name) eqn:E; [discriminate|]. intros E'. rewrite E', streq_refl in E. discriminate.
    - destruct (streq (cld_name d0) name); [discriminate|]. eapply IH; eauto. }
  exact (G defs 0%nat H d Hd Hn).
Qed.

(* the parts of a definition the implements lists depend on *)
Definition cl_shape (d : cl_def) : str * list str := (cld_name d, cld_impls d).

Lemma cl_declared_shape a b name : map cl_shape a = map cl_shape b -> cl_declared a name = cl_declared b name.
Proof.
  revert b. induction a as [|x a IH]; intros [|y b] H; try discriminate; [reflexivity|].
  injection H as Hn Hi Hab. unfold cl_declared. cbn [flat_map]. rewrite Hn, Hi.
  f_equal. now apply IH.
Qed.

Lemma cl_update_at_shape defs i f :
  (forall d, cl_shape (f d) = cl_shape d) -> map cl_shape (cl_update_at defs i f) = map cl_shape defs.
Proof.
  intros Hf. revert i. induction defs as [|d defs IH]; intros [|i]; cbn [cl_update_at map]; auto.
  - now rewrite Hf.
  - now rewrite IH.
Qed.

Lemma cl_rewrite_defs_shape defs name : forall inh defs' inh',
  cl_rewrite_defs defs name inh = (defs', inh') -> map cl_shape defs' = map cl_shape defs.
Proof.
  induction defs as [|d defs IH]; intros inh defs' inh' H; cbn [cl_rewrite_defs] in H.
  - now injection H as <- <-.
  - destruct (streq (cld_name d) name).
    + destruct (cl_rewrite_fields (cld_fields d) inh) as [fs' inh1].
      destruct (cl_rewrite_defs defs name inh1) as [r' inh2] eqn:Er. injection H as <- <-.
      cbn [map]. f_equal. eapply IH; eauto.
    + destruct (cl_rewrite_defs defs name inh) as [r' inh2] eqn:Er. injection H as <- <-.
      cbn [map]. f_equal. eapply IH; eauto.
Qed.

Lemma cl_streq_false a b : streq a b = false <-> a <> b.
Proof.
  split.
  - intros H ->. now rewrite streq_refl in H.
  - intros H. destruct (streq a b) eqn:E; auto. apply streq_eq in E. contradiction.
Qed.

Lemma cl_declared_update defs i f d name extra :
  nth_error defs i = Some d -> cld_name d = name -> cld_name (f d) = name ->
  (forall x, In x (cld_impls (f d)) <-> In x (cld_impls d) \/ In x extra) ->
  forall n p, In p (cl_declared (cl_update_at defs i f) n) <-> In p (cl_declared defs n) \/ (n = name /\ In p extra).
Proof.
  intros Hn Hd Hfd Hf n p. revert i Hn. induction defs as [|d0 defs IH]; intros i Hn; [destruct i; discriminate|].
  destruct i as [|i]; cbn [nth_error] in Hn.
  - injection Hn as ->. cbn [cl_update_at]. unfold cl_declared. cbn [flat_map]. rewrite !in_app_iff.
    rewrite Hfd, Hd. destruct (streq name n) eqn:E.
    + apply streq_eq in E. subst n. rewrite Hf. intuition.
    + apply cl_streq_false in E. intuition (try congruence).
  - cbn [cl_update_at]. unfold cl_declared. cbn [flat_map]. rewrite !in_app_iff.
    fold (cl_declared (cl_update_at defs i f) n). fold (cl_declared defs n). rewrite (IH i Hn). tauto.
Qed.

Lemma cl_update_at_names defs i f :
  (forall d, cld_name (f d) = cld_name d) -> map cld_name (cl_update_at defs i f) = map cld_name defs.
Proof.
  intros Hf. revert i. induction defs as [|d defs IH]; intros [|i]; cbn [cl_update_at map]; auto.
  - now rewrite Hf.
  - now rewrite IH.
Qed.

(* one iteration of the backfill changes only the implements list of the base definition of `name`:
   it gains the names reachable from `name` that no definition of `name` declares yet *)
Lemma cl_backfill_one_declared is_iface ifaces defs g name defs' :
  ClWf g ->
  cl_backfill_one is_iface ifaces defs g name = Some defs' ->
  map cld_name defs' = map cld_name defs /\
  forall n p, In p (cl_declared defs' n) <->
              In p (cl_declared defs n) \/
              (n = name /\ (exists d, In d defs /\ cld_name d = name) /\ ClReach g name p /\ p <> name /\
               In name (clg_nodes g)).
Proof.
  intros Hwf H. unfold cl_backfill_one in H.
  destruct (cl_base_index defs name) as [base|] eqn:Eb.
  2:{ injection H as <-. split; auto. intros n p. split; [auto|]. intros [Hd|(-> & (d & Hd & Hn) & _)]; auto.
      exfalso. eapply cl_base_index_none; eauto. }
  destruct (cl_base_index_spec _ _ _ Eb) as (bd & Hnth & Hbn).
  unfold cl_expand in H. destruct (cl_closure g name) as [cls|] eqn:Ec; [|discriminate].
  set (all := filter (fun n => negb (streq n name)) cls) in H.
  set (by_ext := flat_map (fun d => if cld_extend d && streq (cld_name d) name then cld_impls d else []) defs) in H.
  set (to_add := filter (fun p => negb (cl_mem p by_ext)) all) in H.
  set (defs1 := cl_update_at defs base _) in H.
  destruct (cl_rewrite_defs defs1 name _) as [defs2 rest] eqn:Er. injection H as <-.
  assert (Hshape : map cl_shape (cl_update_at defs2 base
            (fun d => {| cld_name := cld_name d; cld_extend := cld_extend d; cld_impls := cld_impls d;
                         cld_fields := cld_fields d ++ rest |})) = map cl_shape defs1).
  { rewrite cl_update_at_shape by reflexivity. eapply cl_rewrite_defs_shape; eauto. }
  assert (Hdecl1 : forall n p, In p (cl_declared defs1 n) <-> In p (cl_declared defs n) \/ (n = name /\ In p to_add)).
  { unfold defs1. eapply cl_declared_update; eauto. intros x. cbn [cld_impls]. apply cl_fold_insert_In. }
  assert (Hext : forall p, In p by_ext -> In p (cl_declared defs name)).
  { intros p Hp. unfold by_ext in Hp. apply in_flat_map in Hp as (d & Hd & Hp).
    destruct (cld_extend d && streq (cld_name d) name) eqn:E; [|destruct Hp].
    apply andb_true_iff in E as [_ E]. apply streq_eq in E. apply cl_declared_In. eauto. }
  assert (Hhas : exists d, In d defs /\ cld_name d = name) by (exists bd; split; [eapply nth_error_In; eauto|auto]).
  split.
  - assert (Hn1 : map cld_name defs1 = map cld_name defs).
    { unfold defs1. now apply cl_update_at_names. }
    rewrite <- Hn1.
    assert (G : forall a b, map cl_shape a = map cl_shape b -> map cld_name a = map cld_name b).
    { induction a as [|x a IH]; intros [|y b] E; try discriminate; auto. injection E as E1 _ E2.
      cbn [map]. rewrite E1. f_equal. now apply IH. }
    now apply G.
  - intros n p. rewrite (cl_declared_shape _ _ n Hshape), Hdecl1. split.
    + intros [Hd|(-> & Hp)]; auto. unfold to_add, all in Hp. apply filter_In in Hp as [Hp _].
      apply filter_In in Hp as [Hp Hne]. apply negb_true_iff, cl_streq_false in Hne.
      right. split; auto. split; auto.
      destruct (in_dec (list_eq_dec N.eq_dec) name (clg_nodes g)) as [Hnode|Hnode].
      * split; [eapply cl_closure_sound; eauto|auto].
      * rewrite (cl_closure_absent _ _ Hnode) in Ec. injection Ec as <-. destruct Hp.
    + intros [Hd|(-> & _ & Hr & Hne & Hnode)]; auto.
      destruct (in_dec (list_eq_dec N.eq_dec) p by_ext) as [Hin|Hnin]; [left; now apply Hext|].
      right. split; auto. unfold to_add, all. apply filter_In. split.
      * apply filter_In. split; [|now apply negb_true_iff, cl_streq_false].
        destruct (cl_closure_exact g name Hwf Hnode) as (c & Hc & He). rewrite Ec in Hc. injection Hc as <-.
        now apply He.
      * now apply negb_true_iff, cl_mem_false.
Qed.

(* the loop over `order`, for any of the two backfills *)
Definition cl_backfill_loop (step : list cl_def -> str -> option (list cl_def)) (order : list str)
    (defs : list cl_def) : option (list cl_def) :=
  fold_left (fun r name => match r with None => None | Some ds => step ds name end) order (Some defs).

Lemma cl_backfill_loop_none (step : list cl_def -> str -> option (list cl_def)) order :
  fold_left (fun r name => match r with None => None | Some ds => step ds name end) order None = None.
Proof. induction order; cbn; auto. Qed.

Section BackfillLoop.
Variables (g : cl_graph) (step : list cl_def -> str -> option (list cl_def)).
Hypothesis Hwf : ClWf g.
Hypothesis Hac : ClAcyclic g.
Hypothesis Hstep : forall defs name defs', step defs name = Some defs' ->
  map cld_name defs' = map cld_name defs /\
  forall n p, In p (cl_declared defs' n) <->
              In p (cl_declared defs n) \/
              (n = name /\ (exists d, In d defs /\ cld_name d = name) /\ ClReach g name p /\ p <> name /\
               In name (clg_nodes g)).

Definition ClDeclSound (defs : list cl_def) : Prop := forall n p, In p (cl_declared defs n) -> ClPath g n p.
Definition ClDeclComplete (defs : list cl_def) (name : str) : Prop :=
  forall p, ClPath g name p -> In p (cl_declared defs name).

Lemma cl_has_def_names a b name :
  map cld_name a = map cld_name b ->
  (exists d, In d a /\ cld_name d = name) -> exists d, In d b /\ cld_name d = name.
Proof.
  intros E (d & Hd & Hn). assert (In name (map cld_name b)) by (rewrite <- E, <- Hn; now apply in_map).
  apply in_map_iff in H as (d' & Hn' & Hd'). eauto.
Qed.

Lemma cl_backfill_loop_spec order : forall defs defs',
  cl_backfill_loop step order defs = Some defs' ->
  ClDeclSound defs ->
  map cld_name defs' = map cld_name defs /\ ClDeclSound defs' /\
  (forall n, ClDeclComplete defs n -> ClDeclComplete defs' n) /\
  (forall name, In name order -> (exists d, In d defs /\ cld_name d = name) -> ClDeclComplete defs' name).
Proof.
  unfold cl_backfill_loop. induction order as [|nm order IH]; intros defs defs' H Hs; cbn [fold_left] in H.
  - injection H as <-. repeat split; auto. intros name [].
  - destruct (step defs nm) as [defs1|] eqn:Es; [|now rewrite cl_backfill_loop_none in H].
    destruct (Hstep _ _ _ Es) as [Hn1 Hd1].
    assert (Hs1 : ClDeclSound defs1).
    { intros n p Hp. apply Hd1 in Hp as [Hp|(-> & _ & Hr & Hne & _)]; [now apply Hs|].
      destruct (ClReach_path _ _ _ Hr); [congruence|auto]. }
    assert (Hmono : forall n, ClDeclComplete defs n -> ClDeclComplete defs1 n).
    { intros n Hc p Hp. apply Hd1. left. now apply Hc. }
    assert (Hnew : (exists d, In d defs /\ cld_name d = nm) -> ClDeclComplete defs1 nm).
    { intros Hhas p Hp. apply Hd1. right. split; auto. split; auto. split; [now apply ClPath_reach|]. split.
      - intros ->. now apply (Hac nm).
      - destruct Hp as (c & He & _). now apply Hwf in He as [He _]. }
    destruct (IH _ _ H Hs1) as (Hn2 & Hs2 & Hmono2 & Hall2).
    split; [congruence|]. split; [exact Hs2|]. split; [auto|].
    intros name [<-|Hin] Hhas.
    + apply Hmono2. now apply Hnew.
    + apply Hall2; auto. eapply cl_has_def_names; [symmetry; exact Hn1|exact Hhas].
Qed.
End BackfillLoop.

(* C32_closure_complete, the implements lists: after the backfill every definition whose name is in the order
   lists (over its definition and extensions) exactly the names reachable from it by at least one edge *)
Theorem cl_backfill_interfaces_closed order st st' :
  ClWf (cls_graph st) -> ClAcyclic (cls_graph st) ->
  (forall n p, In p (cl_declared (cls_ifaces st) n) -> ClEdge (cls_graph st) n p) ->
  cl_backfill_interfaces order st = Some st' ->
  forall name, In name order -> (exists d, In d (cls_ifaces st) /\ cld_name d = name) ->
  forall p, In p (cl_declared (cls_ifaces st') name) <-> ClPath (cls_graph st) name p.
Proof.
  intros Hwf Hac Hedges H name Hin Hhas p. unfold cl_backfill_interfaces in H.
  set (step := fun defs name => cl_backfill_one true defs defs (cls_graph st) name).
  change (fold_left _ order (Some (cls_ifaces st))) with (cl_backfill_loop step order (cls_ifaces st)) in H.
  destruct (cl_backfill_loop step order (cls_ifaces st)) as [ifaces|] eqn:El; [|discriminate].
  injection H as <-. cbn [cls_ifaces].
  assert (Hsound : ClDeclSound (cls_graph st) (cls_ifaces st)).
  { intros n q Hq. exists q. split; [now apply Hedges|constructor]. }
  destruct (cl_backfill_loop_spec (cls_graph st) step Hwf Hac
              ltac:(intros; eapply cl_backfill_one_declared; eauto) order _ _ El Hsound) as (_ & Hs & _ & Hall).
  split; [apply Hs|]. now apply Hall.
Qed.

Theorem cl_backfill_objects_closed st st' :
  ClWf (cls_graph st) -> ClAcyclic (cls_graph st) ->
  (forall n p, In p (cl_declared (cls_objs st) n) -> ClEdge (cls_graph st) n p) ->
  cl_backfill_objects st = Some st' ->
  forall name, (exists d, In d (cls_objs st) /\ cld_name d = name) ->
  forall p, In p (cl_declared (cls_objs st') name) <-> ClPath (cls_graph st) name p.
Proof.
  intros Hwf Hac Hedges H name Hhas p. unfold cl_backfill_objects in H.
  set (step := fun defs name => cl_backfill_one false (cls_ifaces st) defs (cls_graph st) name).
  change (fold_left _ (cl_unique_names (cls_objs st)) (Some (cls_objs st)))
    with (cl_backfill_loop step (cl_unique_names (cls_objs st)) (cls_objs st)) in H.
  destruct (cl_backfill_loop step (cl_unique_names (cls_objs st)) (cls_objs st)) as [objs|] eqn:El; [|discriminate].
  injection H as <-. cbn [cls_objs].
  assert (Hsound : ClDeclSound (cls_graph st) (cls_objs st)).
  { intros n q Hq. exists q. split; [now apply Hedges|constructor]. }
  destruct (cl_backfill_loop_spec (cls_graph st) step Hwf Hac
              ltac:(intros; eapply cl_backfill_one_declared; eauto) _ _ _ El Hsound) as (_ & Hs & _ & Hall).
  split; [apply Hs|]. apply Hall; auto.
  (* every defined name is in unique_names *)
  destruct Hhas as (d & Hd & <-). clear - Hd. unfold cl_unique_names.
  assert (G : forall defs seen, In d defs \/ In (cld_name d) seen ->
                In (cld_name d) (fold_left (fun seen d => cl_insert seen (cld_name d)) defs seen)).
  { induction defs as [|x defs IH]; intros seen [H|H]; cbn [fold_left]; try now destruct H. exact H.
    - apply IH. destruct H as [<-|H]; [right|now left]. unfold cl_insert.
      destruct (cl_mem (cld_name x) seen) eqn:E; [now apply cl_mem_In|apply in_or_app; right; now left].
    - apply IH. right. unfold cl_insert. destruct (cl_mem (cld_name x) seen); [auto|apply in_or_app; now left]. }
  apply G. now left.
Qed.
