(* Runs of the closure/backfill model: the refuting witness for "every inherited field has the inherited
   type", the run that refuted "every interface is listed once" before repair fix2-c32-1 (under the old and the
   repaired object_type_definition), and a run on which everything holds (non-vacuity). *)
From ApolloVerif Require Import Base.Chars Ast.Ast Smith.Closure Smith.ClosureProofs.

Definition cx_A1 : str := [65;49]. Definition cx_A3 : str := [65;51]. Definition cx_A5 : str := [65;53].
Definition cx_O : str := [79].
Definition cx_a : str := [97]. Definition cx_f : str := [102]. Definition cx_y : str := [121].
Definition cx_T : str := [84]. Definition cx_Tnn : str := [84;33].
Definition cx_fld (n s : str) : cl_field := {| clf_name := n; clf_sig := s |}.

Definition cx_bind {A B} (x : option A) (f : A -> option B) : option B :=
  match x with Some a => f a | None => None end.

(* interface A1 { a: T }  interface A3 { f: T! }  interface A5 implements A3 & A1 { }
   extend interface A1 { f: T }    -- the extension adds a field A5 already inherits from A3 with another type *)
Definition cx_conflict_run : option cl_state :=
  cx_bind (cl_add_interface cl_init false cx_A1 [] [cx_fld cx_a cx_T]) (fun s1 =>
  cx_bind (cl_add_interface s1 false cx_A3 [] [cx_fld cx_f cx_Tnn]) (fun s2 =>
  cx_bind (cl_add_interface s2 false cx_A5 [cx_A3; cx_A1] []) (fun s3 =>
  cx_bind (cl_add_interface s3 true cx_A1 [] [cx_fld cx_f cx_T]) (fun s4 =>
  cl_backfill_interfaces [cx_A1; cx_A3; cx_A5] s4)))).

Lemma cx_conflict_refutes :
  exists st, cx_conflict_run = Some st /\
    In cx_A3 (cl_declared (cls_ifaces st) cx_A5) /\
    cl_sig_get (cl_fields_of (cls_ifaces st) cx_A3) cx_f = Some (cx_fld cx_f cx_Tnn) /\
    cl_sig_get (cl_fields_of (cls_ifaces st) cx_A5) cx_f = Some (cx_fld cx_f cx_T) /\
    cl_fields_inherited (cls_ifaces st) (cls_ifaces st) = false /\
    cl_parents_conflict (cls_ifaces st) (cls_ifaces st) = true.
Proof. eexists. split; [vm_compute; reflexivity|]. vm_compute. intuition. Qed.

(* interface A1 { a: T }   type O implements A1 { y: T }   extend type O { f: T }, the extension drawing the
   candidate A1 again: `add` is cl_add_object (the code as it is) or cl_add_object_old (before repair fix2-c32-1) *)
Definition cx_dup_run_with (add : cl_state -> bool -> str -> list str -> list cl_field -> option cl_state)
  : option cl_state :=
  cx_bind (cl_add_interface cl_init false cx_A1 [] [cx_fld cx_a cx_T]) (fun s1 =>
  cx_bind (cl_backfill_interfaces [cx_A1] s1) (fun s2 =>
  cx_bind (add s2 false cx_O [cx_A1] [cx_fld cx_y cx_T]) (fun s3 =>
  cx_bind (add s3 true cx_O [cx_A1] [cx_fld cx_f cx_T]) (fun s4 =>
  cl_backfill_objects s4)))).
Definition cx_dup_run : option cl_state := cx_dup_run_with cl_add_object.
Definition cx_dup_run_old : option cl_state := cx_dup_run_with cl_add_object_old.

(* before the repair the extension repeated A1 *)
Lemma cx_dup_old_refutes :
  exists st, cx_dup_run_old = Some st /\ cl_declared (cls_objs st) cx_O = [cx_A1; cx_A1] /\
             cl_dup_implements (cls_objs st) = true.
Proof. eexists. split; [vm_compute; reflexivity|]. vm_compute. auto. Qed.

(* the same draws now give `extend type O { f: T }` *)
Lemma cx_dup_run_facts :
  exists st, cx_dup_run = Some st /\ cl_declared (cls_objs st) cx_O = [cx_A1] /\
             cl_dup_implements (cls_objs st) = false.
Proof. eexists. split; [vm_compute; reflexivity|]. vm_compute. auto. Qed.

(* interface A1 { a: T }  interface A3 implements A1 { f: T! }  interface A5 implements A3 {}  type O implements A5 *)
Definition cx_good_ifaces : option cl_state :=
  cx_bind (cl_add_interface cl_init false cx_A1 [] [cx_fld cx_a cx_T]) (fun s1 =>
  cx_bind (cl_add_interface s1 false cx_A3 [cx_A1] [cx_fld cx_f cx_Tnn]) (fun s2 =>
  cl_add_interface s2 false cx_A5 [cx_A3] [])).

Definition cx_good_run : option cl_state :=
  cx_bind cx_good_ifaces (fun s3 =>
  cx_bind (cl_backfill_interfaces [cx_A1; cx_A3; cx_A5] s3) (fun s4 =>
  cx_bind (cl_add_object s4 false cx_O [cx_A5] [cx_fld cx_y cx_T]) (fun s5 =>
  cl_backfill_objects s5))).

Lemma cx_good_facts :
  exists st, cx_good_run = Some st /\
    cl_declared (cls_ifaces st) cx_A5 = [cx_A3; cx_A1] /\
    cl_declared (cls_objs st) cx_O = [cx_A5; cx_A1; cx_A3] /\
    cl_fields_inherited (cls_ifaces st) (cls_ifaces st) = true /\
    cl_fields_inherited (cls_ifaces st) (cls_objs st) = true /\
    cl_acyclic (cls_graph st) = Some true.
Proof. eexists. split; [vm_compute; reflexivity|]. vm_compute. auto. Qed.

Lemma cx_init_wf : ClWf (cls_graph cl_init) /\ ClAcyclic (cls_graph cl_init).
Proof. split; [intros a b []|intros a (c & [] & _)]. Qed.
