(* Model of crates/apollo-smith/src/response.rs (ResponseBuilder without partial data and without custom
   generators), generators.rs (the five default scalar generators and the string fallback) and the
   RandomProvider trait of random.rs over an ABSTRACT randomness source.

   Randomness.  The source is a list of natural numbers ("choices").  Every call of a RandomProvider
   method consumes exactly one choice c (except choose_index(0), which fails without consuming) and maps it
   into the requested range by reduction modulo the size of the range, so every in-range answer of every
   provider is produced by some stream.  Running out of choices is RsExhausted (ResponseError::Exhausted).
   The harness (harness/src/c33.rs) implements RandomProvider exactly like this, replaying the case's stream.

   Typing.  The real code works on an ExecutableDocument whose fields carry their FieldDefinition (looked up,
   when the document was built, on the type of the selection set the field is written in).  Here the document
   is the shared AST; every selection travels with the name of the type of the selection set it was written
   in (`rcf_parent`), and the definition is looked up on demand (rs_field_ty): same answer, later. *)
From Coq Require Import ZArith.
From ApolloVerif Require Import Base.Chars Ast.Ast Schema.Model.

(* ---- JSON values (serde_json_bytes::Value).  Objects keep insertion order (preserve_order). ---- *)
Inductive rs_json :=
| RJNull
| RJBool (b : bool)
| RJInt (z : Z)
| RJFloat (halves : Z)          (* the float halves/2 : the replay provider only produces multiples of 1/2 *)
| RJString (s : str)
| RJArray (l : list rs_json)
| RJObject (kvs : list (str * rs_json)).

(* ---- outcomes ---- *)
Inductive rs_res (A : Type) :=
| RsOk (a : A) (rest : list N)
| RsExhausted                    (* ResponseError::Exhausted *)
| RsEmptyChoose                  (* ResponseError::EmptyChoose *)
| RsPanic                        (* expect / unreachable! / index out of bounds / provider contract violated *)
| RsInvalidDoc                   (* a field has no definition on its parent type: no such ExecutableDocument exists *)
| RsFuel.                        (* the model's recursion bound was reached (excluded by C33_fuel_enough) *)
Arguments RsOk {A}. Arguments RsExhausted {A}. Arguments RsEmptyChoose {A}. Arguments RsPanic {A}.
Arguments RsInvalidDoc {A}. Arguments RsFuel {A}.

Definition rs_m (A : Type) := list N -> rs_res A.

Definition rs_ret {A} (a : A) : rs_m A := fun st => RsOk a st.
Definition rs_bind {A B} (m : rs_m A) (f : A -> rs_m B) : rs_m B :=
  fun st => match m st with
            | RsOk a rest => f a rest
            | RsExhausted => RsExhausted
            | RsEmptyChoose => RsEmptyChoose
            | RsPanic => RsPanic
            | RsInvalidDoc => RsInvalidDoc
            | RsFuel => RsFuel
            end.
Definition rs_panic {A} : rs_m A := fun _ => RsPanic.
Definition rs_invalid {A} : rs_m A := fun _ => RsInvalidDoc.
Definition rs_nofuel {A} : rs_m A := fun _ => RsFuel.

(* ---- the RandomProvider (random.rs trait), as implemented by the replaying provider ---- *)
Definition rs_next : rs_m N :=
  fun st => match st with [] => RsExhausted | c :: r => RsOk c r end.

(* gen_bool *)
Definition rs_gen_bool : rs_m bool := rs_bind rs_next (fun c => rs_ret (N.odd c)).

(* gen_usize_range(min, max) and gen_i32_range(min, max) for 0 <= min: inclusive; min > max violates the
   contract (Unstructured::int_in_range asserts, rand panics) *)
Definition rs_gen_range (lo hi : N) : rs_m N :=
  if hi <? lo then rs_panic
  else rs_bind rs_next (fun c => rs_ret (lo + c mod (hi - lo + 1))).

(* gen_f64_range(-1.0, 1.0): one of -1, 0, 1, in halves *)
Definition rs_gen_float_halves : rs_m Z :=
  rs_bind rs_next (fun c => rs_ret (2 * Z.of_N (c mod 3) - 2)%Z).

(* gen_alphanumeric_char: the table A-Z a-z 0-9 *)
Definition rs_alnum (c : N) : N :=
  let i := c mod 62 in
  if i <? 26 then 65 + i else if i <? 52 then 97 + (i - 26) else 48 + (i - 52).
Definition rs_gen_alnum : rs_m N := rs_bind rs_next (fun c => rs_ret (rs_alnum c)).

(* choose_index(len) *)
Definition rs_choose_index (len : N) : rs_m N :=
  if len =? 0 then (fun _ => RsEmptyChoose)
  else rs_bind rs_next (fun c => rs_ret (c mod len)).

(* ratio(numerator, denominator) *)
Definition rs_ratio (n d : N) : rs_m bool :=
  if d =? 0 then rs_panic
  else rs_bind rs_next (fun c => rs_ret (c mod d <? n)).

(* ---- configuration: with_min_list_size, with_max_list_size, with_null_ratio ---- *)
Record rs_cfg := { rc_min : N; rc_max : N; rc_null : option (N * N) }.

(* arbitrary_len *)
Definition rs_arbitrary_len (cfg : rs_cfg) : rs_m N := rs_gen_range (rc_min cfg) (rc_max cfg).

(* should_be_null *)
Definition rs_should_be_null (cfg : rs_cfg) : rs_m bool :=
  match rc_null cfg with
  | Some (n, d) => rs_ratio n d
  | None => rs_ret false
  end.

(* ---- names ---- *)
Definition rs_typename : str := [95;95;116;121;112;101;110;97;109;101].   (* __typename *)
Definition rs_n_int : str := [73;110;116].
Definition rs_n_float : str := [70;108;111;97;116].
Definition rs_n_string : str := [83;116;114;105;110;103].
Definition rs_n_boolean : str := [66;111;111;108;101;97;110].
Definition rs_n_id : str := [73;68].

(* i32::to_string for 0 <= n < 1000 (IdGenerator over 0..=100) *)
Definition rs_decimal (n : N) : str :=
  if n <? 10 then [48 + n]
  else if n <? 100 then [48 + n / 10; 48 + n mod 10]
  else [48 + n / 100; 48 + (n / 10) mod 10; 48 + n mod 10].

(* ---- generators.rs: the default registry ---- *)
Fixpoint rs_repeat {A} (n : nat) (m : rs_m A) : rs_m (list A) :=
  match n with
  | O => rs_ret []
  | S n' => rs_bind m (fun x => rs_bind (rs_repeat n' m) (fun xs => rs_ret (x :: xs)))
  end.

(* StringGenerator { min_len: 1, max_len: 10 } *)
Definition rs_gen_string : rs_m rs_json :=
  rs_bind (rs_gen_range 1 10) (fun len =>
  rs_bind (rs_repeat (N.to_nat len) rs_gen_alnum) (fun cs => rs_ret (RJString cs))).

(* Generators::default().map.get(name): Some for the five built-in scalar names *)
Definition rs_registered (name : str) : option (rs_m rs_json) :=
  if streq name rs_n_boolean then Some (rs_bind rs_gen_bool (fun b => rs_ret (RJBool b)))
  else if streq name rs_n_int then Some (rs_bind (rs_gen_range 0 100) (fun n => rs_ret (RJInt (Z.of_N n))))
  else if streq name rs_n_id then Some (rs_bind (rs_gen_range 0 100) (fun n => rs_ret (RJString (rs_decimal n))))
  else if streq name rs_n_float then Some (rs_bind rs_gen_float_halves (fun h => rs_ret (RJFloat h)))
  else if streq name rs_n_string then Some rs_gen_string
  else None.

(* Generators::generate_scalar: the registered generator, else the string fallback *)
Definition rs_generate_scalar (name : str) : rs_m rs_json :=
  match rs_registered name with
  | Some g => g
  | None => rs_gen_string
  end.

(* ---- schema access ---- *)
(* IndexSet<ComponentName>::contains(name) *)
Definition rs_lists (impls : list (comp str)) (i : str) : bool :=
  existsb (fun c => streq (c_val c) i) impls.

(* schema.types.iter().filter(Object(obj) if obj.implements_interfaces.contains(ty)) *)
Definition rs_implementers (s : schema) (i : str) : list str :=
  flat_map (fun t => match t with
                     | EObject _ n impls _ _ _ => if rs_lists impls i then [n] else []
                     | _ => []
                     end) (sch_types s).

Fixpoint rs_find_field (fields : list (comp fielddef)) (name : str) : option ty :=
  match fields with
  | [] => None
  | f :: r => if streq name (fd_name (c_val f)) then Some (fd_ty (c_val f)) else rs_find_field r name
  end.

(* the definition's type of field `name` on type `parent` (objects and interfaces have fields) *)
Definition rs_field_ty (s : schema) (parent name : str) : option ty :=
  match sch_get_type s parent with
  | Some (EObject _ _ _ _ fields _) => rs_find_field fields name
  | Some (EInterface _ _ _ _ fields _) => rs_find_field fields name
  | _ => None
  end.

(* ---- collected fields ---- *)
Record rs_cfield := { rcf_parent : str; rcf_alias : option str; rcf_name : str; rcf_sels : list selection }.

Definition rcf_key (f : rs_cfield) : str :=
  match rcf_alias f with Some a => a | None => rcf_name f end.

(* field.ty(): `__typename: String!` is defined on every composite type; __schema and __type are not modelled *)
Definition rs_cfield_ty (s : schema) (f : rs_cfield) : option ty :=
  if streq (rcf_name f) rs_typename then Some (TNonNullNamed rs_n_string)
  else rs_field_ty s (rcf_parent f) (rcf_name f).

(* IndexMap<String, Vec<Node<Field>>> *)
Definition rs_groups := list (str * list rs_cfield).

(* collected.entry(key).or_default().append(fields) *)
Fixpoint rs_merge (g : rs_groups) (k : str) (fs : list rs_cfield) : rs_groups :=
  match g with
  | [] => [(k, fs)]
  | (k', fs') :: r => if streq k k' then (k', fs' ++ fs) :: r else (k', fs') :: rs_merge r k fs
  end.

(* for (key, fields) in sub { collected.entry(key).or_default().append(fields) } *)
Definition rs_merge_all (acc sub : rs_groups) : rs_groups :=
  fold_left (fun a kf => rs_merge a (fst kf) (snd kf)) sub acc.

(* doc.fragments.get(name): type condition and selections *)
Fixpoint rs_find_fragment (d : document) (n : str) : option (str * list selection) :=
  match d with
  | [] => None
  | DFragment name cond _ sels :: r => if streq n name then Some (cond, sels) else rs_find_fragment r n
  | _ :: r => rs_find_fragment r n
  end.

(* type_condition_matches *)
Definition rs_tc_matches (s : schema) (cond concrete : str) : bool :=
  if streq cond concrete then true
  else match sch_get_type s cond with
       | Some (EInterface _ _ _ _ _ _) =>
           match sch_get_type s concrete with
           | Some (EObject _ _ impls _ _ _) => rs_lists impls cond
           | _ => false
           end
       | Some (EUnion _ _ _ members _) => existsb (fun m => streq (c_val m) concrete) members
       | _ => false
       end.

(* a selection set: its selections, each with the type of the selection set it was written in *)
Definition rs_psels := list (str * selection).
Definition rs_under (p : str) (sels : list selection) : rs_psels := map (pair p) sels.

(* collect_fields: one fresh map per call, merged into the caller's.  `rec` is the recursive call for the
   selection set of a fragment; fuel (in rs_collect) bounds the nesting of fragments (spreads may be cyclic in
   an invalid document; the code would overflow its stack). *)
Fixpoint rs_collect_go (rec : rs_psels -> option rs_groups) (s : schema) (d : document) (concrete : str)
    (l : rs_psels) (acc : rs_groups) {struct l} : option rs_groups :=
  match l with
  | [] => Some acc
  | (p, sel) :: r =>
      match sel with
      | SField alias name _ _ sels =>
          let f := {| rcf_parent := p; rcf_alias := alias; rcf_name := name; rcf_sels := sels |} in
          rs_collect_go rec s d concrete r (rs_merge acc (rcf_key f) [f])
      | SSpread n _ =>
          match rs_find_fragment d n with
          | Some (cond, fsels) =>
              if rs_tc_matches s cond concrete then
                match rec (rs_under cond fsels) with
                | None => None
                | Some sub => rs_collect_go rec s d concrete r (rs_merge_all acc sub)
                end
              else rs_collect_go rec s d concrete r acc
          | None => rs_collect_go rec s d concrete r acc
          end
      | SInline cond _ sels =>
          let p' := match cond with Some c => c | None => p end in
          let applies := match cond with Some c => rs_tc_matches s c concrete | None => true end in
          if applies then
            match rec (rs_under p' sels) with
            | None => None
            | Some sub => rs_collect_go rec s d concrete r (rs_merge_all acc sub)
            end
          else rs_collect_go rec s d concrete r acc
      end
  end.

Fixpoint rs_collect (fuel : nat) (s : schema) (d : document) (concrete : str) (psels : rs_psels)
  : option rs_groups :=
  match fuel with
  | O => None
  | S fuel' => rs_collect_go (rs_collect fuel' s d concrete) s d concrete psels []
  end.

(* concrete_type *)
Definition rs_nth_or_panic {A} (l : list A) (i : N) : rs_m A :=
  match nth_error l (N.to_nat i) with
  | Some x => rs_ret x
  | None => rs_panic
  end.

Definition rs_concrete_type (s : schema) (ty : str) : rs_m str :=
  match sch_get_type s ty with
  | Some (EUnion _ _ _ members _) =>
      rs_bind (rs_choose_index (N.of_nat (length members))) (fun idx =>
      rs_bind (rs_nth_or_panic members idx) (fun m => rs_ret (c_val m)))
  | Some (EInterface _ _ _ _ _ _) =>
      let impls := rs_implementers s ty in
      match impls with
      | [] => rs_ret ty
      | _ => rs_bind (rs_choose_index (N.of_nat (length impls))) (fun idx => rs_nth_or_panic impls idx)
      end
  | _ => rs_ret ty
  end.

(* leaf_field *)
Definition rs_leaf_field (s : schema) (name : str) : rs_m rs_json :=
  match sch_get_type s name with
  | None => rs_panic
  | Some (EEnum _ _ _ values _) =>
      rs_bind (rs_choose_index (N.of_nat (length values))) (fun idx =>
      rs_bind (rs_nth_or_panic values idx) (fun v => rs_ret (RJString (ev_value (c_val v)))))
  | Some (EScalar _ n _ _) => rs_generate_scalar n
  | Some _ => rs_panic
  end.

(* value_of_type, over the recursive call `selset` of selection_set *)
Fixpoint rs_value_of_type (selset : str -> rs_psels -> rs_m rs_json) (cfg : rs_cfg) (s : schema)
    (t : ty) (sub : option (str * rs_psels)) : rs_m rs_json :=
  match t with
  | TList it | TNonNullList it =>
      rs_bind (rs_arbitrary_len cfg) (fun n =>
      rs_bind (rs_repeat (N.to_nat n) (rs_value_of_type selset cfg s it sub)) (fun vs =>
      rs_ret (RJArray vs)))
  | TNamed n | TNonNullNamed n =>
      match sub with
      | Some (sty, psels) => selset sty psels
      | None => rs_leaf_field s n
      end
  end.

(* the sub-selections of the fields of one group, each under its own field's selection_set.ty *)
Fixpoint rs_merged_selections (s : schema) (fields : list rs_cfield) : option rs_psels :=
  match fields with
  | [] => Some []
  | f :: r =>
      match rs_cfield_ty s f, rs_merged_selections s r with
      | Some fty, Some rest => Some (rs_under (inner_named_type fty) (rcf_sels f) ++ rest)
      | _, _ => None
      end
  end.

(* generate_field_value *)
Definition rs_generate_field_value (selset : str -> rs_psels -> rs_m rs_json) (cfg : rs_cfg) (s : schema)
    (fields : list rs_cfield) (meta : rs_cfield) (mty : ty) : rs_m rs_json :=
  match rcf_sels meta with
  | [] => rs_value_of_type selset cfg s mty None
  | _ :: _ =>
      match rs_merged_selections s fields with
      | None => rs_invalid
      | Some merged => rs_value_of_type selset cfg s mty (Some (inner_named_type mty, merged))
      end
  end.

(* the loop of selection_set over the grouped fields *)
Fixpoint rs_gen_fields (selset : str -> rs_psels -> rs_m rs_json) (cfg : rs_cfg) (s : schema)
    (concrete : str) (groups : rs_groups) : rs_m (list (str * rs_json)) :=
  match groups with
  | [] => rs_ret []
  | (key, fields) :: r =>
      match fields with
      | [] => rs_panic
      | meta :: _ =>
          rs_bind
            (if streq (rcf_name meta) rs_typename then rs_ret (RJString concrete)
             else match rs_cfield_ty s meta with
                  | None => rs_invalid
                  | Some mty =>
                      rs_bind (if is_non_null mty then rs_ret false else rs_should_be_null cfg) (fun nul =>
                      if nul then rs_ret RJNull
                      else rs_generate_field_value selset cfg s fields meta mty)
                  end)
            (fun v => rs_bind (rs_gen_fields selset cfg s concrete r) (fun kvs => rs_ret ((key, v) :: kvs)))
      end
  end.

(* selection_set *)
Fixpoint rs_selset (fuel : nat) (cfg : rs_cfg) (s : schema) (d : document) (ty : str) (psels : rs_psels)
  : rs_m rs_json :=
  match fuel with
  | O => rs_nofuel
  | S fuel' =>
      rs_bind (rs_concrete_type s ty) (fun concrete =>
      match rs_collect fuel' s d concrete psels with
      | None => rs_nofuel
      | Some groups =>
          match rs_registered ty with
          | Some g => g                                  (* generators.try_generate(&selection_set.ty, ..) *)
          | None =>
              rs_bind (rs_gen_fields (rs_selset fuel' cfg s d) cfg s concrete groups) (fun kvs =>
              rs_ret (RJObject kvs))
          end
      end)
  end.

(* ---- build_data: doc.operations.get(operation_name), then the operation's selection set ---- *)
Definition rs_ops (d : document) : list (optype * option str * list selection) :=
  flat_map (fun df => match df with DOperation o n _ _ sels => [(o, n, sels)] | _ => [] end) d.

Definition rs_find_operation (d : document) (name : option str)
  : option (optype * option str * list selection) :=
  let ops := rs_ops d in
  match name with
  | Some n => find (fun o => match snd (fst o) with Some m => streq n m | None => false end) ops
  | None =>
      let named := filter (fun o => match snd (fst o) with Some _ => true | None => false end) ops in
      match find (fun o => match snd (fst o) with Some _ => false | None => true end) ops with
      | Some anon => match named with [] => Some anon | _ => None end
      | None => match named with [o] => Some o | _ => None end
      end
  end.

(* operation.selection_set.ty: the schema's root operation type *)
Definition rs_root_type (s : schema) (o : optype) : option str :=
  match o with
  | OpQuery => option_map c_val (sd_query (sch_def s))
  | OpMutation => option_map c_val (sd_mutation (sch_def s))
  | OpSubscription => option_map c_val (sd_subscription (sch_def s))
  end.

Definition rs_build_data (fuel : nat) (cfg : rs_cfg) (s : schema) (d : document) (opname : option str)
  : rs_m rs_json :=
  match rs_find_operation d opname with
  | None => rs_ret RJNull
  | Some (o, _, sels) =>
      match rs_root_type s o with
      | None => rs_invalid
      | Some root => rs_selset fuel cfg s d root (rs_under root sels)
      end
  end.
