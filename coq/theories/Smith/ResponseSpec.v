(* The shape specification of C33, written from the GraphQL specification (section 6: CollectFields,
   DoesFragmentTypeApply, GetPossibleTypes, CompleteValue) over the shared AST and Schema, independently of the
   model of the generator in Response.v:
     - the fields of a selection set are FLATTENED for the concrete object type (fragments that apply are
       expanded in document order), then grouped by response key in order of first occurrence
       (Response.v instead mirrors the code's nested IndexMap merges);
     - the type of a response position is the field definition on the CONCRETE object type
       (Response.v, like the code, uses the definition found on the type the selection was written under).
   The specification's `visitedFragments` set is not modelled: a fragment spread twice is flattened twice, which
   yields the same response keys in the same order and the same merged sub-selections up to repetition.
   Only the schema accessors (sch_get_type, rs_field_ty, rs_implementers, rs_find_fragment) are shared. *)
From Coq Require Import ZArith.
From ApolloVerif Require Import Base.Chars Ast.Ast Schema.Model Smith.Response.

(* GetPossibleTypes(type), object types only *)
Definition RsPossible (s : schema) (pty T : str) : Prop :=
  match sch_get_type s pty with
  | Some (EObject _ _ _ _ _ _) => T = pty
  | Some (EInterface _ _ _ _ _ _) => In T (rs_implementers s pty)
  | Some (EUnion _ _ _ members _) => In T (map c_val members)
  | _ => False
  end.

(* DoesFragmentTypeApply(objectType T, fragmentType cond) *)
Definition RsApplies (s : schema) (cond T : str) : Prop :=
  cond = T \/
  (exists a b c d e f, sch_get_type s cond = Some (EInterface a b c d e f)) /\
    (exists a b impls d e f, sch_get_type s T = Some (EObject a b impls d e f) /\ In cond (map c_val impls)) \/
  (exists a b c members e, sch_get_type s cond = Some (EUnion a b c members e) /\ In T (map c_val members)).

(* a field selection as CollectFields sees it *)
Record rs_sfield := { sf_alias : option str; sf_name : str; sf_sels : list selection }.
Definition sf_key (f : rs_sfield) : str :=
  match sf_alias f with Some a => a | None => sf_name f end.

(* the field selections of a selection set that apply to concrete type T, in document order *)
Inductive RsFlat (s : schema) (d : document) (T : str) : list selection -> list rs_sfield -> Prop :=
| RsFlat_nil : RsFlat s d T [] []
| RsFlat_field a n args dirs sels r fr :
    RsFlat s d T r fr ->
    RsFlat s d T (SField a n args dirs sels :: r) ({| sf_alias := a; sf_name := n; sf_sels := sels |} :: fr)
| RsFlat_spread_yes n dirs cond fsels r ff fr :
    rs_find_fragment d n = Some (cond, fsels) -> RsApplies s cond T ->
    RsFlat s d T fsels ff -> RsFlat s d T r fr ->
    RsFlat s d T (SSpread n dirs :: r) (ff ++ fr)
| RsFlat_spread_no n dirs cond fsels r fr :
    rs_find_fragment d n = Some (cond, fsels) -> ~ RsApplies s cond T ->
    RsFlat s d T r fr ->
    RsFlat s d T (SSpread n dirs :: r) fr
| RsFlat_spread_undefined n dirs r fr :
    rs_find_fragment d n = None ->
    RsFlat s d T r fr ->
    RsFlat s d T (SSpread n dirs :: r) fr
| RsFlat_inline_yes cond dirs sels r ff fr :
    (forall c, cond = Some c -> RsApplies s c T) ->
    RsFlat s d T sels ff -> RsFlat s d T r fr ->
    RsFlat s d T (SInline cond dirs sels :: r) (ff ++ fr)
| RsFlat_inline_no c dirs sels r fr :
    ~ RsApplies s c T ->
    RsFlat s d T r fr ->
    RsFlat s d T (SInline (Some c) dirs sels :: r) fr.

(* response keys in order of first occurrence *)
Fixpoint rs_first_occ (seen keys : list str) : list str :=
  match keys with
  | [] => []
  | k :: r => if existsb (streq k) seen then rs_first_occ seen r else k :: rs_first_occ (k :: seen) r
  end.

(* the fields with response key k *)
Definition rs_with_key (k : str) (flat : list rs_sfield) : list rs_sfield :=
  filter (fun f => streq k (sf_key f)) flat.

(* leaf values: a defined enum value; a built-in scalar of the right JSON kind; any non-null value for a custom
   scalar *)
Definition rs_i32 (z : Z) : Prop := (-2147483648 <= z < 2147483648)%Z.

Definition RsLeafOk (s : schema) (n : str) (v : rs_json) : Prop :=
  match sch_get_type s n with
  | Some (EEnum _ _ _ values _) => exists x, v = RJString x /\ In x (map (fun c => ev_value (c_val c)) values)
  | Some (EScalar _ _ _ _) =>
      if streq n rs_n_int then exists z, v = RJInt z /\ rs_i32 z
      else if streq n rs_n_float then (exists h, v = RJFloat h) \/ (exists z, v = RJInt z)
      else if streq n rs_n_string then exists x, v = RJString x
      else if streq n rs_n_boolean then exists b, v = RJBool b
      else if streq n rs_n_id then exists x, v = RJString x
      else v <> RJNull
  | _ => False
  end.

Definition RsComposite (s : schema) (n : str) : Prop :=
  match sch_get_type s n with
  | Some (EObject _ _ _ _ _ _) | Some (EInterface _ _ _ _ _ _) | Some (EUnion _ _ _ _ _) => True
  | _ => False
  end.

(* item type of a list type *)
Definition rs_item_ty (t : ty) : option ty :=
  match t with TList it | TNonNullList it => Some it | _ => None end.
Definition rs_named_ty (t : ty) : option str :=
  match t with TNamed n | TNonNullNamed n => Some n | _ => None end.

(* RsValueOk t sels v : v is a complete value for a position of type t whose merged sub-selections are sels
   RsObjOk pty sels v : v is the response object of selection set sels on a value of (abstract) type pty *)
Inductive RsValueOk (s : schema) (d : document) : ty -> list selection -> rs_json -> Prop :=
| RsV_null t sels : is_non_null t = false -> RsValueOk s d t sels RJNull
| RsV_list t it sels vs :
    rs_item_ty t = Some it -> Forall (RsValueOk s d it sels) vs -> RsValueOk s d t sels (RJArray vs)
| RsV_leaf t n sels v :
    rs_named_ty t = Some n -> RsLeafOk s n v -> RsValueOk s d t sels v
| RsV_obj t n sels v :
    rs_named_ty t = Some n -> RsObjOk s d n sels v -> RsValueOk s d t sels v
with RsObjOk (s : schema) (d : document) : str -> list selection -> rs_json -> Prop :=
| RsO_intro pty sels T flat kvs :
    RsPossible s pty T ->
    RsFlat s d T sels flat ->
    map fst kvs = rs_first_occ [] (map sf_key flat) ->
    (forall k v, In (k, v) kvs ->
       forall f, In f (rs_with_key k flat) ->
         (sf_name f = rs_typename /\ v = RJString T) \/
         (sf_name f <> rs_typename /\
          exists t, rs_field_ty s T (sf_name f) = Some t /\
                    RsValueOk s d t (flat_map sf_sels (rs_with_key k flat)) v)) ->
    RsObjOk s d pty sels (RJObject kvs).

(* ---- what validation guarantees and the theorem uses (hereditarily along the response) ----
   FieldsInSetCanMerge: for one concrete type, selections with the same response key select the same field;
   LeafFieldSelections: a field with sub-selections has a composite type. *)
Inductive RsValid (s : schema) (d : document) : str -> list selection -> Prop :=
| RsValid_intro pty sels :
    (forall T flat, RsPossible s pty T -> RsFlat s d T sels flat ->
       (forall f g, In f flat -> In g flat -> sf_key f = sf_key g -> sf_name f = sf_name g) /\
       (forall f t, In f flat -> sf_name f <> rs_typename -> rs_field_ty s T (sf_name f) = Some t ->
          sf_sels f <> [] ->
          RsComposite s (inner_named_type t) /\
          RsValid s d (inner_named_type t) (flat_map sf_sels (rs_with_key (sf_key f) flat)))) ->
    RsValid s d pty sels.

(* every interface has at least one implementing object type *)
Definition RsHasImplementers (s : schema) : Prop :=
  forall i a b c dd e f, sch_get_type s i = Some (EInterface a b c dd e f) -> rs_implementers s i <> [].

(* the five built-in scalar names are not used for anything but scalars; type names are unique (IndexMap) *)
Definition RsBuiltinsOk (s : schema) : Prop :=
  forall n g, rs_registered n = Some g -> ~ RsComposite s n.
Definition RsNamesUnique (s : schema) : Prop := NoDup (map et_name (sch_types s)).

(* ---- the known class: a selected field whose definition on some possible concrete type differs from the
   definition on the type it is selected under (an implementing type may narrow a field's type:
   `interface I { x: Int }  type T implements I { x: Int! }`).  Decidable; evaluated on (schema, document). *)
Fixpoint rs_ty_eqb (a b : ty) : bool :=
  match a, b with
  | TNamed x, TNamed y => streq x y
  | TNonNullNamed x, TNonNullNamed y => streq x y
  | TList x, TList y => rs_ty_eqb x y
  | TNonNullList x, TNonNullList y => rs_ty_eqb x y
  | _, _ => false
  end.

(* field `name` (of type t on parent p) has another type on some object type implementing p *)
Definition rs_cov_field (s : schema) (p name : str) (t : ty) : bool :=
  existsb (fun T => match rs_field_ty s T name with
                    | Some t' => negb (rs_ty_eqb t t')
                    | None => true
                    end) (rs_implementers s p).

Fixpoint rs_cov_sel (s : schema) (p : str) (sel : selection) : bool :=
  match sel with
  | SField _ name _ _ sels =>
      match rs_cfield_ty s {| rcf_parent := p; rcf_alias := None; rcf_name := name; rcf_sels := [] |} with
      | Some t =>
          (negb (streq name rs_typename) && rs_cov_field s p name t)
          || existsb (rs_cov_sel s (inner_named_type t)) sels
      | None => false
      end
  | SSpread _ _ => false
  | SInline cond _ sels =>
      existsb (rs_cov_sel s (match cond with Some c => c | None => p end)) sels
  end.

Definition rs_cov_def (s : schema) (df : definition) : bool :=
  match df with
  | DOperation o _ _ _ sels =>
      match rs_root_type s o with
      | Some root => existsb (rs_cov_sel s root) sels
      | None => false
      end
  | DFragment _ cond _ sels => existsb (rs_cov_sel s cond) sels
  | _ => false
  end.

(* Known_C33 *)
Definition rs_known_covariant (s : schema) (d : document) : bool := existsb (rs_cov_def s) d.

(* ---- well-typedness of selections (what building the ExecutableDocument and validation establish), used by
   the no-panic theorem: every field has a definition on the type it is written under; a field without
   sub-selections has an enum (with values) or scalar type; a field with sub-selections has a composite type
   (a union with members) that is not one of the five registered scalar names ---- *)
Definition rs_leaf_type (s : schema) (n : str) : bool :=
  match sch_get_type s n with
  | Some (EEnum _ _ _ values _) => match values with [] => false | _ => true end
  | Some (EScalar _ _ _ _) => true
  | _ => false
  end.

Definition rs_composite_type (s : schema) (n : str) : bool :=
  match sch_get_type s n with
  | Some (EObject _ _ _ _ _ _) | Some (EInterface _ _ _ _ _ _) => true
  | Some (EUnion _ _ _ members _) => match members with [] => false | _ => true end
  | _ => false
  end
  && match rs_registered n with Some _ => false | None => true end.

Fixpoint rs_typed_sel (s : schema) (p : str) (sel : selection) : bool :=
  match sel with
  | SField _ name _ _ sels =>
      if streq name rs_typename then match sels with [] => true | _ => false end
      else match rs_field_ty s p name with
           | None => false
           | Some t =>
               match sels with
               | [] => rs_leaf_type s (inner_named_type t)
               | _ => rs_composite_type s (inner_named_type t) && forallb (rs_typed_sel s (inner_named_type t)) sels
               end
           end
  | SSpread _ _ => true
  | SInline cond _ sels => forallb (rs_typed_sel s (match cond with Some c => c | None => p end)) sels
  end.

(* every fragment body is well typed under its type condition *)
Definition rs_typed_fragments (s : schema) (d : document) : bool :=
  forallb (fun df => match df with
                     | DFragment _ cond _ sels => forallb (rs_typed_sel s cond) sels
                     | _ => true
                     end) d.

Definition rs_cfg_ok (cfg : rs_cfg) : bool :=
  (rc_min cfg <=? rc_max cfg) && match rc_null cfg with Some (_, den) => negb (den =? 0) | None => true end.

(* outcomes that are not failures of the generator *)
Definition RsSafe {A} (r : rs_res A) : Prop :=
  match r with RsPanic | RsEmptyChoose | RsInvalidDoc => False | _ => True end.

(* the hypotheses of the no-panic theorem for one operation, as one decidable check *)
Definition rs_typed_operation (s : schema) (d : document) (opname : option str) : bool :=
  rs_typed_fragments s d &&
  match rs_find_operation d opname with
  | None => true
  | Some (o, _, sels) =>
      match rs_root_type s o with
      | None => false
      | Some root => rs_composite_type s root && forallb (rs_typed_sel s root) sels
      end
  end.
