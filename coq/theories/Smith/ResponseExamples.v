(* Concrete schema/operation pairs: a non-vacuity example for the shape theorem and the refuting witness of the
   unrestricted statement (an implementing type narrows a field's type).
     type Query { i: I }   interface I { x: Int }   type T implements I { x: <tx> }
     { i { x } }                                                                    *)
From Coq Require Import ZArith Lia.
From ApolloVerif Require Import Base.Chars Ast.Ast Schema.Model Smith.Response Smith.ResponseSpec
  Smith.ResponseProofs.

Definition rx_i : str := [105]. Definition rx_x : str := [120].
Definition rx_I : str := [73]. Definition rx_T : str := [84].
Definition rx_Query : str := [81;117;101;114;121].

Definition rx_fd (n : str) (t : ty) : comp fielddef :=
  mkcomp ODef {| fd_desc := None; fd_name := n; fd_args := []; fd_ty := t; fd_dirs := [] |}.

Definition rx_schema (tx : ty) : schema :=
  {| sch_def := {| sd_desc := None; sd_dirs := []; sd_query := Some (mkcomp ODef rx_Query);
                   sd_mutation := None; sd_subscription := None |};
     sch_dirdefs := [];
     sch_types :=
       [ EScalar None rs_n_int [] true;
         EObject None rx_Query [] [] [rx_fd rx_i (TNamed rx_I)] false;
         EInterface None rx_I [] [] [rx_fd rx_x (TNamed rs_n_int)] false;
         EObject None rx_T [mkcomp ODef rx_I] [] [rx_fd rx_x tx] false ] |}.

Definition rx_sel_x : selection := SField None rx_x [] [] [].
Definition rx_sel_i : selection := SField None rx_i [] [] [rx_sel_x].
Definition rx_doc : document := [DOperation OpQuery None [] [] [rx_sel_i]].
Definition rx_cfg : rs_cfg := {| rc_min := 0; rc_max := 2; rc_null := Some (1, 2) |}.

Definition rx_fx : rs_sfield := {| sf_alias := None; sf_name := rx_x; sf_sels := [] |}.
Definition rx_fi : rs_sfield := {| sf_alias := None; sf_name := rx_i; sf_sels := [rx_sel_x] |}.

Section Ex.
Variable tx : ty.
Let s := rx_schema tx.

Lemma rx_builtins : RsBuiltinsOk s.
Proof.
  intros n g H. unfold rs_registered in H.
  repeat match type of H with
         | (if streq n ?c then _ else _) = _ =>
             let E := fresh "E" in destruct (streq n c) eqn:E;
             [apply streq_eq in E; subst n; vm_compute; tauto|]
         end.
  discriminate.
Qed.

Lemma rx_get_type n e :
  sch_get_type s n = Some e ->
  (n = rs_n_int /\ e = EScalar None rs_n_int [] true) \/
  (n = rx_Query /\ e = EObject None rx_Query [] [] [rx_fd rx_i (TNamed rx_I)] false) \/
  (n = rx_I /\ e = EInterface None rx_I [] [] [rx_fd rx_x (TNamed rs_n_int)] false) \/
  (n = rx_T /\ e = EObject None rx_T [mkcomp ODef rx_I] [] [rx_fd rx_x tx] false).
Proof.
  unfold sch_get_type, s, rx_schema. cbn [sch_types sch_find_type et_name].
  repeat match goal with
         | |- (if streq n ?c then _ else _) = _ -> _ =>
             let E := fresh "E" in destruct (streq n c) eqn:E;
             [apply streq_eq in E; subst n; intros [= <-]; tauto|]
         end.
  discriminate.
Qed.

Lemma rx_has_impl : RsHasImplementers s.
Proof.
  intros i a b c dd e f H. apply rx_get_type in H as [[_ H]|[[_ H]|[[-> _]|[_ H]]]]; try discriminate.
Qed.

Lemma rx_possible_query T : RsPossible s rx_Query T -> T = rx_Query.
Proof. vm_compute. auto. Qed.

Lemma rx_possible_I T : RsPossible s rx_I T -> T = rx_T.
Proof. vm_compute. intros [H|[]]; auto. Qed.

Lemma rx_flat_query T flat : RsFlat s rx_doc T [rx_sel_i] flat -> flat = [rx_fi].
Proof.
  intros H. inversion H as [|? ? ? ? ? ? ? Hr| | | | |]; subst. inversion Hr; subst. reflexivity.
Qed.

Lemma rx_flat_I T flat : RsFlat s rx_doc T [rx_sel_x] flat -> flat = [rx_fx].
Proof.
  intros H. inversion H as [|? ? ? ? ? ? ? Hr| | | | |]; subst. inversion Hr; subst. reflexivity.
Qed.

Lemma rx_valid : RsValid s rx_doc rx_Query [rx_sel_i].
Proof.
  constructor. intros T flat HT Hf. apply rx_possible_query in HT. subst T.
  apply rx_flat_query in Hf. subst flat. split.
  - intros f g [<-|[]] [<-|[]] _. reflexivity.
  - intros f t [<-|[]] _ Ht _. vm_compute in Ht. injection Ht as <-. split; [vm_compute; exact I|].
    change (RsValid s rx_doc rx_I [rx_sel_x]).
    constructor. intros T flat HT Hf. apply rx_possible_I in HT. subst T.
    apply rx_flat_I in Hf. subst flat. split.
    + intros f g [<-|[]] [<-|[]] _. reflexivity.
    + intros f t [<-|[]] _ _ Hs. now elim Hs.
Qed.

End Ex.

(* ---- non-vacuity: T.x : Int as in the interface; every hypothesis of rs_shape holds and a response is built *)
Lemma rx_good_run :
  rs_build_data 10 rx_cfg (rx_schema (TNamed rs_n_int)) rx_doc None [1; 0; 0] =
  RsOk (RJObject [(rx_i, RJObject [(rx_x, RJNull)])]) [].
Proof. vm_compute. reflexivity. Qed.

Lemma rx_good_class : rs_known_covariant (rx_schema (TNamed rs_n_int)) rx_doc = false.
Proof. vm_compute. reflexivity. Qed.

(* ---- the refuting witness: T.x : Int! *)
Definition rx_bad : schema := rx_schema (TNonNullNamed rs_n_int).

Lemma rx_bad_class : rs_known_covariant rx_bad rx_doc = true.
Proof. vm_compute. reflexivity. Qed.

Lemma rx_bad_run :
  rs_build_data 10 rx_cfg rx_bad rx_doc None [1; 0; 0] =
  RsOk (RJObject [(rx_i, RJObject [(rx_x, RJNull)])]) [].
Proof. vm_compute. reflexivity. Qed.

Lemma rx_bad_shape :
  ~ RsObjOk rx_bad rx_doc rx_Query [rx_sel_i] (RJObject [(rx_i, RJObject [(rx_x, RJNull)])]).
Proof.
  intros H. inversion H as [? ? T flat ? HT Hf Hk Hv]; subst.
  apply rx_possible_query in HT. subst T. apply rx_flat_query in Hf. subst flat.
  destruct (Hv rx_i _ (or_introl eq_refl) rx_fi) as [[Hn _]|[_ (t & Ht & Hval)]].
  { vm_compute. now left. }
  { vm_compute in Hn. discriminate. }
  vm_compute in Ht. injection Ht as <-.
  change (flat_map sf_sels (rs_with_key rx_i [rx_fi])) with [rx_sel_x] in Hval.
  inversion Hval as [| |? n ? ? Hn Hl|? n ? ? Hn Ho]; subst.
  - injection Hn as <-. vm_compute in Hl. exact Hl.
  - injection Hn as <-. inversion Ho as [? ? T flat ? HT Hf Hk' Hv']; subst.
    apply rx_possible_I in HT. subst T. apply rx_flat_I in Hf. subst flat.
    destruct (Hv' rx_x _ (or_introl eq_refl) rx_fx) as [[Hn' _]|[_ (t & Ht & Hval')]].
    { vm_compute. now left. }
    { vm_compute in Hn'. discriminate. }
    vm_compute in Ht. injection Ht as <-.
    apply rs_value_null in Hval'. discriminate.
Qed.
