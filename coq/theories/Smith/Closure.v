(* Model of the "implements closure and backfill" mechanism of apollo-smith:
   implements_graph.rs (ImplementsGraph over petgraph: node_for, add_edge, closure = BFS, direct_parents),
   interface.rs (additional_implements, try_accept_candidate, field_signatures_for, parent_fields_from_defs,
   backfill_inherited_interface_fields, expand_transitive_interface_implementations),
   object.rs (backfill_inherited_object_fields, expand_transitive_object_implementations) and the loops of
   DocumentBuilder::build that add the definitions' edges.

   A field signature (type and arguments definition, compared with != in try_accept_candidate) is an opaque
   string.  What the generator draws at random is an input of the model: the candidates an implementer picks
   (`cands`) and the fields it declares itself (`new_fields`).  toposort's order is a parameter. *)
From ApolloVerif Require Import Base.Chars Ast.Ast.

Definition cl_mem (n : str) (l : list str) : bool := existsb (streq n) l.
(* IndexSet::insert *)
Definition cl_insert (l : list str) (n : str) : list str := if cl_mem n l then l else l ++ [n].

(* ---- ImplementsGraph: nodes and edges in insertion order ---- *)
Record cl_graph := { clg_nodes : list str; clg_edges : list (str * str) }.
Definition cl_empty : cl_graph := {| clg_nodes := []; clg_edges := [] |}.

Definition cl_node_for (g : cl_graph) (n : str) : cl_graph :=
  if cl_mem n (clg_nodes g) then g else {| clg_nodes := clg_nodes g ++ [n]; clg_edges := clg_edges g |}.

Definition cl_has_edge (g : cl_graph) (a b : str) : bool :=
  existsb (fun e => streq (fst e) a && streq (snd e) b) (clg_edges g).

(* add_edge: idempotent *)
Definition cl_add_edge (g : cl_graph) (a b : str) : cl_graph :=
  let g1 := cl_node_for (cl_node_for g a) b in
  if cl_has_edge g1 a b then g1
  else {| clg_nodes := clg_nodes g1; clg_edges := clg_edges g1 ++ [(a, b)] |}.

(* graph.neighbors(idx): outgoing edges, most recently added first (petgraph's adjacency lists) *)
Definition cl_neighbors (g : cl_graph) (a : str) : list str :=
  rev (map snd (filter (fun e => streq (fst e) a) (clg_edges g))).

(* Bfs: `queue` holds discovered, not yet emitted nodes; `out` the emitted ones; discovered = out ++ queue.
   None = fuel exhausted. *)
Fixpoint cl_bfs (fuel : nat) (g : cl_graph) (queue out : list str) : option (list str) :=
  match fuel with
  | O => None
  | S f =>
      match queue with
      | [] => Some out
      | x :: q =>
          let fresh := fold_left (fun acc y => if cl_mem y ((out ++ x :: q) ++ acc) then acc else acc ++ [y])
                                 (cl_neighbors g x) [] in
          cl_bfs f g (q ++ fresh) (out ++ [x])
      end
  end.

(* closure(start): start plus every name reachable from it, in BFS order; empty if start has no node *)
Definition cl_closure (g : cl_graph) (start : str) : option (list str) :=
  if cl_mem start (clg_nodes g) then cl_bfs (S (length (clg_nodes g))) g [start] [] else Some [].

(* direct_parents *)
Definition cl_direct_parents (g : cl_graph) (n : str) : list str :=
  if cl_mem n (clg_nodes g) then fold_left cl_insert (cl_neighbors g n) [] else [].

(* no node is reachable from one of its own successors *)
Definition cl_acyclic (g : cl_graph) : option bool :=
  fold_left (fun r x =>
               match r with
               | None => None
               | Some b =>
                   fold_left (fun r' y =>
                                match r', cl_closure g y with
                                | Some b', Some c => Some (b' && negb (cl_mem x c))
                                | _, _ => None
                                end) (cl_neighbors g x) (Some b)
               end) (clg_nodes g) (Some true).

(* ---- definitions ---- *)
Record cl_field := { clf_name : str; clf_sig : str }.
Record cl_def := { cld_name : str; cld_extend : bool; cld_impls : list str; cld_fields : list cl_field }.

Definition cl_sig_get (m : list cl_field) (fname : str) : option cl_field :=
  find (fun f => streq (clf_name f) fname) m.
(* IndexMap::entry(name).or_insert(fdef) *)
Definition cl_sig_insert (m : list cl_field) (f : cl_field) : list cl_field :=
  match cl_sig_get m (clf_name f) with Some _ => m | None => m ++ [f] end.
(* IndexMap::shift_remove(name) *)
Definition cl_sig_remove (m : list cl_field) (fname : str) : list cl_field :=
  filter (fun f => negb (streq (clf_name f) fname)) m.

(* field_signatures_for(defs, name): first-wins union over the base definition and its extensions *)
Definition cl_fields_of (defs : list cl_def) (name : str) : list cl_field :=
  fold_left (fun m d => if streq (cld_name d) name then fold_left cl_sig_insert (cld_fields d) m else m) defs [].

(* parent_fields_from_defs(parents, defs) *)
Definition cl_parent_fields (parents : list str) (defs : list cl_def) : list cl_field :=
  fold_left (fun m p =>
               fold_left (fun m' d => if streq (cld_name d) p then fold_left cl_sig_insert (cld_fields d) m' else m')
                         defs m) parents [].

(* unique_names *)
Definition cl_unique_names (defs : list cl_def) : list str :=
  fold_left (fun seen d => cl_insert seen (cld_name d)) defs [].

(* ---- picking interfaces: additional_implements / try_accept_candidate ---- *)
Definition cl_conflicts (accum fs : list cl_field) : bool :=
  existsb (fun f => match cl_sig_get accum (clf_name f) with
                    | Some e => negb (streq (clf_sig e) (clf_sig f))
                    | None => false
                    end) fs.

Definition cl_accept_names (ifaces : list cl_def) (cls : list str) (st : list str * list cl_field)
  : list str * list cl_field :=
  fold_left (fun st name =>
               if cl_mem name (fst st) then st
               else (fst st ++ [name], fold_left cl_sig_insert (cl_fields_of ifaces name) (snd st)))
            cls st.

Definition cl_try_accept (ifaces : list cl_def) (g : cl_graph) (self : option str) (cand : str)
    (st : list str * list cl_field) : option (list str * list cl_field) :=
  match cl_closure g cand with
  | None => None
  | Some cls =>
      let would_cycle := match self with Some n => cl_mem n cls | None => false end in
      let would_conflict := existsb (fun name => cl_conflicts (snd st) (cl_fields_of ifaces name)) cls in
      if would_cycle || would_conflict then Some st else Some (cl_accept_names ifaces cls st)
  end.

(* the newly accepted interfaces (with their transitive parents) *)
Definition cl_additional_implements (ifaces : list cl_def) (g : cl_graph) (existing : list cl_field)
    (self : option str) (cands : list str) : option (list str) :=
  match ifaces with
  | [] => Some []
  | _ =>
      let already := match self with Some n => cl_direct_parents g n | None => [] end in
      let accum := fold_left (fun m p => fold_left cl_sig_insert (cl_fields_of ifaces p) m) already existing in
      match fold_left (fun st c => match st with None => None | Some st' => cl_try_accept ifaces g self c st' end)
                      cands (Some (already, accum)) with
      | None => None
      | Some (accepted, _) => Some (filter (fun n => negb (cl_mem n already)) accepted)
      end
  end.

(* ---- the builder's state: interface definitions, object definitions, the graph ---- *)
Record cl_state := { cls_ifaces : list cl_def; cls_objs : list cl_def; cls_graph : cl_graph }.
Definition cl_init : cl_state := {| cls_ifaces := []; cls_objs := []; cls_graph := cl_empty |}.

Definition cl_link (g : cl_graph) (name : str) (parents : list str) : cl_graph :=
  fold_left (fun g p => cl_add_edge g name p) parents (cl_node_for g name).

(* interface_type_definition + the loop body of build(): cands are the chosen candidates, new_fields the
   fields the definition declares itself *)
Definition cl_add_interface (st : cl_state) (extend : bool) (name : str) (cands : list str)
    (new_fields : list cl_field) : option cl_state :=
  let existing := cl_fields_of (cls_ifaces st) name in
  match cl_additional_implements (cls_ifaces st) (cls_graph st) existing (Some name) cands with
  | None => None
  | Some impls =>
      let d := {| cld_name := name; cld_extend := extend; cld_impls := impls; cld_fields := new_fields |} in
      Some {| cls_ifaces := cls_ifaces st ++ [d]; cls_objs := cls_objs st;
              cls_graph := cl_link (cls_graph st) name impls |}
  end.

(* object_type_definition.  `self` is the self_name argument handed to additional_implements: Some(&name) in
   the code as it is (repair fix2-c32-1), None before it *)
Definition cl_add_object_with (self : option str) (st : cl_state) (extend : bool) (name : str) (cands : list str)
    (new_fields : list cl_field) : option cl_state :=
  let existing := cl_fields_of (cls_objs st) name in
  match cl_additional_implements (cls_ifaces st) (cls_graph st) existing self cands with
  | None => None
  | Some impls =>
      let d := {| cld_name := name; cld_extend := extend; cld_impls := impls; cld_fields := new_fields |} in
      Some {| cls_ifaces := cls_ifaces st; cls_objs := cls_objs st ++ [d];
              cls_graph := cl_link (cls_graph st) name impls |}
  end.

Definition cl_add_object (st : cl_state) (extend : bool) (name : str) (cands : list str)
    (new_fields : list cl_field) : option cl_state :=
  cl_add_object_with (Some name) st extend name cands new_fields.

(* the code before the repair: the interfaces the object already implements were not excluded *)
Definition cl_add_object_old (st : cl_state) (extend : bool) (name : str) (cands : list str)
    (new_fields : list cl_field) : option cl_state :=
  cl_add_object_with None st extend name cands new_fields.

(* ---- backfill ---- *)
(* base_def_index *)
Fixpoint cl_index_where (p : cl_def -> bool) (defs : list cl_def) (i : nat) : option nat :=
  match defs with
  | [] => None
  | d :: r => if p d then Some i else cl_index_where p r (S i)
  end.
Definition cl_base_index (defs : list cl_def) (name : str) : option nat :=
  match cl_index_where (fun d => negb (cld_extend d) && streq (cld_name d) name) defs 0 with
  | Some i => Some i
  | None => cl_index_where (fun d => streq (cld_name d) name) defs 0
  end.

Fixpoint cl_update_at (defs : list cl_def) (i : nat) (f : cl_def -> cl_def) : list cl_def :=
  match defs, i with
  | [], _ => []
  | d :: r, O => f d :: r
  | d :: r, S j => d :: cl_update_at r j f
  end.

(* expand_transitive_*_implementations *)
Definition cl_expand (defs : list cl_def) (g : cl_graph) (name : str) (base : nat) : option (list cl_def) :=
  match cl_closure g name with
  | None => None
  | Some cls =>
      let all := filter (fun n => negb (streq n name)) cls in
      let by_ext := flat_map (fun d => if cld_extend d && streq (cld_name d) name then cld_impls d else []) defs in
      let to_add := filter (fun p => negb (cl_mem p by_ext)) all in
      Some (cl_update_at defs base (fun d =>
              {| cld_name := cld_name d; cld_extend := cld_extend d;
                 cld_impls := fold_left cl_insert to_add (cld_impls d); cld_fields := cld_fields d |}))
  end.

(* rewrite the fields the definitions of `name` declare themselves to the inherited signature
   (shift_remove), threading the map of not yet seen inherited fields through all definitions in order *)
Fixpoint cl_rewrite_fields (fs : list cl_field) (inh : list cl_field) : list cl_field * list cl_field :=
  match fs with
  | [] => ([], inh)
  | f :: r =>
      match cl_sig_get inh (clf_name f) with
      | Some pf => let (r', inh') := cl_rewrite_fields r (cl_sig_remove inh (clf_name f)) in (pf :: r', inh')
      | None => let (r', inh') := cl_rewrite_fields r inh in (f :: r', inh')
      end
  end.

Fixpoint cl_rewrite_defs (defs : list cl_def) (name : str) (inh : list cl_field) : list cl_def * list cl_field :=
  match defs with
  | [] => ([], inh)
  | d :: r =>
      if streq (cld_name d) name then
        let (fs', inh1) := cl_rewrite_fields (cld_fields d) inh in
        let (r', inh2) := cl_rewrite_defs r name inh1 in
        ({| cld_name := cld_name d; cld_extend := cld_extend d; cld_impls := cld_impls d; cld_fields := fs' |} :: r',
         inh2)
      else let (r', inh2) := cl_rewrite_defs r name inh in (d :: r', inh2)
  end.

(* one iteration of backfill_inherited_*_fields for `name`: `defs` are the definitions being reconciled,
   `parent_defs` the interface definitions parents are read from (the same list for interfaces) *)
Definition cl_backfill_one (is_iface : bool) (ifaces defs : list cl_def) (g : cl_graph) (name : str)
  : option (list cl_def) :=
  match cl_base_index defs name with
  | None => Some defs
  | Some base =>
      match cl_expand defs g name base with
      | None => None
      | Some defs1 =>
          let parents := cl_direct_parents g name in
          let inherited := cl_parent_fields parents (if is_iface then defs1 else ifaces) in
          let (defs2, rest) := cl_rewrite_defs defs1 name inherited in
          Some (cl_update_at defs2 base (fun d =>
                  {| cld_name := cld_name d; cld_extend := cld_extend d; cld_impls := cld_impls d;
                     cld_fields := cld_fields d ++ rest |}))
      end
  end.

(* backfill_inherited_interface_fields over `order` (topo_order_parents_first) *)
Definition cl_backfill_interfaces (order : list str) (st : cl_state) : option cl_state :=
  match fold_left (fun r name => match r with
                                 | None => None
                                 | Some defs => cl_backfill_one true defs defs (cls_graph st) name
                                 end) order (Some (cls_ifaces st)) with
  | None => None
  | Some ifaces => Some {| cls_ifaces := ifaces; cls_objs := cls_objs st; cls_graph := cls_graph st |}
  end.

(* backfill_inherited_object_fields over unique_names(object_type_defs) *)
Definition cl_backfill_objects (st : cl_state) : option cl_state :=
  match fold_left (fun r name => match r with
                                 | None => None
                                 | Some defs => cl_backfill_one false (cls_ifaces st) defs (cls_graph st) name
                                 end) (cl_unique_names (cls_objs st)) (Some (cls_objs st)) with
  | None => None
  | Some objs => Some {| cls_ifaces := cls_ifaces st; cls_objs := objs; cls_graph := cls_graph st |}
  end.

(* ---- the same notions read off a document of the shared AST (for the tie on generated documents) ---- *)
Fixpoint cl_ty_str (t : ty) : str :=
  match t with
  | TNamed n => n
  | TNonNullNamed n => n ++ [33]
  | TList t => [91] ++ cl_ty_str t ++ [93]
  | TNonNullList t => [91] ++ cl_ty_str t ++ [93; 33]
  end.

(* "(a:T,b:U):R" *)
Definition cl_sig_of (f : fielddef) : str :=
  [40] ++ flat_map (fun a => iv_name a ++ [58] ++ cl_ty_str (iv_ty a) ++ [44]) (fd_args f) ++ [41; 58]
  ++ cl_ty_str (fd_ty f).

Definition cl_fields_of_ast (fs : list fielddef) : list cl_field :=
  map (fun f => {| clf_name := fd_name f; clf_sig := cl_sig_of f |}) fs.

Definition cl_doc_ifaces (d : document) : list cl_def :=
  flat_map (fun df => match df with
                      | DInterface _ n impls _ fs =>
                          [{| cld_name := n; cld_extend := false; cld_impls := impls; cld_fields := cl_fields_of_ast fs |}]
                      | XInterface n impls _ fs =>
                          [{| cld_name := n; cld_extend := true; cld_impls := impls; cld_fields := cl_fields_of_ast fs |}]
                      | _ => []
                      end) d.
Definition cl_doc_objs (d : document) : list cl_def :=
  flat_map (fun df => match df with
                      | DObject _ n impls _ fs =>
                          [{| cld_name := n; cld_extend := false; cld_impls := impls; cld_fields := cl_fields_of_ast fs |}]
                      | XObject n impls _ fs =>
                          [{| cld_name := n; cld_extend := true; cld_impls := impls; cld_fields := cl_fields_of_ast fs |}]
                      | _ => []
                      end) d.

(* the graph with_document builds from the definitions *)
Definition cl_graph_of (defs : list cl_def) (g : cl_graph) : cl_graph :=
  fold_left (fun g d => cl_link g (cld_name d) (cld_impls d)) defs g.
Definition cl_doc_graph (d : document) : cl_graph :=
  cl_graph_of (cl_doc_objs d) (cl_graph_of (cl_doc_ifaces d) cl_empty).

(* all interfaces a name declares over its definition and extensions *)
Definition cl_declared (defs : list cl_def) (name : str) : list str :=
  flat_map (fun d => if streq (cld_name d) name then cld_impls d else []) defs.

Definition cl_subset (a b : list str) : bool := forallb (fun x => cl_mem x b) a.

(* the declared interfaces of every definition are exactly the strict closure in the declared graph *)
Definition cl_closed_defs (g : cl_graph) (defs : list cl_def) : option bool :=
  fold_left (fun r name =>
               match r, cl_closure g name with
               | Some b, Some cls =>
                   let strict := filter (fun n => negb (streq n name)) cls in
                   let decl := cl_declared defs name in
                   Some (b && cl_subset strict decl && cl_subset decl strict)
               | _, _ => None
               end) (cl_unique_names defs) (Some true).

(* every field of every declared parent is present with the same signature *)
Definition cl_fields_inherited (ifaces defs : list cl_def) : bool :=
  forallb (fun name =>
             forallb (fun p =>
                        forallb (fun pf => match cl_sig_get (cl_fields_of defs name) (clf_name pf) with
                                           | Some f => streq (clf_sig f) (clf_sig pf)
                                           | None => false
                                           end) (cl_fields_of ifaces p))
                     (cl_declared defs name))
          (cl_unique_names defs).

(* Known classes of the end-to-end oracle, as predicates on the generated document:
   two declared parents of one type disagree on a field's signature *)
Definition cl_parents_conflict (ifaces defs : list cl_def) : bool :=
  existsb (fun name =>
             let ps := cl_declared defs name in
             existsb (fun p => existsb (fun q =>
                        existsb (fun pf => match cl_sig_get (cl_fields_of ifaces q) (clf_name pf) with
                                           | Some qf => negb (streq (clf_sig qf) (clf_sig pf))
                                           | None => false
                                           end) (cl_fields_of ifaces p)) ps) ps)
          (cl_unique_names defs).

(* a name declares the same interface twice over its definition and extensions *)
Fixpoint cl_has_dup (l : list str) : bool :=
  match l with [] => false | x :: r => cl_mem x r || cl_has_dup r end.
Definition cl_dup_implements (defs : list cl_def) : bool :=
  existsb (fun name => cl_has_dup (cl_declared defs name)) (cl_unique_names defs).

Record cl_facts := { cf_closure : bool; cf_acyclic : bool; cf_fields : bool; cf_conflict : bool;
                     cf_dup_obj : bool; cf_dup_iface : bool }.

Definition cl_doc_facts (d : document) : option cl_facts :=
  let ifaces := cl_doc_ifaces d in
  let objs := cl_doc_objs d in
  let g := cl_doc_graph d in
  match cl_closed_defs g ifaces, cl_closed_defs g objs, cl_acyclic g with
  | Some a, Some b, Some c =>
      Some {| cf_closure := a && b; cf_acyclic := c;
              cf_fields := cl_fields_inherited ifaces ifaces && cl_fields_inherited ifaces objs;
              cf_conflict := cl_parents_conflict ifaces ifaces || cl_parents_conflict ifaces objs;
              cf_dup_obj := cl_dup_implements objs; cf_dup_iface := cl_dup_implements ifaces |}
  | _, _, _ => None
  end.
