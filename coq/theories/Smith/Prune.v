(* Model of prune_unused_fragments (crates/apollo-smith/src/lib.rs), reachable_fragment_names (fragment.rs) and
   SelectionSet::collect_fragment_spreads (selection_set.rs), over the shared AST selections.
   Operations are their selection sets; fragment definitions are (name, selections) in definition order. *)
From ApolloVerif Require Import Base.Chars Ast.Ast.

Definition pr_mem (n : str) (set : list str) : bool := existsb (streq n) set.

(* IndexSet::insert *)
Definition pr_insert (set : list str) (n : str) : list str :=
  if pr_mem n set then set else set ++ [n].

(* collect_fragment_spreads(&self, into) *)
Fixpoint pr_spreads_sel (sel : selection) (into : list str) {struct sel} : list str :=
  match sel with
  | SField _ _ _ _ sels =>
      (fix go (l : list selection) (acc : list str) {struct l} : list str :=
         match l with [] => acc | s :: r => go r (pr_spreads_sel s acc) end) sels into
  | SSpread n _ => pr_insert into n
  | SInline _ _ sels =>
      (fix go (l : list selection) (acc : list str) {struct l} : list str :=
         match l with [] => acc | s :: r => go r (pr_spreads_sel s acc) end) sels into
  end.

Fixpoint pr_spreads (sels : list selection) (into : list str) : list str :=
  match sels with [] => into | s :: r => pr_spreads r (pr_spreads_sel s into) end.

Definition pr_frag := (str * list selection)%type.

(* fragments.iter().find(|f| f.name == name) *)
Fixpoint pr_find (frags : list pr_frag) (name : str) : option (list selection) :=
  match frags with
  | [] => None
  | (n, sels) :: r => if streq n name then Some sels else pr_find r name
  end.

(* for n in nested { if reachable.insert(n) { frontier.push(n) } }   (frontier: top of the stack first) *)
Fixpoint pr_absorb (nested : list str) (reachable frontier : list str) : list str * list str :=
  match nested with
  | [] => (reachable, frontier)
  | n :: r =>
      if pr_mem n reachable then pr_absorb r reachable frontier
      else pr_absorb r (reachable ++ [n]) (n :: frontier)
  end.

(* while let Some(name) = frontier.pop() { .. } ; None = fuel exhausted *)
Fixpoint pr_loop (fuel : nat) (frags : list pr_frag) (reachable frontier : list str) : option (list str) :=
  match fuel with
  | O => None
  | S f =>
      match frontier with
      | [] => Some reachable
      | name :: rest =>
          match pr_find frags name with
          | Some sels =>
              let (reach', front') := pr_absorb (pr_spreads sels []) reachable rest in
              pr_loop f frags reach' front'
          | None => pr_loop f frags reachable rest
          end
      end
  end.

(* reachable_fragment_names *)
Definition pr_reachable (fuel : nat) (ops : list (list selection)) (frags : list pr_frag) : option (list str) :=
  let start := fold_left (fun acc sels => pr_spreads sels acc) ops [] in
  pr_loop fuel frags start (rev start).

(* fragment_defs.retain(|f| reachable.contains(&f.name)) *)
Definition pr_retain (reachable : list str) (frags : list pr_frag) : list pr_frag :=
  filter (fun fr => pr_mem (fst fr) reachable) frags.

Definition pr_prune (fuel : nat) (ops : list (list selection)) (frags : list pr_frag) : option (list pr_frag) :=
  match pr_reachable fuel ops frags with
  | None => None
  | Some r => Some (pr_retain r frags)
  end.

(* a bound on the iterations: every iteration pops a name that was pushed once *)
Definition pr_fuel (ops : list (list selection)) (frags : list pr_frag) : nat :=
  S (length (fold_left (fun acc sels => pr_spreads sels acc) ops []) +
     fold_left (fun n fr => n + length (pr_spreads (snd fr) [])) frags 0)%nat.

(* ---- on a document of the shared AST ---- *)
Definition pr_doc_ops (d : document) : list (list selection) :=
  flat_map (fun df => match df with DOperation _ _ _ _ sels => [sels] | _ => [] end) d.
Definition pr_doc_frags (d : document) : list pr_frag :=
  flat_map (fun df => match df with DFragment n _ _ sels => [(n, sels)] | _ => [] end) d.

(* the names of the fragments that pruning the document's own fragments keeps *)
Definition pr_doc_kept (d : document) : option (list str) :=
  let ops := pr_doc_ops d in
  let frags := pr_doc_frags d in
  match pr_prune (pr_fuel ops frags) ops frags with
  | None => None
  | Some kept => Some (map fst kept)
  end.

(* every spread of the document names a defined fragment *)
Definition pr_doc_spreads_resolve (d : document) : bool :=
  let frags := pr_doc_frags d in
  let all := fold_left (fun acc fr => pr_spreads (snd fr) acc) frags
               (fold_left (fun acc sels => pr_spreads sels acc) (pr_doc_ops d) []) in
  forallb (fun n => pr_mem n (map fst frags)) all.
