(* The names of a generated document that went through DocumentBuilder::type_name (type, directive and fragment
   definitions, named operations), and how many of them repeat an earlier one. *)
From ApolloVerif Require Import Base.Chars Ast.Ast.

Definition sf_doc_names (d : document) : list str :=
  flat_map (fun df => match df with
                      | DOperation _ (Some n) _ _ _ => [n]
                      | DFragment n _ _ _ | DDirective _ n _ _ _ | DScalar _ n _ | DObject _ n _ _ _
                      | DInterface _ n _ _ _ | DUnion _ n _ _ | DEnum _ n _ _ | DInput _ n _ _ => [n]
                      | _ => []
                      end) d.

Fixpoint sf_dups (seen l : list str) : N :=
  match l with
  | [] => 0
  | x :: r => (if existsb (streq x) seen then 1 else 0) + sf_dups (x :: seen) r
  end.

Definition sf_doc_dups (d : document) : N := sf_dups [] (sf_doc_names d).
