(* Model of crates/apollo-smith/src/name.rs: limited_string (the retry loop) and type_name (the
   used_type_names set and the suffix loop).

   limited_string draws from an ABSTRACT source: `draw lo hi src` is Unstructured::int_in_range(lo..=hi)
   (choose(charset) is charset[int_in_range(0..=len-1)]).  The theorems hold for every `draw` that answers within
   the range.  nm_int_in_range is the concrete source used by the tie: arbitrary-1.4's int_in_range::<usize> over
   the remaining bytes (it never fails: when the bytes run out the missing bytes count as zero). *)
From ApolloVerif Require Import Base.Chars Ast.Ast.

(* ---- the charsets ---- *)
(* CHARSET_NAME_HEAD = A-Z a-z ; CHARSET_NAME_BODY = A-Z a-z _ 0-9 *)
Definition nm_head (i : N) : N := if i <? 26 then 65 + i else 97 + (i - 26).
Definition nm_body (i : N) : N :=
  if i <? 26 then 65 + i else if i <? 52 then 97 + (i - 26) else if i =? 52 then 95 else 48 + (i - 53).

Definition nm_reserved : list str :=
  [ [111;110];                                   (* on *)
    [73;110;116];                                (* Int *)
    [70;108;111;97;116];                         (* Float *)
    [83;116;114;105;110;103];                    (* String *)
    [66;111;111;108;101;97;110];                 (* Boolean *)
    [73;68];                                     (* ID *)
    [116;121;112;101];                           (* type *)
    [101;110;117;109];                           (* enum *)
    [117;110;105;111;110];                       (* union *)
    [101;120;116;101;110;100];                   (* extend *)
    [115;99;97;108;97;114];                      (* scalar *)
    [100;105;114;101;99;116;105;118;101];        (* directive *)
    [113;117;101;114;121];                       (* query *)
    [109;117;116;97;116;105;111;110];            (* mutation *)
    [115;117;98;115;99;114;105;112;116;105;111;110];  (* subscription *)
    [115;99;104;101;109;97];                     (* schema *)
    [105;110;116;101;114;102;97;99;101] ].       (* interface *)

(* str::trim_end_matches('_') *)
Fixpoint nm_trim_end (s : str) : str :=
  match s with
  | [] => []
  | c :: r =>
      match nm_trim_end r with
      | [] => if c =? 95 then [] else [c]
      | r' => c :: r'
      end
  end.

Section Source.
Context {Src : Type}.
Variable draw : N -> N -> Src -> N * Src.

(* (0..size).map(|idx| *u.choose(if idx == 0 { HEAD } else { BODY })) *)
Fixpoint nm_chars (n : nat) (first : bool) (src : Src) : str * Src :=
  match n with
  | O => ([], src)
  | S n' =>
      let (i, s1) := if first then draw 0 51 src else draw 0 62 src in
      let c := if first then nm_head i else nm_body i in
      let (cs, s2) := nm_chars n' false s1 in
      (c :: cs, s2)
  end.

Definition nm_accept (t : str) : bool :=
  match t with [] => false | _ => negb (existsb (streq t) nm_reserved) end.

(* limited_string(max_size): None = the retry loop did not finish within `fuel` iterations *)
Fixpoint nm_limited_string (fuel : nat) (max_size : N) (src : Src) : option (str * Src) :=
  match fuel with
  | O => None
  | S f =>
      let (size, s1) := draw 1 max_size src in
      let (cs, s2) := nm_chars (N.to_nat size) true s1 in
      let t := nm_trim_end cs in
      if nm_accept t then Some (t, s2) else nm_limited_string f max_size s2
  end.
End Source.

(* ---- usize::to_string ---- *)
Fixpoint nm_digits (fuel : nat) (n : N) : str :=
  match fuel with
  | O => []
  | S f => if n <? 10 then [48 + n] else nm_digits f (n / 10) ++ [48 + n mod 10]
  end.
Definition nm_decimal (n : N) : str := nm_digits (S (N.to_nat (N.log2 n))) n.

(* ---- type_name: `while used.contains(new_name) { new_name = format!("{base}{suffix}"); suffix += 1 }`
   returns the name and the number of loop-condition evaluations; None = fuel exhausted *)
Definition nm_contains (used : list str) (n : str) : bool := existsb (streq n) used.

Fixpoint nm_suffix_loop (fuel : nat) (used : list str) (base : str) (suffix : N) (cur : str) (iters : N)
  : option (str * N) :=
  match fuel with
  | O => None
  | S f =>
      if nm_contains used cur
      then nm_suffix_loop f used base (suffix + 1) (base ++ nm_decimal suffix) (iters + 1)
      else Some (cur, iters + 1)
  end.

(* the name, the updated set, and the number of condition evaluations *)
Definition nm_fresh (used : list str) (base : str) : option (str * list str * N) :=
  match nm_suffix_loop (S (length used)) used base 0 base 0 with
  | None => None
  | Some (name, iters) => Some (name, name :: used, iters)
  end.

(* ---- the concrete source of the tie: Unstructured::int_in_range::<usize> ---- *)
Fixpoint nm_read (n : nat) (delta consumed acc : N) (bytes : list N) : N * list N :=
  match n with
  | O => (acc, bytes)
  | S n' =>
      if 0 <? delta / 2 ^ (8 * consumed) then
        match bytes with
        | [] => (acc, [])
        | b :: r => nm_read n' delta (consumed + 1) (acc * 256 + b) r
        end
      else (acc, bytes)
  end.

(* start > end is an assertion failure in arbitrary; limited_string only asks 1..=30, 0..=51, 0..=62 *)
Definition nm_int_in_range (lo hi : N) (bytes : list N) : N * list N :=
  if hi <=? lo then (lo, bytes)
  else
    let delta := hi - lo in
    let (x, rest) := nm_read 8 delta 0 0 bytes in
    (lo + x mod (delta + 1), rest).

(* type_name on a builder: limited_string(30) then the suffix loop *)
Definition nm_type_name (used : list str) (bytes : list N) : option (str * list str * list N) :=
  match nm_limited_string nm_int_in_range (S (length bytes)) 30 bytes with
  | None => None
  | Some (base, rest) =>
      match nm_fresh used base with
      | None => None
      | Some (name, used', _) => Some (name, used', rest)
      end
  end.

(* `count` successive calls on one builder *)
Fixpoint nm_type_names (count : nat) (used : list str) (bytes : list N) : option (list str) :=
  match count with
  | O => Some []
  | S c =>
      match nm_type_name used bytes with
      | None => None
      | Some (name, used', rest) =>
          match nm_type_names c used' rest with
          | None => None
          | Some l => Some (name :: l)
          end
      end
  end.
