(* Proofs about the model of ResponseBuilder (Response.v) against the shape specification (ResponseSpec.v). *)
From Coq Require Import ZArith Lia.
From ApolloVerif Require Import Base.Chars Ast.Ast Schema.Model Smith.Response Smith.ResponseSpec.

(* ------------------------------------------------------------------ the monad and the provider *)

Lemma rs_bind_ok {A B} (m : rs_m A) (f : A -> rs_m B) st b rest :
  rs_bind m f st = RsOk b rest -> exists a st', m st = RsOk a st' /\ f a st' = RsOk b rest.
Proof. unfold rs_bind. destruct (m st); try discriminate. eauto. Qed.

Lemma rs_ret_ok {A} (a b : A) st rest : rs_ret a st = RsOk b rest -> a = b /\ st = rest.
Proof. unfold rs_ret. intros [= -> ->]. auto. Qed.

Ltac rs_inv H :=
  match type of H with
  | rs_bind _ _ _ = RsOk _ _ =>
      let a := fresh "a" in let st := fresh "st" in let H1 := fresh "Hm" in let H2 := fresh "Hk" in
      apply rs_bind_ok in H as (a & st & H1 & H2)
  | rs_ret _ _ = RsOk _ _ => apply rs_ret_ok in H as [? ?]; subst
  end.

Lemma rs_choose_index_ok len st i rest :
  rs_choose_index len st = RsOk i rest -> i < len.
Proof.
  unfold rs_choose_index. destruct (len =? 0) eqn:E; [discriminate|].
  intros H. rs_inv H. rs_inv Hk. apply N.mod_lt. lia.
Qed.

Lemma rs_gen_range_ok lo hi st n rest :
  rs_gen_range lo hi st = RsOk n rest -> lo <= n <= hi.
Proof.
  unfold rs_gen_range. destruct (hi <? lo) eqn:E; [discriminate|].
  intros H. rs_inv H. rs_inv Hk.
  assert (a mod (hi - lo + 1) < hi - lo + 1) by (apply N.mod_lt; lia). lia.
Qed.

Lemma rs_nth_or_panic_ok {A} (l : list A) i st x rest :
  rs_nth_or_panic l i st = RsOk x rest -> In x l.
Proof.
  unfold rs_nth_or_panic. destruct (nth_error l (N.to_nat i)) eqn:E; [|discriminate].
  intros H. rs_inv H. eapply nth_error_In; eauto.
Qed.

Lemma rs_repeat_ok {A} (P : A -> Prop) (m : rs_m A) :
  (forall st x rest, m st = RsOk x rest -> P x) ->
  forall n st xs rest, rs_repeat n m st = RsOk xs rest -> Forall P xs.
Proof.
  intros Hm. induction n as [|n IH]; intros st xs rest H; cbn [rs_repeat] in H.
  - rs_inv H. constructor.
  - rs_inv H. rs_inv Hk. rs_inv Hk0. constructor; eauto.
Qed.

(* ------------------------------------------------------------------ string equality helpers *)

Lemma streq_sym a b : streq a b = streq b a.
Proof.
  destruct (streq a b) eqn:E1, (streq b a) eqn:E2; auto.
  - apply streq_eq in E1. subst. now rewrite streq_refl in E2.
  - apply streq_eq in E2. subst. now rewrite streq_refl in E1.
Qed.

Lemma streq_false a b : streq a b = false <-> a <> b.
Proof.
  split.
  - intros H ->. now rewrite streq_refl in H.
  - intros H. destruct (streq a b) eqn:E; auto. apply streq_eq in E. contradiction.
Qed.

Lemma existsb_streq k l : existsb (streq k) l = true <-> In k l.
Proof.
  rewrite existsb_exists. split.
  - intros (x & Hx & E). apply streq_eq in E. now subst.
  - intros H. exists k. split; auto. apply streq_refl.
Qed.

Lemma existsb_streq_false k l : existsb (streq k) l = false <-> ~ In k l.
Proof.
  rewrite <- existsb_streq. destruct (existsb (streq k) l); split; intros; congruence.
Qed.

(* ------------------------------------------------------------------ groups (the IndexMap of collect_fields) *)

Definition rs_keys (g : rs_groups) : list str := map fst g.

Definition rs_push_all (acc : rs_groups) (fl : list rs_cfield) : rs_groups :=
  fold_left (fun a f => rs_merge a (rcf_key f) [f]) fl acc.

Lemma rs_merge_keys g k fs :
  rs_keys (rs_merge g k fs) = if existsb (streq k) (rs_keys g) then rs_keys g else rs_keys g ++ [k].
Proof.
  induction g as [|[k' fs'] g IH]; cbn [rs_merge rs_keys map existsb fst app]; [reflexivity|].
  destruct (streq k k') eqn:E; cbn [orb map fst]; [reflexivity|].
  fold (rs_keys (rs_merge g k fs)). rewrite IH. fold (rs_keys g).
  destruct (existsb (streq k) (rs_keys g)); reflexivity.
Qed.

Lemma rs_merge_in_keys g k fs : In k (rs_keys (rs_merge g k fs)).
Proof.
  rewrite rs_merge_keys. destruct (existsb (streq k) (rs_keys g)) eqn:E.
  - now apply existsb_streq.
  - apply in_or_app. right. now left.
Qed.

Lemma rs_merge_keys_incl g k fs x : In x (rs_keys g) -> In x (rs_keys (rs_merge g k fs)).
Proof.
  rewrite rs_merge_keys. destruct (existsb (streq k) (rs_keys g)); auto.
  intros H. apply in_or_app. now left.
Qed.

Lemma NoDup_snoc {A} (l : list A) x : NoDup l -> ~ In x l -> NoDup (l ++ [x]).
Proof.
  induction l as [|y l IH]; cbn [app]; intros Hn Hx.
  - constructor; auto.
  - inversion Hn as [|? ? Hy Hl]; subst. constructor.
    + intros Hin. apply in_app_or in Hin as [Hin|[->|[]]]; [contradiction|]. apply Hx. now left.
    + apply IH; auto. intros Hin. apply Hx. now right.
Qed.

Lemma rs_merge_nodup g k fs : NoDup (rs_keys g) -> NoDup (rs_keys (rs_merge g k fs)).
Proof.
  intros H. rewrite rs_merge_keys. destruct (existsb (streq k) (rs_keys g)) eqn:E; auto.
  apply existsb_streq_false in E. now apply NoDup_snoc.
Qed.

Lemma rs_merge_app g k a b : rs_merge g k (a ++ b) = rs_merge (rs_merge g k a) k b.
Proof.
  induction g as [|[k' fs'] g IH]; cbn [rs_merge].
  - now rewrite streq_refl.
  - destruct (streq k k') eqn:E; cbn [rs_merge]; rewrite E.
    + now rewrite app_assoc.
    + now rewrite IH.
Qed.

(* merging under two different keys commutes once the first key is present *)
Lemma rs_merge_comm g k x k1 y :
  In k (rs_keys g) -> k <> k1 ->
  rs_merge (rs_merge g k x) k1 y = rs_merge (rs_merge g k1 y) k x.
Proof.
  induction g as [|[k' fs'] g IH]; cbn [rs_keys map fst]; intros Hin Hne; [destruct Hin|].
  cbn [rs_merge].
  destruct (streq k k') eqn:E; destruct (streq k1 k') eqn:E1; cbn [rs_merge]; rewrite ?E, ?E1; auto.
  - apply streq_eq in E, E1. congruence.
  - f_equal. apply IH; auto. destruct Hin as [<-|Hin]; auto.
    cbn [fst] in E. rewrite streq_refl in E. discriminate.
Qed.

Lemma rs_merge_all_cons acc k fs g :
  rs_merge_all acc ((k, fs) :: g) = rs_merge_all (rs_merge acc k fs) g.
Proof. reflexivity. Qed.

Lemma rs_merge_all_keys_incl g : forall acc x, In x (rs_keys acc) -> In x (rs_keys (rs_merge_all acc g)).
Proof.
  induction g as [|[k fs] g IH]; intros acc x H; [exact H|].
  rewrite rs_merge_all_cons. apply IH. now apply rs_merge_keys_incl.
Qed.

Lemma rs_merge_all_present g : forall a k x,
  In k (rs_keys a) -> ~ In k (rs_keys g) ->
  rs_merge_all (rs_merge a k x) g = rs_merge (rs_merge_all a g) k x.
Proof.
  induction g as [|[k1 fs1] g IH]; intros a k x Hin Hnot; [reflexivity|].
  rewrite !rs_merge_all_cons. cbn [rs_keys map fst] in Hnot.
  rewrite rs_merge_comm; [|assumption|intros ->; apply Hnot; now left].
  apply IH; [now apply rs_merge_keys_incl|]. intros H. apply Hnot. now right.
Qed.

Lemma rs_merge_all_merge g : forall acc k fs,
  NoDup (rs_keys g) ->
  rs_merge_all acc (rs_merge g k fs) = rs_merge (rs_merge_all acc g) k fs.
Proof.
  induction g as [|[k0 fs0] g IH]; intros acc k fs Hnd; [reflexivity|].
  cbn [rs_keys map fst] in Hnd. inversion Hnd as [|? ? Hk0 Hg]; subst.
  cbn [rs_merge]. destruct (streq k k0) eqn:E.
  - apply streq_eq in E. subst k0. rewrite !rs_merge_all_cons, rs_merge_app.
    apply rs_merge_all_present; auto. apply rs_merge_in_keys.
  - rewrite !rs_merge_all_cons. now apply IH.
Qed.

Lemma rs_push_all_nodup fl : forall acc, NoDup (rs_keys acc) -> NoDup (rs_keys (rs_push_all acc fl)).
Proof.
  induction fl as [|f fl IH]; intros acc H; [exact H|].
  cbn [rs_push_all fold_left]. apply IH. now apply rs_merge_nodup.
Qed.

Lemma rs_merge_all_push fl : forall acc g,
  NoDup (rs_keys g) ->
  rs_merge_all acc (rs_push_all g fl) = rs_push_all (rs_merge_all acc g) fl.
Proof.
  induction fl as [|f fl IH]; intros acc g Hnd; [reflexivity|].
  cbn [rs_push_all fold_left]. fold (rs_push_all (rs_merge g (rcf_key f) [f]) fl).
  rewrite IH by now apply rs_merge_nodup.
  rewrite rs_merge_all_merge by assumption. reflexivity.
Qed.

Lemma rs_push_all_app acc a b : rs_push_all acc (a ++ b) = rs_push_all (rs_push_all acc a) b.
Proof. unfold rs_push_all. now rewrite fold_left_app. Qed.

(* merging the groups of a sub-collection = pushing its fields one at a time *)
Lemma rs_merge_all_sub acc fl : rs_merge_all acc (rs_push_all [] fl) = rs_push_all acc fl.
Proof. rewrite rs_merge_all_push; [reflexivity|constructor]. Qed.

(* ------------------------------------------------------------------ first occurrences *)

Lemma rs_first_occ_ext l : forall seen1 seen2,
  (forall x, In x seen1 <-> In x seen2) -> rs_first_occ seen1 l = rs_first_occ seen2 l.
Proof.
  induction l as [|k l IH]; intros s1 s2 H; cbn [rs_first_occ]; [reflexivity|].
  assert (E : existsb (streq k) s1 = existsb (streq k) s2).
  { destruct (existsb (streq k) s1) eqn:E1, (existsb (streq k) s2) eqn:E2; auto.
    - apply existsb_streq in E1. apply existsb_streq_false in E2. apply H in E1. contradiction.
    - apply existsb_streq in E2. apply existsb_streq_false in E1. apply H in E2. contradiction. }
  rewrite E. destruct (existsb (streq k) s2).
  - now apply IH.
  - f_equal. apply IH. intros x. cbn [In]. rewrite H. tauto.
Qed.

Lemma rs_first_occ_In l : forall seen x, In x (rs_first_occ seen l) <-> In x l /\ ~ In x seen.
Proof.
  induction l as [|k l IH]; intros seen x; cbn [rs_first_occ In]; [tauto|].
  destruct (existsb (streq k) seen) eqn:E.
  - apply existsb_streq in E. rewrite IH. split; [tauto|]. intros [[->|H] Hn]; [contradiction|tauto].
  - apply existsb_streq_false in E. cbn [In]. rewrite IH. cbn [In]. split.
    + intros [->|[H Hn]]; [tauto|]. split; [tauto|]. intros Hs. apply Hn. now right.
    + intros [[->|H] Hn]; [now left|]. destruct (list_eq_dec N.eq_dec k x) as [->|Hne]; [now left|].
      right. split; auto. intros [->|Hs]; congruence.
Qed.

Lemma rs_first_occ_snoc_in l : forall seen k,
  In k (seen ++ l) -> rs_first_occ seen (l ++ [k]) = rs_first_occ seen l.
Proof.
  induction l as [|x l IH]; intros seen k Hin; cbn [app rs_first_occ].
  - rewrite app_nil_r in Hin. apply existsb_streq in Hin. now rewrite Hin.
  - destruct (existsb (streq x) seen) eqn:E.
    + apply IH. apply existsb_streq in E. apply in_app_or in Hin as [H|[->|H]]; apply in_or_app; auto.
    + f_equal. apply IH. apply in_app_or in Hin as [H|[->|H]]; apply in_or_app; cbn [In]; auto.
Qed.

Lemma rs_first_occ_snoc_new l : forall seen k,
  ~ In k (seen ++ l) -> rs_first_occ seen (l ++ [k]) = rs_first_occ seen l ++ [k].
Proof.
  induction l as [|x l IH]; intros seen k Hin; cbn [app rs_first_occ].
  - rewrite app_nil_r in Hin. apply existsb_streq_false in Hin. now rewrite Hin.
  - destruct (existsb (streq x) seen) eqn:E.
    + apply IH. intros H. apply Hin. apply in_app_or in H as [H|H]; apply in_or_app; cbn [In]; auto.
    + cbn [app]. f_equal. apply IH. intros H. apply Hin.
      apply in_app_or in H as [[->|H]|H]; apply in_or_app; cbn [In]; auto.
Qed.

(* ------------------------------------------------------------------ what the groups of a field list are *)

Definition rs_group_of (k : str) (fl : list rs_cfield) : list rs_cfield :=
  filter (fun f => streq k (rcf_key f)) fl.

Definition rs_grouped (g : rs_groups) (fl : list rs_cfield) : Prop :=
  NoDup (rs_keys g) /\
  rs_keys g = rs_first_occ [] (map rcf_key fl) /\
  forall k fs, In (k, fs) g -> fs = rs_group_of k fl.

Lemma rs_merge_In g k x : NoDup (rs_keys g) -> forall k' fs',
  In (k', fs') (rs_merge g k x) ->
  (k' <> k /\ In (k', fs') g) \/
  (k' = k /\ ((exists fs0, In (k, fs0) g /\ fs' = fs0 ++ x) \/ (~ In k (rs_keys g) /\ fs' = x))).
Proof.
  induction g as [|[k0 fs0] g IH]; intros Hnd k' fs' Hin; cbn [rs_merge] in Hin.
  - destruct Hin as [[= <- <-]|[]]. right. split; auto.
  - cbn [rs_keys map fst] in Hnd. inversion Hnd as [|? ? Hk0 Hg]; subst.
    destruct (streq k k0) eqn:E.
    + apply streq_eq in E. subst k0. destruct Hin as [[= <- <-]|Hin].
      * right. split; auto. left. exists fs0. split; auto. now left.
      * left. split; [|now right]. intros ->. apply Hk0. change k with (fst (k, fs')). now apply in_map.
    + apply streq_false in E. destruct Hin as [[= <- <-]|Hin].
      * left. split; [congruence|now left].
      * destruct (IH Hg _ _ Hin) as [[Hne H]|[-> [(f1 & H1 & ->)|[Hn ->]]]].
        -- left. split; auto. now right.
        -- right. split; auto. left. exists f1. split; auto. now right.
        -- right. split; auto. right. split; auto. cbn [rs_keys map fst]. intros [H|H]; [congruence|]. now apply Hn.
Qed.

Lemma rs_group_of_app k a b : rs_group_of k (a ++ b) = rs_group_of k a ++ rs_group_of k b.
Proof. apply filter_app. Qed.

Lemma rs_group_of_absent k fl : ~ In k (map rcf_key fl) -> rs_group_of k fl = [].
Proof.
  induction fl as [|f fl IH]; cbn [map In rs_group_of filter]; intros H; [reflexivity|].
  destruct (streq k (rcf_key f)) eqn:E.
  - apply streq_eq in E. exfalso. apply H. now left.
  - apply IH. tauto.
Qed.

Lemma rs_grouped_step g pre f :
  rs_grouped g pre -> rs_grouped (rs_merge g (rcf_key f) [f]) (pre ++ [f]).
Proof.
  intros (Hnd & Hk & Hg). set (k := rcf_key f).
  assert (Hmem : In k (rs_keys g) <-> In k (map rcf_key pre)).
  { rewrite Hk, rs_first_occ_In. cbn [In]. tauto. }
  split; [now apply rs_merge_nodup|]. split.
  - rewrite rs_merge_keys, map_app. cbn [map]. fold k.
    destruct (existsb (streq k) (rs_keys g)) eqn:E.
    + apply existsb_streq in E. rewrite rs_first_occ_snoc_in; [exact Hk|]. cbn [app]. now apply Hmem.
    + apply existsb_streq_false in E. rewrite rs_first_occ_snoc_new; [now rewrite Hk|]. cbn [app]. now rewrite <- Hmem.
  - intros k' fs' Hin. rewrite rs_group_of_app. cbn [rs_group_of filter]. fold k.
    destruct (rs_merge_In g k [f] Hnd _ _ Hin) as [[Hne H]|[-> [(f0 & H0 & ->)|[Hn ->]]]].
    + apply streq_false in Hne. rewrite Hne, app_nil_r. now apply Hg.
    + rewrite streq_refl. f_equal. now apply Hg.
    + rewrite streq_refl. rewrite rs_group_of_absent; [reflexivity|]. now rewrite <- Hmem.
Qed.

Lemma rs_grouped_push fl : forall g pre, rs_grouped g pre -> rs_grouped (rs_push_all g fl) (pre ++ fl).
Proof.
  induction fl as [|f fl IH]; intros g pre H.
  - now rewrite app_nil_r.
  - cbn [rs_push_all fold_left]. fold (rs_push_all (rs_merge g (rcf_key f) [f]) fl).
    replace (pre ++ f :: fl) with ((pre ++ [f]) ++ fl) by now rewrite <- app_assoc.
    apply IH. now apply rs_grouped_step.
Qed.

Lemma rs_grouped_all fl : rs_grouped (rs_push_all [] fl) fl.
Proof.
  apply (rs_grouped_push fl [] []). split; [constructor|]. split; [reflexivity|]. intros k fs [].
Qed.

(* ------------------------------------------------------------------ schema accessors *)

Lemma sch_find_type_some n ts e : sch_find_type n ts = Some e -> In e ts /\ et_name e = n.
Proof.
  induction ts as [|t ts IH]; cbn [sch_find_type]; [discriminate|].
  destruct (streq n (et_name t)) eqn:E.
  - intros [= <-]. apply streq_eq in E. split; [now left|auto].
  - intros H. destruct (IH H). split; [now right|auto].
Qed.

Lemma rs_lists_In impls i : rs_lists impls i = true <-> In i (map c_val impls).
Proof.
  unfold rs_lists. rewrite existsb_exists, in_map_iff. split.
  - intros (c & Hc & E). apply streq_eq in E. eauto.
  - intros (c & E & Hc). exists c. split; auto. subst. apply streq_refl.
Qed.

Lemma rs_implementers_In s i T :
  In T (rs_implementers s i) <->
  exists a impls dd e f, In (EObject a T impls dd e f) (sch_types s) /\ rs_lists impls i = true.
Proof.
  unfold rs_implementers. rewrite in_flat_map. split.
  - intros (t & Ht & Hin). destruct t; try now destruct Hin.
    destruct (rs_lists impls i) eqn:E; [|now destruct Hin]. destruct Hin as [<-|[]]. eauto 10.
  - intros (a & impls & dd & e & f & Hin & E). eexists. split; [exact Hin|]. cbn. rewrite E. now left.
Qed.

(* ------------------------------------------------------------------ collect_fields against the flattening *)

Definition rs_erase (f : rs_cfield) : rs_sfield :=
  {| sf_alias := rcf_alias f; sf_name := rcf_name f; sf_sels := rcf_sels f |}.

Lemma rs_erase_key f : sf_key (rs_erase f) = rcf_key f.
Proof. reflexivity. Qed.

Lemma rs_under_snd p sels : map snd (rs_under p sels) = sels.
Proof. unfold rs_under. rewrite map_map. cbn. apply map_id. Qed.

Section Collect.
Variables (s : schema) (d : document) (T : str).

(* the type a selection is written under, seen from the concrete type T: T itself, an interface T implements,
   or a type without fields (a union) *)
Definition RsParentOk (p : str) : Prop :=
  p = T \/ In T (rs_implementers s p) \/ (forall name, rs_field_ty s p name = None).

Definition rs_psel_ok (ps : str * selection) : Prop :=
  RsParentOk (fst ps) /\ rs_cov_sel s (fst ps) (snd ps) = false.

Definition rs_cfield_ok (f : rs_cfield) : Prop :=
  RsParentOk (rcf_parent f) /\
  rs_cov_sel s (rcf_parent f) (SField (rcf_alias f) (rcf_name f) [] [] (rcf_sels f)) = false.

Hypothesis Hfrag : forall n cond fsels, rs_find_fragment d n = Some (cond, fsels) ->
  forall sel, In sel fsels -> rs_cov_sel s cond sel = false.

Lemma rs_tc_matches_applies c : rs_tc_matches s c T = true <-> RsApplies s c T.
Proof.
  unfold rs_tc_matches, RsApplies. destruct (streq c T) eqn:E.
  - apply streq_eq in E. tauto.
  - apply streq_false in E. split.
    + intros H. right. destruct (sch_get_type s c) as [[]|] eqn:Ec; try discriminate.
      * left. split; [eauto 10|]. destruct (sch_get_type s T) as [[]|] eqn:ET; try discriminate.
        apply rs_lists_In in H. eauto 12.
      * right. rewrite existsb_exists in H. destruct H as (m & Hm & Em). apply streq_eq in Em.
        do 5 eexists. split; [reflexivity|]. subst. now apply in_map.
    + intros [H|[[(a & b & c0 & dd & e & f & Hc) (a' & b' & impls & d' & e' & f' & HT & Hin)]|(a & b & c0 & m & e & Hc & Hin)]];
        [contradiction| |].
      * rewrite Hc, HT. now apply rs_lists_In.
      * rewrite Hc. rewrite existsb_exists. apply in_map_iff in Hin as (x & <- & Hx).
        exists x. split; auto. apply streq_refl.
Qed.

Lemma rs_tc_matches_parent c : rs_tc_matches s c T = true -> RsParentOk c.
Proof.
  unfold rs_tc_matches, RsParentOk. destruct (streq c T) eqn:E.
  - apply streq_eq in E. auto.
  - intros H. right. destruct (sch_get_type s c) as [[]|] eqn:Ec; try discriminate.
    + left. destruct (sch_get_type s T) as [[]|] eqn:ET; try discriminate.
      apply sch_find_type_some in ET as [Hin Hn]. cbn [et_name] in Hn. subst name0.
      apply rs_implementers_In. eauto 10.
    + right. intros nm. unfold rs_field_ty. now rewrite Ec.
Qed.

Definition rs_collects (ps : rs_psels) (fl : list rs_cfield) : Prop :=
  RsFlat s d T (map snd ps) (map rs_erase fl) /\ (Forall rs_psel_ok ps -> Forall rs_cfield_ok fl).

Lemma rs_under_ok p sels :
  RsParentOk p -> (forall sel, In sel sels -> rs_cov_sel s p sel = false) -> Forall rs_psel_ok (rs_under p sels).
Proof.
  intros Hp Hc. apply Forall_forall. intros [p' sel] Hin. unfold rs_under in Hin.
  apply in_map_iff in Hin as (x & [= <- <-] & Hx). split; cbn [fst snd]; auto.
Qed.

Lemma rs_existsb_false {A} (f : A -> bool) l : existsb f l = false -> forall x, In x l -> f x = false.
Proof.
  intros H x Hx. destruct (f x) eqn:E; auto.
  assert (existsb f l = true) by (apply existsb_exists; eauto). congruence.
Qed.

Lemma rs_collect_go_spec rec :
  (forall ps g, rec ps = Some g -> exists fl, rs_collects ps fl /\ g = rs_push_all [] fl) ->
  forall l acc g, rs_collect_go rec s d T l acc = Some g ->
  exists fl, rs_collects l fl /\ g = rs_push_all acc fl.
Proof.
  intros Hrec. induction l as [|[p sel] r IH]; intros acc g H; cbn [rs_collect_go] in H.
  - injection H as <-. exists []. split; [|reflexivity]. split; [constructor|]. intros _. constructor.
  - destruct sel as [alias name args dirs sels|n dirs|cond dirs sels].
    + (* field *)
      apply IH in H as (fl & [Hflat Hok] & ->).
      set (f := {| rcf_parent := p; rcf_alias := alias; rcf_name := name; rcf_sels := sels |}).
      exists (f :: fl). split; [|reflexivity]. split.
      * cbn [map snd]. apply (RsFlat_field s d T alias name args dirs sels). exact Hflat.
      * intros Hall. inversion Hall as [|? ? [Hp Hc] Hr]; subst. constructor; auto.
        split; [exact Hp|]. cbn [fst snd] in Hc. exact Hc.
    + (* spread *)
      destruct (rs_find_fragment d n) as [[cond fsels]|] eqn:Ef.
      * destruct (rs_tc_matches s cond T) eqn:Em.
        -- destruct (rec (rs_under cond fsels)) as [sub|] eqn:Er; [|discriminate].
           apply Hrec in Er as (ffl & [Hff Hfok] & ->).
           apply IH in H as (fl & [Hflat Hok] & ->).
           exists (ffl ++ fl). split.
           ++ split.
              ** cbn [map snd]. rewrite map_app. rewrite rs_under_snd in Hff.
                 eapply RsFlat_spread_yes; eauto. now apply rs_tc_matches_applies.
              ** intros Hall. inversion Hall as [|? ? _ Hr]; subst. apply Forall_app. split; auto.
                 apply Hfok. apply rs_under_ok; [now apply rs_tc_matches_parent|]. eapply Hfrag; eauto.
           ++ now rewrite rs_merge_all_sub, rs_push_all_app.
        -- apply IH in H as (fl & [Hflat Hok] & ->). exists fl. split; [|reflexivity]. split.
           ++ cbn [map snd]. eapply RsFlat_spread_no; eauto. rewrite <- rs_tc_matches_applies. congruence.
           ++ intros Hall. inversion Hall; subst. auto.
      * apply IH in H as (fl & [Hflat Hok] & ->). exists fl. split; [|reflexivity]. split.
        -- cbn [map snd]. now apply RsFlat_spread_undefined.
        -- intros Hall. inversion Hall; subst. auto.
    + (* inline fragment *)
      set (p' := match cond with Some c => c | None => p end) in H.
      destruct (match cond with Some c => rs_tc_matches s c T | None => true end) eqn:Em.
      * destruct (rec (rs_under p' sels)) as [sub|] eqn:Er; [|discriminate].
        apply Hrec in Er as (ffl & [Hff Hfok] & ->).
        apply IH in H as (fl & [Hflat Hok] & ->).
        exists (ffl ++ fl). split.
        -- split.
           ++ cbn [map snd]. rewrite map_app. rewrite rs_under_snd in Hff.
              apply RsFlat_inline_yes; auto. intros c ->. now apply rs_tc_matches_applies.
           ++ intros Hall. inversion Hall as [|? ? [Hp Hc] Hr]; subst. apply Forall_app. split; auto.
              apply Hfok. cbn [fst snd rs_cov_sel] in Hp, Hc. apply rs_under_ok.
              ** subst p'. destruct cond as [c|]; [now apply rs_tc_matches_parent|exact Hp].
              ** apply rs_existsb_false. exact Hc.
        -- now rewrite rs_merge_all_sub, rs_push_all_app.
      * destruct cond as [c|]; [|discriminate].
        apply IH in H as (fl & [Hflat Hok] & ->). exists fl. split; [|reflexivity]. split.
        -- cbn [map snd]. apply RsFlat_inline_no; auto. rewrite <- rs_tc_matches_applies. congruence.
        -- intros Hall. inversion Hall; subst. auto.
Qed.

Lemma rs_collect_spec fuel : forall ps g,
  rs_collect fuel s d T ps = Some g -> exists fl, rs_collects ps fl /\ g = rs_push_all [] fl.
Proof.
  induction fuel as [|fuel IH]; intros ps g H; cbn [rs_collect] in H; [discriminate|].
  eapply rs_collect_go_spec; eauto.
Qed.

End Collect.

(* ------------------------------------------------------------------ types, leaves, concrete types *)

Lemma rs_ty_eqb_eq a : forall b, rs_ty_eqb a b = true -> a = b.
Proof.
  induction a as [n|n|a IH|a IH]; intros [m|m|b|b]; cbn [rs_ty_eqb]; try discriminate;
    intros H; try (apply streq_eq in H; now subst); f_equal; auto.
Qed.

Lemma rs_cfield_ty_eq s f :
  rs_cfield_ty s f =
  rs_cfield_ty s {| rcf_parent := rcf_parent f; rcf_alias := None; rcf_name := rcf_name f; rcf_sels := [] |}.
Proof. reflexivity. Qed.

(* the definition found under the parent is the definition on the concrete type (outside the known class) *)
Lemma rs_cfield_ty_concrete s T f t :
  rs_cfield_ok s T f -> streq (rcf_name f) rs_typename = false -> rs_cfield_ty s f = Some t ->
  rs_field_ty s T (rcf_name f) = Some t.
Proof.
  intros [Hp Hc] Hn Ht. cbn [rs_cov_sel] in Hc. rewrite <- rs_cfield_ty_eq, Ht in Hc.
  unfold rs_cfield_ty in Ht. rewrite Hn in Ht.
  destruct Hp as [<-|[Hin|Hnone]]; [exact Ht| |rewrite Hnone in Ht; discriminate].
  apply orb_false_iff in Hc as [Hc _]. rewrite Hn in Hc. cbn [negb andb] in Hc.
  unfold rs_cov_field in Hc. pose proof (rs_existsb_false _ _ Hc T Hin) as H. cbn beta in H.
  destruct (rs_field_ty s T (rcf_name f)) as [t'|]; [|discriminate].
  apply negb_false_iff, rs_ty_eqb_eq in H. now subst.
Qed.

Lemma rs_cfield_sub_cov s T f t :
  rs_cfield_ok s T f -> rs_cfield_ty s f = Some t ->
  forall sel, In sel (rcf_sels f) -> rs_cov_sel s (inner_named_type t) sel = false.
Proof.
  intros [_ Hc] Ht. cbn [rs_cov_sel] in Hc. rewrite <- rs_cfield_ty_eq, Ht in Hc.
  apply orb_false_iff in Hc as [_ Hc]. now apply rs_existsb_false.
Qed.

Lemma rs_gen_string_ok st v rest : rs_gen_string st = RsOk v rest -> exists x, v = RJString x.
Proof. unfold rs_gen_string. intros H. rs_inv H. rs_inv Hk. rs_inv Hk0. eauto. Qed.

Ltac rs_consts :=
  repeat match goal with
         | |- context [streq ?a ?b] =>
             let r := eval vm_compute in (streq a b) in
             match r with
             | true => change (streq a b) with true
             | false => change (streq a b) with false
             end
         end; cbv iota.

Lemma rs_leaf_field_ok s n st v rest : rs_leaf_field s n st = RsOk v rest -> RsLeafOk s n v.
Proof.
  unfold rs_leaf_field, RsLeafOk. destruct (sch_get_type s n) as [[]|] eqn:E; try discriminate.
  - (* scalar *)
    apply sch_find_type_some in E as [_ En]. cbn [et_name] in En. subst name.
    unfold rs_generate_scalar, rs_registered. intros H.
    destruct (streq n rs_n_boolean) eqn:E1.
    { apply streq_eq in E1. subst n. rs_consts. rs_inv H. rs_inv Hk. eauto. }
    destruct (streq n rs_n_int) eqn:E2.
    { apply streq_eq in E2. subst n. rs_consts. rs_inv H. rs_inv Hk. apply rs_gen_range_ok in Hm.
      eexists. split; [reflexivity|]. unfold rs_i32. lia. }
    destruct (streq n rs_n_id) eqn:E3.
    { apply streq_eq in E3. subst n. rs_consts. rs_inv H. rs_inv Hk. eauto. }
    destruct (streq n rs_n_float) eqn:E4.
    { apply streq_eq in E4. subst n. rs_consts. rs_inv H. rs_inv Hk. eauto. }
    destruct (streq n rs_n_string) eqn:E5.
    { apply streq_eq in E5. subst n. rs_consts. now apply rs_gen_string_ok in H. }
    apply rs_gen_string_ok in H as [x ->]. discriminate.
  - (* enum *)
    intros H. rs_inv H. rs_inv Hk. rs_inv Hk0. apply rs_nth_or_panic_ok in Hm0.
    eexists. split; [reflexivity|]. now apply (in_map (fun c => ev_value (c_val c))).
Qed.

Lemma rs_concrete_type_possible s ty st T rest :
  RsHasImplementers s -> RsComposite s ty ->
  rs_concrete_type s ty st = RsOk T rest -> RsPossible s ty T.
Proof.
  unfold RsComposite, rs_concrete_type, RsPossible. intros HI.
  destruct (sch_get_type s ty) as [[]|] eqn:E; try contradiction; intros _ H.
  - rs_inv H. reflexivity.
  - destruct (rs_implementers s ty) eqn:Ei.
    + exfalso. eapply HI; eauto.
    + rs_inv H. now apply rs_nth_or_panic_ok in Hk.
  - rs_inv H. rs_inv Hk. rs_inv Hk0. apply rs_nth_or_panic_ok in Hm0. now apply in_map.
Qed.

Lemma rs_possible_parent s ty T : RsPossible s ty T -> RsParentOk s T ty.
Proof.
  unfold RsPossible, RsParentOk. destruct (sch_get_type s ty) as [[]|] eqn:E; try contradiction.
  - auto.
  - auto.
  - intros _. right. right. intros nm. unfold rs_field_ty. now rewrite E.
Qed.

(* ------------------------------------------------------------------ the known class on the document *)

Lemma rs_find_fragment_In d n cond fsels :
  rs_find_fragment d n = Some (cond, fsels) -> exists n' dirs, In (DFragment n' cond dirs fsels) d.
Proof.
  induction d as [|df d IH]; cbn [rs_find_fragment]; [discriminate|].
  destruct df; try (intros H; destruct (IH H) as (n' & dirs' & Hin); exists n', dirs'; now right).
  destruct (streq n name).
  - intros [= <- <-]. do 2 eexists. now left.
  - intros H. destruct (IH H) as (n' & dirs' & Hin). exists n', dirs'. now right.
Qed.

Lemma rs_known_fragments s d :
  rs_known_covariant s d = false ->
  forall n cond fsels, rs_find_fragment d n = Some (cond, fsels) ->
  forall sel, In sel fsels -> rs_cov_sel s cond sel = false.
Proof.
  intros H n cond fsels Hf sel Hin. apply rs_find_fragment_In in Hf as (n' & dirs & Hd).
  unfold rs_known_covariant in H. pose proof (rs_existsb_false _ _ H _ Hd) as H1. cbn [rs_cov_def] in H1.
  now apply (rs_existsb_false _ _ H1).
Qed.

(* ------------------------------------------------------------------ generation *)

Lemma rs_with_key_erase k fl : rs_with_key k (map rs_erase fl) = map rs_erase (rs_group_of k fl).
Proof.
  induction fl as [|f fl IH]; [reflexivity|].
  cbn [map rs_with_key rs_group_of filter]. rewrite rs_erase_key.
  destruct (streq k (rcf_key f)); cbn [map]; [f_equal|]; exact IH.
Qed.

Lemma rs_flat_map_erase fl : flat_map sf_sels (map rs_erase fl) = flat_map rcf_sels fl.
Proof. induction fl as [|f fl IH]; [reflexivity|]. cbn [map flat_map]. now rewrite IH. Qed.

Lemma rs_group_of_In k fl f : In f (rs_group_of k fl) <-> In f fl /\ rcf_key f = k.
Proof.
  unfold rs_group_of. rewrite filter_In. split; intros [H E]; split; auto.
  - apply streq_eq in E. auto.
  - subst. apply streq_refl.
Qed.

Section Gen.
Variables (cfg : rs_cfg) (s : schema) (d : document).
Hypothesis Hcov : rs_known_covariant s d = false.
Hypothesis HB : RsBuiltinsOk s.
Hypothesis HI : RsHasImplementers s.

(* every selection of the set is written under the set's own type and is outside the known class *)
Definition rs_set_ok (ty : str) (ps : rs_psels) : Prop :=
  Forall (fun q => fst q = ty /\ rs_cov_sel s ty (snd q) = false) ps.

Definition RsSelsetSpec (selset : str -> rs_psels -> rs_m rs_json) : Prop :=
  forall ty ps st j rest, selset ty ps st = RsOk j rest ->
    rs_set_ok ty ps -> RsValid s d ty (map snd ps) -> RsComposite s ty ->
    RsObjOk s d ty (map snd ps) j.

Lemma rs_value_of_type_ok selset (Hsel : RsSelsetSpec selset) sels :
  forall t sub st v rest,
    rs_value_of_type selset cfg s t sub st = RsOk v rest ->
    match sub with
    | None => True
    | Some (sty, mp) =>
        sty = inner_named_type t /\ map snd mp = sels /\ rs_set_ok sty mp /\ RsValid s d sty sels /\
        RsComposite s sty
    end ->
    RsValueOk s d t sels v.
Proof.
  induction t as [n|n|it IH|it IH]; intros sub st v rest H Hsub; cbn [rs_value_of_type] in H.
  - destruct sub as [[sty mp]|].
    + destruct Hsub as (-> & <- & Hok & Hv & Hc). eapply RsV_obj; [reflexivity|]. eapply Hsel; eauto.
    + eapply RsV_leaf; [reflexivity|]. eapply rs_leaf_field_ok; eauto.
  - destruct sub as [[sty mp]|].
    + destruct Hsub as (-> & <- & Hok & Hv & Hc). eapply RsV_obj; [reflexivity|]. eapply Hsel; eauto.
    + eapply RsV_leaf; [reflexivity|]. eapply rs_leaf_field_ok; eauto.
  - rs_inv H. rs_inv Hk. rs_inv Hk0. eapply RsV_list; [reflexivity|].
    eapply rs_repeat_ok; [|exact Hm0]. intros st' x rest' Hx. eapply IH; eauto.
  - rs_inv H. rs_inv Hk. rs_inv Hk0. eapply RsV_list; [reflexivity|].
    eapply rs_repeat_ok; [|exact Hm0]. intros st' x rest' Hx. eapply IH; eauto.
Qed.

(* the merged sub-selections of a group whose fields all select the field `name` of the concrete type *)
Lemma rs_merged_selections_ok T name mty : forall fs mp,
  rs_merged_selections s fs = Some mp ->
  Forall (fun f => rs_cfield_ok s T f /\ rcf_name f = name) fs ->
  streq name rs_typename = false ->
  rs_field_ty s T name = Some mty ->
  map snd mp = flat_map rcf_sels fs /\ rs_set_ok (inner_named_type mty) mp.
Proof.
  induction fs as [|f fs IH]; intros mp H Hall Hn HT; cbn [rs_merged_selections] in H.
  - injection H as <-. split; [reflexivity|constructor].
  - destruct (rs_cfield_ty s f) as [fty|] eqn:Ef; [|discriminate].
    destruct (rs_merged_selections s fs) as [rest|] eqn:Er; [|discriminate].
    injection H as <-. inversion Hall as [|? ? [Hok Hname] Hr]; subst.
    destruct (IH _ eq_refl Hr Hn HT) as [Hs Hset].
    assert (fty = mty).
    { pose proof (rs_cfield_ty_concrete s T f fty Hok Hn Ef) as H1. congruence. }
    subst fty. split.
    + rewrite map_app, rs_under_snd, Hs. reflexivity.
    + apply Forall_app. split; [|exact Hset]. apply Forall_forall. intros [p sel] Hin.
      unfold rs_under in Hin. apply in_map_iff in Hin as (x & [= <- <-] & Hx). cbn [fst snd]. split; auto.
      eapply rs_cfield_sub_cov; eauto.
Qed.

Section Fields.
Variables (selset : str -> rs_psels -> rs_m rs_json) (T : str) (fl : list rs_cfield).
Hypothesis Hsel : RsSelsetSpec selset.
Hypothesis Hok : Forall (rs_cfield_ok s T) fl.
Let flat := map rs_erase fl.
Hypothesis Hsame : forall f g, In f flat -> In g flat -> sf_key f = sf_key g -> sf_name f = sf_name g.
Hypothesis Hsub : forall f t, In f flat -> sf_name f <> rs_typename -> rs_field_ty s T (sf_name f) = Some t ->
  sf_sels f <> [] ->
  RsComposite s (inner_named_type t) /\
  RsValid s d (inner_named_type t) (flat_map sf_sels (rs_with_key (sf_key f) flat)).

Definition RsGroupSpec (k : str) (v : rs_json) : Prop :=
  forall f, In f (rs_with_key k flat) ->
    (sf_name f = rs_typename /\ v = RJString T) \/
    (sf_name f <> rs_typename /\
     exists t, rs_field_ty s T (sf_name f) = Some t /\
               RsValueOk s d t (flat_map sf_sels (rs_with_key k flat)) v).

Lemma rs_gen_fields_ok : forall groups st kvs rest,
  rs_gen_fields selset cfg s T groups st = RsOk kvs rest ->
  (forall k fs, In (k, fs) groups -> fs = rs_group_of k fl) ->
  map fst kvs = map fst groups /\ forall k v, In (k, v) kvs -> RsGroupSpec k v.
Proof.
  induction groups as [|[key fields] r IH]; intros st kvs rest H Hg; cbn [rs_gen_fields] in H.
  - rs_inv H. split; [reflexivity|]. intros k v [].
  - destruct fields as [|meta more]; [discriminate|].
    rs_inv H. rs_inv Hk. rs_inv Hk0.
    destruct (IH _ _ _ Hm0) as [Hkeys Hrest]; [intros; apply Hg; now right|].
    split; [cbn [map fst]; now rewrite Hkeys|].
    intros k v [[= <- <-]|Hin]; [|now apply Hrest].
    (* the head group *)
    assert (Hfs : meta :: more = rs_group_of key fl) by (apply Hg; now left).
    assert (Hmeta : In meta fl /\ rcf_key meta = key).
    { apply rs_group_of_In. rewrite <- Hfs. now left. }
    destruct Hmeta as [Hmeta_in Hmeta_key].
    assert (Hmeta_ok : rs_cfield_ok s T meta) by (rewrite Forall_forall in Hok; auto).
    assert (Hnames : Forall (fun f => rs_cfield_ok s T f /\ rcf_name f = rcf_name meta) (meta :: more)).
    { rewrite Hfs. apply Forall_forall. intros f Hf. apply rs_group_of_In in Hf as [Hf Hfk].
      split; [rewrite Forall_forall in Hok; auto|].
      apply (Hsame (rs_erase f) (rs_erase meta)); unfold flat; try now apply in_map.
      rewrite !rs_erase_key. congruence. }
    intros f Hf.
    assert (Hfname : sf_name f = rcf_name meta).
    { unfold flat in Hf. rewrite rs_with_key_erase in Hf. apply in_map_iff in Hf as (fm & <- & Hfm).
      rewrite <- Hfs in Hfm. rewrite Forall_forall in Hnames. now apply Hnames. }
    rewrite Hfname.
    destruct (streq (rcf_name meta) rs_typename) eqn:Etn.
    + apply streq_eq in Etn. rs_inv Hm. now left.
    + right. split; [now apply streq_false|].
      destruct (rs_cfield_ty s meta) as [mty|] eqn:Emty; [|discriminate].
      pose proof (rs_cfield_ty_concrete s T meta mty Hmeta_ok Etn Emty) as HT.
      exists mty. split; [exact HT|].
      rs_inv Hm. match type of Hk with (if ?b then _ else _) _ = _ => destruct b end; cbv beta iota in Hk.
      * (* null *)
        rs_inv Hk. destruct (is_non_null mty) eqn:Enn; [rs_inv Hm1; discriminate|]. now apply RsV_null.
      * unfold rs_generate_field_value in Hk.
        destruct (rcf_sels meta) as [|s0 ss] eqn:Esels.
        -- eapply rs_value_of_type_ok; eauto. exact I.
        -- destruct (rs_merged_selections s (meta :: more)) as [mp|] eqn:Emp; [|discriminate].
           destruct (rs_merged_selections_ok T (rcf_name meta) mty _ _ Emp Hnames Etn HT) as [Hmp Hset].
           assert (Hsels : flat_map sf_sels (rs_with_key key flat) = flat_map rcf_sels (meta :: more)).
           { unfold flat. now rewrite rs_with_key_erase, rs_flat_map_erase, <- Hfs. }
           destruct (Hsub (rs_erase meta) mty) as [Hcomp Hvalid].
           { unfold flat. now apply in_map. }
           { now apply streq_false. }
           { exact HT. }
           { cbn [rs_erase sf_sels]. rewrite Esels. discriminate. }
           rewrite rs_erase_key, Hmeta_key in Hvalid.
           eapply rs_value_of_type_ok; eauto. cbn beta iota.
           split; [reflexivity|]. split; [now rewrite Hsels|]. split; [exact Hset|]. split; assumption.
Qed.

End Fields.

Lemma rs_selset_ok fuel : RsSelsetSpec (rs_selset fuel cfg s d).
Proof.
  induction fuel as [|fuel IH]; intros ty ps st j rest H Hset Hvalid Hcomp; cbn [rs_selset] in H;
    [discriminate|].
  rs_inv H. rename a into T.
  pose proof (rs_concrete_type_possible s ty _ _ _ HI Hcomp Hm) as Hposs.
  destruct (rs_collect fuel s d T ps) as [groups|] eqn:Ec; [|discriminate].
  destruct (rs_registered ty) as [g|] eqn:Er; [exfalso; eapply HB; eauto|].
  rs_inv Hk. rs_inv Hk0.
  destruct (rs_collect_spec s d T (rs_known_fragments s d Hcov) fuel _ _ Ec) as (fl & [Hflat Hfok] & ->).
  assert (Hok : Forall (rs_cfield_ok s T) fl).
  { apply Hfok. apply Forall_forall. intros [p sel] Hin. unfold rs_set_ok in Hset.
    rewrite Forall_forall in Hset. destruct (Hset _ Hin) as [Hp Hc]. cbn [fst snd] in *. subst p. split; cbn [fst snd]; auto.
    now apply rs_possible_parent. }
  inversion Hvalid as [? ? Hv]; subst. destruct (Hv T _ Hposs Hflat) as [Hsame Hsub].
  destruct (rs_grouped_all fl) as (Hnd & Hkeys & Hgroups).
  destruct (rs_gen_fields_ok (rs_selset fuel cfg s d) T fl IH Hok Hsame Hsub _ _ _ _ Hm0 Hgroups)
    as [Hk1 Hk2].
  eapply RsO_intro; eauto.
  rewrite Hk1. fold (rs_keys (rs_push_all [] fl)). rewrite Hkeys, map_map. reflexivity.
Qed.

End Gen.

(* ------------------------------------------------------------------ build_data *)

Lemma rs_find_operation_In d opname o n sels :
  rs_find_operation d opname = Some (o, n, sels) -> exists vars dirs, In (DOperation o n vars dirs sels) d.
Proof.
  assert (Hops : forall x, In x (rs_ops d) ->
            exists vars dirs, In (DOperation (fst (fst x)) (snd (fst x)) vars dirs (snd x)) d).
  { intros [[o' n'] sels'] Hin. unfold rs_ops in Hin. apply in_flat_map in Hin as (df & Hdf & Hin).
    destruct df; try now destruct Hin. destruct Hin as [[= <- <- <-]|[]]. cbn [fst snd]. eauto. }
  unfold rs_find_operation. intros H.
  assert (Hin : In (o, n, sels) (rs_ops d)).
  { destruct opname as [nm|].
    - now apply find_some in H as [H _].
    - destruct (find _ (rs_ops d)) as [anon|] eqn:Ea.
      + destruct (filter _ (rs_ops d)); [|discriminate]. injection H as ->. now apply find_some in Ea as [Ea _].
      + destruct (filter _ (rs_ops d)) as [|x [|y l]] eqn:Ef; try discriminate.
        assert (Hx : In x (filter (fun o0 => match snd (fst o0) with Some _ => true | None => false end) (rs_ops d)))
          by (rewrite Ef; now left).
        injection H as <-. now apply filter_In in Hx as [Hx _]. }
  apply (Hops _ Hin).
Qed.

Theorem rs_shape : forall fuel cfg s d opname o n sels root stream j rest,
  rs_known_covariant s d = false ->
  RsBuiltinsOk s -> RsHasImplementers s ->
  rs_find_operation d opname = Some (o, n, sels) -> rs_root_type s o = Some root ->
  RsComposite s root -> RsValid s d root sels ->
  rs_build_data fuel cfg s d opname stream = RsOk j rest ->
  RsObjOk s d root sels j.
Proof.
  intros fuel cfg s d opname o n sels root stream j rest Hcov HB HI Hop Hroot Hcomp Hvalid H.
  unfold rs_build_data in H. rewrite Hop, Hroot in H.
  pose proof (rs_selset_ok cfg s d Hcov HB HI fuel root (rs_under root sels) stream j rest H) as R.
  rewrite rs_under_snd in R. apply R; auto.
  apply rs_find_operation_In in Hop as (vars & dirs & Hd).
  unfold rs_known_covariant in Hcov. pose proof (rs_existsb_false _ _ Hcov _ Hd) as H1.
  cbn [rs_cov_def] in H1. rewrite Hroot in H1.
  apply Forall_forall. intros [p sel] Hin. unfold rs_under in Hin.
  apply in_map_iff in Hin as (x & [= <- <-] & Hx). cbn [fst snd]. split; auto.
  now apply (rs_existsb_false _ _ H1).
Qed.

Lemma rs_no_operation fuel cfg s d opname stream :
  rs_find_operation d opname = None -> rs_build_data fuel cfg s d opname stream = RsOk RJNull stream.
Proof. intros H. unfold rs_build_data. now rewrite H. Qed.

(* ------------------------------------------------------------------ consequences of the shape predicate *)

(* null only at nullable positions *)
Lemma rs_value_null s d t sels : RsValueOk s d t sels RJNull -> is_non_null t = false.
Proof.
  intros H. inversion H as [| |? n ? ? Hn Hl|? n ? ? Hn Ho]; subst; auto.
  - exfalso. unfold RsLeafOk in Hl. destruct (sch_get_type s n) as [[]|]; try contradiction.
    + repeat match type of Hl with
             | if ?c then _ else _ => destruct c
             end;
        try (destruct Hl as [? [? ?]]; discriminate); try (destruct Hl as [? ?]; discriminate);
        try (destruct Hl as [[? ?]|[? ?]]; discriminate); now apply Hl.
    + destruct Hl as [? [? ?]]; discriminate.
  - inversion Ho.
Qed.

(* a list type is answered by a list (or null), nested as deep as the type *)
Lemma rs_value_list s d t it sels v :
  RsValueOk s d t sels v -> rs_item_ty t = Some it ->
  v = RJNull \/ exists vs, v = RJArray vs /\ Forall (RsValueOk s d it sels) vs.
Proof.
  intros H Hit. inversion H as [|? it' ? vs Hi Hf|? n ? ? Hn|? n ? ? Hn]; subst; auto.
  - right. exists vs. split; auto. congruence.
  - destruct t; discriminate.
  - destruct t; discriminate.
Qed.

(* the grouping of collect_fields, stated without the auxiliary definitions *)
Lemma rs_collect_fields_grouped : forall s d T fuel ps g,
  (forall n cond fsels, rs_find_fragment d n = Some (cond, fsels) ->
     forall sel, In sel fsels -> rs_cov_sel s cond sel = false) ->
  rs_collect fuel s d T ps = Some g ->
  exists fl, RsFlat s d T (map snd ps) (map rs_erase fl) /\
             map fst g = rs_first_occ [] (map rcf_key fl) /\
             forall k fs, In (k, fs) g -> fs = rs_group_of k fl.
Proof.
  intros s d T fuel ps g Hf H. destruct (rs_collect_spec s d T Hf fuel ps g H) as (fl & [Hflat _] & ->).
  exists fl. split; [exact Hflat|]. destruct (rs_grouped_all fl) as (_ & Hk & Hg). split; [exact Hk|exact Hg].
Qed.
