(* Model of the two recursions of apollo-smith that nest their output, with the depth bounds of repairs
   fix2-c32-3 and fix2-c32-4:

     ty.rs             choose_ty_given_nullable / generate_ty (list and non-null wrappers, MAX_TY_DEPTH)
     selection_set.rs  selection_set / selection, field.rs field, fragment.rs inline_fragment (selection sets
                       inside fields and inline fragments, MAX_SELECTION_SET_DEPTH; DocumentBuilder counts the
                       enclosing selection sets in selection_set_depth)

   Both draw from an ABSTRACT source: `draw lo hi src` is Unstructured::int_in_range(lo..=hi) (choose(slice) is
   slice[int_in_range(0..=len-1)]); the theorems hold for every `draw`.  What the recursions draw besides the
   choices that steer them (names, descriptions, arguments, directives) is an abstract step `skip` on the source.
   `bound = Some MAX` is the code as it is, `bound = None` the code before the repairs.  Recursion is by fuel;
   SdFuel (out of fuel) is a distinct result that the termination theorems exclude for the bounded code, and that
   the `_old` refutations show to be the ONLY result of the unbounded code on an exhausted source. *)
From ApolloVerif Require Import Base.Chars Ast.Ast.

Definition sd_max_ty_depth : N := 10.            (* ty.rs MAX_TY_DEPTH *)
Definition sd_max_selection_set_depth : N := 10. (* lib.rs MAX_SELECTION_SET_DEPTH *)

Inductive sd_res (A : Type) : Type :=
| SdOk (a : A)
| SdErr            (* arbitrary::Error (choose on an empty slice, a failing leaf) *)
| SdFuel.          (* the model's fuel ran out: no result of the code *)
Arguments SdOk {A} a. Arguments SdErr {A}. Arguments SdFuel {A}.

Definition sd_at_bound (bound : option N) (depth : N) : bool :=
  match bound with Some b => b <=? depth | None => false end.

(* ---- types ---- *)
Inductive sd_ty : Type := SdNamed (i : N) | SdList (t : sd_ty) | SdNonNull (t : sd_ty).

Fixpoint sd_wrappers (t : sd_ty) : N :=
  match t with SdNamed _ => 0 | SdList t' => 1 + sd_wrappers t' | SdNonNull t' => 1 + sd_wrappers t' end.

Section Source.
Context {Src : Type}.
Variable draw : N -> N -> Src -> N * Src.

(* choose_ty_given_nullable(existing_types, is_nullable, depth) and generate_ty(is_nullable, depth): `leaf` is
   the named type at the end (u.choose(existing ++ builtin) resp. self.name()) *)
Fixpoint sd_gen_ty (fuel : nat) (bound : option N) (leaf : Src -> option (N * Src)) (nullable : bool) (depth : N)
    (src : Src) : sd_res (sd_ty * Src) :=
  match fuel with
  | O => SdFuel
  | S f =>
      let (kind, s1) := if sd_at_bound bound depth then (0, src) else draw 0 2 src in
      if kind =? 0 then
        match leaf s1 with Some (i, s2) => SdOk (SdNamed i, s2) | None => SdErr end
      else if kind =? 1 then
        match sd_gen_ty f bound leaf true (depth + 1) s1 with
        | SdOk (t, s2) => SdOk (SdList t, s2)
        | SdErr => SdErr
        | SdFuel => SdFuel
        end
      else if nullable then
        match sd_gen_ty f bound leaf false (depth + 1) s1 with
        | SdOk (t, s2) => SdOk (SdNonNull t, s2)
        | SdErr => SdErr
        | SdFuel => SdFuel
        end
      else sd_gen_ty f bound leaf nullable (depth + 1) s1
  end.

(* choose_ty(existing_types): ntypes = existing_types.len() + 5 built-in scalars, never 0 *)
Definition sd_choose_ty (fuel : nat) (bound : option N) (ntypes : N) (src : Src) : sd_res (sd_ty * Src) :=
  sd_gen_ty fuel bound (fun s => Some (draw 0 (ntypes - 1) s)) true 0 src.

(* ---- selection sets ---- *)
(* a field definition as the recursion sees it: the index of its type in the schema when that type is an object
   or an interface (stack_ty pushes it), a union (no fields of its own), or a leaf (enum, scalar) *)
Inductive sd_fkind : Type := SdComposite (ty : N) | SdUnion | SdLeaf.
(* the fields of every object / interface type *)
Definition sd_schema : Type := list (list sd_fkind).

Inductive sd_sel : Type :=
| SdField (idx : option N) (sub : option (list sd_sel))     (* None: __typename *)
| SdSpread
| SdInline (sub : list sd_sel).

Definition sd_is_leaf (k : sd_fkind) : bool := match k with SdLeaf => true | _ => false end.

(* the positions of the leaf fields: fields_defs.iter().filter(|f| !is_composite_ty(&f.ty)) *)
Fixpoint sd_leaf_positions (fs : list sd_fkind) (i : N) : list N :=
  match fs with
  | [] => []
  | k :: r => if sd_is_leaf k then i :: sd_leaf_positions r (i + 1) else sd_leaf_positions r (i + 1)
  end.

Variable skip : Src -> Src.                           (* arguments and directives of a field, directives of a fragment *)
Variable spread : Src -> option Src.                  (* fragment_spread: Some = a fragment was available *)

(* `cur`: the fields of the type on top of the stack; `depth`: selection_set_depth.
   sd_selection_set = DocumentBuilder::selection_set; sd_selections its loop over the drawn count;
   sd_selection = selection; sd_field = field (incl. the nested selection set).
   One function with a tag, so that the mutual recursion is structural on the fuel. *)
Inductive sd_call : Type :=
| SdCallSet (cur : list sd_fkind) (depth : N)                 (* selection_set() entered at selection_set_depth = depth *)
| SdCallSels (n : nat) (cur : list sd_fkind) (depth : N)      (* n more selections of the set at depth *)
| SdCallSel (cur : list sd_fkind) (depth : N)                 (* selection() *)
| SdCallField (cur : list sd_fkind) (depth : N).              (* field() *)

Fixpoint sd_run (fuel : nat) (bound : option N) (schema : sd_schema) (c : sd_call) (src : Src)
  : sd_res (list sd_sel * Src) :=
  match fuel with
  | O => SdFuel
  | S f =>
      match c with
      | SdCallSet cur depth =>
          (* self.selection_set_depth += 1; (0..int_in_range(1..=5)).map(..) *)
          let (n, s1) := draw 1 5 src in
          sd_run f bound schema (SdCallSels (N.to_nat n) cur (depth + 1)) s1
      | SdCallSels n cur depth =>
          match n with
          | O => SdOk ([], src)
          | S n' =>
              let (_, s1) := draw 0 (N.of_nat (length cur)) src in      (* index, unused by field() *)
              match sd_run f bound schema (SdCallSel cur depth) s1 with
              | SdOk (sel, s2) =>
                  match sd_run f bound schema (SdCallSels n' cur depth) s2 with
                  | SdOk (rest, s3) => SdOk (sel ++ rest, s3)
                  | SdErr => SdErr
                  | SdFuel => SdFuel
                  end
              | SdErr => SdErr
              | SdFuel => SdFuel
              end
          end
      | SdCallSel cur depth =>
          let (kind, s1) := draw 0 2 src in
          if kind =? 0 then sd_run f bound schema (SdCallField cur depth) s1
          else if kind =? 1 then
            match spread s1 with
            | Some s2 => SdOk ([SdSpread], s2)
            | None => sd_run f bound schema (SdCallField cur depth) s1
            end
          else if sd_at_bound bound depth then sd_run f bound schema (SdCallField cur depth) s1
          else
            (* inline_fragment(): type condition, selection_set(), directives *)
            match sd_run f bound schema (SdCallSet cur depth) (skip s1) with
            | SdOk (sub, s2) => SdOk ([SdInline sub], skip s2)
            | SdErr => SdErr
            | SdFuel => SdFuel
            end
      | SdCallField cur depth =>
          let pick :=
            if sd_at_bound bound depth then
              match sd_leaf_positions cur 0 with
              | [] => inl tt                                          (* return Ok(Field::typename()) *)
              | (p0 :: _) as ps => let (j, s1) := draw 0 (N.of_nat (length ps) - 1) src in
                                 inr (Some (nth (N.to_nat j) ps p0, s1))
              end
            else
              match cur with
              | [] => inr None                                        (* choose(&[]) *)
              | _ => let (j, s1) := draw 0 (N.of_nat (length cur) - 1) src in inr (Some (j, s1))
              end in
          match pick with
          | inl _ => SdOk ([SdField None None], src)
          | inr None => SdErr
          | inr (Some (j, s1)) =>
              let s2 := skip s1 in
              match nth (N.to_nat j) cur SdLeaf with
              | SdLeaf => SdOk ([SdField (Some j) None], s2)
              | SdUnion => SdOk ([SdField (Some j) (Some [SdField None None])], s2)
              | SdComposite ty =>
                  match sd_run f bound schema (SdCallSet (nth (N.to_nat ty) schema []) depth) s2 with
                  | SdOk (sub, s3) => SdOk ([SdField (Some j) (Some sub)], s3)
                  | SdErr => SdErr
                  | SdFuel => SdFuel
                  end
              end
          end
      end
  end.
End Source.

(* how deep selection sets nest below a list of selections (the list itself is one selection set) *)
Fixpoint sd_sel_depth (s : sd_sel) : N :=
  match s with
  | SdField _ None => 0
  | SdField _ (Some sub) => 1 + fold_right (fun x m => N.max (sd_sel_depth x) m) 0 sub
  | SdSpread => 0
  | SdInline sub => 1 + fold_right (fun x m => N.max (sd_sel_depth x) m) 0 sub
  end.
Definition sd_sels_depth (l : list sd_sel) : N := fold_right (fun x m => N.max (sd_sel_depth x) m) 0 l.

(* ---- the same measures on a document of the shared AST (for the tie on generated documents) ---- *)
Fixpoint sd_ast_wrappers (t : ty) : N :=
  match t with
  | TNamed _ => 0
  | TNonNullNamed _ => 1
  | TList t' => 1 + sd_ast_wrappers t'
  | TNonNullList t' => 2 + sd_ast_wrappers t'
  end.

Definition sd_max_list {A} (f : A -> N) (l : list A) : N := fold_right (fun x m => N.max (f x) m) 0 l.

(* the deepest type of a definition: field types, argument types, input field types, variable types *)
Definition sd_args_wrappers (args : list inputvaldef) : N := sd_max_list (fun a => sd_ast_wrappers (iv_ty a)) args.
Definition sd_fields_wrappers (fs : list fielddef) : N :=
  sd_max_list (fun f => N.max (sd_ast_wrappers (fd_ty f)) (sd_args_wrappers (fd_args f))) fs.

Definition sd_def_wrappers (d : definition) : N :=
  match d with
  | DOperation _ _ vars _ _ => sd_max_list (fun v => sd_ast_wrappers (v_ty v)) vars
  | DDirective _ _ args _ _ => sd_args_wrappers args
  | DObject _ _ _ _ fs | DInterface _ _ _ _ fs | XObject _ _ _ fs | XInterface _ _ _ fs => sd_fields_wrappers fs
  | DInput _ _ _ fs | XInput _ _ fs => sd_args_wrappers fs
  | _ => 0
  end.
Definition sd_doc_wrappers (d : document) : N := sd_max_list sd_def_wrappers d.

(* how many selection sets enclose the innermost selection: a selection set without nested ones counts 1 *)
Fixpoint sd_ast_sel_depth (s : selection) {struct s} : N :=
  match s with
  | SField _ _ _ _ sels =>
      match sels with
      | [] => 0
      | _ => 1 + (fix go (l : list selection) {struct l} : N :=
                    match l with [] => 0 | x :: r => N.max (sd_ast_sel_depth x) (go r) end) sels
      end
  | SSpread _ _ => 0
  | SInline _ _ sels =>
      1 + (fix go (l : list selection) {struct l} : N :=
             match l with [] => 0 | x :: r => N.max (sd_ast_sel_depth x) (go r) end) sels
  end.
Definition sd_ast_sels_depth (sels : list selection) : N := 1 + sd_max_list sd_ast_sel_depth sels.

Definition sd_def_sel_depth (d : definition) : N :=
  match d with
  | DOperation _ _ _ _ sels | DFragment _ _ _ sels => sd_ast_sels_depth sels
  | _ => 0
  end.
Definition sd_doc_sel_depth (d : document) : N := sd_max_list sd_def_sel_depth d.
