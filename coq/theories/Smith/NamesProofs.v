(* Proofs about Smith/Names.v: the suffix loop of type_name returns a new name within |used| + 1 iterations;
   limited_string returns valid, non-reserved names for every source and terminates on every byte string. *)
From Coq Require Import Lia Arith PeanoNat FinFun.
Open Scope N_scope.
From ApolloVerif Require Import Base.Chars Ast.Ast Smith.Names.

(* ------------------------------------------------------------------ usize::to_string is injective *)

Definition nm_value (ds : str) : N := fold_left (fun acc c => acc * 10 + (c - 48)) ds 0.

Lemma nm_value_snoc l c : nm_value (l ++ [c]) = nm_value l * 10 + (c - 48).
Proof. unfold nm_value. now rewrite fold_left_app. Qed.

Lemma nm_log2_div10 n : 10 <= n -> (N.to_nat (N.log2 (n / 10)) < N.to_nat (N.log2 n))%nat.
Proof.
  intros H. set (m := n / 10).
  assert (Hm : 1 <= m) by (unfold m; apply N.div_le_lower_bound; lia).
  assert (H2 : 2 * m <= n).
  { unfold m. pose proof (N.mul_div_le n 10). lia. }
  assert (N.log2 (2 * m) = N.succ (N.log2 m)) by (apply N.log2_double; lia).
  pose proof (N.log2_le_mono _ _ H2). lia.
Qed.

Lemma nm_digits_value fuel : forall n, (N.to_nat (N.log2 n) < fuel)%nat -> nm_value (nm_digits fuel n) = n.
Proof.
  induction fuel as [|f IH]; intros n Hf; [lia|]. cbn [nm_digits].
  destruct (n <? 10) eqn:E.
  - unfold nm_value. cbn [fold_left]. lia.
  - rewrite nm_value_snoc, IH.
    + pose proof (N.div_mod n 10). lia.
    + pose proof (nm_log2_div10 n). lia.
Qed.

Lemma nm_decimal_value n : nm_value (nm_decimal n) = n.
Proof. unfold nm_decimal. apply nm_digits_value. lia. Qed.

Lemma nm_decimal_inj a b : nm_decimal a = nm_decimal b -> a = b.
Proof. intros H. rewrite <- (nm_decimal_value a), <- (nm_decimal_value b). now rewrite H. Qed.

Lemma nm_decimal_nonempty n : nm_decimal n <> [].
Proof.
  unfold nm_decimal. cbn [nm_digits]. destruct (n <? 10); [discriminate|].
  intros H. apply app_eq_nil in H as [_ H]. discriminate.
Qed.

(* ------------------------------------------------------------------ the suffix loop *)

(* the j-th candidate: base, base0, base1, ... *)
Definition nm_cand (base : str) (j : nat) : str :=
  match j with O => base | S k => base ++ nm_decimal (N.of_nat k) end.

Lemma nm_cand_inj base i j : nm_cand base i = nm_cand base j -> i = j.
Proof.
  destruct i as [|i], j as [|j]; cbn [nm_cand]; intros H; auto.
  - exfalso. rewrite <- (app_nil_r base) in H at 1. apply app_inv_head in H.
    symmetry in H. now apply nm_decimal_nonempty in H.
  - exfalso. rewrite <- (app_nil_r base) in H at 2. apply app_inv_head in H.
    now apply nm_decimal_nonempty in H.
  - apply app_inv_head, nm_decimal_inj in H. lia.
Qed.

Lemma nm_contains_In used n : nm_contains used n = true <-> In n used.
Proof.
  unfold nm_contains. rewrite existsb_exists. split.
  - intros (x & Hx & E). apply streq_eq in E. now subst.
  - intros H. exists n. split; auto. apply streq_refl.
Qed.

Lemma nm_suffix_loop_spec used base fuel : forall j name it,
  nm_suffix_loop fuel used base (N.of_nat j) (nm_cand base j) (N.of_nat j) = Some (name, it) ->
  exists k, (j <= k < j + fuel)%nat /\ name = nm_cand base k /\ it = N.of_nat (S k) /\ ~ In name used /\
            forall i, (j <= i < k)%nat -> In (nm_cand base i) used.
Proof.
  induction fuel as [|f IH]; intros j name it H; cbn [nm_suffix_loop] in H; [discriminate|].
  destruct (nm_contains used (nm_cand base j)) eqn:E.
  - replace (N.of_nat j + 1) with (N.of_nat (S j)) in H by lia.
    change (base ++ nm_decimal (N.of_nat j)) with (nm_cand base (S j)) in H.
    apply IH in H as (k & Hk & Hn & Hit & Hnot & Hall).
    exists k. repeat split; auto; try lia.
    intros i Hi. destruct (Nat.eq_dec i j) as [->|Hne]; [now apply nm_contains_In|]. apply Hall. lia.
  - injection H as <- <-. exists j. repeat split; try lia.
    intros Hin. apply nm_contains_In in Hin. congruence.
Qed.

Lemma nm_suffix_loop_total used base fuel : forall j,
  (exists k, (j <= k < j + fuel)%nat /\ ~ In (nm_cand base k) used) ->
  exists r, nm_suffix_loop fuel used base (N.of_nat j) (nm_cand base j) (N.of_nat j) = Some r.
Proof.
  induction fuel as [|f IH]; intros j (k & Hk & Hnot); [lia|]. cbn [nm_suffix_loop].
  destruct (nm_contains used (nm_cand base j)) eqn:E; [|eauto].
  replace (N.of_nat j + 1) with (N.of_nat (S j)) by lia.
  change (base ++ nm_decimal (N.of_nat j)) with (nm_cand base (S j)).
  apply IH. exists k. split; auto.
  assert (k <> j) by (intros ->; apply nm_contains_In in E; contradiction). lia.
Qed.

(* pigeonhole: |used| + 1 distinct candidates are not all used *)
Lemma nm_some_candidate_new used base :
  exists k, (k <= length used)%nat /\ ~ In (nm_cand base k) used.
Proof.
  destruct (Exists_dec (fun k => ~ In (nm_cand base k) used) (seq 0 (S (length used)))) as [H|H].
  - intros k. destruct (in_dec (list_eq_dec N.eq_dec) (nm_cand base k) used); [right|left]; tauto.
  - apply Exists_exists in H as (k & Hk & Hn). apply in_seq in Hk. exists k. split; [lia|auto].
  - exfalso.
    assert (Hall : forall k, (k <= length used)%nat -> In (nm_cand base k) used).
    { intros k Hk. destruct (in_dec (list_eq_dec N.eq_dec) (nm_cand base k) used) as [Hin|Hn]; auto.
      exfalso. apply H. apply Exists_exists. exists k. split; auto. apply in_seq. lia. }
    assert (Hnd : NoDup (map (nm_cand base) (seq 0 (S (length used))))).
    { apply FinFun.Injective_map_NoDup; [|apply seq_NoDup]. intros a b. apply nm_cand_inj. }
    assert (Hincl : incl (map (nm_cand base) (seq 0 (S (length used)))) used).
    { intros x Hx. apply in_map_iff in Hx as (k & <- & Hk). apply in_seq in Hk. apply Hall. lia. }
    pose proof (NoDup_incl_length Hnd Hincl) as Hlen. rewrite map_length, seq_length in Hlen. lia.
Qed.

Theorem nm_fresh_spec used base :
  NoDup used ->
  exists name iters,
    nm_fresh used base = Some (name, name :: used, iters) /\
    ~ In name used /\ NoDup (name :: used) /\ iters <= N.of_nat (length used) + 1.
Proof.
  intros Hnd. unfold nm_fresh.
  destruct (nm_some_candidate_new used base) as (k & Hk & Hnot).
  destruct (nm_suffix_loop_total used base (S (length used)) 0%nat) as ([name it] & Hr).
  { exists k. split; [lia|auto]. }
  pose proof (nm_suffix_loop_spec used base (S (length used)) 0%nat name it Hr) as (k' & Hk' & -> & -> & Hn' & _).
  cbn [N.of_nat nm_cand] in Hr. rewrite Hr.
  exists (nm_cand base k'), (N.of_nat (S k')). repeat split; auto.
  - now constructor.
  - lia.
Qed.

(* ------------------------------------------------------------------ limited_string: what it returns *)

Lemma nm_trim_end_prefix s : exists r, s = nm_trim_end s ++ r.
Proof.
  induction s as [|c s [r IH]]; [now exists []|]. cbn [nm_trim_end].
  destruct (nm_trim_end s) as [|x t] eqn:E.
  - destruct (c =? 95); [now exists (c :: s)|]. exists s. reflexivity.
  - exists r. cbn [app]. now rewrite IH at 1.
Qed.

Lemma nm_trim_end_last s : forall l c, nm_trim_end s = l ++ [c] -> c <> 95.
Proof.
  induction s as [|x s IH]; intros l c H; cbn [nm_trim_end] in H; [now destruct l|].
  destruct (nm_trim_end s) as [|y t] eqn:E.
  - destruct (x =? 95) eqn:Ex; [now destruct l|].
    destruct l as [|a l]; [|destruct l; discriminate]. injection H as <-. lia.
  - destruct l as [|a l]; [discriminate|]. injection H as <- H. eapply IH. exact H.
Qed.

Lemma nm_head_letter i : i <= 51 -> is_alpha (nm_head i) = true.
Proof. unfold nm_head, is_alpha. intros H. destruct (i <? 26) eqn:E; lia. Qed.

Lemma nm_body_continue i : i <= 62 -> is_name_continue (nm_body i) = true.
Proof.
  unfold nm_body, is_name_continue, is_name_start, is_alpha, is_digit. intros H.
  destruct (i <? 26) eqn:E1; [lia|]. destruct (i <? 52) eqn:E2; [lia|]. destruct (i =? 52) eqn:E3; lia.
Qed.

Section Source.
Context {Src : Type}.
Variable draw : N -> N -> Src -> N * Src.
Hypothesis Hdraw : forall lo hi src, lo <= hi -> lo <= fst (draw lo hi src) <= hi.

Lemma nm_chars_spec n : forall first src cs s',
  nm_chars draw n first src = (cs, s') ->
  length cs = n /\
  (first = false -> Forall (fun c => is_name_continue c = true) cs) /\
  (first = true -> match cs with
                   | [] => True
                   | c :: r => is_alpha c = true /\ Forall (fun c => is_name_continue c = true) r
                   end).
Proof.
  induction n as [|n IH]; intros first src cs s' H; cbn [nm_chars] in H.
  - injection H as <- <-. repeat split; auto.
  - destruct first.
    + destruct (draw 0 51 src) as [i s1] eqn:Ed.
      destruct (nm_chars draw n false s1) as [cs1 s2] eqn:Ec. injection H as <- <-.
      destruct (IH _ _ _ _ Ec) as (Hl & Hf & _). split; [cbn; lia|]. split; [discriminate|]. intros _. split.
      * apply nm_head_letter. pose proof (Hdraw 0 51 src ltac:(lia)) as Hr. rewrite Ed in Hr. cbn in Hr. lia.
      * auto.
    + destruct (draw 0 62 src) as [i s1] eqn:Ed.
      destruct (nm_chars draw n false s1) as [cs1 s2] eqn:Ec. injection H as <- <-.
      destruct (IH _ _ _ _ Ec) as (Hl & Hf & _). split; [cbn; lia|]. split; [|discriminate]. intros _. constructor.
      * apply nm_body_continue. pose proof (Hdraw 0 62 src ltac:(lia)) as Hr. rewrite Ed in Hr. cbn in Hr. lia.
      * auto.
Qed.

Lemma nm_accept_spec t : nm_accept t = true -> t <> [] /\ ~ In t nm_reserved.
Proof.
  unfold nm_accept. destruct t as [|c r]; [discriminate|]. intros H. split; [discriminate|].
  apply negb_true_iff in H. intros Hin.
  assert (existsb (streq (c :: r)) nm_reserved = true).
  { apply existsb_exists. exists (c :: r). split; auto. apply streq_refl. }
  congruence.
Qed.

(* every name limited_string returns is a valid GraphQL name starting with a letter, not ending in `_`,
   not a reserved word, of at most max_size characters *)
Theorem nm_limited_string_ok fuel : forall max_size src t s',
  1 <= max_size ->
  nm_limited_string draw fuel max_size src = Some (t, s') ->
  is_valid_name t = true /\ ~ In t nm_reserved /\
  (exists c r, t = c :: r /\ is_alpha c = true) /\
  (forall l c, t = l ++ [c] -> c <> 95) /\
  N.of_nat (length t) <= max_size.
Proof.
  induction fuel as [|f IH]; intros max_size src t s' Hmax H; cbn [nm_limited_string] in H; [discriminate|].
  destruct (draw 1 max_size src) as [size s1] eqn:Ed.
  destruct (nm_chars draw (N.to_nat size) true s1) as [cs s2] eqn:Ec.
  destruct (nm_accept (nm_trim_end cs)) eqn:Ea; [|eapply IH; eauto].
  injection H as <- <-.
  apply nm_accept_spec in Ea as [Hne Hres].
  destruct (nm_chars_spec _ _ _ _ _ Ec) as (Hlen & _ & Hfirst). specialize (Hfirst eq_refl).
  destruct (nm_trim_end_prefix cs) as [rest Hpre].
  destruct (nm_trim_end cs) as [|c r] eqn:Et; [contradiction|].
  rewrite Hpre in Hfirst. cbn [app] in Hfirst. destruct Hfirst as [Hc Hr].
  apply Forall_app in Hr as [Hr _].
  split.
  { cbn [is_valid_name]. unfold is_name_start. rewrite Hc. cbn [orb andb].
    apply forallb_forall. rewrite Forall_forall in Hr. auto. }
  split; [exact Hres|]. split; [eauto|]. split.
  { intros l c0 Hl. eapply nm_trim_end_last. rewrite Et. exact Hl. }
  pose proof (Hdraw 1 max_size src Hmax) as Hsz. rewrite Ed in Hsz. cbn [fst] in Hsz.
  assert (length (c :: r) <= length cs)%nat.
  { rewrite Hpre, app_length. cbn [length]. lia. }
  lia.
Qed.

End Source.

(* ------------------------------------------------------------------ the byte source: termination *)

Lemma nm_read_length n : forall delta consumed acc bytes,
  (length (snd (nm_read n delta consumed acc bytes)) <= length bytes)%nat.
Proof.
  induction n as [|n IH]; intros delta consumed acc bytes; cbn [nm_read]; [cbn; lia|].
  destruct (0 <? delta / 2 ^ (8 * consumed)); [|cbn; lia].
  destruct bytes as [|b r]; [cbn; lia|]. specialize (IH delta (consumed + 1) (acc * 256 + b) r). cbn [length]. lia.
Qed.

Lemma nm_int_in_range_length lo hi bytes :
  (length (snd (nm_int_in_range lo hi bytes)) <= length bytes)%nat.
Proof.
  unfold nm_int_in_range. destruct (hi <=? lo); [cbn; lia|].
  pose proof (nm_read_length 8 (hi - lo) 0 0 bytes) as H.
  destruct (nm_read 8 (hi - lo) 0 0 bytes) as [x rest]. exact H.
Qed.

Lemma nm_int_in_range_consumes lo hi b r :
  lo < hi -> (length (snd (nm_int_in_range lo hi (b :: r))) <= length r)%nat.
Proof.
  intros H. unfold nm_int_in_range. replace (hi <=? lo) with false by lia.
  change (nm_read 8 (hi - lo) 0 0 (b :: r)) with
    (if 0 <? (hi - lo) / 2 ^ (8 * 0) then nm_read 7 (hi - lo) (0 + 1) (0 * 256 + b) r else (0, b :: r)).
  replace (0 <? (hi - lo) / 2 ^ (8 * 0)) with true.
  - pose proof (nm_read_length 7 (hi - lo) (0 + 1) (0 * 256 + b) r) as Hl.
    destruct (nm_read 7 (hi - lo) (0 + 1) (0 * 256 + b) r) as [x rest]. exact Hl.
  - change (2 ^ (8 * 0)) with 1. rewrite N.div_1_r. lia.
Qed.

Lemma nm_int_in_range_range lo hi bytes : lo <= hi -> lo <= fst (nm_int_in_range lo hi bytes) <= hi.
Proof.
  intros H. unfold nm_int_in_range. destruct (hi <=? lo) eqn:E; [cbn; lia|].
  destruct (nm_read 8 (hi - lo) 0 0 bytes) as [x rest]. cbn [fst].
  assert (x mod (hi - lo + 1) < hi - lo + 1) by (apply N.mod_lt; lia). lia.
Qed.

Lemma nm_chars_length n : forall first bytes,
  (length (snd (nm_chars nm_int_in_range n first bytes)) <= length bytes)%nat.
Proof.
  induction n as [|n IH]; intros first bytes; cbn [nm_chars]; [cbn; lia|].
  destruct first.
  - pose proof (nm_int_in_range_length 0 51 bytes) as H1.
    destruct (nm_int_in_range 0 51 bytes) as [i s1]. specialize (IH false s1).
    destruct (nm_chars nm_int_in_range n false s1) as [cs s2]. cbn [snd] in *. lia.
  - pose proof (nm_int_in_range_length 0 62 bytes) as H1.
    destruct (nm_int_in_range 0 62 bytes) as [i s1]. specialize (IH false s1).
    destruct (nm_chars nm_int_in_range n false s1) as [cs s2]. cbn [snd] in *. lia.
Qed.

Lemma nm_limited_string_mono {Src} (draw : N -> N -> Src -> N * Src) f : forall f' m src r,
  (f <= f')%nat -> nm_limited_string draw f m src = Some r -> nm_limited_string draw f' m src = Some r.
Proof.
  induction f as [|f IH]; intros f' m src r Hle H; cbn [nm_limited_string] in H; [discriminate|].
  destruct f' as [|f']; [lia|]. cbn [nm_limited_string].
  destruct (draw 1 m src) as [size s1]. destruct (nm_chars draw (N.to_nat size) true s1) as [cs s2].
  destruct (nm_accept (nm_trim_end cs)); [exact H|]. apply IH; [lia|exact H].
Qed.

(* on a byte string of length n the retry loop finishes within n + 1 iterations *)
Theorem nm_limited_string_terminates : forall n bytes,
  length bytes = n -> exists r, nm_limited_string nm_int_in_range (S n) 30 bytes = Some r.
Proof.
  induction n as [n IH] using lt_wf_ind. intros bytes Hn. cbn [nm_limited_string].
  destruct bytes as [|b r].
  - vm_compute. eauto.
  - pose proof (nm_int_in_range_consumes 1 30 b r ltac:(lia)) as Hc.
    destruct (nm_int_in_range 1 30 (b :: r)) as [size s1]. cbn [snd] in Hc.
    pose proof (nm_chars_length (N.to_nat size) true s1) as Hl.
    destruct (nm_chars nm_int_in_range (N.to_nat size) true s1) as [cs s2]. cbn [snd] in Hl.
    destruct (nm_accept (nm_trim_end cs)); [eauto|].
    cbn [length] in Hn.
    destruct (IH (length s2) ltac:(lia) s2 eq_refl) as [res Hres].
    exists res. eapply nm_limited_string_mono; [|exact Hres]. lia.
Qed.
