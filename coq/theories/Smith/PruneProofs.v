(* Proofs about Smith/Prune.v: the fragments kept by prune_unused_fragments are exactly those reachable from
   the operations; every spread that resolved still resolves; no cycle is introduced; the loop terminates. *)
From Coq Require Import Lia Relations.
From ApolloVerif Require Import Base.Chars Ast.Ast Smith.Prune.

(* fragment name n is spread somewhere in the selection list (at any depth) *)
Inductive PrOcc (n : str) : list selection -> Prop :=
| PrOcc_here dirs r : PrOcc n (SSpread n dirs :: r)
| PrOcc_field a nm args dirs sels r : PrOcc n sels -> PrOcc n (SField a nm args dirs sels :: r)
| PrOcc_inline c dirs sels r : PrOcc n sels -> PrOcc n (SInline c dirs sels :: r)
| PrOcc_later s r : PrOcc n r -> PrOcc n (s :: r).

(* reachable from the operations through defined fragments *)
Inductive PrReach (ops : list (list selection)) (frags : list pr_frag) : str -> Prop :=
| PrReach_op sels n : In sels ops -> PrOcc n sels -> PrReach ops frags n
| PrReach_frag m sels n :
    PrReach ops frags m -> pr_find frags m = Some sels -> PrOcc n sels -> PrReach ops frags n.

Lemma pr_mem_In n set : pr_mem n set = true <-> In n set.
Proof.
  unfold pr_mem. rewrite existsb_exists. split.
  - intros (x & Hx & E). apply streq_eq in E. now subst.
  - intros H. exists n. split; auto. apply streq_refl.
Qed.

Lemma pr_insert_In set n x : In x (pr_insert set n) <-> In x set \/ x = n.
Proof.
  unfold pr_insert. destruct (pr_mem n set) eqn:E.
  - apply pr_mem_In in E. split; [auto|]. intros [H| ->]; auto.
  - rewrite in_app_iff. cbn [In]. intuition congruence.
Qed.

Lemma pr_insert_nodup set n : NoDup set -> NoDup (pr_insert set n).
Proof.
  intros H. unfold pr_insert. destruct (pr_mem n set) eqn:E; auto.
  assert (~ In n set) by (rewrite <- pr_mem_In; congruence).
  clear E. induction set as [|y l IH]; cbn [app].
  - constructor; auto.
  - inversion H as [|? ? Hy Hl]; subst. constructor.
    + intros Hin. apply in_app_or in Hin as [Hin|[-> |[]]]; [contradiction|]. apply H0. now left.
    + apply IH; auto. intros Hin. apply H0. now right.
Qed.

(* the local loops of pr_spreads_sel are pr_spreads *)
Lemma pr_go_eq sels : forall into,
  (fix go (l : list selection) (acc : list str) {struct l} : list str :=
     match l with [] => acc | s :: r => go r (pr_spreads_sel s acc) end) sels into = pr_spreads sels into.
Proof. induction sels as [|s r IH]; intros into; [reflexivity|]. cbn [pr_spreads]. apply IH. Qed.

Lemma PrOcc_cons n s r : PrOcc n (s :: r) <-> PrOcc n [s] \/ PrOcc n r.
Proof.
  split.
  - intros H. inversion H; subst; auto; left; constructor; auto.
  - intros [H|H]; [|now apply PrOcc_later]. inversion H as [| | |? ? Hn]; subst; try (constructor; auto).
    inversion Hn.
Qed.

(* induction over selections with the sub-selections as a Forall *)
Fixpoint pr_selection_ind (P : selection -> Prop)
    (Hf : forall a nm args dirs sub, Forall P sub -> P (SField a nm args dirs sub))
    (Hs : forall nm dirs, P (SSpread nm dirs))
    (Hi : forall c dirs sub, Forall P sub -> P (SInline c dirs sub))
    (sel : selection) {struct sel} : P sel :=
  match sel with
  | SField a nm args dirs sub =>
      Hf a nm args dirs sub
        ((fix go (l : list selection) : Forall P l :=
            match l with
            | [] => Forall_nil P
            | x :: r => Forall_cons x (pr_selection_ind P Hf Hs Hi x) (go r)
            end) sub)
  | SSpread nm dirs => Hs nm dirs
  | SInline c dirs sub =>
      Hi c dirs sub
        ((fix go (l : list selection) : Forall P l :=
            match l with
            | [] => Forall_nil P
            | x :: r => Forall_cons x (pr_selection_ind P Hf Hs Hi x) (go r)
            end) sub)
  end.

Definition PrSelSpec (sel : selection) : Prop :=
  forall into x, In x (pr_spreads_sel sel into) <-> In x into \/ PrOcc x [sel].

Lemma pr_spreads_In_of sels : Forall PrSelSpec sels ->
  forall into x, In x (pr_spreads sels into) <-> In x into \/ PrOcc x sels.
Proof.
  induction 1 as [|sel r Hsel _ IH]; intros into x; cbn [pr_spreads].
  - split; [auto|]. intros [H|H]; [auto|inversion H].
  - rewrite IH, (Hsel into x), (PrOcc_cons x sel r). tauto.
Qed.

Lemma pr_spreads_sel_In : forall sel, PrSelSpec sel.
Proof.
  apply pr_selection_ind.
  - intros a nm args dirs sub Hsub into x. cbn [pr_spreads_sel]. rewrite pr_go_eq, (pr_spreads_In_of sub Hsub).
    assert (PrOcc x [SField a nm args dirs sub] <-> PrOcc x sub).
    { split; intros H; [|now constructor]. inversion H as [|? ? ? ? ? ? Hs| |? ? Hs]; subst; auto. inversion Hs. }
    tauto.
  - intros nm dirs into x. cbn [pr_spreads_sel]. rewrite pr_insert_In.
    assert (PrOcc x [SSpread nm dirs] <-> x = nm).
    { split; intros H; [|subst; constructor]. inversion H as [| | |? ? Hs]; subst; auto. inversion Hs. }
    tauto.
  - intros c dirs sub Hsub into x. cbn [pr_spreads_sel]. rewrite pr_go_eq, (pr_spreads_In_of sub Hsub).
    assert (PrOcc x [SInline c dirs sub] <-> PrOcc x sub).
    { split; intros H; [|now constructor]. inversion H as [| |? ? ? ? Hs|? ? Hs]; subst; auto. inversion Hs. }
    tauto.
Qed.

Lemma pr_spreads_In : forall sels into x, In x (pr_spreads sels into) <-> In x into \/ PrOcc x sels.
Proof.
  intros sels. apply pr_spreads_In_of. apply Forall_forall. intros sel _. apply pr_spreads_sel_In.
Qed.

Lemma pr_spreads_nodup_of sels :
  Forall (fun sel => forall into, NoDup into -> NoDup (pr_spreads_sel sel into)) sels ->
  forall into, NoDup into -> NoDup (pr_spreads sels into).
Proof.
  induction 1 as [|sel r Hsel _ IH]; intros into H; cbn [pr_spreads]; auto.
Qed.

Lemma pr_spreads_sel_nodup : forall sel into, NoDup into -> NoDup (pr_spreads_sel sel into).
Proof.
  apply (pr_selection_ind (fun sel => forall into, NoDup into -> NoDup (pr_spreads_sel sel into))).
  - intros a nm args dirs sub Hsub into H. cbn [pr_spreads_sel]. rewrite pr_go_eq. now apply pr_spreads_nodup_of.
  - intros nm dirs into H. now apply pr_insert_nodup.
  - intros c dirs sub Hsub into H. cbn [pr_spreads_sel]. rewrite pr_go_eq. now apply pr_spreads_nodup_of.
Qed.

Lemma pr_spreads_nodup : forall sels into, NoDup into -> NoDup (pr_spreads sels into).
Proof.
  intros sels. apply pr_spreads_nodup_of. apply Forall_forall. intros sel _. apply pr_spreads_sel_nodup.
Qed.

Lemma pr_start_In ops : forall acc x,
  In x (fold_left (fun acc sels => pr_spreads sels acc) ops acc) <->
  In x acc \/ exists sels, In sels ops /\ PrOcc x sels.
Proof.
  induction ops as [|o ops IH]; intros acc x; cbn [fold_left].
  - split; [auto|]. intros [H|(s & [] & _)]; auto.
  - rewrite IH, pr_spreads_In. split.
    + intros [[H|H]|(s & Hs & Ho)]; auto; right; [exists o|exists s]; cbn [In]; auto.
    + intros [H|(s & [<-|Hs] & Ho)]; auto. right. eauto.
Qed.

Lemma pr_start_nodup ops : forall acc, NoDup acc ->
  NoDup (fold_left (fun acc sels => pr_spreads sels acc) ops acc).
Proof.
  induction ops as [|o ops IH]; intros acc H; cbn [fold_left]; auto. apply IH. now apply pr_spreads_nodup.
Qed.

(* ------------------------------------------------------------------ absorb *)

Lemma pr_absorb_spec nested : forall reachable frontier reach' front',
  pr_absorb nested reachable frontier = (reach', front') ->
  (forall x, In x reach' <-> In x reachable \/ In x nested) /\
  (forall x, In x front' -> In x frontier \/ (In x nested /\ ~ In x reachable)) /\
  incl frontier front' /\
  (forall x, In x nested -> ~ In x reachable -> In x front') /\
  (NoDup reachable -> NoDup reach') /\
  (length reach' + length frontier = length reachable + length front')%nat.
Proof.
  induction nested as [|n r IH]; intros reachable frontier reach' front' H; cbn [pr_absorb] in H.
  - injection H as <- <-.
    split; [intros x; cbn [In]; tauto|]. split; [intros x Hx; now left|]. split; [apply incl_refl|].
    split; [intros x []|]. split; [auto|lia].
  - destruct (pr_mem n reachable) eqn:E.
    + apply pr_mem_In in E. destruct (IH _ _ _ _ H) as (H1 & H2 & H3 & H4 & H5 & H6).
      repeat split; auto.
      * intros Hx. apply H1 in Hx. cbn [In]. tauto.
      * intros [Hx|[<-|Hx]]; apply H1; auto.
      * intros x Hx. destruct (H2 x Hx) as [|[Hn Hr]]; auto. right. split; [now right|auto].
      * intros x [<-|Hx] Hnot; [contradiction|]. now apply H4.
    + assert (Hn : ~ In n reachable) by (rewrite <- pr_mem_In; congruence).
      destruct (IH _ _ _ _ H) as (H1 & H2 & H3 & H4 & H5 & H6). repeat split.
      * intros Hx. apply H1 in Hx. rewrite in_app_iff in Hx. cbn [In] in *. intuition.
      * intros [Hx|[<-|Hx]]; apply H1; rewrite in_app_iff; cbn [In]; auto.
      * intros x Hx. destruct (H2 x Hx) as [[<-|Hf]|[Hn' Hr]]; auto.
        -- right. split; [now left|auto].
        -- right. split; [now right|]. intros Hin. apply Hr. apply in_or_app. now left.
      * intros x Hx. apply H3. now right.
      * intros x Hx Hnot. destruct (list_eq_dec N.eq_dec x n) as [-> |Hne]; [apply H3; now left|].
        destruct Hx as [-> |Hx]; [congruence|]. apply H4; auto.
        intros Hin. apply in_app_or in Hin as [Hin|[-> |[]]]; congruence.
      * intros Hnd. apply H5.
        replace (reachable ++ [n]) with (pr_insert reachable n) by (unfold pr_insert; now rewrite E).
        now apply pr_insert_nodup.
      * rewrite app_length in H6. cbn [length] in H6. lia.
Qed.

(* ------------------------------------------------------------------ the loop computes reachability *)

Section Loop.
Variables (ops : list (list selection)) (frags : list pr_frag).

Definition PrInv (reachable frontier : list str) : Prop :=
  (forall n, In n reachable -> PrReach ops frags n) /\
  incl frontier reachable /\
  (forall sels n, In sels ops -> PrOcc n sels -> In n reachable) /\
  (forall m, In m reachable -> ~ In m frontier ->
     forall sels n, pr_find frags m = Some sels -> PrOcc n sels -> In n reachable).

Lemma pr_loop_exact fuel : forall reachable frontier R,
  PrInv reachable frontier -> pr_loop fuel frags reachable frontier = Some R ->
  forall n, In n R <-> PrReach ops frags n.
Proof.
  induction fuel as [|f IH]; intros reachable frontier R Hinv H; cbn [pr_loop] in H; [discriminate|].
  destruct frontier as [|name rest].
  - injection H as <-. destruct Hinv as (Ha & _ & Hc & Hd). intros n. split; [apply Ha|].
    intros Hr. induction Hr as [sels n Hs Ho|m sels n Hm IHm Hf Ho]; [eapply Hc; eauto|].
    eapply Hd; eauto.
  - destruct Hinv as (Ha & Hb & Hc & Hd).
    assert (Hname : PrReach ops frags name) by (apply Ha, Hb; now left).
    destruct (pr_find frags name) as [sels|] eqn:Ef.
    + destruct (pr_absorb (pr_spreads sels []) reachable rest) as [reach' front'] eqn:Eabs.
      destruct (pr_absorb_spec _ _ _ _ _ Eabs) as (H1 & H2 & H3 & H4 & _).
      eapply IH; [|exact H]. repeat split.
      * intros n Hn. apply H1 in Hn as [Hn|Hn]; [now apply Ha|].
        apply pr_spreads_In in Hn as [[]|Hn]. eapply PrReach_frag; eauto.
      * intros x Hx. apply H1. destruct (H2 x Hx) as [Hr|[Hn _]]; [|now right]. left. apply Hb. now right.
      * intros s n Hs Ho. apply H1. left. eapply Hc; eauto.
      * intros m Hm Hnot s n Hfm Ho. apply H1.
        destruct (list_eq_dec N.eq_dec m name) as [-> |Hne].
        -- right. rewrite Ef in Hfm. injection Hfm as <-. apply pr_spreads_In. now right.
        -- destruct (in_dec (list_eq_dec N.eq_dec) m reachable) as [Hin|Hnin].
           ++ left. eapply Hd; eauto. intros [-> |Hr]; [congruence|]. apply Hnot. now apply H3.
           ++ exfalso. apply Hnot. apply H4; auto. apply H1 in Hm as [Hm|Hm]; [contradiction|exact Hm].
    + eapply IH; [|exact H]. repeat split; auto.
      * intros x Hx. apply Hb. now right.
      * intros m Hm Hnot s n Hfm Ho.
        destruct (list_eq_dec N.eq_dec m name) as [-> |Hne]; [congruence|].
        eapply Hd; eauto. intros [-> |Hr]; [congruence|contradiction].
Qed.

Theorem pr_reachable_exact fuel R :
  pr_reachable fuel ops frags = Some R -> forall n, In n R <-> PrReach ops frags n.
Proof.
  unfold pr_reachable. intros H. eapply pr_loop_exact; [|exact H].
  set (start := fold_left (fun acc sels => pr_spreads sels acc) ops []).
  assert (Hs : forall x, In x start <-> exists sels, In sels ops /\ PrOcc x sels).
  { intros x. unfold start. rewrite pr_start_In. cbn [In]. tauto. }
  repeat split.
  - intros n Hn. apply Hs in Hn as (sels & H1 & H2). eapply PrReach_op; eauto.
  - intros x Hx. now apply in_rev in Hx.
  - intros sels n H1 H2. apply Hs. eauto.
  - intros m Hm Hnot. exfalso. apply Hnot. now apply in_rev in Hm.
Qed.

(* ---- termination: every name is pushed once, and all of them come from the listed spreads ---- *)
Definition pr_universe : list str :=
  fold_left (fun acc sels => pr_spreads sels acc) ops [] ++ flat_map (fun fr => pr_spreads (snd fr) []) frags.

Lemma pr_find_In name : forall sels, pr_find frags name = Some sels -> In (name, sels) frags.
Proof.
  induction frags as [|[n s] r IH]; intros sels; cbn [pr_find]; [discriminate|].
  destruct (streq n name) eqn:E.
  - intros [= <-]. apply streq_eq in E. subst. now left.
  - intros H. right. now apply IH.
Qed.

Lemma pr_loop_total fuel : forall reachable frontier,
  NoDup reachable -> incl reachable pr_universe ->
  (length frontier <= length reachable)%nat ->
  (length pr_universe + length frontier < fuel + length reachable)%nat ->
  exists R, pr_loop fuel frags reachable frontier = Some R.
Proof.
  induction fuel as [|f IH]; intros reachable frontier Hnd Hincl Hle Hfuel.
  - exfalso. pose proof (NoDup_incl_length Hnd Hincl). lia.
  - cbn [pr_loop]. destruct frontier as [|name rest]; [eauto|]. cbn [length] in *.
    destruct (pr_find frags name) as [sels|] eqn:Ef.
    + destruct (pr_absorb (pr_spreads sels []) reachable rest) as [reach' front'] eqn:Eabs.
      destruct (pr_absorb_spec _ _ _ _ _ Eabs) as (H1 & H2 & H3 & H4 & H5 & H6).
      apply IH; auto.
      * intros x Hx. apply H1 in Hx as [Hx|Hx]; [now apply Hincl|].
        unfold pr_universe. apply in_or_app. right. apply in_flat_map.
        exists (name, sels). split; [now apply pr_find_In|exact Hx].
      * lia.
      * lia.
    + apply IH; auto; lia.
Qed.

Theorem pr_reachable_total : exists R, pr_reachable (pr_fuel ops frags) ops frags = Some R.
Proof.
  unfold pr_reachable. apply pr_loop_total.
  - apply pr_start_nodup. constructor.
  - intros x Hx. unfold pr_universe. apply in_or_app. now left.
  - now rewrite rev_length.
  - unfold pr_fuel, pr_universe. rewrite rev_length, app_length.
    assert (length (flat_map (fun fr => pr_spreads (snd fr) []) frags) =
            fold_left (fun n fr => (n + length (pr_spreads (snd fr) []))%nat) frags 0%nat).
    { assert (G : forall k, fold_left (fun n fr => (n + length (pr_spreads (snd fr) []))%nat) frags k =
                            (k + length (flat_map (fun fr => pr_spreads (snd fr) []) frags))%nat).
      { induction frags as [|fr r IHr]; intros k; cbn [fold_left flat_map length]; [lia|].
        rewrite IHr, app_length. lia. }
      rewrite G. lia. }
    lia.
Qed.

End Loop.

(* ------------------------------------------------------------------ pruning *)

Lemma pr_find_retain R : forall frags n sels,
  In n R -> pr_find frags n = Some sels -> pr_find (pr_retain R frags) n = Some sels.
Proof.
  induction frags as [|[m s] r IH]; intros n sels Hn; cbn [pr_find pr_retain filter fst]; [discriminate|].
  destruct (streq m n) eqn:E.
  - intros [= <-]. apply streq_eq in E. subst m.
    replace (pr_mem n R) with true by (symmetry; now apply pr_mem_In). cbn [pr_find]. now rewrite streq_refl.
  - intros H. destruct (pr_mem m R); [cbn [pr_find]; rewrite E|]; now apply IH.
Qed.

Lemma pr_find_retain_inv R : forall frags n sels,
  pr_find (pr_retain R frags) n = Some sels -> pr_find frags n = Some sels /\ In n R.
Proof.
  induction frags as [|[m s] r IH]; intros n sels; cbn [pr_find pr_retain filter fst]; [discriminate|].
  destruct (pr_mem m R) eqn:Em.
  - cbn [pr_find]. destruct (streq m n) eqn:E.
    + intros [= <-]. apply streq_eq in E. subst. split; auto. now apply pr_mem_In.
    + apply IH.
  - intros H. destruct (IH _ _ H) as [H1 H2]. destruct (streq m n) eqn:E; [|auto].
    apply streq_eq in E. subst. apply pr_mem_In in H2. congruence.
Qed.

(* an edge of the spread graph of a list of fragment definitions *)
Definition PrEdge (frags : list pr_frag) (a b : str) : Prop :=
  exists sels, pr_find frags a = Some sels /\ PrOcc b sels /\ pr_find frags b <> None.

Theorem pr_prune_exact fuel ops frags kept :
  pr_prune fuel ops frags = Some kept ->
  (* the remaining fragments are exactly the reachable ones, in the original order *)
  kept = filter (fun fr => pr_mem (fst fr) (map fst kept)) frags /\
  (forall fr, In fr kept <-> In fr frags /\ PrReach ops frags (fst fr)) /\
  (* every spread of an operation or of a remaining fragment that resolved still resolves, to the same fragment *)
  (forall sels n body,
     (In sels ops \/ exists m, pr_find kept m = Some sels) -> PrOcc n sels ->
     pr_find frags n = Some body -> pr_find kept n = Some body) /\
  (* no cycle is introduced *)
  (forall a b, PrEdge kept a b -> PrEdge frags a b).
Proof.
  unfold pr_prune. destruct (pr_reachable fuel ops frags) as [R|] eqn:ER; [|discriminate].
  intros [= <-]. pose proof (pr_reachable_exact ops frags fuel R ER) as HR.
  assert (Hin : forall fr, In fr (pr_retain R frags) <-> In fr frags /\ PrReach ops frags (fst fr)).
  { intros fr. unfold pr_retain. rewrite filter_In, pr_mem_In, HR. tauto. }
  split; [|split; [exact Hin|split]].
  - unfold pr_retain. apply filter_ext_in. intros fr Hfr.
    destruct (pr_mem (fst fr) R) eqn:E.
    + symmetry. apply pr_mem_In. apply in_map. apply filter_In. auto.
    + symmetry. destruct (pr_mem (fst fr) (map fst (filter (fun fr0 => pr_mem (fst fr0) R) frags))) eqn:E2; auto.
      apply pr_mem_In in E2. apply in_map_iff in E2 as (g & Hg & Hgin). apply filter_In in Hgin as [_ Hgm].
      rewrite Hg in Hgm. congruence.
  - intros sels n body Hsrc Ho Hf. apply pr_find_retain; auto. apply HR.
    destruct Hsrc as [Hs|(m & Hm)]; [eapply PrReach_op; eauto|].
    apply pr_find_retain_inv in Hm as [Hm HmR].
    apply (PrReach_frag ops frags m sels n); [now apply HR|exact Hm|exact Ho].
  - intros a b (sels & Ha & Ho & Hb). apply pr_find_retain_inv in Ha as [Ha _].
    exists sels. repeat split; auto.
    destruct (pr_find (pr_retain R frags) b) as [sb|] eqn:Eb; [|congruence].
    apply pr_find_retain_inv in Eb as [Eb _]. congruence.
Qed.

Corollary pr_prune_no_new_cycle fuel ops frags kept :
  pr_prune fuel ops frags = Some kept ->
  forall a, clos_trans _ (PrEdge kept) a a -> clos_trans _ (PrEdge frags) a a.
Proof.
  intros H a Hc. destruct (pr_prune_exact _ _ _ _ H) as (_ & _ & _ & He).
  assert (G : forall x y, clos_trans _ (PrEdge kept) x y -> clos_trans _ (PrEdge frags) x y).
  { intros x y Hxy. induction Hxy as [x y Hxy|x y z _ IH1 _ IH2]; [apply t_step; auto|eapply t_trans; eauto]. }
  now apply G.
Qed.

Theorem pr_prune_total ops frags : exists kept, pr_prune (pr_fuel ops frags) ops frags = Some kept.
Proof.
  unfold pr_prune. destruct (pr_reachable_total ops frags) as [R ->]. eauto.
Qed.
