(* The generator never fails on well-typed input: every run of the model ends in a response, in `exhausted`
   (the choice stream ran out) or in the model's own fuel bound - never in a panic (expect / unreachable! /
   index out of bounds), in EmptyChoose, or in a missing field definition. *)
From Coq Require Import ZArith Lia.
From ApolloVerif Require Import Base.Chars Ast.Ast Schema.Model Smith.Response Smith.ResponseSpec
  Smith.ResponseProofs.

Definition RsSafeM {A} (m : rs_m A) : Prop := forall st, RsSafe (m st).

Lemma rs_safe_bind {A B} (m : rs_m A) (f : A -> rs_m B) st :
  RsSafe (m st) -> (forall a st', m st = RsOk a st' -> RsSafe (f a st')) -> RsSafe (rs_bind m f st).
Proof. unfold rs_bind. destruct (m st); cbn; auto. Qed.

Lemma rs_safe_ret {A} (a : A) st : RsSafe (rs_ret a st).
Proof. exact I. Qed.

Lemma rs_next_safe : RsSafeM rs_next.
Proof. intros [|c r]; exact I. Qed.

Lemma rs_gen_range_safe lo hi : lo <= hi -> RsSafeM (rs_gen_range lo hi).
Proof.
  intros H st. unfold rs_gen_range. replace (hi <? lo) with false by lia.
  apply rs_safe_bind; [apply rs_next_safe|]. intros; apply rs_safe_ret.
Qed.

Lemma rs_choose_index_safe len : len <> 0 -> RsSafeM (rs_choose_index len).
Proof.
  intros H st. unfold rs_choose_index. replace (len =? 0) with false by lia.
  apply rs_safe_bind; [apply rs_next_safe|]. intros; apply rs_safe_ret.
Qed.

Lemma rs_ratio_safe n d : d <> 0 -> RsSafeM (rs_ratio n d).
Proof.
  intros H st. unfold rs_ratio. replace (d =? 0) with false by lia.
  apply rs_safe_bind; [apply rs_next_safe|]. intros; apply rs_safe_ret.
Qed.

Lemma rs_repeat_safe {A} (m : rs_m A) : RsSafeM m -> forall n, RsSafeM (rs_repeat n m).
Proof.
  intros Hm. induction n as [|n IH]; intros st; cbn [rs_repeat]; [exact I|].
  apply rs_safe_bind; [apply Hm|]. intros a st' _. apply rs_safe_bind; [apply IH|]. intros; apply rs_safe_ret.
Qed.

Lemma rs_gen_string_safe : RsSafeM rs_gen_string.
Proof.
  intros st. unfold rs_gen_string. apply rs_safe_bind; [apply rs_gen_range_safe; lia|]. intros len st' _.
  apply rs_safe_bind; [|intros; apply rs_safe_ret]. apply rs_repeat_safe. intros st2.
  unfold rs_gen_alnum. apply rs_safe_bind; [apply rs_next_safe|]. intros; apply rs_safe_ret.
Qed.

Lemma rs_generate_scalar_safe n : RsSafeM (rs_generate_scalar n).
Proof.
  intros st. unfold rs_generate_scalar, rs_registered.
  repeat match goal with |- context [if streq n ?c then _ else _] => destruct (streq n c) end;
    try apply rs_gen_string_safe.
  - unfold rs_gen_bool. apply rs_safe_bind; [|intros; apply rs_safe_ret].
    apply rs_safe_bind; [apply rs_next_safe|]. intros; apply rs_safe_ret.
  - apply rs_safe_bind; [apply rs_gen_range_safe; lia|]. intros; apply rs_safe_ret.
  - apply rs_safe_bind; [apply rs_gen_range_safe; lia|]. intros; apply rs_safe_ret.
  - unfold rs_gen_float_halves. apply rs_safe_bind; [|intros; apply rs_safe_ret].
    apply rs_safe_bind; [apply rs_next_safe|]. intros; apply rs_safe_ret.
Qed.

Lemma rs_nth_or_panic_safe {A} (l : list A) i st : i < N.of_nat (length l) -> RsSafe (rs_nth_or_panic l i st).
Proof.
  intros H. unfold rs_nth_or_panic. destruct (nth_error l (N.to_nat i)) eqn:E; [exact I|].
  apply nth_error_None in E. lia.
Qed.

Lemma rs_pick_safe {A B} (l : list A) (f : A -> B) st :
  l <> [] ->
  RsSafe (rs_bind (rs_choose_index (N.of_nat (length l))) (fun idx =>
          rs_bind (rs_nth_or_panic l idx) (fun m => rs_ret (f m))) st).
Proof.
  intros Hne. apply rs_safe_bind.
  - apply rs_choose_index_safe. destruct l; [contradiction|cbn [length]; lia].
  - intros idx st' Hi. apply rs_choose_index_ok in Hi.
    apply rs_safe_bind; [now apply rs_nth_or_panic_safe|]. intros; apply rs_safe_ret.
Qed.

Lemma rs_leaf_field_safe s n : rs_leaf_type s n = true -> RsSafeM (rs_leaf_field s n).
Proof.
  intros H st. unfold rs_leaf_type in H. unfold rs_leaf_field.
  destruct (sch_get_type s n) as [[]|]; try discriminate.
  - apply rs_generate_scalar_safe.
  - apply (rs_pick_safe values (fun v => RJString (ev_value (c_val v)))). destruct values; [discriminate|discriminate].
Qed.

Lemma rs_concrete_type_safe s ty : rs_composite_type s ty = true -> RsSafeM (rs_concrete_type s ty).
Proof.
  intros H st. unfold rs_composite_type in H. apply andb_true_iff in H as [H _]. unfold rs_concrete_type.
  destruct (sch_get_type s ty) as [[]|]; try discriminate; try exact I.
  - destruct (rs_implementers s ty) as [|x l] eqn:E; [exact I|].
    apply rs_safe_bind.
    + apply rs_choose_index_safe. cbn [length]. lia.
    + intros idx st' Hi. apply rs_choose_index_ok in Hi. now apply rs_nth_or_panic_safe.
  - apply (rs_pick_safe members c_val). destruct members; [discriminate|discriminate].
Qed.

(* ------------------------------------------------------------------ collected fields stay well typed *)

Section Safe.
Variables (cfg : rs_cfg) (s : schema) (d : document).
Hypothesis Hcfg : rs_cfg_ok cfg = true.
Hypothesis Hfrags : rs_typed_fragments s d = true.

Definition rs_psel_typed (ps : str * selection) : Prop := rs_typed_sel s (fst ps) (snd ps) = true.
Definition rs_cfield_typed (f : rs_cfield) : Prop :=
  rs_typed_sel s (rcf_parent f) (SField (rcf_alias f) (rcf_name f) [] [] (rcf_sels f)) = true.
Definition RsGroupsTyped (g : rs_groups) : Prop :=
  forall k fs, In (k, fs) g -> fs <> [] /\ Forall rs_cfield_typed fs.

Lemma rs_merge_typed g k fs :
  RsGroupsTyped g -> fs <> [] -> Forall rs_cfield_typed fs -> RsGroupsTyped (rs_merge g k fs).
Proof.
  intros Hg Hne Hfs. induction g as [|[k' fs'] g IH]; cbn [rs_merge].
  - intros k0 fs0 [[= <- <-]|[]]. auto.
  - assert (Hg' : RsGroupsTyped g) by (intros a b Hab; apply (Hg a b); now right).
    destruct (Hg k' fs' (or_introl eq_refl)) as [Hne' Hfs'].
    destruct (streq k k').
    + intros k0 fs0 [[= <- <-]|Hin]; [|apply (Hg k0 fs0); now right]. split.
      * destruct fs'; [contradiction|discriminate].
      * apply Forall_app. auto.
    + intros k0 fs0 [[= <- <-]|Hin]; [auto|]. now apply (IH Hg' k0 fs0).
Qed.

Lemma rs_merge_all_typed sub : forall acc, RsGroupsTyped acc -> RsGroupsTyped sub -> RsGroupsTyped (rs_merge_all acc sub).
Proof.
  induction sub as [|[k fs] sub IH]; intros acc Ha Hs; [exact Ha|].
  rewrite rs_merge_all_cons. apply IH.
  - destruct (Hs k fs (or_introl eq_refl)). now apply rs_merge_typed.
  - intros a b Hab. apply (Hs a b). now right.
Qed.

Lemma rs_fragment_typed n cond fsels :
  rs_find_fragment d n = Some (cond, fsels) -> Forall rs_psel_typed (rs_under cond fsels).
Proof.
  intros Hf. apply rs_find_fragment_In in Hf as (n' & dirs & Hd).
  unfold rs_typed_fragments in Hfrags. rewrite forallb_forall in Hfrags. specialize (Hfrags _ Hd). cbn in Hfrags.
  rewrite forallb_forall in Hfrags. apply Forall_forall. intros [p sel] Hin. unfold rs_under in Hin.
  apply in_map_iff in Hin as (x & [= <- <-] & Hx). now apply Hfrags.
Qed.

Lemma rs_collect_go_typed T rec :
  (forall ps g, rec ps = Some g -> Forall rs_psel_typed ps -> RsGroupsTyped g) ->
  forall l acc g, rs_collect_go rec s d T l acc = Some g ->
    Forall rs_psel_typed l -> RsGroupsTyped acc -> RsGroupsTyped g.
Proof.
  intros Hrec. induction l as [|[p sel] r IH]; intros acc g H Hl Hacc; cbn [rs_collect_go] in H.
  - now injection H as <-.
  - inversion Hl as [|? ? Hsel Hr]; subst. unfold rs_psel_typed in Hsel. cbn [fst snd] in Hsel.
    destruct sel as [alias name args dirs sels|n dirs|cond dirs sels].
    + eapply IH; [exact H|exact Hr|]. apply rs_merge_typed; [exact Hacc|discriminate|].
      constructor; [|constructor]. exact Hsel.
    + destruct (rs_find_fragment d n) as [[cond fsels]|] eqn:Ef; [|eapply IH; eauto].
      destruct (rs_tc_matches s cond T); [|eapply IH; eauto].
      destruct (rec (rs_under cond fsels)) as [sub|] eqn:Er; [|discriminate].
      eapply IH; [exact H|exact Hr|]. apply rs_merge_all_typed; auto.
      eapply Hrec; eauto. eapply rs_fragment_typed; eauto.
    + destruct (match cond with Some c => rs_tc_matches s c T | None => true end); [|eapply IH; eauto].
      destruct (rec (rs_under (match cond with Some c => c | None => p end) sels)) as [sub|] eqn:Er; [|discriminate].
      eapply IH; [exact H|exact Hr|]. apply rs_merge_all_typed; auto.
      eapply Hrec; eauto. cbn [rs_typed_sel] in Hsel. rewrite forallb_forall in Hsel.
      apply Forall_forall. intros [p' sel'] Hin. unfold rs_under in Hin.
      apply in_map_iff in Hin as (x & [= <- <-] & Hx). now apply Hsel.
Qed.

Lemma rs_collect_typed T fuel : forall ps g,
  rs_collect fuel s d T ps = Some g -> Forall rs_psel_typed ps -> RsGroupsTyped g.
Proof.
  induction fuel as [|fuel IH]; intros ps g H Hps; cbn [rs_collect] in H; [discriminate|].
  eapply rs_collect_go_typed; eauto. intros k fs [].
Qed.

(* ------------------------------------------------------------------ generation *)

Definition RsSelsetSafe (selset : str -> rs_psels -> rs_m rs_json) : Prop :=
  forall ty ps st, rs_composite_type s ty = true -> Forall rs_psel_typed ps -> RsSafe (selset ty ps st).

Lemma rs_arbitrary_len_safe : RsSafeM (rs_arbitrary_len cfg).
Proof.
  unfold rs_arbitrary_len. apply rs_gen_range_safe. unfold rs_cfg_ok in Hcfg.
  apply andb_true_iff in Hcfg as [H _]. lia.
Qed.

Lemma rs_should_be_null_safe : RsSafeM (rs_should_be_null cfg).
Proof.
  intros st. unfold rs_should_be_null. unfold rs_cfg_ok in Hcfg. apply andb_true_iff in Hcfg as [_ H].
  destruct (rc_null cfg) as [[n den]|]; [|exact I]. apply rs_ratio_safe. lia.
Qed.

Lemma rs_value_of_type_safe selset (Hsel : RsSelsetSafe selset) : forall t sub,
  match sub with
  | Some (sty, mp) => rs_composite_type s sty = true /\ Forall rs_psel_typed mp
  | None => rs_leaf_type s (inner_named_type t) = true
  end ->
  RsSafeM (rs_value_of_type selset cfg s t sub).
Proof.
  induction t as [n|n|it IH|it IH]; intros sub Hsub st; cbn [rs_value_of_type].
  - destruct sub as [[sty mp]|]; [now apply Hsel|now apply rs_leaf_field_safe].
  - destruct sub as [[sty mp]|]; [now apply Hsel|now apply rs_leaf_field_safe].
  - apply rs_safe_bind; [apply rs_arbitrary_len_safe|]. intros len st' _.
    apply rs_safe_bind; [|intros; apply rs_safe_ret]. apply rs_repeat_safe. now apply IH.
  - apply rs_safe_bind; [apply rs_arbitrary_len_safe|]. intros len st' _.
    apply rs_safe_bind; [|intros; apply rs_safe_ret]. apply rs_repeat_safe. now apply IH.
Qed.

(* a well-typed field: its type, and what the typing says about its sub-selections *)
Lemma rs_cfield_typed_inv f :
  rs_cfield_typed f -> streq (rcf_name f) rs_typename = false ->
  exists t, rs_cfield_ty s f = Some t /\
    match rcf_sels f with
    | [] => rs_leaf_type s (inner_named_type t) = true
    | _ => rs_composite_type s (inner_named_type t) = true /\
           Forall rs_psel_typed (rs_under (inner_named_type t) (rcf_sels f))
    end.
Proof.
  unfold rs_cfield_typed, rs_cfield_ty. cbn [rs_typed_sel]. intros H Hn. rewrite Hn in *.
  destruct (rs_field_ty s (rcf_parent f) (rcf_name f)) as [t|]; [|discriminate]. exists t. split; auto.
  destruct (rcf_sels f) as [|x l]; [exact H|]. apply andb_true_iff in H as [Hc Hall]. split; auto.
  rewrite forallb_forall in Hall. apply Forall_forall. intros [p sel] Hin. unfold rs_under in Hin.
  apply in_map_iff in Hin as (y & [= <- <-] & Hy). now apply Hall.
Qed.

Lemma rs_merged_selections_typed : forall fs,
  Forall rs_cfield_typed fs ->
  exists mp, rs_merged_selections s fs = Some mp /\ Forall rs_psel_typed mp.
Proof.
  induction fs as [|f fs IH]; intros H; cbn [rs_merged_selections]; [exists []; split; auto|].
  inversion H as [|? ? Hf Hr]; subst. destruct (IH Hr) as (rest & -> & Hrest).
  destruct (streq (rcf_name f) rs_typename) eqn:Etn.
  - unfold rs_cfield_ty. rewrite Etn. eexists. split; [reflexivity|]. apply Forall_app. split; auto.
    unfold rs_cfield_typed in Hf. cbn [rs_typed_sel] in Hf. rewrite Etn in Hf.
    destruct (rcf_sels f); [constructor|discriminate].
  - destruct (rs_cfield_typed_inv f Hf Etn) as (t & -> & Ht). eexists. split; [reflexivity|].
    apply Forall_app. split; auto. destruct (rcf_sels f); [constructor|apply Ht].
Qed.

Lemma rs_gen_fields_safe selset (Hsel : RsSelsetSafe selset) T : forall groups,
  RsGroupsTyped groups -> RsSafeM (rs_gen_fields selset cfg s T groups).
Proof.
  induction groups as [|[key fields] r IH]; intros Hg st; cbn [rs_gen_fields]; [exact I|].
  destruct (Hg key fields (or_introl eq_refl)) as [Hne Hall].
  destruct fields as [|meta more]; [contradiction|].
  assert (Hr : RsGroupsTyped r) by (intros a b Hab; apply (Hg a b); now right).
  apply rs_safe_bind.
  2:{ intros v st' _. apply rs_safe_bind; [now apply IH|]. intros; apply rs_safe_ret. }
  inversion Hall as [|? ? Hmeta _]; subst.
  destruct (streq (rcf_name meta) rs_typename) eqn:Etn; [exact I|].
  destruct (rs_cfield_typed_inv meta Hmeta Etn) as (mty & -> & Hm).
  apply rs_safe_bind.
  { destruct (is_non_null mty); [exact I|apply rs_should_be_null_safe]. }
  intros nul st' _. destruct nul; [exact I|].
  unfold rs_generate_field_value. destruct (rcf_sels meta) as [|x l] eqn:Es.
  - apply rs_value_of_type_safe; auto.
  - destruct (rs_merged_selections_typed _ Hall) as (mp & -> & Hmp).
    apply rs_value_of_type_safe; auto. split; [apply Hm|exact Hmp].
Qed.

Theorem rs_selset_safe fuel : RsSelsetSafe (rs_selset fuel cfg s d).
Proof.
  induction fuel as [|fuel IH]; intros ty ps st Hc Hps; cbn [rs_selset]; [exact I|].
  apply rs_safe_bind; [now apply rs_concrete_type_safe|]. intros T st' _.
  destruct (rs_collect fuel s d T ps) as [groups|] eqn:Ec; [|exact I].
  assert (Hreg : rs_registered ty = None).
  { unfold rs_composite_type in Hc. apply andb_true_iff in Hc as [_ Hc]. destruct (rs_registered ty); [discriminate|auto]. }
  rewrite Hreg. apply rs_safe_bind; [|intros; apply rs_safe_ret].
  apply rs_gen_fields_safe; auto. eapply rs_collect_typed; eauto.
Qed.

End Safe.

(* build_data: well-typed operation over a composite root type *)
Theorem rs_build_data_safe fuel cfg s d opname stream :
  rs_cfg_ok cfg = true -> rs_typed_fragments s d = true ->
  (forall o n sels, rs_find_operation d opname = Some (o, n, sels) ->
     exists root, rs_root_type s o = Some root /\ rs_composite_type s root = true /\
                  forallb (rs_typed_sel s root) sels = true) ->
  RsSafe (rs_build_data fuel cfg s d opname stream).
Proof.
  intros Hcfg Hfr Hop. unfold rs_build_data. destruct (rs_find_operation d opname) as [[[o n] sels]|] eqn:E; [|exact I].
  destruct (Hop o n sels eq_refl) as (root & -> & Hc & Hs).
  apply rs_selset_safe; auto. rewrite forallb_forall in Hs. apply Forall_forall. intros [p sel] Hin.
  unfold rs_under in Hin. apply in_map_iff in Hin as (x & [= <- <-] & Hx). now apply Hs.
Qed.

Theorem rs_no_panic fuel cfg s d opname stream :
  rs_cfg_ok cfg = true -> rs_typed_operation s d opname = true ->
  RsSafe (rs_build_data fuel cfg s d opname stream).
Proof.
  intros Hcfg H. unfold rs_typed_operation in H. apply andb_true_iff in H as [Hfr Hop].
  apply rs_build_data_safe; auto. intros o n sels E. rewrite E in Hop.
  destruct (rs_root_type s o) as [root|]; [|discriminate]. apply andb_true_iff in Hop as [Hc Hs]. eauto.
Qed.
