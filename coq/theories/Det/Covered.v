(* C22: one claim per generated enumeration site (Det/Sites.v), each proved over a small hand-written model
   of the code around the site (Det/HashOrder.v).  The `match` below must be exhaustive: when the scanner
   reports a new site, Sites.v gets a new constructor and this file no longer compiles. *)
From Coq Require Import Sorting.Permutation.
From ApolloVerif Require Import Base.Chars Valid.Guards Valid.SortProofs Det.HashOrder Det.Sites.

Inductive coverage_form := FormOrderIrrelevant | FormSortedAfter | FormOrderLeaks.

Definition site_form (s : site_id) : coverage_form :=
  match s with
  | site_apollo_compiler_src_validation_variable_rs_validate_unused_variables_1 => FormSortedAfter
  | site_apollo_smith_src_implements_graph_rs_topo_order_parents_first_1 => FormOrderLeaks
  end.

Definition site_claim (s : site_id) : Prop :=
  match s with
  | site_apollo_compiler_src_validation_variable_rs_validate_unused_variables_1 =>
    (* `for (unused_var, location) in unused_vars { diagnostics.push(location, UnusedVariable {..}) }`:
       the pushed diagnostics are sorted later (into_result); distinct variable definitions have distinct
       locations *)
    SortedAfter (@fst gd_key str) hv_emit /\
    forall vars used, NoDup (map snd vars) -> NoDup (map fst (hv_emit (hv_unused vars used)))
  | site_apollo_smith_src_implements_graph_rs_topo_order_parents_first_1 =>
    (* `Err(_) => self.by_name.keys().cloned().collect()`: only when the implements graph has a cycle; then the
       returned order is the hash order.  Without a cycle the site is not reached. *)
    forall (G : Type) (toposort : G -> option (list str)) (g : G),
      (forall ord, toposort g = Some ord -> OrderIrrelevant (smith_topo_order G toposort g)) /\
      (toposort g = None -> OrderLeaks (smith_topo_order G toposort g))
  end.

Theorem sites_covered : forall s, In s generated_sites -> site_claim s.
Proof.
  intros s _. destruct s; cbn [site_claim].
  - split; [apply sorted_after_map|].
    intros vars used H. unfold hv_emit. rewrite map_map. cbn [fst]. now apply hv_unused_nodup.
  - intros G toposort g. split.
    + intros ord H. eapply smith_topo_acyclic; eauto.
    + intros H. apply (smith_topo_cyclic_leaks G toposort g [97] [98] H). discriminate.
Qed.

(* every constructor of site_id is in the generated list (the scanner's output is complete w.r.t. itself) *)
Theorem generated_sites_complete : forall s, In s generated_sites.
Proof. intros s. destruct s; cbn; auto 10. Qed.
