(* C22: one claim per generated enumeration site (Det/Sites.v), each proved over a small hand-written model
   of the code around the site (Det/HashOrder.v).  The `match` below must be exhaustive: when the scanner
   reports a new site, Sites.v gets a new constructor and this file no longer compiles.
   (The former site apollo-smith/src/implements_graph.rs topo_order_parents_first `self.by_name.keys()`, whose claim
   was FormOrderLeaks, is gone with the repair of smith_implements_cycle_order: the fallback no longer enumerates
   the HashMap.  If that expression comes back, the scanner reports it and this file stops compiling.) *)
From Coq Require Import Sorting.Permutation.
From ApolloVerif Require Import Base.Chars Valid.Guards Valid.SortProofs Det.HashOrder Det.Sites.

Inductive coverage_form := FormOrderIrrelevant | FormSortedAfter | FormOrderLeaks.

Definition site_form (s : site_id) : coverage_form :=
  match s with
  | site_apollo_compiler_src_validation_variable_rs_validate_unused_variables_1 => FormSortedAfter
  end.

Definition site_claim (s : site_id) : Prop :=
  match s with
  | site_apollo_compiler_src_validation_variable_rs_validate_unused_variables_1 =>
    (* `for (unused_var, location) in unused_vars { diagnostics.push(location, UnusedVariable {..}) }`:
       the pushed diagnostics are sorted later (into_result); distinct variable definitions have distinct
       locations *)
    SortedAfter (@fst gd_key str) hv_emit /\
    forall vars used, NoDup (map snd vars) -> NoDup (map fst (hv_emit (hv_unused vars used)))
  end.

Theorem sites_covered : forall s, In s generated_sites -> site_claim s.
Proof.
  intros s _. destruct s; cbn [site_claim].
  - split; [apply sorted_after_map|].
    intros vars used H. unfold hv_emit. rewrite map_map. cbn [fst]. now apply hv_unused_nodup.
Qed.

(* every constructor of site_id is in the generated list (the scanner's output is complete w.r.t. itself) *)
Theorem generated_sites_complete : forall s, In s generated_sites.
Proof. intros s. destruct s; cbn; auto 10. Qed.
