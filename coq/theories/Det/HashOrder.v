(* C22: hash-ordered containers.

   A HashMap / HashSet (crate::collections or std, keyed by ahash / SipHash with per-process or even
   per-map random keys) is modelled as its content, a list without duplicate keys, TOGETHER WITH an
   enumeration that is a parameter: any permutation of the content.  A computation is deterministic when
   its result does not depend on that parameter.

   Three forms of lemma cover an enumeration site (Det/Covered.v):
     OrderIrrelevant consume      the enumeration is consumed by a function that gives the same result on
                                  every permutation (a commutative, idempotent fold: building another set,
                                  removing keys, counting, any/all)
     SortedAfter key              the enumeration produces diagnostics with pairwise distinct (file, offset)
                                  keys that later pass through DiagnosticList::sort, whatever was pushed
                                  before and after
     OrderLeaks consume           refutation: two enumerations of the same content give different results

   Also here: the model of validate_unused_variables (validation/variable.rs) and of
   ImplementsGraph::topo_order_parents_first (apollo-smith/src/implements_graph.rs; repaired: it no longer
   enumerates its HashMap, the code before the repair is kept as smith_topo_order_old).
   Definitions and proofs (nothing in this file is extracted). *)
From Coq Require Import Sorting.Sorted Sorting.Permutation.
From ApolloVerif Require Import Base.Chars Ast.Ast Valid.Guards Valid.SortProofs.

Definition hm_enumerates {A} (content enum : list A) : Prop := Permutation content enum.

Definition OrderIrrelevant {A R} (consume : list A -> R) : Prop :=
  forall content e1 e2, NoDup content -> hm_enumerates content e1 -> hm_enumerates content e2 ->
                        consume e1 = consume e2.

(* `pre` and `post` are the diagnostics pushed before and after the site, `emit` what the site pushes for an
   enumeration; the list is sorted afterwards (DiagnosticList::into_result / merge) *)
Definition SortedAfter {A D} (key : D -> gd_key) (emit : list A -> list D) : Prop :=
  forall content e1 e2 pre post, NoDup (map key (emit content)) ->
    hm_enumerates content e1 -> hm_enumerates content e2 ->
    gd_sort key (pre ++ emit e1 ++ post) = gd_sort key (pre ++ emit e2 ++ post).

Definition OrderLeaks {A R} (consume : list A -> R) : Prop :=
  exists content e1 e2, NoDup content /\ hm_enumerates content e1 /\ hm_enumerates content e2 /\
                        consume e1 <> consume e2.

(* ---- the sort erases the order of a segment whose keys are pairwise distinct *)

Lemma with_key_app {A} (key : A -> gd_key) k (a b : list A) :
  gd_with_key key k (a ++ b) = gd_with_key key k a ++ gd_with_key key k b.
Proof. unfold gd_with_key. apply filter_app. Qed.

Theorem sort_segment_perm_invariant {A} (key : A -> gd_key) (pre post e1 e2 : list A) :
  NoDup (map key e1) -> Permutation e1 e2 ->
  gd_sort key (pre ++ e1 ++ post) = gd_sort key (pre ++ e2 ++ post).
Proof.
  intros Hnd Hp. apply gd_sort_unique; [apply gd_sort_sorted|].
  intros k. rewrite gd_sort_stable, !with_key_app. f_equal. f_equal.
  now apply with_key_nodup_perm.
Qed.

Lemma sorted_after_map {A D} (key : D -> gd_key) (mk : A -> D) : SortedAfter key (map mk).
Proof.
  intros content e1 e2 pre post Hnd H1 H2. apply sort_segment_perm_invariant.
  - eapply Permutation_NoDup; [|exact Hnd]. apply Permutation_map, Permutation_map. exact H1.
  - apply Permutation_map. eapply perm_trans; [apply Permutation_sym; exact H1|exact H2].
Qed.

(* ------------------------------------------------------------------ validate_unused_variables

   let mut unused_vars: HashMap<_, _> = operation.variables.iter()
       .map(|var| (&var.name, SourceSpan::recompose(var.location(), var.name.location()))).collect();
   for used in ... { unused_vars.remove(used); }          // directives, then the walk callback
   if walked.is_err() { push RecursionError; return }
   for (unused_var, location) in unused_vars { diagnostics.push(location, UnusedVariable { name }) }

   A variable definition is (name, location key); `collect` keeps the last location of a repeated name. *)

Definition hv_map := list (str * gd_key).

Fixpoint hv_insert (k : str) (v : gd_key) (m : hv_map) : hv_map :=
  match m with
  | [] => [(k, v)]
  | (k', v') :: r => if streq k k' then (k', v) :: r else (k', v') :: hv_insert k v r
  end.

Definition hv_collect (vars : list (str * gd_key)) : hv_map :=
  fold_left (fun m v => hv_insert (fst v) (snd v) m) vars [].

Definition hv_remove (k : str) (m : hv_map) : hv_map := filter (fun e => negb (streq (fst e) k)) m.

Definition hv_unused (vars : list (str * gd_key)) (used : list str) : hv_map :=
  fold_left (fun m u => hv_remove u m) used (hv_collect vars).

(* a diagnostic: location key and the variable name it reports *)
Definition hv_diag := (gd_key * str)%type.
Definition hv_emit (enum : hv_map) : list hv_diag := map (fun e => (snd e, fst e)) enum.

Lemma hv_insert_values k v m x : In x (map snd (hv_insert k v m)) -> x = v \/ In x (map snd m).
Proof.
  induction m as [|[k' v'] r IH]; cbn [hv_insert map snd In]; [intuition|].
  destruct (streq k k'); cbn [map snd In]; intuition.
Qed.

Lemma hv_insert_nodup k v m : NoDup (map snd m) -> ~ In v (map snd m) -> NoDup (map snd (hv_insert k v m)).
Proof.
  induction m as [|[k' v'] r IH]; cbn [hv_insert map snd]; intros Hnd Hni.
  - constructor; [intros []|constructor].
  - inversion Hnd as [|? ? Hn1 Hn2]; subst. cbn [In] in Hni.
    destruct (streq k k'); cbn [map snd].
    + constructor; [intuition|exact Hn2].
    + constructor.
      * intros Hin. apply hv_insert_values in Hin. destruct Hin as [->|Hin]; intuition.
      * apply IH; intuition.
Qed.

Lemma hv_collect_nodup_gen vars : forall m,
  NoDup (map snd m) -> NoDup (map snd vars) ->
  (forall x, In x (map snd m) -> In x (map snd vars) -> False) ->
  let r := fold_left (fun m v => hv_insert (fst v) (snd v) m) vars m in
  NoDup (map snd r) /\ forall x, In x (map snd r) -> In x (map snd m) \/ In x (map snd vars).
Proof.
  induction vars as [|[k v] vars IH]; intros m Hm Hv Hdis; cbn [fold_left map snd fst].
  - split; [exact Hm|auto].
  - cbn [map snd] in Hv, Hdis. inversion Hv as [|? ? Hv1 Hv2]; subst.
    assert (Hni : ~ In v (map snd m)) by (intros Hin; apply (Hdis v Hin); now left).
    destruct (IH (hv_insert k v m)) as [A B].
    + now apply hv_insert_nodup.
    + exact Hv2.
    + intros x Hx Hx'. apply hv_insert_values in Hx. destruct Hx as [->|Hx]; [contradiction|].
      apply (Hdis x Hx). now right.
    + split; [exact A|]. intros x Hx. destruct (B x Hx) as [Hx'|Hx'].
      * apply hv_insert_values in Hx'. destruct Hx' as [->|Hx']; [right; now left|now left].
      * right. now right.
Qed.

Lemma hv_collect_nodup vars : NoDup (map snd vars) -> NoDup (map snd (hv_collect vars)).
Proof.
  intros H. unfold hv_collect. apply (hv_collect_nodup_gen vars []); [constructor|exact H|intros x []].
Qed.

Lemma nodup_map_filter {A B} (f : A -> B) (p : A -> bool) l : NoDup (map f l) -> NoDup (map f (filter p l)).
Proof.
  induction l as [|x l IH]; cbn [map filter]; [auto|]. intros H. inversion H as [|? ? H1 H2]; subst.
  destruct (p x); cbn [map]; [|now apply IH]. constructor; [|now apply IH].
  intros Hin. apply H1. apply in_map_iff in Hin. destruct Hin as (y & Ey & Hy).
  apply filter_In in Hy. apply in_map_iff. exists y. split; [exact Ey|apply Hy].
Qed.

Lemma hv_unused_nodup vars used : NoDup (map snd vars) -> NoDup (map snd (hv_unused vars used)).
Proof.
  intros H. unfold hv_unused. generalize (hv_collect_nodup vars H). generalize (hv_collect vars).
  induction used as [|u used IH]; intros m Hm; cbn [fold_left]; [exact Hm|].
  apply IH. unfold hv_remove. now apply nodup_map_filter.
Qed.

(* The diagnostics of validate_unused_variables after the final sort do not depend on the enumeration of
   `unused_vars`, provided distinct variable definitions have distinct locations (they do whenever the
   document comes from text: the location starts at the `$` of the definition). *)
Theorem unused_vars_sorted vars used pre post e1 e2 :
  NoDup (map snd vars) ->
  hm_enumerates (hv_unused vars used) e1 -> hm_enumerates (hv_unused vars used) e2 ->
  gd_sort fst (pre ++ hv_emit e1 ++ post) = gd_sort fst (pre ++ hv_emit e2 ++ post).
Proof.
  intros Hnd H1 H2. apply (sorted_after_map (@fst gd_key str) (fun e : str * gd_key => (snd e, fst e)))
    with (content := hv_unused vars used); auto.
  rewrite map_map. cbn [fst]. now apply hv_unused_nodup.
Qed.

(* without locations (a document built by hand, not from text) every key is None and the order leaks *)
Theorem unused_vars_without_locations_leak :
  exists vars e1 e2, hm_enumerates (hv_unused vars []) e1 /\ hm_enumerates (hv_unused vars []) e2 /\
    gd_sort fst (hv_emit e1) <> gd_sort fst (hv_emit e2).
Proof.
  exists [([97], None); ([98], None)], [([97], None); ([98], None)], [([98], None); ([97], None)].
  split; [apply Permutation_refl|split; [apply perm_swap|]]. vm_compute. discriminate.
Qed.

(* ------------------------------------------------------------------ ImplementsGraph::topo_order_parents_first

   struct ImplementsGraph { graph: DiGraph<Name, ()>, by_name: HashMap<Name, NodeIndex> }

   match toposort(&Reversed(&self.graph), None) {
       Ok(order) => order.into_iter().map(|idx| self.graph[idx].clone()).collect(),
       Err(_) => self.graph.node_weights().cloned().collect(),
   }
   petgraph's toposort is a function of the graph (nodes and edges in insertion order): Some order, or None
   when there is a cycle.  `node_weights` walks the node vector of the graph in index order (nodes are only ever
   appended by node_for, so this is the insertion order the doc comment promises): a function of the graph too.
   The HashMap `by_name` is still a field (look-ups only); its enumeration stays a parameter of the model so that
   the theorem says what the property asks: the result does not depend on it.

   Before the repair (finding smith_implements_cycle_order) the fallback was
       Err(_) => self.by_name.keys().cloned().collect(),      // the former site
   i.e. the names in the enumeration order of the HashMap: smith_topo_order_old, kept with its refutation. *)

Section Topo.
  Variable G : Type.
  Variable toposort : G -> option (list str).
  Variable node_weights : G -> list str.

  Definition smith_topo_order (g : G) (keys_enum : list str) : list str :=
    match toposort g with
    | Some order => order
    | None => node_weights g
    end.

  (* whatever the graph (cyclic or not), the order is a function of the graph alone *)
  Lemma smith_topo_order_graph_only g keys_enum keys_enum' :
    smith_topo_order g keys_enum = smith_topo_order g keys_enum'.
  Proof. reflexivity. Qed.

  Lemma smith_topo_order_irrelevant g : OrderIrrelevant (smith_topo_order g).
  Proof. intros content e1 e2 _ _ _. apply smith_topo_order_graph_only. Qed.

  (* on a cycle the result is the insertion order of the nodes *)
  Lemma smith_topo_cyclic_insertion_order g keys_enum : toposort g = None ->
    smith_topo_order g keys_enum = node_weights g.
  Proof. intros H. unfold smith_topo_order. now rewrite H. Qed.

  (* ---- the code before the repair *)
  Definition smith_topo_order_old (g : G) (keys_enum : list str) : list str :=
    match toposort g with
    | Some order => order
    | None => keys_enum
    end.

  Lemma smith_topo_old_acyclic g (ord : list str) : toposort g = Some ord ->
    OrderIrrelevant (smith_topo_order_old g).
  Proof. intros H content e1 e2 _ _ _. unfold smith_topo_order_old. now rewrite H. Qed.

  Lemma smith_topo_old_cyclic_leaks g (a b : str) : toposort g = None -> a <> b ->
    OrderLeaks (smith_topo_order_old g).
  Proof.
    intros H Hab. exists [a; b], [a; b], [b; a]. repeat split.
    - constructor; [intros [E|[]]; congruence|constructor; [intros []|constructor]].
    - apply Permutation_refl.
    - apply perm_swap.
    - unfold smith_topo_order_old. rewrite H. intros E. injection E as E _. congruence.
  Qed.

  (* the two agree exactly when there is no cycle, or when the HashMap happens to enumerate in insertion order *)
  Lemma smith_topo_old_new_agree_acyclic g ord keys_enum : toposort g = Some ord ->
    smith_topo_order_old g keys_enum = smith_topo_order g keys_enum.
  Proof. intros H. unfold smith_topo_order_old, smith_topo_order. now rewrite H. Qed.
End Topo.

Lemma smith_topo_order_both (G : Type) (toposort : G -> option (list str)) (node_weights : G -> list str) (g : G) :
  OrderIrrelevant (smith_topo_order G toposort node_weights g) /\
  (toposort g = None -> forall keys_enum, smith_topo_order G toposort node_weights g keys_enum = node_weights g).
Proof.
  split; [apply smith_topo_order_irrelevant|]. intros H keys_enum. now apply smith_topo_cyclic_insertion_order.
Qed.

Lemma smith_topo_old_both (G : Type) (toposort : G -> option (list str)) (g : G) :
  (forall ord, toposort g = Some ord -> OrderIrrelevant (smith_topo_order_old G toposort g)) /\
  (toposort g = None -> OrderLeaks (smith_topo_order_old G toposort g)).
Proof.
  split.
  - intros ord H. eapply smith_topo_old_acyclic; eauto.
  - intros H. apply (smith_topo_old_cyclic_leaks G toposort g [97] [98] H). discriminate.
Qed.
