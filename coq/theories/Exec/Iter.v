(* SelectionSet::root_fields / all_fields of crates/apollo-compiler/src/executable/mod.rs as the stack
   machines they are, and the declarative walk they are meant to compute.  Definitions only. Prefix xi_/Xi. *)
From ApolloVerif Require Import Base.Chars Ast.Ast Exec.Doc.

(* ---------------------------------------------------------------- the stack machine *)

(* `stack: Vec<slice::Iter<Selection>>` (top = head of the list; an iterator is its remaining slice) and
   `fragments_seen: HashSet<&Name>`. *)
Record xi_state := { xi_stack : list (list xsel); xi_seen : list str }.

Inductive xi_step_res :=
| XiYield (f : xsel) (st : xi_state)     (* `return Some(field)` *)
| XiContinue (st : xi_state)             (* next turn of the `while let` loop *)
| XiDone.                                (* the stack is empty: `None` *)

(* one turn of `while let Some(selection_set_iter) = stack.last_mut()`.
   all = false: root_fields;  all = true: all_fields *)
Definition xi_step (all : bool) (frags : list (str * xfrag)) (st : xi_state) : xi_step_res :=
  match xi_stack st with
  | [] => XiDone
  | [] :: rest =>                                           (* None => stack.pop() *)
      XiContinue {| xi_stack := rest; xi_seen := xi_seen st |}
  | (x :: it) :: rest =>
      match x with
      | XsField _ _ _ _ _ _ sub =>
          let stack' :=
            if all then (match sub with [] => it :: rest | _ => sub :: it :: rest end)
            else it :: rest in
          XiYield x {| xi_stack := stack'; xi_seen := xi_seen st |}
      | XsInline _ _ _ sub =>
          XiContinue {| xi_stack := sub :: it :: rest; xi_seen := xi_seen st |}
      | XsSpread name _ =>
          match xd_assoc name frags with
          | Some def =>
              if xd_mem name (xi_seen st)                    (* insert returned false *)
              then XiContinue {| xi_stack := it :: rest; xi_seen := xi_seen st |}
              else XiContinue {| xi_stack := xf_sels def :: it :: rest; xi_seen := name :: xi_seen st |}
          | None => XiContinue {| xi_stack := it :: rest; xi_seen := xi_seen st |}
          end
      end
  end.

(* Draining the iterator: every item yielded until `None`.  Fuel counts loop turns; None = out of fuel. *)
Fixpoint xi_run (fuel : nat) (all : bool) (frags : list (str * xfrag)) (st : xi_state)
  : option (list xsel) :=
  match fuel with
  | O => None
  | S fuel' =>
      match xi_step all frags st with
      | XiDone => Some []
      | XiContinue st' => xi_run fuel' all frags st'
      | XiYield f st' =>
          match xi_run fuel' all frags st' with
          | Some l => Some (f :: l)
          | None => None
          end
      end
  end.

(* an upper bound on the number of loop turns, whatever the document (cyclic spreads included):
   every selection node of the start list and of each fragment definition is consumed at most once,
   and every push is popped once *)
Definition xi_fuel (frags : list (str * xfrag)) (sels : list xsel) : nat :=
  (2 * (xs_size sels + fold_right (fun f n => S (xs_size (xf_sels (snd f)) + n)) 0 frags) + 2)%nat.

Definition xi_iter (all : bool) (d : xdoc) (sels : list xsel) : option (list xsel) :=
  xi_run (xi_fuel (xd_frags d) sels) all (xd_frags d)
         {| xi_stack := [sels]; xi_seen := [] |}.

(* Operation::root_fields / all_fields *)
Definition xi_root_fields (d : xdoc) (op : xop) : option (list xsel) := xi_iter false d (xo_sels op).
Definition xi_all_fields (d : xdoc) (op : xop) : option (list xsel) := xi_iter true d (xo_sels op).

(* ---------------------------------------------------------------- the declarative walk *)

(* Pre-order walk of a selection list that enters a named fragment at its first spread only and skips
   undefined fragments.  `seen` is threaded left to right.  all = false stops at fields. *)
Inductive XiDfs (all : bool) (frags : list (str * xfrag))
  : list str -> list xsel -> list xsel -> list str -> Prop :=
| XiDfs_nil seen : XiDfs all frags seen [] [] seen
| XiDfs_field seen seen1 seen2 def alias name args dirs ty sub r a b :
    XiDfs all frags seen (if all then sub else []) a seen1 ->
    XiDfs all frags seen1 r b seen2 ->
    XiDfs all frags seen (XsField def alias name args dirs ty sub :: r)
          (XsField def alias name args dirs ty sub :: a ++ b) seen2
| XiDfs_inline seen seen1 seen2 cond dirs ty sub r a b :
    XiDfs all frags seen sub a seen1 ->
    XiDfs all frags seen1 r b seen2 ->
    XiDfs all frags seen (XsInline cond dirs ty sub :: r) (a ++ b) seen2
| XiDfs_spread_undefined seen seen2 name dirs r b :
    xd_assoc name frags = None ->
    XiDfs all frags seen r b seen2 ->
    XiDfs all frags seen (XsSpread name dirs :: r) b seen2
| XiDfs_spread_again seen seen2 name dirs def r b :
    xd_assoc name frags = Some def -> xd_mem name seen = true ->
    XiDfs all frags seen r b seen2 ->
    XiDfs all frags seen (XsSpread name dirs :: r) b seen2
| XiDfs_spread_first seen seen1 seen2 name dirs def r a b :
    xd_assoc name frags = Some def -> xd_mem name seen = false ->
    XiDfs all frags (name :: seen) (xf_sels def) a seen1 ->
    XiDfs all frags seen1 r b seen2 ->
    XiDfs all frags seen (XsSpread name dirs :: r) (a ++ b) seen2.

(* The same walk as a function.  `n` bounds the number of fragments that may still be entered
   (each name is entered at most once, so length frags is enough); the inner recursion is structural.
   The third component is false iff n ran out (excluded by a theorem for n >= length frags). *)
Definition xi_res := (list xsel * list str * bool)%type.

Section XiDfsList.
  Context (f : list str -> xsel -> xi_res).
  Fixpoint xi_dfs_list (seen : list str) (l : list xsel) : xi_res :=
    match l with
    | [] => ([], seen, true)
    | x :: r =>
        let '(a, seen1, ok1) := f seen x in
        let '(b, seen2, ok2) := xi_dfs_list seen1 r in
        (a ++ b, seen2, ok1 && ok2)
    end.
End XiDfsList.

Fixpoint xi_dfs_sel (all : bool) (frags : list (str * xfrag))
    (enter : list str -> list xsel -> xi_res)       (* walk of a fragment body, with one entry fewer *)
    (seen : list str) (x : xsel) {struct x} : xi_res :=
  match x with
  | XsField _ _ _ _ _ _ sub =>
      let '(a, seen1, ok) :=
        if all then xi_dfs_list (xi_dfs_sel all frags enter) seen sub else ([], seen, true) in
      (x :: a, seen1, ok)
  | XsInline _ _ _ sub => xi_dfs_list (xi_dfs_sel all frags enter) seen sub
  | XsSpread name _ =>
      match xd_assoc name frags with
      | None => ([], seen, true)
      | Some def =>
          if xd_mem name seen then ([], seen, true)
          else enter (name :: seen) (xf_sels def)
      end
  end.

Fixpoint xi_dfs (n : nat) (all : bool) (frags : list (str * xfrag)) (seen : list str) (l : list xsel)
  : xi_res :=
  match n with
  | O => xi_dfs_list (xi_dfs_sel all frags (fun seen _ => ([], seen, false))) seen l
  | S n' => xi_dfs_list (xi_dfs_sel all frags (xi_dfs n' all frags)) seen l
  end.

(* dfs_fields_once *)
Definition xi_dfs_fields_once (all : bool) (d : xdoc) (sels : list xsel) : option (list xsel) :=
  match xi_dfs (length (xd_frags d)) all (xd_frags d) [] sels with
  | (l, _, true) => Some l
  | (_, _, false) => None
  end.
