(* Proofs about Exec/Standalone.v:
   (E) the standalone rules do not depend on `definition` / `ty`: they give the same verdict on the
       erased document;
   (S) on a closed schema, if building against the schema records no error, building without a schema
       records none either and gives the same document up to erasure;
   (F) the fuel of the selection-set walk is always enough. *)
From ApolloVerif Require Import Base.Chars Ast.Ast Schema.Model Exec.Doc Exec.FromAst Exec.Standalone
  Exec.FromAstProofs Exec.IterProofs Exec.ToAstProofs.

(* ---------------------------------------------------------------- erasure *)

Fixpoint xe_sel (x : xsel) : xsel :=
  match x with
  | XsField _ alias name args dirs _ sub =>
      XsField (xd_unknown_def name) alias name args dirs [] (map xe_sel sub)
  | XsSpread n d => XsSpread n d
  | XsInline c d _ sub => XsInline c d [] (map xe_sel sub)
  end.

Definition xe_frag (f : xfrag) : xfrag :=
  {| xf_name := xf_name f; xf_dirs := xf_dirs f; xf_ty := []; xf_sels := map xe_sel (xf_sels f) |}.

Definition xe_op (o : xop) : xop :=
  {| xo_type := xo_type o; xo_name := xo_name o; xo_vars := xo_vars o; xo_dirs := xo_dirs o;
     xo_ty := []; xo_sels := map xe_sel (xo_sels o) |}.

Definition xe_frags (frags : list (str * xfrag)) : list (str * xfrag) :=
  map (fun kv => (fst kv, xe_frag (snd kv))) frags.

Definition xe_doc (d : xdoc) : xdoc :=
  {| xd_anon := option_map xe_op (xd_anon d);
     xd_named := map (fun kv => (fst kv, xe_op (snd kv))) (xd_named d);
     xd_frags := xe_frags (xd_frags d) |}.

Lemma xe_assoc n frags : xd_assoc n (xe_frags frags) = option_map xe_frag (xd_assoc n frags).
Proof.
  induction frags as [|[k f] r IH]; cbn [xe_frags map xd_assoc fst snd option_map]; [reflexivity|].
  destruct (streq n k); [reflexivity|exact IH].
Qed.

Lemma xe_sel_dirs x : xv_sel_dirs (xe_sel x) = xv_sel_dirs x.
Proof. destruct x; reflexivity. Qed.

Lemma xe_ops d : xd_ops (xe_doc d) = map xe_op (xd_ops d).
Proof.
  unfold xd_ops, xe_doc. cbn [xd_anon xd_named]. rewrite map_app, !map_map. cbn [snd].
  destruct (xd_anon d); reflexivity.
Qed.

Lemma forallb_map {A B} (f : B -> bool) (g : A -> B) l : forallb f (map g l) = forallb (fun x => f (g x)) l.
Proof. induction l as [|x r IH]; cbn [map forallb]; [reflexivity|now rewrite IH]. Qed.

Lemma forallb_ext' {A} (f g : A -> bool) l : (forall x, f x = g x) -> forallb f l = forallb g l.
Proof. intros H. induction l as [|x r IH]; cbn [forallb]; [reflexivity|now rewrite H, IH]. Qed.

Lemma flat_map_map {A B C} (f : B -> list C) (g : A -> B) l :
  flat_map f (map g l) = flat_map (fun x => f (g x)) l.
Proof. induction l as [|x r IH]; cbn [map flat_map]; [reflexivity|now rewrite IH]. Qed.

Lemma flat_map_ext' {A B} (f g : A -> list B) l : (forall x, f x = g x) -> flat_map f l = flat_map g l.
Proof. intros H. induction l as [|x r IH]; cbn [flat_map]; [reflexivity|now rewrite H, IH]. Qed.

(* ---------------------------------------------------------------- (E) walk_selections_with_deduped_fragments *)

Definition xe_wres (r : option (list xsel * list str)) : option (list xsel * list str) :=
  match r with Some (v, s) => Some (map xe_sel v, s) | None => None end.

Lemma xv_walk_list_erase step step' :
  (forall seen x, step' seen (xe_sel x) = xe_wres (step seen x)) ->
  forall l seen, xv_walk_list step' seen (map xe_sel l) = xe_wres (xv_walk_list step seen l).
Proof.
  intros Hs. induction l as [|x r IH]; intros seen; cbn [map xv_walk_list]; [reflexivity|].
  rewrite Hs. destruct (step seen x) as [[a seen1]|]; cbn [xe_wres]; [|reflexivity].
  rewrite IH. destruct (xv_walk_list step seen1 r) as [[b seen2]|]; cbn [xe_wres]; [|reflexivity].
  cbn [map]. now rewrite map_app.
Qed.

Lemma xv_walk_step_erase frags rec rec' :
  (forall seen l, rec' seen (map xe_sel l) = xe_wres (rec seen l)) ->
  forall seen x, xv_walk_step (xe_frags frags) rec' seen (xe_sel x) = xe_wres (xv_walk_step frags rec seen x).
Proof.
  intros Hr seen x. destruct x as [df al nm ar di ty sub|nm di|co di ty sub]; cbn [xe_sel xv_walk_step].
  - apply Hr.
  - destruct (xd_mem nm seen); [reflexivity|]. rewrite xe_assoc.
    destruct (xd_assoc nm frags) as [def|]; cbn [option_map]; [|reflexivity].
    cbn [xe_frag xf_sels]. apply Hr.
  - apply Hr.
Qed.

Lemma xv_walk_erase b frags : forall seen l,
  xv_walk b (xe_frags frags) seen (map xe_sel l) = xe_wres (xv_walk b frags seen l).
Proof.
  induction b as [|b IH]; intros seen l; cbn [xv_walk];
    apply xv_walk_list_erase; apply xv_walk_step_erase; intros s l'; [reflexivity|apply IH].
Qed.

Lemma xv_used_by_erase frags x : xv_used_by (xe_frags frags) (xe_sel x) = xv_used_by frags x.
Proof.
  destruct x as [df al nm ar di ty sub|nm di|co di ty sub]; cbn [xe_sel xv_used_by]; try reflexivity.
  rewrite xe_assoc. destruct (xd_assoc nm frags); reflexivity.
Qed.

Lemma xv_unused_variables_erase d op :
  xv_unused_variables (xe_doc d) (xe_op op) = xv_unused_variables d op.
Proof.
  unfold xv_unused_variables. cbn [xe_doc xd_frags xe_op xo_sels xo_dirs xo_vars].
  rewrite xv_walk_erase. destruct (xv_walk _ (xd_frags d) [] (xo_sels op)) as [[v s]|]; cbn [xe_wres]; [|reflexivity].
  rewrite flat_map_map. now rewrite (flat_map_ext' _ _ v (xv_used_by_erase (xd_frags d))).
Qed.

(* ---------------------------------------------------------------- (E) fragment cycles *)

Lemma xv_cyc_list_erase f f' l :
  Forall (fun x => forall seen, f' seen (xe_sel x) = f seen x) l ->
  forall seen, xv_cyc_list f' seen (map xe_sel l) = xv_cyc_list f seen l.
Proof.
  induction 1 as [|x r Hx _ IH]; intros seen; cbn [map xv_cyc_list]; [reflexivity|].
  rewrite Hx. destruct (f seen x); auto.
Qed.

Lemma xv_cyc_sel_erase frags enter enter' :
  (forall path seen def, enter' path seen (xe_frag def) = enter path seen def) ->
  forall x path seen,
    xv_cyc_sel (xe_frags frags) enter' path seen (xe_sel x) = xv_cyc_sel frags enter path seen x.
Proof.
  intros He x.
  induction x as [df al nm ar di ty sub IH|nm di|co di ty sub IH] using xsel_ind';
    intros path seen; cbn [xe_sel xv_cyc_sel].
  - apply xv_cyc_list_erase. eapply Forall_impl; [|exact IH]. intros y Hy s. apply Hy.
  - destruct (xd_mem nm path); [reflexivity|]. destruct (xd_mem nm seen); [reflexivity|].
    rewrite xe_assoc. destruct (xd_assoc nm frags); cbn [option_map]; [apply He|reflexivity].
  - apply xv_cyc_list_erase. eapply Forall_impl; [|exact IH]. intros y Hy s. apply Hy.
Qed.

Lemma xv_cycles_erase b frags : forall path seen l,
  xv_cycles b (xe_frags frags) path seen (map xe_sel l) = xv_cycles b frags path seen l.
Proof.
  induction b as [|b IH]; intros path seen l; cbn [xv_cycles];
    apply xv_cyc_list_erase; apply Forall_forall; intros x _ s;
    apply xv_cyc_sel_erase; intros p s' def; [reflexivity|].
  cbn [xe_frag xf_name xf_sels]. apply IH.
Qed.

Lemma xv_fragment_cycles_erase d f : xv_fragment_cycles (xe_doc d) (xe_frag f) = xv_fragment_cycles d f.
Proof.
  unfold xv_fragment_cycles. cbn [xe_doc xd_frags xe_frag xf_name xf_sels]. now rewrite xv_cycles_erase.
Qed.

(* ---------------------------------------------------------------- (E) validate_selection_set *)

Lemma xv_sel_list_erase f f' l :
  Forall (fun x => forall v, f' v (xe_sel x) = f v x) l ->
  forall v, xv_sel_list f' v (map xe_sel l) = xv_sel_list f v l.
Proof.
  induction 1 as [|x r Hx _ IH]; intros v; cbn [map xv_sel_list]; [reflexivity|].
  rewrite Hx. destruct (f v x) as [[ok1 v1] fu1]. now rewrite IH.
Qed.

Lemma xv_sel_erase frags enter enter' :
  (forall v def, enter' v (xe_frag def) = enter v def) ->
  forall x v, xv_sel (xe_frags frags) enter' v (xe_sel x) = xv_sel frags enter v x.
Proof.
  intros He x.
  induction x as [df al nm ar di ty sub IH|nm di|co di ty sub IH] using xsel_ind';
    intros v; cbn [xe_sel xv_sel].
  - rewrite (xv_sel_list_erase (xv_sel frags enter) _ sub); [reflexivity|].
    eapply Forall_impl; [|exact IH]. intros y Hy s. apply Hy.
  - rewrite xe_assoc. destruct (xd_assoc nm frags) as [def|]; cbn [option_map]; [|reflexivity].
    destruct (xd_mem nm v); [reflexivity|]. now rewrite He.
  - rewrite (xv_sel_list_erase (xv_sel frags enter) _ sub); [reflexivity|].
    eapply Forall_impl; [|exact IH]. intros y Hy s. apply Hy.
Qed.

Lemma xv_selection_set_erase n d : forall v l,
  xv_selection_set n (xe_doc d) v (map xe_sel l) = xv_selection_set n d v l.
Proof.
  induction n as [|n IH]; intros v l; cbn [xv_selection_set];
    apply xv_sel_list_erase; apply Forall_forall; intros x _ v';
    apply (xv_sel_erase (xd_frags d)); intros v'' def;
    rewrite xv_fragment_cycles_erase; cbn [xe_frag xf_dirs xf_sels]; [reflexivity|].
  now rewrite IH.
Qed.

Lemma xe_frags_length frags : length (xe_frags frags) = length frags.
Proof. apply map_length. Qed.

Lemma xv_operation_erase d op : xv_operation (xe_doc d) (xe_op op) = xv_operation d op.
Proof.
  unfold xv_operation. rewrite xv_unused_variables_erase.
  replace (length (xd_frags (xe_doc d))) with (length (xd_frags d)) by (symmetry; apply xe_frags_length).
  replace (xo_sels (xe_op op)) with (map xe_sel (xo_sels op)) by reflexivity.
  rewrite xv_selection_set_erase. reflexivity.
Qed.

(* ---------------------------------------------------------------- (E) fragments used *)

Lemma xv_spread_names_erase v : xv_spread_names (map xe_sel v) = xv_spread_names v.
Proof.
  unfold xv_spread_names. rewrite flat_map_map. apply flat_map_ext'. intros []; reflexivity.
Qed.

Lemma xv_collect_used_erase d ops :
  xv_collect_used (xe_doc d) (map xe_op ops) = xv_collect_used d ops.
Proof.
  induction ops as [|op r IH]; cbn [map xv_collect_used]; [reflexivity|].
  replace (xd_frags (xe_doc d)) with (xe_frags (xd_frags d)) by reflexivity.
  replace (xo_sels (xe_op op)) with (map xe_sel (xo_sels op)) by reflexivity.
  rewrite xv_walk_erase.
  destruct (xv_walk _ (xd_frags d) [] (xo_sels op)) as [[v s]|]; cbn [xe_wres]; [|reflexivity].
  rewrite IH, xv_spread_names_erase. reflexivity.
Qed.

Lemma xv_fragments_used_erase d : xv_fragments_used (xe_doc d) = xv_fragments_used d.
Proof.
  unfold xv_fragments_used. rewrite xe_ops, xv_collect_used_erase.
  destruct (xv_collect_used d (xd_ops d)) as [used|]; [|reflexivity].
  cbn [xe_doc xd_frags]. unfold xe_frags. now rewrite forallb_map.
Qed.

(* ---------------------------------------------------------------- (E) @defer *)

Lemma xv_st_list_erase {St} (step step' : St -> xsel -> St * bool) :
  (forall st x, step' st (xe_sel x) = step st x) ->
  forall l st, xv_st_list step' st (map xe_sel l) = xv_st_list step st l.
Proof.
  intros Hs. induction l as [|x r IH]; intros st; cbn [map xv_st_list]; [reflexivity|].
  rewrite Hs. destruct (step st x) as [st2 cont]. destruct cont; [apply IH|reflexivity].
Qed.

Lemma xv_walk_defers_erase b : forall st l,
  xv_walk_defers b st (map xe_sel l) = xv_walk_defers b st l.
Proof.
  induction b as [|b IH]; intros st l; cbn [xv_walk_defers]; apply xv_st_list_erase; intros st' x;
    unfold xv_walk_defers_step; rewrite xe_sel_dirs; destruct x; cbn [xe_sel]; try reflexivity; apply IH.
Qed.

Lemma xv_defer_on_root_erase b frags : forall st l,
  xv_defer_on_root b (xe_frags frags) st (map xe_sel l) = xv_defer_on_root b frags st l.
Proof.
  induction b as [|b IH]; intros st l; cbn [xv_defer_on_root]; apply xv_st_list_erase; intros [ok vis] x;
    unfold xv_defer_on_root_step; destruct x as [df al nm ar di ty sub|nm di|co di ty sub]; cbn [xe_sel];
    try reflexivity; try apply IH;
    (destruct (xd_mem nm vis); [reflexivity|]); rewrite xe_assoc;
    destruct (xd_assoc nm frags); cbn [option_map xe_frag xf_sels]; try reflexivity; apply IH.
Qed.

Lemma xv_unconditional_defer_erase b frags : forall st l,
  xv_unconditional_defer b (xe_frags frags) st (map xe_sel l) = xv_unconditional_defer b frags st l.
Proof.
  induction b as [|b IH]; intros st l; cbn [xv_unconditional_defer]; apply xv_st_list_erase; intros [ok vis] x;
    unfold xv_unconditional_defer_step; rewrite xe_sel_dirs;
    (destruct (xv_may_be_excluded (xv_sel_dirs x)); [reflexivity|]);
    destruct x as [df al nm ar di ty sub|nm di|co di ty sub]; cbn [xe_sel xv_sel_dirs];
    try reflexivity; try apply IH;
    (destruct (xd_mem nm vis); [reflexivity|]); rewrite xe_assoc;
    destruct (xd_assoc nm frags); cbn [option_map xe_frag xf_sels]; try reflexivity; apply IH.
Qed.

Lemma fold_left_map {A B C} (f : C -> B -> C) (g : A -> B) l : forall c,
  fold_left f (map g l) c = fold_left (fun c x => f c (g x)) l c.
Proof. induction l as [|x r IH]; intros c; cbn [map fold_left]; [reflexivity|apply IH]. Qed.

Lemma fold_left_ext' {A C} (f g : C -> A -> C) l : (forall c x, f c x = g c x) -> forall c,
  fold_left f l c = fold_left g l c.
Proof. intros H. induction l as [|x r IH]; intros c; cbn [fold_left]; [reflexivity|]. now rewrite H, IH. Qed.

Lemma xv_defer_labels_erase d : xv_defer_labels (xe_doc d) = xv_defer_labels d.
Proof.
  unfold xv_defer_labels. rewrite xe_ops. cbn [xe_doc xd_frags]. unfold xe_frags.
  rewrite !fold_left_map. cbn [snd xe_op xo_sels xe_frag xf_sels].
  rewrite (fold_left_ext' _ (fun st op => fst (xv_walk_defers xv_depth_limit st (xo_sels op))));
    [|intros c x; now rewrite xv_walk_defers_erase].
  rewrite (fold_left_ext' _ (fun st kv => fst (xv_walk_defers xv_depth_limit st (xf_sels (snd kv)))));
    [|intros c x; now rewrite xv_walk_defers_erase].
  reflexivity.
Qed.

Lemma xv_defer_operation_erase d op : xv_defer_operation (xe_doc d) (xe_op op) = xv_defer_operation d op.
Proof.
  unfold xv_defer_operation. cbn [xe_op xo_type xo_sels xe_doc xd_frags].
  destruct (xo_type op); rewrite ?xv_defer_on_root_erase, ?xv_unconditional_defer_erase; reflexivity.
Qed.

Lemma xv_defer_erase d : xv_defer (xe_doc d) = xv_defer d.
Proof.
  unfold xv_defer. rewrite xv_defer_labels_erase, xe_ops, forallb_map.
  now rewrite (forallb_ext' _ _ (xd_ops d) (xv_defer_operation_erase d)).
Qed.

(* (E): the standalone verdict is a function of the erased document *)
Theorem xv_standalone_valid_erase d : xv_standalone_valid (xe_doc d) = xv_standalone_valid d.
Proof.
  unfold xv_standalone_valid, xv_operation_definitions.
  rewrite xv_fragments_used_erase, xv_defer_erase, xe_ops, forallb_map.
  now rewrite (forallb_ext' _ (fun op => fst (xv_operation d op)) (xd_ops d));
    [|intros op; now rewrite xv_operation_erase].
Qed.

Corollary xv_standalone_valid_same_skeleton d d0 :
  xe_doc d0 = xe_doc d -> xv_standalone_valid d0 = xv_standalone_valid d.
Proof. intros H. now rewrite <- (xv_standalone_valid_erase d0), H, xv_standalone_valid_erase. Qed.

(* ---------------------------------------------------------------- (S) building with and without a schema *)

Lemma xb_collect_sim {A} (f f0 : A -> list xsel * list xberr) (l : list A) :
  Forall (fun x => forall out, f x = (out, []) ->
                   exists out0, f0 x = (out0, []) /\ map xe_sel out0 = map xe_sel out) l ->
  forall out, xb_collect f l = (out, []) ->
  exists out0, xb_collect f0 l = (out0, []) /\ map xe_sel out0 = map xe_sel out.
Proof.
  induction 1 as [|x r Hx _ IH]; intros out; cbn [xb_collect].
  - intros [= <-]. exists []. auto.
  - destruct (f x) as [a e1] eqn:Ef. destruct (xb_collect f r) as [b e2] eqn:Er.
    intros [= <- He]. apply app_eq_nil in He as [-> ->].
    destruct (Hx _ eq_refl) as (a0 & Ha0 & Ea). destruct (IH _ eq_refl) as (b0 & Hb0 & Eb).
    exists (a0 ++ b0). rewrite Ha0, Hb0. split; [reflexivity|]. now rewrite !map_app, Ea, Eb.
Qed.

Lemma xb_sel_sim sc (Hcl : xs_schema_closed sc) x : forall pty pty0 path out,
  sch_get_type sc pty <> None ->
  xb_sel (Some sc) pty path x = (out, []) ->
  exists out0, xb_sel None pty0 path x = (out0, []) /\ map xe_sel out0 = map xe_sel out.
Proof.
  induction x as [alias name args dirs sub IH|name dirs|cond dirs sub IH] using selection_ind';
    intros pty pty0 path out Hty; cbn [xb_sel].
  - destruct (xs_type_field sc pty name) as [fd| |tyn] eqn:Eres; try discriminate.
    + set (tn := inner_named_type (fd_ty fd)).
      assert (Htn : sch_get_type sc tn <> None) by (destruct Hcl as [_ Hf]; eapply Hf; exact Eres).
      set (tn0 := inner_named_type (fd_ty (xd_unknown_def name))).
      assert (Hpush : forall out,
        (let '(subs, es) := xb_collect (xb_sel (Some sc) tn (path ++ [xs_response_key alias name])) sub in
         ([XsField fd alias name args dirs tn subs], es)) = (out, []) ->
        exists out0,
          (let '(subs, es) := xb_collect (xb_sel None tn0 (path ++ [xs_response_key alias name])) sub in
           ([XsField (xd_unknown_def name) alias name args dirs tn0 subs], es)) = (out0, [])
          /\ map xe_sel out0 = map xe_sel out).
      { intros o. destruct (xb_collect _ sub) as [subs es] eqn:Ec. intros [= <- ->].
        destruct (xb_collect_sim (xb_sel (Some sc) tn (path ++ [xs_response_key alias name]))
                    (xb_sel None tn0 (path ++ [xs_response_key alias name])) sub) with (out := subs)
          as (subs0 & Hs0 & Es0); [|exact Ec|].
        { eapply Forall_impl; [|exact IH]. intros y Hy o' Hy'. eapply Hy; [exact Htn|exact Hy']. }
        rewrite Hs0. eexists. split; [reflexivity|]. cbn [map xe_sel]. now rewrite Es0. }
      destruct (sch_get_type sc tn) as [[| | | | |]|];
        try (apply Hpush); destruct (xb_is_nil sub); try (apply Hpush); discriminate.
    + apply xs_type_field_no_such_type in Eres. congruence.
  - intros [= <-]. eexists. split; reflexivity.
  - destruct cond as [tc|].
    + destruct (sch_get_type sc tc) as [td|] eqn:Etc; [|discriminate].
      destruct (xb_collect _ sub) as [subs es] eqn:Ec. intros [= <- ->].
      destruct (xb_collect_sim (xb_sel (Some sc) tc path) (xb_sel None tc path) sub) with (out := subs)
        as (subs0 & Hs0 & Es0); [|exact Ec|].
      { eapply Forall_impl; [|exact IH]. intros y Hy o' Hy'. eapply Hy; [|exact Hy']. congruence. }
      rewrite Hs0. eexists. split; [reflexivity|]. cbn [map xe_sel]. now rewrite Es0.
    + destruct (xb_collect _ sub) as [subs es] eqn:Ec. intros [= <- ->].
      destruct (xb_collect_sim (xb_sel (Some sc) pty path) (xb_sel None pty0 path) sub) with (out := subs)
        as (subs0 & Hs0 & Es0); [|exact Ec|].
      { eapply Forall_impl; [|exact IH]. intros y Hy o' Hy'. eapply Hy; [exact Hty|exact Hy']. }
      rewrite Hs0. eexists. split; [reflexivity|]. cbn [map xe_sel]. now rewrite Es0.
Qed.

Lemma xb_sels_sim sc (Hcl : xs_schema_closed sc) pty pty0 path l out :
  sch_get_type sc pty <> None ->
  xb_sels (Some sc) pty path l = (out, []) ->
  exists out0, xb_sels None pty0 path l = (out0, []) /\ map xe_sel out0 = map xe_sel out.
Proof.
  intros Hty. unfold xb_sels. apply xb_collect_sim. apply Forall_forall. intros x _ o.
  now apply xb_sel_sim.
Qed.

Lemma xb_operation_sim sc (Hcl : xs_schema_closed sc) o name vars dirs sels op :
  xb_operation (Some sc) o name vars dirs sels = Some (op, []) ->
  exists op0, xb_operation None o name vars dirs sels = Some (op0, []) /\ xe_op op0 = xe_op op.
Proof.
  unfold xb_operation. destruct (xs_root_operation sc o) as [ty|] eqn:Ety; [|discriminate].
  destruct (xb_sels (Some sc) ty [] sels) as [xs es] eqn:Es. intros [= <- ->].
  destruct (xb_sels_sim sc Hcl ty (xs_default_root o) [] sels xs) as (xs0 & H0 & E0); [|exact Es|].
  { destruct Hcl as [Hr _]. eapply Hr. exact Ety. }
  rewrite H0. eexists. split; [reflexivity|]. unfold xe_op. cbn [xo_type xo_name xo_vars xo_dirs xo_sels].
  now rewrite E0.
Qed.

Lemma xb_fragment_sim sc (Hcl : xs_schema_closed sc) name cond dirs sels f :
  xb_fragment (Some sc) name cond dirs sels = (Some f, []) ->
  exists f0, xb_fragment None name cond dirs sels = (Some f0, []) /\ xe_frag f0 = xe_frag f.
Proof.
  unfold xb_fragment. destruct (sch_get_type sc cond) as [td|] eqn:Ec; [|discriminate].
  destruct (xb_sels (Some sc) cond [] sels) as [xs es] eqn:Es. intros [= <- ->].
  destruct (xb_sels_sim sc Hcl cond cond [] sels xs) as (xs0 & H0 & E0); [congruence|exact Es|].
  rewrite H0. eexists. split; [reflexivity|]. unfold xe_frag. cbn [xf_name xf_dirs xf_sels]. now rewrite E0.
Qed.

Lemma xb_has_key_erase {A} (g : A -> A) k (m : list (str * A)) :
  xb_has_key k (map (fun kv => (fst kv, g (snd kv))) m) = xb_has_key k m.
Proof.
  unfold xb_has_key. induction m as [|[k' v] r IH]; cbn [map xd_assoc fst snd]; [reflexivity|].
  destruct (streq k k'); [reflexivity|exact IH].
Qed.

(* the two builders in lock step, as long as the one with the schema records no error *)
Definition xe_st_rel (st0 st : xb_state) : Prop :=
  xe_doc (xb_doc st0) = xe_doc (xb_doc st) /\ xb_errs st0 = [] /\ xb_errs st = [].

Lemma xe_doc_anon_iff d0 d : xe_doc d0 = xe_doc d ->
  (xd_anon d0 = None <-> xd_anon d = None).
Proof.
  intros H. apply (f_equal xd_anon) in H. cbn [xe_doc xd_anon] in H.
  destruct (xd_anon d0), (xd_anon d); cbn in H; split; congruence.
Qed.

Lemma xe_doc_named_key d0 d k : xe_doc d0 = xe_doc d ->
  xb_has_key k (xd_named d0) = xb_has_key k (xd_named d).
Proof.
  intros H. apply (f_equal xd_named) in H. cbn [xe_doc xd_named] in H.
  rewrite <- (xb_has_key_erase xe_op k (xd_named d0)), H. apply xb_has_key_erase.
Qed.

Lemma xe_doc_named_nil d0 d : xe_doc d0 = xe_doc d ->
  xb_is_nil (xd_named d0) = xb_is_nil (xd_named d).
Proof.
  intros H. apply (f_equal xd_named) in H. cbn [xe_doc xd_named] in H.
  destruct (xd_named d0), (xd_named d); cbn in H |- *; congruence.
Qed.

Lemma xe_doc_frags_key d0 d k : xe_doc d0 = xe_doc d ->
  xb_has_key k (xd_frags d0) = xb_has_key k (xd_frags d).
Proof.
  intros H. apply (f_equal xd_frags) in H. cbn [xe_doc xd_frags] in H. unfold xe_frags in H.
  rewrite <- (xb_has_key_erase xe_frag k (xd_frags d0)), H. apply xb_has_key_erase.
Qed.

Lemma xe_doc_eq_intro a0 n0 f0 a n f :
  option_map xe_op a0 = option_map xe_op a ->
  map (fun kv : str * xop => (fst kv, xe_op (snd kv))) n0 = map (fun kv => (fst kv, xe_op (snd kv))) n ->
  xe_frags f0 = xe_frags f ->
  xe_doc {| xd_anon := a0; xd_named := n0; xd_frags := f0 |} = xe_doc {| xd_anon := a; xd_named := n; xd_frags := f |}.
Proof. intros H1 H2 H3. unfold xe_doc. cbn [xd_anon xd_named xd_frags]. now rewrite H1, H2, H3. Qed.

Lemma xe_doc_eq_elim d0 d : xe_doc d0 = xe_doc d ->
  option_map xe_op (xd_anon d0) = option_map xe_op (xd_anon d) /\
  map (fun kv : str * xop => (fst kv, xe_op (snd kv))) (xd_named d0)
  = map (fun kv => (fst kv, xe_op (snd kv))) (xd_named d) /\
  xe_frags (xd_frags d0) = xe_frags (xd_frags d).
Proof. unfold xe_doc. intros [= H1 H2 H3]. auto. Qed.

Lemma xb_definition_sim sc (Hcl : xs_schema_closed sc) ts st0 st def :
  xe_st_rel st0 st -> xb_errs (xb_definition (Some sc) ts st def) = [] ->
  xe_st_rel (xb_definition None ts st0 def) (xb_definition (Some sc) ts st def).
Proof.
  intros (Hd & He0 & He) Hne.
  assert (Hkeep : xe_st_rel st0 st) by (repeat split; assumption).
  destruct (xe_doc_eq_elim _ _ Hd) as (Hda & Hdn & Hdf).
  destruct def; cbn [xb_definition] in Hne |- *;
    try (destruct ts; [cbn [xb_push xb_errs] in Hne; rewrite He in Hne; discriminate|exact Hkeep]).
  - destruct name as [name|].
    + rewrite (xe_doc_named_key _ _ name Hd).
      destruct (xd_anon (xb_doc st)) as [prev|] eqn:Ea.
      { exfalso. destruct (xb_has_key name (xd_named (xb_doc st)));
          [|destruct (xb_operation (Some sc) op (Some name) vars dirs sels) as [[o es]|]];
          cbn [xb_push xb_with_doc xb_errs] in Hne; rewrite He in Hne; discriminate. }
      assert (Ea0 : xd_anon (xb_doc st0) = None) by (apply (xe_doc_anon_iff _ _ Hd); exact Ea).
      rewrite Ea0.
      destruct (xb_has_key name (xd_named (xb_doc st))).
      { exfalso. cbn [xb_push xb_errs] in Hne. rewrite He in Hne. discriminate. }
      destruct (xb_operation (Some sc) op (Some name) vars dirs sels) as [[o es]|] eqn:Eo.
      2:{ exfalso. cbn [xb_push xb_errs] in Hne. rewrite He in Hne. discriminate. }
      cbn [xb_push xb_with_doc xb_errs] in Hne. rewrite He in Hne. cbn [app] in Hne. subst es.
      destruct (xb_operation_sim sc Hcl _ _ _ _ _ _ Eo) as (o0 & Ho0 & Eo0). rewrite Ho0.
      unfold xe_st_rel. cbn [xb_with_doc xb_push xb_doc xb_errs]. rewrite He0, He. repeat split.
      apply xe_doc_eq_intro; [reflexivity| |exact Hdf].
      rewrite !map_app, Hdn. cbn [map fst snd]. now rewrite Eo0.
    + rewrite (xe_doc_named_nil _ _ Hd).
      destruct (xd_anon (xb_doc st)) as [prev|] eqn:Ea.
      { exfalso. destruct (xb_multiple_anonymous st); cbn [xb_push xb_errs] in Hne;
          rewrite He in Hne; discriminate. }
      assert (Ea0 : xd_anon (xb_doc st0) = None) by (apply (xe_doc_anon_iff _ _ Hd); exact Ea).
      rewrite Ea0.
      destruct (xb_is_nil (xd_named (xb_doc st))); cbn [negb] in Hne |- *.
      2:{ exfalso. cbn [xb_push xb_errs] in Hne. rewrite He in Hne. discriminate. }
      destruct (xb_operation (Some sc) op None vars dirs sels) as [[o es]|] eqn:Eo.
      2:{ exfalso. cbn [xb_push xb_errs] in Hne. rewrite He in Hne. discriminate. }
      cbn [xb_push xb_with_doc xb_errs] in Hne. rewrite He in Hne. cbn [app] in Hne. subst es.
      destruct (xb_operation_sim sc Hcl _ _ _ _ _ _ Eo) as (o0 & Ho0 & Eo0). rewrite Ho0.
      unfold xe_st_rel. cbn [xb_with_doc xb_push xb_doc xb_errs]. rewrite He0, He. repeat split.
      apply xe_doc_eq_intro; [cbn [option_map]; now rewrite Eo0|exact Hdn|exact Hdf].
  - rewrite (xe_doc_frags_key _ _ name Hd).
    destruct (xb_has_key name (xd_frags (xb_doc st))).
    { exfalso. cbn [xb_push xb_errs] in Hne. rewrite He in Hne. discriminate. }
    destruct (xb_fragment (Some sc) name cond dirs sels) as [[f|] es] eqn:Ef.
    + cbn [xb_push xb_with_doc xb_errs] in Hne. rewrite He in Hne. cbn [app] in Hne. subst es.
      destruct (xb_fragment_sim sc Hcl _ _ _ _ _ Ef) as (f0 & Hf0 & Ef0). rewrite Hf0.
      unfold xe_st_rel. cbn [xb_with_doc xb_push xb_doc xb_errs]. rewrite He0, He. repeat split.
      apply xe_doc_eq_intro; [exact Hda|exact Hdn|].
      unfold xe_frags in *. rewrite !map_app, Hdf. cbn [map fst snd]. now rewrite Ef0.
    + exfalso. unfold xb_fragment in Ef. destruct (sch_get_type sc cond).
      * destruct (xb_sels (Some sc) cond [] sels). discriminate.
      * injection Ef as <-. cbn [xb_push xb_errs] in Hne. rewrite He in Hne. discriminate.
Qed.

Lemma xb_fold_sim sc (Hcl : xs_schema_closed sc) ts l : forall st0 st,
  xe_st_rel st0 st -> xb_errs (fold_left (xb_definition (Some sc) ts) l st) = [] ->
  xe_st_rel (fold_left (xb_definition None ts) l st0) (fold_left (xb_definition (Some sc) ts) l st).
Proof.
  induction l as [|def r IH]; intros st0 st Hrel Hne; cbn [fold_left] in *; [exact Hrel|].
  apply IH; [|exact Hne]. apply xb_definition_sim; [exact Hcl|exact Hrel|].
  destruct (xb_fold_errs (Some sc) ts r (xb_definition (Some sc) ts st def)) as [es H].
  rewrite H in Hne. now apply app_eq_nil in Hne.
Qed.

(* (S) *)
Theorem xb_document_sim sc ts a d :
  xs_schema_closed sc -> xb_document (Some sc) ts a = (d, []) ->
  exists d0, xb_document None ts a = (d0, []) /\ xe_doc d0 = xe_doc d.
Proof.
  intros Hcl. unfold xb_document. intros [= <- Hne].
  destruct (xb_fold_sim sc Hcl ts a xb_init xb_init) as (Hd & He0 & _).
  { repeat split. }
  { exact Hne. }
  eexists. split; [|exact Hd]. now rewrite He0.
Qed.

(* ---------------------------------------------------------------- (F) the fuel of validate_selection_set *)

Local Open Scope nat_scope.

Definition xv_res_ok (frags : list (str * xfrag)) (v : list str) (res : xv_res) : Prop :=
  snd res = true /\ xi_unseen frags (snd (fst res)) <= xi_unseen frags v.

Lemma xv_sel_list_fuel frags n f l :
  Forall (fun x => forall v, xi_unseen frags v <= n -> xv_res_ok frags v (f v x)) l ->
  forall v, xi_unseen frags v <= n -> xv_res_ok frags v (xv_sel_list f v l).
Proof.
  induction 1 as [|x r Hx _ IH]; intros v Hn; cbn [xv_sel_list].
  - split; cbn; auto.
  - destruct (Hx v Hn) as [H1 H2]. destruct (f v x) as [[ok1 v1] fu1]. cbn [fst snd] in H1, H2. subst fu1.
    destruct (IH v1 ltac:(lia)) as [H3 H4]. destruct (xv_sel_list f v1 r) as [[ok2 v2] fu2].
    cbn [fst snd] in H3, H4. subst fu2. split; cbn [fst snd andb]; [reflexivity|lia].
Qed.

Lemma xv_sel_fuel frags n enter :
  (forall v def, S (xi_unseen frags v) <= n -> xv_res_ok frags v (enter v def)) ->
  forall x v, xi_unseen frags v <= n -> xv_res_ok frags v (xv_sel frags enter v x).
Proof.
  intros He x.
  induction x as [df al nm ar di ty sub IH|nm di|co di ty sub IH] using xsel_ind';
    intros v Hn; cbn [xv_sel].
  - destruct (xv_sel_list_fuel frags n _ sub IH v Hn) as [H1 H2].
    destruct (xv_sel_list _ v sub) as [[ok1 v1] fu]. cbn [fst snd] in *. split; cbn [fst snd]; auto.
  - destruct (xd_assoc nm frags) as [def|] eqn:Ed; [|split; cbn; auto].
    destruct (xd_mem nm v) eqn:Em; [split; cbn; auto|].
    pose proof (xi_unseen_enter _ _ _ _ Ed Em) as Hlt.
    destruct (He (nm :: v) def ltac:(lia)) as [H1 H2].
    destruct (enter (nm :: v) def) as [[ok1 v1] fu]. cbn [fst snd] in *. split; cbn [fst snd]; [exact H1|lia].
  - destruct (xv_sel_list_fuel frags n _ sub IH v Hn) as [H1 H2].
    destruct (xv_sel_list _ v sub) as [[ok1 v1] fu]. cbn [fst snd] in *. split; cbn [fst snd]; auto.
Qed.

Lemma xv_selection_set_fuel d n : forall v l,
  xi_unseen (xd_frags d) v <= n -> xv_res_ok (xd_frags d) v (xv_selection_set n d v l).
Proof.
  induction n as [|n IH]; intros v l Hn; cbn [xv_selection_set].
  - apply (xv_sel_list_fuel _ 0); [|exact Hn]. apply Forall_forall. intros x _.
    apply xv_sel_fuel. intros v' def Hv. lia.
  - apply (xv_sel_list_fuel _ (S n)); [|exact Hn]. apply Forall_forall. intros x _.
    apply xv_sel_fuel. intros v' def Hv.
    destruct (xv_fragment_cycles d def); [|split; cbn; auto].
    destruct (IH v' (xf_sels def) ltac:(lia)) as [H1 H2].
    destruct (xv_selection_set n d v' (xf_sels def)) as [[ok1 v1] fu]. cbn [fst snd] in *.
    split; cbn [fst snd]; auto.
Qed.

(* (F) *)
Theorem xv_fuel_always_ok d : xv_fuel_ok d = true.
Proof.
  unfold xv_fuel_ok. apply forallb_forall. intros op _. unfold xv_operation.
  destruct (xv_selection_set_fuel d (length (xd_frags d)) [] (xo_sels op)
              (xi_unseen_le_length _ _)) as [H _].
  destruct (xv_selection_set _ d [] (xo_sels op)) as [[ok v] fu]. exact H.
Qed.

(* ---------------------------------------------------------------- C20 *)

(* Validation with a schema, as far as C20 needs it: no build error, the standalone rules on the document
   typed against the schema, and any further rules `other` (which may depend on the schema). *)
Definition xv_valid_with (other : schema -> xdoc -> bool) (sc : schema) (a : document) : bool :=
  let '(d, errs) := xb_from_ast (Some sc) a in
  xb_is_nil errs && xv_standalone_valid d && other sc d.

Theorem xv_erasure sc a d :
  xs_schema_closed sc -> xb_from_ast (Some sc) a = (d, []) ->
  exists d0, xb_from_ast None a = (d0, []) /\ xv_standalone_valid d0 = xv_standalone_valid d.
Proof.
  intros Hcl H. destruct (xb_document_sim sc true a d Hcl H) as (d0 & H0 & E).
  exists d0. split; [exact H0|]. now apply xv_standalone_valid_same_skeleton.
Qed.

Theorem xv_relaxation other sc a :
  xs_schema_closed sc -> xv_valid_with other sc a = true -> xv_validate_standalone_executable a = true.
Proof.
  intros Hcl. unfold xv_valid_with, xv_validate_standalone_executable.
  destruct (xb_from_ast (Some sc) a) as [d errs] eqn:E.
  rewrite !andb_true_iff. intros [[Hn Hv] _].
  destruct errs; [|discriminate].
  destruct (xv_erasure sc a d Hcl E) as (d0 & H0 & Ev). rewrite H0. cbn [xb_is_nil andb]. congruence.
Qed.

Theorem xv_only_schema_independent a :
  xv_validate_standalone_executable a = false ->
  forall other sc, xs_schema_closed sc -> xv_valid_with other sc a = false.
Proof.
  intros H other sc Hcl. destruct (xv_valid_with other sc a) eqn:E; [|reflexivity].
  rewrite (xv_relaxation other sc a Hcl E) in H. discriminate.
Qed.
