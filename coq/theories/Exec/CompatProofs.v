(* C29: the three compatibility checks of the code equal the specification's algorithms, for all types. *)
From ApolloVerif Require Import Base.Chars Ast.Ast Ast.TypeRef Exec.Compat.

Ltac side :=
  match goal with
  | |- ~ SIsNonNull _ => let u := fresh in let E := fresh in intros [u E]; discriminate E
  | |- ~ SIsList _ => let u := fresh in let E := fresh in intros [u E]; discriminate E
  | |- ~ (SIsList _ /\ SIsList _) =>
      let u := fresh in let E := fresh in intros [[u E] _]; discriminate E
  end.

Ltac absurd_side :=
  match goal with
  | H : ~ SIsNonNull (SNonNull ?x) |- _ => exfalso; apply H; eexists; reflexivity
  | H : ~ SIsList (SList ?x) |- _ => exfalso; apply H; eexists; reflexivity
  | H : ~ (SIsList (SList ?x) /\ SIsList (SList ?y)) |- _ =>
      exfalso; apply H; split; eexists; reflexivity
  end.

(* ---------- AreTypesCompatible ---------- *)

Lemma atc_named a : AreTypesCompatible (SNamed a) (SNamed a).
Proof. apply ATC_5; try side. reflexivity. Qed.

Lemma atc_inv_nonnull_loc v l :
  AreTypesCompatible v (SNonNull l) -> exists v', v = SNonNull v' /\ AreTypesCompatible v' l.
Proof. intros H. inversion H; subst; try absurd_side. eauto. Qed.

Lemma atc_inv_nonnull_var v l :
  ~ SIsNonNull l -> AreTypesCompatible (SNonNull v) l -> AreTypesCompatible v l.
Proof. intros Hl H. inversion H; subst; try absurd_side; assumption. Qed.

Lemma atc_inv_list_loc v l :
  ~ SIsNonNull v -> AreTypesCompatible v (SList l) -> exists v', v = SList v' /\ AreTypesCompatible v' l.
Proof. intros Hv H. inversion H; subst; try absurd_side. eauto. Qed.

Lemma atc_inv_named_loc v a :
  ~ SIsNonNull v -> AreTypesCompatible v (SNamed a) -> v = SNamed a.
Proof. intros Hv H. inversion H; subst; try absurd_side. reflexivity. Qed.

Theorem assignable_sound v : forall l,
  compat_is_assignable_to v l = true -> AreTypesCompatible (sty_of v) (sty_of l).
Proof.
  induction v as [a|a|i IH|i IH]; intros [b|b|j|j]; cbn [compat_is_assignable_to sty_of];
    try discriminate; intros H.
  - apply streq_eq in H as ->. apply atc_named.
  - apply streq_eq in H as ->. apply ATC_2; [side|apply atc_named].
  - apply streq_eq in H as ->. apply ATC_1, atc_named.
  - apply ATC_3, IH, H.
  - apply ATC_2; [side|]. apply ATC_3, IH, H.
  - apply ATC_1, ATC_3, IH, H.
Qed.

Theorem assignable_complete v : forall l,
  AreTypesCompatible (sty_of v) (sty_of l) -> compat_is_assignable_to v l = true.
Proof.
  induction v as [a|a|i IH|i IH]; intros [b|b|j|j]; cbn [compat_is_assignable_to sty_of]; intros H.
  - apply atc_inv_named_loc in H; [|side]. injection H as ->. apply streq_refl.
  - apply atc_inv_nonnull_loc in H as (v' & E & _). discriminate.
  - apply atc_inv_list_loc in H as (v' & E & _); [discriminate|side].
  - apply atc_inv_nonnull_loc in H as (v' & E & _). discriminate.
  - apply atc_inv_nonnull_var in H; [|side]. apply atc_inv_named_loc in H; [|side].
    injection H as ->. apply streq_refl.
  - apply atc_inv_nonnull_loc in H as (v' & [= <-] & H). apply atc_inv_named_loc in H; [|side].
    injection H as ->. apply streq_refl.
  - apply atc_inv_nonnull_var in H; [|side]. apply atc_inv_list_loc in H as (v' & E & _); [discriminate|side].
  - apply atc_inv_nonnull_loc in H as (v' & [= <-] & H).
    apply atc_inv_list_loc in H as (v' & E & _); [discriminate|side].
  - apply atc_inv_named_loc in H; [discriminate|side].
  - apply atc_inv_nonnull_loc in H as (v' & E & _). discriminate.
  - apply atc_inv_list_loc in H as (v' & [= <-] & H); [|side]. now apply IH.
  - apply atc_inv_nonnull_loc in H as (v' & E & _). discriminate.
  - apply atc_inv_nonnull_var in H; [|side]. apply atc_inv_named_loc in H; [discriminate|side].
  - apply atc_inv_nonnull_loc in H as (v' & [= <-] & H). apply atc_inv_named_loc in H; [discriminate|side].
  - apply atc_inv_nonnull_var in H; [|side]. apply atc_inv_list_loc in H as (v' & [= <-] & H); [|side]. now apply IH.
  - apply atc_inv_nonnull_loc in H as (v' & [= <-] & H).
    apply atc_inv_list_loc in H as (v' & [= <-] & H); [|side]. now apply IH.
Qed.

Theorem assignable_iff v l :
  compat_is_assignable_to v l = true <-> AreTypesCompatible (sty_of v) (sty_of l).
Proof. split; [apply assignable_sound|apply assignable_complete]. Qed.

(* ---------- IsVariableUsageAllowed ---------- *)

Lemma non_null_spec t : compat_is_non_null t = true <-> SIsNonNull (sty_of t).
Proof.
  destruct t; cbn [compat_is_non_null sty_of]; split; try discriminate;
    try (intros [u E]; discriminate E); intros _; eexists; reflexivity.
Qed.

Lemma nullable_spec t x : sty_of t = SNonNull x -> sty_of (compat_nullable t) = x.
Proof. destruct t; cbn [sty_of compat_nullable]; intros E; try discriminate; now injection E. Qed.

Lemma has_non_null_default_spec d :
  match cv_default d with Some value => negb (compat_is_null value) | None => false end = true
  <-> HasNonNullVariableDefaultValue d.
Proof.
  unfold HasNonNullVariableDefaultValue. destruct (cv_default d) as [[]|]; cbn; split; try discriminate.
  - intros (x & [= <-] & Hx). congruence.
  - intros _. exists CvOther. split; [reflexivity|discriminate].
  - reflexivity.
  - intros (x & E & _). discriminate.
Qed.

Lemma has_location_default_spec u :
  compat_is_some (cu_default u) = true <-> HasLocationDefaultValue u.
Proof.
  unfold HasLocationDefaultValue. destruct (cu_default u) as [x|]; cbn; split; try discriminate; eauto.
  intros (x & E). discriminate.
Qed.

Theorem usage_iff d u : compat_usage_allowed d u = true <-> IsVariableUsageAllowed d u.
Proof.
  unfold compat_usage_allowed, IsVariableUsageAllowed.
  pose proof (non_null_spec (cu_ty u)) as Hl. pose proof (non_null_spec (cv_ty d)) as Hv.
  pose proof (has_non_null_default_spec d) as Hnn. pose proof (has_location_default_spec u) as Hld.
  destruct (compat_is_non_null (cu_ty u)) eqn:El; destruct (compat_is_non_null (cv_ty d)) eqn:Ev; cbn [andb negb].
  - (* both non-null: step 4 *)
    rewrite assignable_iff. split.
    + intros H. split; [|auto]. intros nl _ Hnv. exfalso. apply Hnv, Hv. reflexivity.
    + intros [_ H]. apply H. intros [_ Hnv]. apply Hnv, Hv. reflexivity.
  - (* location non-null, variable nullable: step 3 *)
    destruct (proj1 Hl eq_refl) as [x Ex].
    assert (Hnv : ~ SIsNonNull (sty_of (cv_ty d))) by (intros H; apply Hv in H; discriminate).
    destruct (match cv_default d with Some value => negb (compat_is_null value) | None => false end) eqn:E1;
      destruct (compat_is_some (cu_default u)) eqn:E2; cbn [andb negb];
      rewrite ?assignable_iff, ?(nullable_spec _ _ Ex).
    1-3: split;
      [intros H; split;
        [intros nl Enl _; rewrite Ex in Enl; injection Enl as <-; split; [|exact H];
         first [left; apply Hnn; reflexivity|right; apply Hld; reflexivity]
        |intros Hn; exfalso; apply Hn; split; [eexists; exact Ex|exact Hnv]]
      |intros [H _]; destruct (H x Ex Hnv) as [_ Hc]; exact Hc].
    split; [discriminate|]. intros [H _]. destruct (H x Ex Hnv) as [[Hd|Hd] _].
    + apply Hnn in Hd. discriminate.
    + apply Hld in Hd. discriminate.
  - (* location nullable: step 4 *)
    rewrite assignable_iff. split.
    + intros H. split; [|auto]. intros nl Enl _. exfalso.
      assert (SIsNonNull (sty_of (cu_ty u))) by (eexists; exact Enl). apply Hl in H0. discriminate.
    + intros [_ H]. apply H. intros [Hn _]. apply Hl in Hn. discriminate.
  - rewrite assignable_iff. split.
    + intros H. split; [|auto]. intros nl Enl _. exfalso.
      assert (SIsNonNull (sty_of (cu_ty u))) by (eexists; exact Enl). apply Hl in H0. discriminate.
    + intros [_ H]. apply H. intros [Hn _]. apply Hl in Hn. discriminate.
Qed.

(* the code before the fix 19b3359 (D13) *)
Theorem usage_old_refuted :
  exists d u, compat_usage_allowed_old d u = true /\ ~ IsVariableUsageAllowed d u.
Proof.
  exists {| cv_ty := TNamed [73; 110; 116]; cv_default := Some CvNull |},
         {| cu_ty := TNonNullNamed [73; 110; 116]; cu_default := None |}.
  split; [vm_compute; reflexivity|]. intros H. apply usage_iff in H. vm_compute in H. discriminate.
Qed.

Theorem usage_old_iff_restricted d u :
  compat_null_default_class d u = false ->
  (compat_usage_allowed_old d u = true <-> IsVariableUsageAllowed d u).
Proof.
  intros Hc. rewrite <- usage_iff. unfold compat_usage_allowed_old, compat_usage_allowed, compat_null_default_class in *.
  destruct (compat_is_non_null (cu_ty u)), (compat_is_non_null (cv_ty d)); cbn [andb negb] in *; try tauto.
  destruct (cv_default d) as [[]|]; destruct (cu_default u); cbn in *; try tauto; discriminate.
Qed.

(* ---------- IsValidImplementationFieldType ---------- *)

Section Impl.
  Variable sub : str -> str -> bool.
  Let Sub (implemented field : str) : Prop := sub implemented field = true.
  Notation IVI := (IsValidImplementationFieldType Sub).

  Lemma ivi_named a b : streq a b || sub a b = true -> IVI (SNamed b) (SNamed a).
  Proof.
    intros H. apply orb_true_iff in H as [H|H].
    - apply streq_eq in H as ->. apply IVI_3; try side. reflexivity.
    - now apply IVI_45.
  Qed.

  Theorem impl_sound iface : forall impl,
    compat_valid_impl_field_type sub iface impl = true -> IVI (sty_of impl) (sty_of iface).
  Proof.
    induction iface as [a|a|i IH|i IH]; intros [b|b|j|j]; cbn [compat_valid_impl_field_type sty_of];
      try discriminate; intros H.
    - now apply ivi_named.
    - apply IVI_1b; [side|now apply ivi_named].
    - apply IVI_1a. now apply ivi_named.
    - apply IVI_2, IH, H.
    - apply IVI_1b; [side|]. apply IVI_2, IH, H.
    - apply IVI_1a, IVI_2, IH, H.
  Qed.

  Lemma ivi_inv_nonnull_field f i :
    IVI (SNonNull f) i -> IVI f (match i with SNonNull x => x | _ => i end).
  Proof.
    intros H. inversion H; subst; try absurd_side; try assumption.
    destruct i; try assumption. absurd_side.
  Qed.

  Lemma ivi_inv_nullable_vs_nonnull f i : ~ SIsNonNull f -> IVI f (SNonNull i) -> False.
  Proof.
    intros Hf H. inversion H; subst; try absurd_side; try (apply Hf; eexists; reflexivity).
  Qed.

  Lemma ivi_inv_list f i : IVI (SList f) (SList i) -> IVI f i.
  Proof. intros H. inversion H; subst; try absurd_side. assumption. Qed.

  Lemma ivi_inv_named b a : IVI (SNamed b) (SNamed a) -> streq a b || sub a b = true.
  Proof.
    intros H. apply orb_true_iff. inversion H as [| | |f i _ _ E|f i Hs]; subst.
    - injection E as ->. left. apply streq_refl.
    - right. exact Hs.
  Qed.

  Lemma ivi_inv_list_named f a : IVI (SList f) (SNamed a) -> False.
  Proof. intros H. inversion H; subst. discriminate. Qed.
  Lemma ivi_inv_named_list b i : IVI (SNamed b) (SList i) -> False.
  Proof. intros H. inversion H; subst. discriminate. Qed.

  Theorem impl_complete iface : forall impl,
    IVI (sty_of impl) (sty_of iface) -> compat_valid_impl_field_type sub iface impl = true.
  Proof.
    induction iface as [a|a|i IH|i IH]; intros [b|b|j|j]; cbn [compat_valid_impl_field_type sty_of]; intros H;
      try (apply ivi_inv_nonnull_field in H; cbn iota in H);
      try (exfalso; apply ivi_inv_nullable_vs_nonnull in H; [exact H|side]);
      try (exfalso; apply ivi_inv_list_named in H; exact H);
      try (exfalso; apply ivi_inv_named_list in H; exact H);
      try (now apply ivi_inv_named);
      try (apply IH; now apply ivi_inv_list).
  Qed.

  Theorem impl_iff iface impl :
    compat_valid_impl_field_type sub iface impl = true <->
    IsValidImplementationFieldType (fun implemented field => sub implemented field = true) (sty_of impl) (sty_of iface).
  Proof. split; [apply impl_sound|apply impl_complete]. Qed.
End Impl.

(* ---------- Schema::is_subtype against steps 4 and 5 ---------- *)

Lemma contains_spec l k : compat_contains l k = true <-> In k l.
Proof.
  unfold compat_contains. rewrite existsb_exists. split.
  - intros (x & Hin & He). apply streq_eq in He as ->. exact Hin.
  - intros Hin. exists k. split; [exact Hin|apply streq_refl].
Qed.

Theorem subtype_iff types a b :
  UnionMembersAreObjects types ->
  (compat_is_subtype types a b = true <-> SpecSubtype types a b).
Proof.
  intros Hu. unfold compat_is_subtype, SpecSubtype. split.
  - destruct (compat_types_get types a) as [[impls|impls|members|]|] eqn:Ea; try discriminate.
    + destruct (compat_types_get types b) as [[bi|bi|bm|]|] eqn:Eb; try discriminate;
        intros H; apply contains_spec in H; right; exists bi, impls; auto.
    + intros H. apply contains_spec in H. left.
      destruct (Hu a members b Ea H) as [bi Eb]. exists bi, members. auto.
  - intros [(bi & members & Eb & Ea & Hin)|(bi & impls & Eb & Ea & Hin)]; rewrite Ea.
    + now apply contains_spec.
    + destruct Eb as [Eb|Eb]; rewrite Eb; now apply contains_spec.
Qed.

(* the implementation check over a schema whose union members are objects *)
Corollary impl_schema_iff types iface impl :
  UnionMembersAreObjects types ->
  (compat_valid_impl_field_type (compat_is_subtype types) iface impl = true <->
   IsValidImplementationFieldType (SpecSubtype types) (sty_of impl) (sty_of iface)).
Proof.
  intros Hu. rewrite impl_iff.
  assert (M : forall f i,
    IsValidImplementationFieldType (fun x y => compat_is_subtype types x y = true) f i <->
    IsValidImplementationFieldType (SpecSubtype types) f i).
  { intros f i. split; induction 1;
      try (now (constructor; auto)).
    - apply IVI_45. now apply subtype_iff.
    - apply IVI_45. now apply subtype_iff. }
  apply M.
Qed.
