(* C17 deepening, part 3: the literal field-merging walk WITHOUT its memo guards, and what it decides.
   - mxn_shape / mxn_parents / mxn_validate_operation / mxn_document: MergeXing.v's mx_shape / mx_parents /
     mx_validate_operation / mx_document_ok with the cache and the two OnceBool guards removed, everything else
     (grouping, first-against-rest, expand_selections, depth limit, high water mark) kept.  Not extracted.
   - mxn_walk: both passes as one generic walk over "parts" (the groups compared first-against-rest).
   - mxq_gen: the declarative reading, n levels deep: every two fields of the set that the pass compares are
     related, and so on in the union of their sub-selections (all pairs, the diagonal included).
   - mxn_walk_sem: within the depth limit the walk computes exactly that.
   Proofs only; nothing here is extracted. *)
From ApolloVerif Require Import Base.Chars Ast.Ast Schema.Model Exec.Valid Exec.MergeXing Exec.FragCyclesProofs
  Exec.MergeXingProofs Exec.MergeXingEquivExpand Exec.MergeXingEquivBridge.
From Coq Require Import Arith PeanoNat Lia.

(* ---------- the validator's state without the cache: (no diagnostic pushed, recursion_limit.high) ---------- *)
Definition mxn_st := (bool * nat)%type.
Definition mxn_and_ok (st : mxn_st) (b : bool) : mxn_st := (fst st && b, snd st).
Definition mxn_enter (st : mxn_st) (depth : nat) : mxn_st * bool :=
  ((fst st, Nat.max (snd st) (S depth)), Nat.ltb mx_field_depth_limit (S depth)).

(* MergedFieldSet::same_response_shape_by_name without `if self.same_response_shape_guard.already_done()` *)
Fixpoint mxn_shape (fuel : nat) (s : schema) (frags : list (str * mx_set)) (depth : nat) (st : mxn_st)
    (fields : list mx_fs) {struct fuel} : option mxn_st :=
  match fuel with
  | O => None
  | S fuel' =>
      (fix groups (st : mxn_st) (gs : list (str * list mx_fs)) {struct gs} : option mxn_st :=
         match gs with
         | [] => Some st
         | (_, fields_for_name) :: gs' =>
             let st := mxn_and_ok st (mx_first_vs_rest (mx_same_output_type_shape s) fields_for_name) in
             let nested := mx_nested_sets fields_for_name in
             match nested with
             | [] => groups st gs'
             | _ =>
                 match mx_expand frags nested with
                 | None => None
                 | Some merged =>
                     let '(st, reached) := mxn_enter st depth in
                     if reached then groups st gs'
                     else match mxn_shape fuel' s frags (S depth) st merged with
                          | Some st => groups st gs'
                          | None => None
                          end
                 end
             end
         end) st (mx_group_by_output_name fields)
  end.

(* MergedFieldSet::same_for_common_parents_by_name without its guard (and without validator.lookup) *)
Fixpoint mxn_parents (fuel : nat) (s : schema) (frags : list (str * mx_set)) (depth : nat) (st : mxn_st)
    (fields : list mx_fs) {struct fuel} : option mxn_st :=
  match fuel with
  | O => None
  | S fuel' =>
      (fix groups (st : mxn_st) (gs : list (str * list mx_fs)) {struct gs} : option mxn_st :=
         match gs with
         | [] => Some st
         | (_, fields_for_name) :: gs' =>
             match
               (fix pgroups (st : mxn_st) (ps : list (list mx_fs)) {struct ps} : option mxn_st :=
                  match ps with
                  | [] => Some st
                  | fields_for_parents :: ps' =>
                      let st := mxn_and_ok st (mx_first_vs_rest mx_same_name_and_arguments fields_for_parents) in
                      match mx_nested_sets fields_for_parents with
                      | [] => pgroups st ps'
                      | nested =>
                          match mx_expand frags nested with
                          | None => None
                          | Some merged =>
                              let '(st, reached) := mxn_enter st depth in
                              if reached then pgroups st ps'
                              else match mxn_parents fuel' s frags (S depth) st merged with
                                   | Some st => pgroups st ps'
                                   | None => None
                                   end
                          end
                      end
                  end) st (mx_group_by_common_parents s fields_for_name)
             with
             | Some st => groups st gs'
             | None => None
             end
         end) st (mx_group_by_output_name fields)
  end.

(* FieldsInSetCanMerge::validate_operation *)
Definition mxn_validate_operation (s : schema) (frags : list (str * mx_set)) (st : mxn_st) (root : mx_set)
    : option mxn_st :=
  match mx_expand frags [root] with
  | None => None
  | Some fields =>
      match mxn_shape mx_fuel s frags 0 st fields with
      | None => None
      | Some st =>
          match mxn_parents mx_fuel s frags 0 st fields with
          | None => None
          | Some st => Some (mxn_and_ok st (negb (Nat.ltb mx_field_depth_limit (snd st))))
          end
      end
  end.

Definition mxn_initial : mxn_st := (true, O).
(* the verdict and the high water mark of the recursion depth *)
Definition mxn_document (s : schema) (d : document) : option mxn_st :=
  let frags := mx_fragments s (xv_frags d) [] in
  fold_left (fun st o =>
               match st with
               | None => None
               | Some st =>
                   match xv_root s (xo_type o) with
                   | Some root => mxn_validate_operation s frags st (root, mx_from_ast s root (xo_sels o))
                   | None => Some st
                   end
               end) (xv_ops d) (Some mxn_initial).

(* ---------- both passes as one walk ---------- *)
Fixpoint mxn_fold {A} (f : mxn_st -> A -> option mxn_st) (st : mxn_st) (l : list A) : option mxn_st :=
  match l with
  | [] => Some st
  | x :: r => match f st x with Some st' => mxn_fold f st' r | None => None end
  end.

Lemma mxn_fold_app {A} (f : mxn_st -> A -> option mxn_st) a b : forall st,
  mxn_fold f st (a ++ b) = match mxn_fold f st a with Some st' => mxn_fold f st' b | None => None end.
Proof.
  induction a as [|x a IH]; intros st; cbn [app mxn_fold]; [reflexivity|].
  destruct (f st x) as [st'|]; [apply IH|reflexivity].
Qed.

Section Walk.
  Variable parts : list mx_fs -> list (list mx_fs).
  Variable rel : mx_fs -> mx_fs -> bool.
  Variable frags : list (str * mx_set).

  Definition mxn_step (rec : nat -> mxn_st -> list mx_fs -> option mxn_st) (depth : nat) (st : mxn_st)
      (g : list mx_fs) : option mxn_st :=
    let st := mxn_and_ok st (mx_first_vs_rest rel g) in
    match mx_nested_sets g with
    | [] => Some st
    | nested =>
        match mx_expand frags nested with
        | None => None
        | Some merged =>
            let '(st, reached) := mxn_enter st depth in
            if reached then Some st else rec (S depth) st merged
        end
    end.

  Fixpoint mxn_walk (fuel : nat) (depth : nat) (st : mxn_st) (fields : list mx_fs) {struct fuel} : option mxn_st :=
    match fuel with
    | O => None
    | S fuel' => mxn_fold (mxn_step (mxn_walk fuel') depth) st (parts fields)
    end.

  (* the fuel is never exhausted: the depth limit stops the recursion first *)
  Lemma mxn_walk_some : forall fuel depth st fields,
    (mx_field_depth_limit + 2 <= fuel + depth)%nat -> (depth <= mx_field_depth_limit)%nat ->
    mxn_walk fuel depth st fields <> None.
  Proof.
    induction fuel as [|fuel IH]; intros depth st fields Hf Hd; [lia|]. cbn [mxn_walk].
    generalize (parts fields). intros ps. revert st. induction ps as [|g ps IHps]; intros st; cbn [mxn_fold]; [discriminate|].
    destruct (mxn_step (mxn_walk fuel) depth st g) as [st'|] eqn:E; [apply IHps|]. exfalso. revert E.
    unfold mxn_step. destruct (mx_nested_sets g) as [|n0 nr]; [discriminate|].
    destruct (mx_expand frags (n0 :: nr)) as [merged|] eqn:Ex; [|exfalso; exact (mx_expand_some _ _ Ex)].
    unfold mxn_enter. destruct (Nat.ltb mx_field_depth_limit (S depth)) eqn:L; [discriminate|].
    apply Nat.ltb_ge in L. apply IH; lia.
  Qed.
End Walk.

Definition mxn_shape_parts (fields : list mx_fs) : list (list mx_fs) := map snd (mx_group_by_output_name fields).
Definition mxn_parents_parts (s : schema) (fields : list mx_fs) : list (list mx_fs) :=
  flat_map (fun kg => mx_group_by_common_parents s (snd kg)) (mx_group_by_output_name fields).

Lemma mxn_shape_walk s frags : forall fuel depth st fields,
  mxn_shape fuel s frags depth st fields =
  mxn_walk mxn_shape_parts (mx_same_output_type_shape s) frags fuel depth st fields.
Proof.
  induction fuel as [|fuel IH]; intros depth st fields; [reflexivity|]. cbn [mxn_shape mxn_walk].
  change (mxn_shape_parts fields) with (map snd (mx_group_by_output_name fields)).
  generalize (mx_group_by_output_name fields). intros gs. revert st.
  induction gs as [|[k g] gs IHgs]; intros st; cbn [map mxn_fold snd]; [reflexivity|].
  unfold mxn_step at 1. cbn zeta.
  destruct (mx_nested_sets g) as [|n0 nr]; [apply IHgs|].
  destruct (mx_expand frags (n0 :: nr)) as [merged|]; [|reflexivity].
  destruct (mxn_enter (mxn_and_ok st (mx_first_vs_rest (mx_same_output_type_shape s) g)) depth) as [st1 reached].
  destruct reached; [apply IHgs|]. rewrite IH.
  destruct (mxn_walk mxn_shape_parts (mx_same_output_type_shape s) frags fuel (S depth) st1 merged); [apply IHgs|reflexivity].
Qed.

Lemma mxn_parents_walk s frags : forall fuel depth st fields,
  mxn_parents fuel s frags depth st fields =
  mxn_walk (mxn_parents_parts s) mx_same_name_and_arguments frags fuel depth st fields.
Proof.
  induction fuel as [|fuel IH]; intros depth st fields; [reflexivity|]. cbn [mxn_parents mxn_walk].
  change (mxn_parents_parts s fields)
    with (flat_map (fun kg => mx_group_by_common_parents s (snd kg)) (mx_group_by_output_name fields)).
  generalize (mx_group_by_output_name fields). intros gs. revert st.
  induction gs as [|[k g] gs IHgs]; intros st; cbn [flat_map mxn_fold snd]; [reflexivity|].
  rewrite mxn_fold_app.
  assert (E : forall ps st0,
    (fix pgroups (st : mxn_st) (ps : list (list mx_fs)) {struct ps} : option mxn_st :=
       match ps with
       | [] => Some st
       | fields_for_parents :: ps' =>
           let st := mxn_and_ok st (mx_first_vs_rest mx_same_name_and_arguments fields_for_parents) in
           match mx_nested_sets fields_for_parents with
           | [] => pgroups st ps'
           | nested =>
               match mx_expand frags nested with
               | None => None
               | Some merged =>
                   let '(st, reached) := mxn_enter st depth in
                   if reached then pgroups st ps'
                   else match mxn_parents fuel s frags (S depth) st merged with
                        | Some st => pgroups st ps'
                        | None => None
                        end
               end
           end
       end) st0 ps
    = mxn_fold (mxn_step mx_same_name_and_arguments frags
                  (mxn_walk (mxn_parents_parts s) mx_same_name_and_arguments frags fuel) depth) st0 ps).
  { induction ps as [|pg ps IHps]; intros st0; cbn [mxn_fold]; [reflexivity|].
    unfold mxn_step at 1. cbn zeta.
    destruct (mx_nested_sets pg) as [|n0 nr]; [apply IHps|].
    destruct (mx_expand frags (n0 :: nr)) as [merged|]; [|reflexivity].
    destruct (mxn_enter (mxn_and_ok st0 (mx_first_vs_rest mx_same_name_and_arguments pg)) depth) as [st1 reached].
    destruct reached; [apply IHps|]. rewrite IH.
    destruct (mxn_walk (mxn_parents_parts s) mx_same_name_and_arguments frags fuel (S depth) st1 merged);
      [apply IHps|reflexivity]. }
  rewrite E.
  destruct (mxn_fold (mxn_step mx_same_name_and_arguments frags
              (mxn_walk (mxn_parents_parts s) mx_same_name_and_arguments frags fuel) depth) st
              (mx_group_by_common_parents s g)) as [st'|]; [apply IHgs|reflexivity].
Qed.

(* ---------- the groups ---------- *)
Lemma gbon_eq fields :
  mx_group_by_output_name fields = fold_left (grp_step (fun f => Some (mx_response_key f))) fields [].
Proof. reflexivity. Qed.

Lemma gbon_in fields k g : In (k, g) (mx_group_by_output_name fields) ->
  g = filter (fun f => streq k (mx_response_key f)) fields.
Proof.
  intros H. rewrite gbon_eq in H.
  rewrite <- (grp_in_lookup _ k g (grp_fold_nodup _ fields [] (NoDup_nil _)) H), grp_fold_lookup. reflexivity.
Qed.

Lemma gbon_cover fields f : In f fields -> exists g, In (mx_response_key f, g) (mx_group_by_output_name fields).
Proof.
  intros H. assert (Hk : In (mx_response_key f) (map fst (mx_group_by_output_name fields))).
  { rewrite gbon_eq. apply grp_fold_keys. right. exists f. split; [exact H|reflexivity]. }
  apply in_map_iff in Hk. destruct Hk as ([k g] & E & Hin). cbn in E. subst k. exists g. exact Hin.
Qed.

Lemma gbcp_incl s fields grp x : In grp (mx_group_by_common_parents s fields) -> In x grp -> In x fields.
Proof.
  rewrite group_by_common_parents_eq. set (conc := fold_left (grp_step (obj_key s)) fields []).
  assert (Hnd : NoDup (map fst conc)) by (apply grp_fold_nodup; constructor).
  assert (Hl : forall k l, In (k, l) conc -> forall y, In y l -> In y fields).
  { intros k l Hkl y Hy. rewrite <- (grp_in_lookup conc k l Hnd Hkl) in Hy. unfold conc in Hy.
    rewrite grp_fold_lookup in Hy. cbn [grp_lookup app] in Hy. apply filter_In in Hy. apply Hy. }
  destruct conc as [|c0 conc'] eqn:Ec.
  - intros [<-|[]] Hx. apply filter_In in Hx. apply Hx.
  - rewrite <- Ec in *. intros Hg Hx. apply in_map_iff in Hg. destruct Hg as ([k l] & <- & Hkl). cbn [snd] in Hx.
    apply in_app_or in Hx. destruct Hx as [Hx|Hx]; [exact (Hl k l Hkl x Hx)|]. apply filter_In in Hx. apply Hx.
Qed.

(* ---------- the declarative reading ---------- *)
Section Sem.
  Variable s : schema.
  Variable frags : list (str * mx_set).

  (* the fields of the sub-selection of a field, fragments expanded *)
  Definition mxq_sub (f x : mx_fs) : Prop := mxe_coll frags [(mf_sub_ty f, mf_sub f)] x.
  Definition mxq_sub2 (a b x : mx_fs) : Prop := mxq_sub a x \/ mxq_sub b x.

  Lemma mxe_reach_nil ty st : mxe_reach frags [(ty, [])] st -> st = (ty, []).
  Proof.
    intros R. induction R as [st Hin|ty0 sels c dirs sty sub _ IH Hin|ty0 sels n dirs st _ IH Hin Ha].
    - destruct Hin as [<-|[]]. reflexivity.
    - injection IH as -> ->. destruct Hin.
    - injection IH as -> ->. destruct Hin.
  Qed.

  Lemma mxq_sub_nil f x : mf_sub f = [] -> ~ mxq_sub f x.
  Proof.
    intros E (ty & sels & R & Hf). rewrite E in R. apply mxe_reach_nil in R. injection R as -> ->. destruct Hf.
  Qed.

  (* the fields expand_selections yields for the nested selection sets of a group *)
  Lemma mxq_nested_coll g x : mxe_coll frags (mx_nested_sets g) x <-> exists f, In f g /\ mxq_sub f x.
  Proof.
    rewrite mxe_coll_split. unfold mx_nested_sets. split.
    - intros (s0 & H0 & Hc). apply in_map_iff in H0. destruct H0 as (f & <- & Hf). apply filter_In in Hf.
      exists f. split; [apply Hf|exact Hc].
    - intros (f & Hf & Hs). exists (mf_sub_ty f, mf_sub f). split; [|exact Hs]. apply in_map_iff. exists f.
      split; [reflexivity|]. apply filter_In. split; [exact Hf|].
      destruct (mf_sub f) eqn:E; [exfalso; exact (mxq_sub_nil f x E Hs)|reflexivity].
  Qed.

  Lemma mxq_nested_nil g : mx_nested_sets g = [] -> forall f x, In f g -> ~ mxq_sub f x.
  Proof.
    intros E f x Hf Hs. assert (H : mxe_coll frags (mx_nested_sets g) x) by (apply mxq_nested_coll; exists f; auto).
    rewrite E in H. destruct H as (ty & sels & R & _). clear -R.
    remember (ty, sels) as st. clear Heqst. induction R as [st []| |]; assumption.
  Qed.

  Variable cmp : mx_fs -> mx_fs -> Prop.     (* which pairs of a set the pass compares *)
  Variable rel : mx_fs -> mx_fs -> bool.     (* the comparison *)

  (* n levels deep: if the pass compares a and b they are related, and all pairs of fields of their merged
     sub-selections are fine n-1 levels deep *)
  Fixpoint mxq_gen (n : nat) (a b : mx_fs) {struct n} : Prop :=
    match n with
    | O => True
    | S n' => cmp a b -> rel a b = true /\ forall x y, mxq_sub2 a b x -> mxq_sub2 a b y -> mxq_gen n' x y
    end.
  Definition mxq_gen_ok (n : nat) (P : mx_fs -> Prop) : Prop := forall a b, P a -> P b -> mxq_gen n a b.

  (* a universe of field selections closed under sub-selection *)
  Variable U : mx_fs -> Prop.
  Hypothesis U_sub : forall f x, U f -> mxq_sub f x -> U x.

  Variable parts : list mx_fs -> list (list mx_fs).
  Hypothesis parts_in : forall L g x, (forall f, In f L -> U f) -> In g (parts L) -> In x g -> In x L.
  Hypothesis parts_cmp : forall L g x y, (forall f, In f L -> U f) -> In g (parts L) -> In x g -> In y g -> cmp x y.
  Hypothesis parts_cover : forall L a b, (forall f, In f L -> U f) -> In a L -> In b L -> cmp a b ->
    exists g, In g (parts L) /\ In a g /\ In b g.
  Hypothesis rel_fvr : forall g, (forall f, In f g -> U f) ->
    (mx_first_vs_rest rel g = true <-> forall a b, In a g -> In b g -> rel a b = true).

  Definition mxq_child_ok (n : nat) (g : list mx_fs) : Prop :=
    forall x y, (exists f, In f g /\ mxq_sub f x) -> (exists f, In f g /\ mxq_sub f y) -> mxq_gen n x y.

  Definition mxq_rec_ok (n : nat) (rec : nat -> mxn_st -> list mx_fs -> option mxn_st) : Prop :=
    forall depth st L st', (forall f, In f L -> U f) -> rec depth st L = Some st' ->
      (snd st' <= mx_field_depth_limit)%nat ->
      (snd st <= snd st')%nat /\ (fst st' = true <-> fst st = true /\ mxq_gen_ok n (fun x => In x L)).

  Lemma mxn_step_sem n rec depth st g st' : mxq_rec_ok n rec -> (forall f, In f g -> U f) ->
    mxn_step rel frags rec depth st g = Some st' -> (snd st' <= mx_field_depth_limit)%nat ->
    (snd st <= snd st')%nat /\
    (fst st' = true <-> fst st = true /\ mx_first_vs_rest rel g = true /\ mxq_child_ok n g).
  Proof.
    intros Hrec Hg. unfold mxn_step. destruct (mx_nested_sets g) as [|n0 nr] eqn:En.
    - intros [= <-] _. cbn [mxn_and_ok fst snd]. split; [lia|]. rewrite andb_true_iff. split.
      + intros [H1 H2]. split; [exact H1|]. split; [exact H2|].
        intros x y (f & Hf & Hx) _. exfalso. exact (mxq_nested_nil g En f x Hf Hx).
      + intros (H1 & H2 & _). auto.
    - rewrite <- En. destruct (mx_expand frags (mx_nested_sets g)) as [merged|] eqn:Ex; [|discriminate].
      pose proof (mxe_expand_coll frags _ _ Ex) as Hm.
      assert (Hmem : forall x, In x merged <-> exists f, In f g /\ mxq_sub f x).
      { intros x. rewrite Hm. apply mxq_nested_coll. }
      unfold mxn_enter, mxn_and_ok. cbn [fst snd].
      destruct (Nat.ltb mx_field_depth_limit (S depth)) eqn:L.
      + intros [= <-] Hlim. cbn [snd] in Hlim. apply Nat.ltb_lt in L. lia.
      + intros E Hlim. apply Nat.ltb_ge in L.
        assert (HU : forall f, In f merged -> U f).
        { intros x Hx. apply Hmem in Hx. destruct Hx as (f & Hf & Hs). exact (U_sub f x (Hg f Hf) Hs). }
        destruct (Hrec _ _ _ _ HU E Hlim) as [Hhi Hok]. cbn [fst snd] in Hhi, Hok. split; [lia|].
        rewrite Hok, andb_true_iff. unfold mxq_gen_ok, mxq_child_ok. split.
        * intros [[H1 H2] H3]. split; [exact H1|]. split; [exact H2|].
          intros x y Hx Hy. apply H3; apply Hmem; assumption.
        * intros (H1 & H2 & H3). split; [auto|]. intros x y Hx Hy. apply H3; apply Hmem; assumption.
  Qed.

  Lemma mxn_fold_sem n rec depth : mxq_rec_ok n rec -> forall ps st st',
    (forall g, In g ps -> forall f, In f g -> U f) ->
    mxn_fold (mxn_step rel frags rec depth) st ps = Some st' -> (snd st' <= mx_field_depth_limit)%nat ->
    (snd st <= snd st')%nat /\
    (fst st' = true <-> fst st = true /\ forall g, In g ps -> mx_first_vs_rest rel g = true /\ mxq_child_ok n g).
  Proof.
    intros Hrec. induction ps as [|g ps IH]; intros st st' HU; cbn [mxn_fold].
    - intros [= <-] _. split; [lia|]. split; [intros H; split; [exact H|intros ? []]|intros [H _]; exact H].
    - destruct (mxn_step rel frags rec depth st g) as [st1|] eqn:E1; [|discriminate]. intros E Hlim.
      destruct (IH st1 st' (fun g' Hg' => HU g' (or_intror Hg')) E Hlim) as [Hhi Hok].
      assert (Hlim1 : (snd st1 <= mx_field_depth_limit)%nat) by lia.
      destruct (mxn_step_sem n rec depth st g st1 Hrec (HU g (or_introl eq_refl)) E1 Hlim1) as [Hhi1 Hok1].
      split; [lia|]. rewrite Hok, Hok1. split.
      + intros [(H1 & H2 & H3) H4]. split; [exact H1|]. intros g' [<-|Hg']; [split; assumption|apply H4; exact Hg'].
      + intros [H1 H2]. destruct (H2 g (or_introl eq_refl)) as [H3 H4]. split; [auto|].
        intros g' Hg'. apply H2. right. exact Hg'.
  Qed.

  (* the walk decides the declarative reading, as long as the high water mark stays within the limit *)
  Theorem mxn_walk_sem : forall fuel n, (fuel <= n)%nat -> mxq_rec_ok n (mxn_walk parts rel frags fuel).
  Proof.
    induction fuel as [|fuel IH]; intros n Hn depth st L st' HU; cbn [mxn_walk]; [discriminate|].
    destruct n as [|n]; [lia|]. assert (Hn' : (fuel <= n)%nat) by lia. intros E Hlim.
    assert (HUp : forall g, In g (parts L) -> forall f, In f g -> U f).
    { intros g Hg f Hf. apply HU. eapply parts_in; eassumption. }
    destruct (mxn_fold_sem n _ depth (IH n Hn') _ _ _ HUp E Hlim) as [Hhi Hok]. split; [exact Hhi|].
    rewrite Hok. apply and_iff_compat_l. unfold mxq_gen_ok. split.
    - intros H a b Ha Hb. cbn [mxq_gen]. intros Hc.
      destruct (parts_cover L a b HU Ha Hb Hc) as (g & Hg & Hag & Hbg). destruct (H g Hg) as [Hf Hch]. split.
      + apply (rel_fvr g (HUp g Hg)); assumption.
      + intros x y Hx Hy. apply Hch.
        * destruct Hx as [Hx|Hx]; [exists a|exists b]; auto.
        * destruct Hy as [Hy|Hy]; [exists a|exists b]; auto.
    - intros H g Hg. split.
      + apply (rel_fvr g (HUp g Hg)). intros a b Ha Hb.
        assert (Hab : mxq_gen (S n) a b) by (apply H; eapply parts_in; eassumption).
        cbn [mxq_gen] in Hab. apply Hab. eapply parts_cmp; eassumption.
      + intros x y (f1 & Hf1 & Hx) (f2 & Hf2 & Hy).
        assert (Hab : mxq_gen (S n) f1 f2) by (apply H; eapply parts_in; eassumption).
        cbn [mxq_gen] in Hab. apply Hab; [eapply parts_cmp; eassumption|left; exact Hx|right; exact Hy].
  Qed.
End Sem.
