(* C17 deepening, part 9: acyclic fragments: the fuels suffice and the depth stays within the limit.
   - xf_reach_complete: xv_reach (Valid.v: S (length frags) rounds of closure) contains everything a spread path
     reaches; so xv_r_no_fragment_cycles gives the declarative acyclicity (xf_acyclic: no fc_reach n n).
   - xf_collect_some: with acyclic fragments xv_collect never runs out of its fuel S (length frags).
   - xh_le / xh_bound: the nesting height of fields with fragments expanded is at most
     (number of fragments) * (deepest selection + 1) + deepest selection (xf_doc_height = xv_merge_fuel - 2).
   - xh_same_shape_some / xh_can_merge_some / xf_verdict_defined: below that height the specification's
     SameResponseShape / FieldsInSetCanMerge never run out of fuel; the verdict of 5.3.2 is defined.
   - mxh_le / mxh_walk_hi / xf_document_hi: the same height on the built document bounds the high water mark of the
     walk without memo guards.
   - xing_equiv_full / xing_equiv_nomemo_full: the equivalence with xv_within_limits as the only limit hypothesis.
   Proofs only; nothing here is extracted. *)
From ApolloVerif Require Import Base.Chars Ast.Ast Schema.Model Exec.Valid Exec.MergeXing Exec.FragCyclesProofs
  Exec.MergeXingProofs Exec.MergeXingEquivExpand Exec.MergeXingEquivBridge Exec.MergeXingEquivSem
  Exec.MergeXingEquivSpec Exec.MergeXingEquivKeys Exec.MergeXingEquivMemo Exec.MergeXingEquivDoc Exec.MergeXingEquivRules.
From Coq Require Import Arith PeanoNat Lia.

(* ---------- chains of spreads ---------- *)
Section Chains.
  Variable frags : list (str * xv_frag).

  (* v = [v0; ..; vk] and v0 -> v1 -> .. -> vk -> b *)
  Fixpoint xf_chain (v : list str) (b : str) : Prop :=
    match v with
    | [] => False
    | x :: r => match r with [] => fc_edge frags x b | y :: _ => fc_edge frags x y /\ xf_chain r b end
    end.

  Lemma xf_chain_cons x y r b : xf_chain (x :: y :: r) b <-> fc_edge frags x y /\ xf_chain (y :: r) b.
  Proof. reflexivity. Qed.

  Lemma xf_reach_chain a b : fc_reach frags a b -> exists v, xf_chain (a :: v) b.
  Proof.
    intros H. induction H as [a b H|a m b H _ [v IH]].
    - exists []. exact H.
    - exists (m :: v). split; assumption.
  Qed.

  Lemma xf_chain_reach v : forall a b, xf_chain (a :: v) b -> fc_reach frags a b.
  Proof.
    induction v as [|m v IH]; intros a b H.
    - apply fcr_step. exact H.
    - destruct H as [H1 H2]. eapply fcr_trans; [exact H1|]. apply IH. exact H2.
  Qed.

  (* a suffix of a chain is a chain *)
  Lemma xf_chain_suffix l1 : forall x l2 b, xf_chain (l1 ++ x :: l2) b -> xf_chain (x :: l2) b.
  Proof.
    induction l1 as [|y l1 IH]; intros x l2 b H; [exact H|]. cbn [app] in H.
    destruct (l1 ++ x :: l2) as [|z r] eqn:E; [destruct l1; discriminate|]. destruct H as [_ H]. rewrite <- E in H. exact (IH x l2 b H).
  Qed.

  (* cutting a loop out of a chain *)
  Lemma xf_chain_cut l1 : forall x l2 l3 b, xf_chain (l1 ++ x :: l2 ++ x :: l3) b -> xf_chain (l1 ++ x :: l3) b.
  Proof.
    induction l1 as [|y l1 IH]; intros x l2 l3 b H.
    - cbn [app] in *. change (x :: l2 ++ x :: l3) with ((x :: l2) ++ x :: l3) in H. exact (xf_chain_suffix _ _ _ _ H).
    - cbn [app] in *. destruct l1 as [|z l1].
      + cbn [app] in *. destruct H as [H1 H2]. split; [exact H1|]. exact (IH x l2 l3 b H2).
      + cbn [app] in *. destruct H as [H1 H2]. split; [exact H1|]. exact (IH x l2 l3 b H2).
  Qed.

  Lemma xf_dup_or_nodup (l : list str) : NoDup l \/ exists x l1 l2 l3, l = l1 ++ x :: l2 ++ x :: l3.
  Proof.
    induction l as [|a r IH]; [left; constructor|]. destruct IH as [IH|(x & l1 & l2 & l3 & ->)].
    - destruct (in_dec (list_eq_dec N.eq_dec) a r) as [Hin|Hin].
      + right. apply in_split in Hin. destruct Hin as (l2 & l3 & ->). exists a, [], l2, l3. reflexivity.
      + left. constructor; assumption.
    - right. exists x, (a :: l1), l2, l3. reflexivity.
  Qed.

  (* every member of a chain spreads something, so it is a defined fragment *)
  Lemma xf_chain_defined v : forall b, xf_chain v b -> forall x, In x v -> In x (map fst frags).
  Proof.
    induction v as [|y r IH]; intros b H x Hx; [destruct Hx|].
    assert (He : exists z, fc_edge frags y z).
    { destruct r as [|z r']; [exists b; exact H|exists z; apply H]. }
    destruct Hx as [<-|Hx].
    - destruct He as [z He]. unfold fc_edge, fc_body in He. destruct (xv_assoc y frags) as [f|] eqn:E; [|destruct He].
      apply xv_assoc_in in E. apply in_map_iff. exists (y, f). auto.
    - destruct r as [|z r']; [destruct Hx|]. destruct H as [_ H]. exact (IH b H x Hx).
  Qed.

  (* a chain without repetition, with the same start *)
  Lemma xf_chain_simple : forall n v b, (length v <= n)%nat -> xf_chain v b ->
    exists v', xf_chain v' b /\ NoDup v' /\ hd_error v' = hd_error v.
  Proof.
    induction n as [|n IH]; intros v b Hn H.
    - destruct v; [destruct H|cbn in Hn; lia].
    - destruct (xf_dup_or_nodup v) as [Hnd|(x & l1 & l2 & l3 & ->)]; [exists v; auto|].
      pose proof (xf_chain_cut _ _ _ _ _ H) as Hc.
      destruct (IH (l1 ++ x :: l3) b) as (v' & H1 & H2 & H3); [|exact Hc|].
      + rewrite !app_length in *. cbn [length] in *. rewrite app_length in Hn. cbn [length] in Hn. lia.
      + exists v'. split; [exact H1|]. split; [exact H2|]. rewrite H3. destruct l1; reflexivity.
  Qed.

  (* ---------- the closure of Valid.v finds the end of every chain ---------- *)
  Notation step := (fun r : list str => xv_union r (xv_succ frags r)).

  Lemma xv_union_l a b x : In x a -> In x (xv_union a b).
  Proof.
    revert a. induction b as [|y b IH]; intros a H; cbn [xv_union]; [exact H|].
    destruct (xv_mem y a); apply IH; [exact H|apply in_or_app; left; exact H].
  Qed.

  Lemma xv_union_r a b x : In x b -> In x (xv_union a b).
  Proof.
    revert a. induction b as [|y b IH]; intros a H; [destruct H|]. cbn [xv_union]. destruct H as [<-|H].
    - destruct (xv_mem y a) eqn:M.
      + apply xv_union_l. apply xv_mem_In. exact M.
      + apply xv_union_l. apply in_or_app. right. left. reflexivity.
    - destruct (xv_mem y a); apply IH; exact H.
  Qed.

  Lemma xf_succ_edge r a b : In a r -> fc_edge frags a b -> In b (xv_succ frags r).
  Proof. intros Ha He. unfold xv_succ. apply in_flat_map. exists a. split; [exact Ha|exact He]. Qed.

  Lemma xf_iter_mono n : forall r x, In x r -> In x (xv_iter n step r).
  Proof. induction n as [|n IH]; intros r x H; cbn [xv_iter]; [exact H|]. apply IH. apply xv_union_l. exact H. Qed.

  Lemma xf_iter_add n k : forall r, xv_iter (n + k) step r = xv_iter k step (xv_iter n step r).
  Proof. induction n as [|n IH]; intros r; cbn [xv_iter Nat.add]; [reflexivity|]. apply IH. Qed.

  Lemma xf_iter_chain v : forall a b r, In a r -> xf_chain (a :: v) b -> In b (xv_iter (S (length v)) step r).
  Proof.
    induction v as [|m v IH]; intros a b r Ha H.
    - cbn [length xv_iter]. apply xv_union_r. exact (xf_succ_edge r a b Ha H).
    - destruct H as [H1 H2]. cbn [length]. change (xv_iter (S (S (length v))) step r) with (xv_iter (S (length v)) step (step r)).
      apply (IH m b); [|exact H2]. apply xv_union_r. exact (xf_succ_edge r a m Ha H1).
  Qed.

  Theorem xf_reach_complete init a b : In a init -> fc_reach frags a b -> In b (xv_reach frags init).
  Proof.
    intros Ha Hr. destruct (xf_reach_chain a b Hr) as [v Hv].
    destruct (xf_chain_simple (length (a :: v)) (a :: v) b (le_n _) Hv) as (v' & H1 & H2 & H3).
    destruct v' as [|a' v']; [destruct H1|]. cbn [hd_error] in H3. injection H3 as ->.
    assert (Hlen : (length (a :: v') <= length frags)%nat).
    { rewrite <- (map_length fst frags). apply NoDup_incl_length; [exact H2|]. intros x Hx. exact (xf_chain_defined _ _ H1 x Hx). }
    cbn [length] in Hlen. unfold xv_reach.
    replace (S (length frags)) with (S (length v') + (length frags - length v'))%nat by lia.
    rewrite xf_iter_add. apply xf_iter_mono. apply (xf_iter_chain v' a b); [|exact H1]. apply xv_union_r. exact Ha.
  Qed.
End Chains.

Definition xf_acyclic (frags : list (str * xv_frag)) : Prop := forall n, ~ fc_reach frags n n.

(* 5.5.2.2 as Valid.v computes it gives the declarative statement *)
Lemma xf_no_cycles d : xv_r_no_fragment_cycles d = true -> xf_acyclic (xv_frags d).
Proof.
  unfold xv_r_no_fragment_cycles. rewrite forallb_forall. intros H n Hc.
  destruct (fc_reach_defined _ _ _ Hc) as [f Ef]. specialize (H (n, f) (xv_assoc_in _ _ _ Ef)).
  apply negb_true_iff in H. unfold xv_frag_cyclic in H. cbn [fst snd] in H. apply xv_mem_false in H. apply H.
  inversion Hc as [a b He Ea Eb|a m b He Hr Ea Eb]; subst.
  - unfold fc_edge, fc_body in He. rewrite Ef in He. unfold xv_reach. apply xf_iter_mono. apply xv_union_r. exact He.
  - unfold fc_edge, fc_body in He. rewrite Ef in He. exact (xf_reach_complete _ _ m n He Hr).
Qed.

(* ---------- xv_collect never runs out of fuel ---------- *)
Section CollectTotal.
  Variable s : schema.
  Variable frags : list (str * xv_frag).
  Hypothesis Hac : xf_acyclic frags.

  Definition xf_path_ok (path : list str) (spreads : list str) : Prop :=
    NoDup path /\ (forall m, In m path -> In m (map fst frags)) /\
    (forall m n, In m path -> In n spreads -> fc_reach frags m n).

  Lemma xf_path_len path spreads : xf_path_ok path spreads -> (length path <= length frags)%nat.
  Proof. intros (H1 & H2 & _). rewrite <- (map_length fst frags). apply NoDup_incl_length; assumption. Qed.

  Lemma xf_path_enter path spreads n f : xf_path_ok path spreads -> In n spreads -> xv_assoc n frags = Some f ->
    xf_path_ok (path ++ [n]) (xv_spreads (xv_frag_sels f)).
  Proof.
    intros (H1 & H2 & H3) Hn Ef. split; [|split].
    - apply nodup_snoc; [exact H1|]. intros Hin. exact (Hac n (H3 n n Hin Hn)).
    - intros m Hm. apply in_app_or in Hm. destruct Hm as [Hm|[<-|[]]]; [exact (H2 m Hm)|].
      apply xv_assoc_in in Ef. apply in_map_iff. exists (n, f). auto.
    - intros m n' Hm Hn'. assert (He : fc_edge frags n n') by (unfold fc_edge, fc_body; rewrite Ef; exact Hn').
      apply in_app_or in Hm. destruct Hm as [Hm|[<-|[]]]; [|apply fcr_step; exact He].
      eapply fc_reach_snoc; [exact (H3 m n Hm Hn)|exact He].
  Qed.

  Lemma xf_path_sub path spreads spreads' : (forall n, In n spreads' -> In n spreads) -> xf_path_ok path spreads -> xf_path_ok path spreads'.
  Proof. intros Hi (H1 & H2 & H3). split; [exact H1|]. split; [exact H2|]. intros m n Hm Hn. apply H3; [exact Hm|apply Hi; exact Hn]. Qed.

  Lemma xf_collect_some_path : forall fuel path p sels, xf_path_ok path (xv_spreads sels) ->
    (length frags < fuel + length path)%nat -> xv_collect fuel s frags p sels <> None.
  Proof.
    induction fuel as [|fuel IH]; intros path p sels Hp Hf.
    - pose proof (xf_path_len _ _ Hp). lia.
    - rewrite xv_collect_S. apply opt_concat_map_total. intros x Hx.
      assert (Hpx : xf_path_ok path (xv_sel_spreads x)).
      { apply (xf_path_sub path (xv_spreads sels)); [|exact Hp]. intros n Hn. unfold xv_spreads. apply in_flat_map. exists x. auto. }
      clear Hx Hp. revert p Hpx.
      induction x as [a n args dirs sub IHx|n dirs|c dirs sub IHx] using selection_ind_nested; intros p Hpx; cbn [xvc_go].
      + destruct (xv_lookup_field s p n); discriminate.
      + destruct (xv_assoc n frags) as [f|] eqn:Ef; [|discriminate].
        apply (IH (path ++ [n])).
        * apply (xf_path_enter path (xv_sel_spreads (SSpread n dirs)) n f Hpx); [left; reflexivity|exact Ef].
        * rewrite app_length. cbn [length]. lia.
      + apply opt_concat_map_total. intros y Hy. rewrite Forall_forall in IHx. apply (IHx y Hy).
        apply (xf_path_sub path (xv_sel_spreads (SInline c dirs sub))); [|exact Hpx].
        intros n Hn. cbn [xv_sel_spreads]. apply in_flat_map. exists y. auto.
  Qed.

  Theorem xf_collect_some p sels : xv_collect (S (length frags)) s frags p sels <> None.
  Proof.
    apply (xf_collect_some_path (S (length frags)) [] p sels); [|cbn [length]; lia].
    split; [constructor|]. split; intros m; intros; contradiction.
  Qed.
End CollectTotal.

(* ---------- nesting height of fields, fragments expanded ---------- *)
Lemma xv_sels_depth_in y sub : In y sub -> (xv_sel_depth y <= xv_sels_depth sub)%nat.
Proof.
  unfold xv_sels_depth. induction sub as [|z r IH]; intros H; [destruct H|]. cbn [fold_right]. destruct H as [<-|H]; [lia|].
  specialize (IH H). lia.
Qed.

Lemma xv_sel_depth_field a n args dirs sub : xv_sel_depth (SField a n args dirs sub) = S (xv_sels_depth sub).
Proof. reflexivity. Qed.
Lemma xv_sel_depth_inline c dirs sub : xv_sel_depth (SInline c dirs sub) = S (xv_sels_depth sub).
Proof. reflexivity. Qed.

Section Height.
  Variable frags : list (str * xv_frag).

  (* every chain of nested fields below the selection, spreads followed, has at most n fields *)
  Inductive xh_le : nat -> selection -> Prop :=
  | xh_field n a nm args dirs sub : xh_les n sub -> xh_le (S n) (SField a nm args dirs sub)
  | xh_spread n nm dirs : (forall f, xv_assoc nm frags = Some f -> xh_les n (xv_frag_sels f)) -> xh_le n (SSpread nm dirs)
  | xh_inline n c dirs sub : xh_les n sub -> xh_le n (SInline c dirs sub)
  with xh_les : nat -> list selection -> Prop :=
  | xh_nil n : xh_les n []
  | xh_cons n x r : xh_le n x -> xh_les n r -> xh_les n (x :: r).

  Scheme xh_le_min := Minimality for xh_le Sort Prop
    with xh_les_min := Minimality for xh_les Sort Prop.

  Lemma xh_les_forall n l : xh_les n l <-> Forall (xh_le n) l.
  Proof.
    split.
    - intros H. induction l as [|x r IH]; [constructor|]. inversion H; subst. constructor; [assumption|apply IH; assumption].
    - intros H. induction H as [|x r Hx _ IH]; constructor; assumption.
  Qed.

  Lemma xh_les_in n l x : xh_les n l -> In x l -> xh_le n x.
  Proof. intros H. apply xh_les_forall in H. rewrite Forall_forall in H. apply H. Qed.

  Lemma xh_field_inv n a nm args dirs sub : xh_le n (SField a nm args dirs sub) -> exists n', n = S n' /\ xh_les n' sub.
  Proof. intros H. inversion H; subst. eexists. split; [reflexivity|assumption]. Qed.
  Lemma xh_spread_inv n nm dirs : xh_le n (SSpread nm dirs) -> forall f, xv_assoc nm frags = Some f -> xh_les n (xv_frag_sels f).
  Proof. intros H. inversion H; subst. assumption. Qed.
  Lemma xh_inline_inv n c dirs sub : xh_le n (SInline c dirs sub) -> xh_les n sub.
  Proof. intros H. inversion H; subst. assumption. Qed.

  Hypothesis Hac : xf_acyclic frags.
  Variable M : nat.
  Hypothesis HM : forall n f, xv_assoc n frags = Some f -> (xv_sels_depth (xv_frag_sels f) <= M)%nat.

  (* with k more fragments that can still be entered and selections written at most delta deep *)
  Definition xh_Q (k : nat) : Prop :=
    forall path sels delta n, xf_path_ok frags path (xv_spreads sels) -> (length frags <= length path + k)%nat ->
      (xv_sels_depth sels <= delta)%nat -> (k * S M + delta <= n)%nat -> xh_les n sels.

  Lemma xh_step k : (k = O \/ exists k', k = S k' /\ xh_Q k') -> xh_Q k.
  Proof.
    intros Hk path sels delta n Hp Hlen Hd Hn. apply xh_les_forall. apply Forall_forall. intros x Hx.
    assert (Hpx : xf_path_ok frags path (xv_sel_spreads x)).
    { apply (xf_path_sub frags path (xv_spreads sels)); [|exact Hp]. intros m Hm. unfold xv_spreads. apply in_flat_map. exists x. auto. }
    assert (Hdx : (xv_sel_depth x <= delta)%nat) by (pose proof (xv_sels_depth_in x sels Hx); lia).
    clear Hx Hp Hd. revert delta n Hpx Hdx Hn.
    induction x as [a nm args dirs sub IHx|nm dirs|c dirs sub IHx] using selection_ind_nested; intros delta n Hpx Hdx Hn.
    - rewrite xv_sel_depth_field in Hdx. destruct delta as [|delta]; [lia|]. destruct n as [|n]; [lia|].
      apply xh_field. apply xh_les_forall. apply Forall_forall. intros y Hy. rewrite Forall_forall in IHx.
      apply (IHx y Hy delta n).
      + apply (xf_path_sub frags path (xv_sel_spreads (SField a nm args dirs sub))); [|exact Hpx].
        intros m Hm. cbn [xv_sel_spreads]. apply in_flat_map. exists y. auto.
      + pose proof (xv_sels_depth_in y sub Hy). lia.
      + lia.
    - apply xh_spread. intros f Ef.
      pose proof (xf_path_enter frags Hac path _ nm f Hpx (or_introl eq_refl) Ef) as Hp'.
      pose proof (xf_path_len frags _ _ Hp') as Hl'. rewrite app_length in Hl'. cbn [length] in Hl'.
      destruct Hk as [->|(k' & -> & HQ)]; [lia|].
      apply (HQ (path ++ [nm]) (xv_frag_sels f) M n Hp').
      + rewrite app_length. cbn [length]. lia.
      + exact (HM nm f Ef).
      + cbn [Nat.mul] in Hn. lia.
    - rewrite xv_sel_depth_inline in Hdx. apply xh_inline. apply xh_les_forall. apply Forall_forall. intros y Hy.
      rewrite Forall_forall in IHx. apply (IHx y Hy delta n).
      + apply (xf_path_sub frags path (xv_sel_spreads (SInline c dirs sub))); [|exact Hpx].
        intros m Hm. cbn [xv_sel_spreads]. apply in_flat_map. exists y. auto.
      + pose proof (xv_sels_depth_in y sub Hy). lia.
      + exact Hn.
  Qed.

  Lemma xh_Q_all k : xh_Q k.
  Proof. induction k as [|k IH]; apply xh_step; [left; reflexivity|right; exists k; auto]. Qed.

  (* any selection list written at most M deep: at most (number of fragments) * (M + 1) + M fields on a chain *)
  Theorem xh_bound sels : (xv_sels_depth sels <= M)%nat -> xh_les (length frags * S M + M) sels.
  Proof.
    intros Hd. apply (xh_Q_all (length frags) [] sels M); [|cbn [length]; lia|exact Hd|lia].
    split; [constructor|]. split; intros m; intros; contradiction.
  Qed.

  (* ---------- the fields collected from a selection list have lower sub-selections ---------- *)
  Variable s : schema.

  Lemma xh_go_sub (R : str -> list selection -> option (list xv_cfield)) :
    (forall p sels L n, xh_les n sels -> R p sels = Some L -> forall c, In c L -> exists n', n = S n' /\ xh_les n' (xf_sub c)) ->
    forall x p out n, xh_le n x -> xvc_go R s frags p x = Some out ->
      forall c, In c out -> exists n', n = S n' /\ xh_les n' (xf_sub c).
  Proof.
    intros HR x. induction x as [a nm args dirs sub IHx|nm dirs|cnd dirs sub IHx] using selection_ind_nested;
      intros p out n Hx; cbn [xvc_go].
    - destruct (xv_lookup_field s p nm); intros [= <-] c Hc; [|destruct Hc]. destruct Hc as [<-|[]]. cbn [xf_sub].
      exact (xh_field_inv _ _ _ _ _ _ Hx).
    - destruct (xv_assoc nm frags) as [f|] eqn:Ef; [|intros [= <-] c []].
      intros E. exact (HR _ _ _ n (xh_spread_inv _ _ _ Hx f Ef) E).
    - intros E c Hc. destruct (opt_concat_map_some _ _ _ E) as [_ H2]. apply H2 in Hc. destruct Hc as (y & o & Hy & Ey & Hc).
      rewrite Forall_forall in IHx. exact (IHx y Hy _ o n (xh_les_in _ _ y (xh_inline_inv _ _ _ _ Hx) Hy) Ey c Hc).
  Qed.

  Lemma xh_collect_sub : forall fuel p sels L n, xh_les n sels -> xv_collect fuel s frags p sels = Some L ->
    forall c, In c L -> exists n', n = S n' /\ xh_les n' (xf_sub c).
  Proof.
    induction fuel as [|fuel IH]; intros p sels L n Hs; [discriminate|]. rewrite xv_collect_S. intros E c Hc.
    destruct (opt_concat_map_some _ _ _ E) as [_ H2]. apply H2 in Hc. destruct Hc as (x & o & Hx & Ex & Hc).
    exact (xh_go_sub _ IH x p o n (xh_les_in _ _ x Hs Hx) Ex c Hc).
  Qed.

  (* ---------- the specification's rule never runs out of fuel ---------- *)
  Notation cfuel := (S (length frags)).

  Lemma xv_all3_total {A} (f : A -> option bool) l : (forall x, In x l -> f x <> None) -> xv_all3 f l <> None.
  Proof.
    induction l as [|x l IH]; intros H; cbn [xv_all3]; [discriminate|].
    destruct (f x) as [a|] eqn:E; [|exfalso; exact (H x (or_introl eq_refl) E)].
    destruct (xv_all3 f l) as [b|] eqn:E'; [discriminate|]. exfalso. apply IH; [|reflexivity]. intros y Hy. apply H. right. exact Hy.
  Qed.

  Lemma xv_pairs3_total {A} (f : A -> A -> option bool) l : (forall x y, In x l -> In y l -> f x y <> None) -> xv_pairs3 f l <> None.
  Proof.
    induction l as [|x l IH]; intros H; cbn [xv_pairs3]; [discriminate|].
    destruct (xv_all3 (f x) l) as [a|] eqn:E.
    - destruct (xv_pairs3 f l) as [b|] eqn:E'; [discriminate|]. exfalso. apply IH; [|reflexivity].
      intros y z Hy Hz. apply H; right; assumption.
    - exfalso. revert E. apply xv_all3_total. intros y Hy. apply H; [left; reflexivity|right; exact Hy].
  Qed.

  Lemma xh_merged a b n : xh_les n (xf_sub a) -> xh_les n (xf_sub b) ->
    exists merged, xv_merged cfuel s frags a b = Some merged /\
      forall c, In c merged -> exists n', n = S n' /\ xh_les n' (xf_sub c).
  Proof.
    intros Ha Hb. unfold xv_merged.
    destruct (xv_collect cfuel s frags (inner_named_type (fd_ty (xf_def a))) (xf_sub a)) as [la|] eqn:Ea;
      [|exfalso; exact (xf_collect_some s frags Hac _ _ Ea)].
    destruct (xv_collect cfuel s frags (inner_named_type (fd_ty (xf_def b))) (xf_sub b)) as [lb|] eqn:Eb;
      [|exfalso; exact (xf_collect_some s frags Hac _ _ Eb)].
    exists (la ++ lb). split; [reflexivity|]. intros c Hc. apply in_app_or in Hc. destruct Hc as [Hc|Hc].
    - exact (xh_collect_sub _ _ _ _ n Ha Ea c Hc).
    - exact (xh_collect_sub _ _ _ _ n Hb Eb c Hc).
  Qed.

  Lemma xh_same_shape_some : forall fuel n a b, (n < fuel)%nat -> xh_les n (xf_sub a) -> xh_les n (xf_sub b) ->
    xv_same_shape fuel cfuel s frags a b <> None.
  Proof.
    induction fuel as [|fuel IH]; intros n a b Hn Ha Hb; [lia|]. cbn [xv_same_shape].
    destruct (xv_shape_types s (fd_ty (xf_def a)) (fd_ty (xf_def b))) as [[na nb]|]; [|discriminate].
    destruct (sch_get_type s na); [|discriminate]. destruct (sch_get_type s nb); [|discriminate].
    destruct (xv_is_leaf e || xv_is_leaf e0); [discriminate|]. destruct (xv_is_composite e && xv_is_composite e0); [|discriminate].
    destruct (xh_merged a b n Ha Hb) as (merged & Em & Hsub). rewrite Em. apply xv_pairs3_total. intros x y Hx Hy.
    destruct (streq (xf_key x) (xf_key y)); [|discriminate].
    destruct (Hsub x Hx) as (n' & -> & Hx'). destruct (Hsub y Hy) as (n'' & E & Hy'). injection E as <-.
    apply (IH n'); [lia|exact Hx'|exact Hy'].
  Qed.

  Lemma xh_can_merge_some : forall fuel n L, (n + 2 <= fuel)%nat -> (forall c, In c L -> xh_les n (xf_sub c)) ->
    xv_can_merge fuel cfuel s frags L <> None.
  Proof.
    induction fuel as [|fuel IH]; intros n L Hn HL; [lia|]. cbn [xv_can_merge]. apply xv_pairs3_total. intros a b Ha Hb.
    destruct (streq (xf_key a) (xf_key b)); [|discriminate].
    pose proof (xh_same_shape_some fuel n a b ltac:(lia) (HL a Ha) (HL b Hb)) as Hss.
    destruct (xv_same_shape fuel cfuel s frags a b) as [r1|]; [|exfalso; apply Hss; reflexivity].
    destruct (streq (xf_parent a) (xf_parent b) || negb (xv_object_name s (xf_parent a)) || negb (xv_object_name s (xf_parent b)));
      [|discriminate].
    destruct (streq (xf_name a) (xf_name b) && xv_args_same (xf_args a) (xf_args b)); [|discriminate].
    destruct (xh_merged a b n (HL a Ha) (HL b Hb)) as (merged & Em & Hsub). rewrite Em.
    destruct merged as [|c0 mr] eqn:Emr.
    - destruct fuel as [|fuel']; [lia|]. cbn [xv_can_merge xv_pairs3 xv_and3]. discriminate.
    - rewrite <- Emr in *. destruct (Hsub c0 ltac:(rewrite Emr; left; reflexivity)) as (n' & -> & _).
      assert (Hm : xv_can_merge fuel cfuel s frags merged <> None).
      { apply (IH n'); [lia|]. intros c Hc. destruct (Hsub c Hc) as (n'' & E & Hc'). injection E as <-. exact Hc'. }
      destruct (xv_can_merge fuel cfuel s frags merged); [discriminate|exfalso; apply Hm; reflexivity].
  Qed.
End Height.

(* ---------- the document: the specification's verdict is defined ---------- *)
Lemma xf_fold_max_in (l : list nat) x : In x l -> (x <= fold_right Nat.max O l)%nat.
Proof. induction l as [|y l IH]; intros H; [destruct H|]. cbn [fold_right]. destruct H as [<-|H]; [lia|]. specialize (IH H). lia. Qed.

Definition xf_doc_depth (d : document) : nat :=
  fold_right Nat.max O (map (fun o => xv_sels_depth (xo_sels o)) (xv_ops d)
                        ++ map (fun nf => xv_sels_depth (xv_frag_sels (snd nf))) (xv_frags d)).

Lemma xf_merge_fuel d : xv_merge_fuel d = S (S (length (xv_frags d)) * S (xf_doc_depth d)).
Proof. reflexivity. Qed.

Lemma xv_sel_sets_depth s x : forall p q qs, In (q, qs) (xv_sel_sets s p x) -> (S (xv_sels_depth qs) <= xv_sel_depth x)%nat.
Proof.
  induction x as [a n args dirs sub IH|n dirs|c dirs sub IH] using selection_ind_nested; intros p q qs Hin; cbn [xv_sel_sets] in Hin.
  - destruct sub as [|y0 r0] eqn:Esub; [destruct Hin|]. rewrite <- Esub in *. rewrite xv_sel_depth_field. destruct Hin as [E|Hin].
    + injection E as <- <-. lia.
    + apply in_flat_map in Hin. destruct Hin as (y & Hy & Hin). rewrite Forall_forall in IH. specialize (IH y Hy _ _ _ Hin).
      pose proof (xv_sels_depth_in y sub Hy). lia.
  - destruct Hin.
  - cbn zeta in Hin. rewrite xv_sel_depth_inline. destruct Hin as [E|Hin].
    + injection E as <- <-. lia.
    + apply in_flat_map in Hin. destruct Hin as (y & Hy & Hin). rewrite Forall_forall in IH. specialize (IH y Hy _ _ _ Hin).
      pose proof (xv_sels_depth_in y sub Hy). lia.
Qed.

Lemma xf_sets_depth s p sels q qs : In (q, qs) ((p, sels) :: flat_map (xv_sel_sets s p) sels) ->
  (xv_sels_depth qs <= xv_sels_depth sels)%nat.
Proof.
  intros [E|Hin]; [injection E as <- <-; lia|]. apply in_flat_map in Hin. destruct Hin as (y & Hy & Hin).
  pose proof (xv_sel_sets_depth s y _ _ _ Hin). pose proof (xv_sels_depth_in y sels Hy). lia.
Qed.

Lemma xf_all_sets_depth s d q qs : In (q, qs) (xv_all_sel_sets s d) -> (xv_sels_depth qs <= xf_doc_depth d)%nat.
Proof.
  intros Hin. unfold xv_all_sel_sets in Hin. apply in_app_or in Hin. destruct Hin as [Hin|Hin].
  - apply in_flat_map in Hin. destruct Hin as (o & Ho & Hin). cbn zeta in Hin. pose proof (xf_sets_depth _ _ _ _ _ Hin) as H1.
    assert (H2 : (xv_sels_depth (xo_sels o) <= xf_doc_depth d)%nat).
    { apply xf_fold_max_in. apply in_or_app. left. apply in_map_iff. exists o. auto. }
    lia.
  - apply in_flat_map in Hin. destruct Hin as ([n f] & Hnf & Hin). cbn zeta in Hin. cbn [snd] in Hin.
    pose proof (xf_sets_depth _ _ _ _ _ Hin) as H1.
    assert (H2 : (xv_sels_depth (xv_frag_sels f) <= xf_doc_depth d)%nat).
    { apply xf_fold_max_in. apply in_or_app. right. apply in_map_iff. exists (n, f). auto. }
    lia.
Qed.

Lemma xf_frag_depth d n f : xv_assoc n (xv_frags d) = Some f -> (xv_sels_depth (xv_frag_sels f) <= xf_doc_depth d)%nat.
Proof.
  intros E. apply xv_assoc_in in E. apply xf_fold_max_in. apply in_or_app. right. apply in_map_iff. exists (n, f). auto.
Qed.

(* the bound on the nesting height of the document *)
Definition xf_doc_height (d : document) : nat := (length (xv_frags d) * S (xf_doc_depth d) + xf_doc_depth d)%nat.

Lemma xf_doc_height_fuel d : (xf_doc_height d + 2 = xv_merge_fuel d)%nat.
Proof. rewrite xf_merge_fuel. unfold xf_doc_height. cbn [Nat.mul]. lia. Qed.

(* with acyclic fragments the specification's evaluation of 5.3.2 never runs out of its fuel *)
Theorem xf_verdict_defined s d : xv_r_no_fragment_cycles d = true -> xv_merge_out_of_fuel s d = false.
Proof.
  intros Hc. pose proof (xf_no_cycles d Hc) as Hac. unfold xv_merge_out_of_fuel, xv_merge_verdict. rewrite Hc.
  match goal with |- match ?v with _ => _ end = false => destruct v as [r|] eqn:E end; [reflexivity|]. exfalso. revert E.
  apply xv_all3_total. intros [q qs] Hin. destruct q as [p|]; [|discriminate].
  destruct (xv_collect (S (length (xv_frags d))) s (xv_frags d) p qs) as [fields|] eqn:Ec;
    [|exfalso; exact (xf_collect_some s (xv_frags d) Hac _ _ Ec)].
  pose proof (xf_all_sets_depth s d _ _ Hin) as Hd.
  pose proof (xh_bound (xv_frags d) Hac (xf_doc_depth d) (xf_frag_depth d) qs Hd) as Hh. fold (xf_doc_height d) in Hh.
  apply (xh_can_merge_some (xv_frags d) Hac (xf_doc_depth d) (xf_frag_depth d) s (xv_merge_fuel d) (pred (xf_doc_height d))).
  - pose proof (xf_doc_height_fuel d). lia.
  - intros c Hcin. destruct (xh_collect_sub (xv_frags d) s _ _ _ _ _ Hh Ec c Hcin) as (n' & E & Hsub). rewrite E. exact Hsub.
Qed.

(* ---------- the same height on the executable document, and the depth of the walk ---------- *)
Section MxHeight.
  Variable mfrags : list (str * mx_set).

  Inductive mxh_le : nat -> mx_sel -> Prop :=
  | mxh_field n a nm args dirs def sty sub : mxh_les n sub -> mxh_le (S n) (MxField a nm args dirs def sty sub)
  | mxh_spread n nm dirs : (forall st, xv_assoc nm mfrags = Some st -> mxh_les n (snd st)) -> mxh_le n (MxSpread nm dirs)
  | mxh_inline n c dirs sty sub : mxh_les n sub -> mxh_le n (MxInline c dirs sty sub)
  with mxh_les : nat -> list mx_sel -> Prop :=
  | mxh_nil n : mxh_les n []
  | mxh_cons n x r : mxh_le n x -> mxh_les n r -> mxh_les n (x :: r).

  Lemma mxh_les_in n l x : mxh_les n l -> In x l -> mxh_le n x.
  Proof. intros H. induction H as [|n y r Hy _ IH]; intros Hx; [destruct Hx|]. destruct Hx as [<-|Hx]; [exact Hy|exact (IH Hx)]. Qed.

  Lemma mxh_les_app n a b : mxh_les n a -> mxh_les n b -> mxh_les n (a ++ b).
  Proof. intros Ha Hb. induction Ha as [|n x r Hx _ IH]; [exact Hb|]. cbn [app]. constructor; [exact Hx|exact (IH Hb)]. Qed.

  Lemma mxh_reach n sets : (forall st, In st sets -> mxh_les n (snd st)) ->
    forall st, mxe_reach mfrags sets st -> mxh_les n (snd st).
  Proof.
    intros H st R. induction R as [st Hin|ty sels c dirs sty sub _ IH Hin|ty sels nm dirs st _ IH Hin Ha].
    - exact (H st Hin).
    - cbn [snd] in *. pose proof (mxh_les_in _ _ _ IH Hin) as Hx. inversion Hx; subst. assumption.
    - cbn [snd] in IH. pose proof (mxh_les_in _ _ _ IH Hin) as Hx. inversion Hx as [| ? ? ? Hs |]; subst. exact (Hs st Ha).
  Qed.

  Lemma mxh_coll n sets f : (forall st, In st sets -> mxh_les n (snd st)) -> mxe_coll mfrags sets f ->
    exists n', n = S n' /\ mxh_les n' (mf_sub f).
  Proof.
    intros H (ty & sels & R & Hf). pose proof (mxh_reach n sets H _ R) as Hs. cbn [snd] in Hs.
    apply mxe_fields_in in Hf. destruct Hf as (a & nm & args & dirs & def & sty & sub & Hx & ->). cbn [mf_sub].
    pose proof (mxh_les_in _ _ _ Hs Hx) as Hx'. inversion Hx'; subst. eexists. split; [reflexivity|assumption].
  Qed.

  Variable parts : list mx_fs -> list (list mx_fs).
  Variable rel : mx_fs -> mx_fs -> bool.
  Hypothesis parts_sub : forall L g x, In g (parts L) -> In x g -> In x L.

  Lemma mxh_walk_nil : forall fuel depth st st', mxn_walk parts rel mfrags fuel depth st [] = Some st' -> snd st' = snd st.
  Proof.
    intros fuel depth st st'. destruct fuel as [|fuel]; cbn [mxn_walk]; [discriminate|].
    assert (Hg : forall g, In g (parts []) -> g = []).
    { intros g Hg. destruct g as [|x g]; [reflexivity|]. exfalso. exact (parts_sub [] _ x Hg (or_introl eq_refl)). }
    revert Hg. generalize (parts []). intros ps. revert st. induction ps as [|g ps IH]; intros st Hg; cbn [mxn_fold].
    - intros [= <-]. reflexivity.
    - rewrite (Hg g (or_introl eq_refl)). unfold mxn_step at 1. cbn [mx_nested_sets filter map]. intros E.
      rewrite (IH _ (fun g' H' => Hg g' (or_intror H')) E). reflexivity.
  Qed.

  (* the high water mark stays below the depth of the call plus the nesting height of the set *)
  Lemma mxh_walk_hi : forall fuel depth st L st' n, (forall f, In f L -> mxh_les n (mf_sub f)) ->
    mxn_walk parts rel mfrags fuel depth st L = Some st' -> (snd st' <= Nat.max (snd st) (depth + n + 1))%nat.
  Proof.
    induction fuel as [|fuel IH]; intros depth st L st' n HL; cbn [mxn_walk]; [discriminate|].
    assert (Hps : forall g, In g (parts L) -> forall f, In f g -> mxh_les n (mf_sub f)).
    { intros g Hg f Hf. apply HL. eapply parts_sub; eassumption. }
    revert Hps. generalize (parts L). intros ps. revert st. induction ps as [|g ps IHps]; intros st Hps; cbn [mxn_fold].
    - intros [= <-]. lia.
    - destruct (mxn_step rel mfrags (mxn_walk parts rel mfrags fuel) depth st g) as [st1|] eqn:E1; [|discriminate].
      intros E. specialize (IHps st1 (fun g' H' => Hps g' (or_intror H')) E).
      assert (H1 : (snd st1 <= Nat.max (snd st) (depth + n + 1))%nat); [|lia].
      revert E1. unfold mxn_step. destruct (mx_nested_sets g) as [|n0 nr] eqn:En; [intros [= <-]; cbn; lia|]. rewrite <- En.
      destruct (mx_expand mfrags (mx_nested_sets g)) as [merged|] eqn:Ex; [|discriminate].
      unfold mxn_enter, mxn_and_ok. cbn [fst snd]. destruct (Nat.ltb mx_field_depth_limit (S depth)); [intros [= <-]; cbn [snd]; lia|].
      intros E1. destruct merged as [|x0 mr] eqn:Em.
      + apply mxh_walk_nil in E1. cbn [snd] in E1. lia.
      + rewrite <- Em in *.
        assert (Hmem : forall x, In x merged -> exists n', n = S n' /\ mxh_les n' (mf_sub x)).
        { intros x Hx. apply (mxe_expand_coll mfrags _ _ Ex) in Hx. apply (mxh_coll n (mx_nested_sets g)); [|exact Hx].
          intros st0 H0. unfold mx_nested_sets in H0. apply in_map_iff in H0. destruct H0 as (f & <- & Hf).
          apply filter_In in Hf. cbn [snd]. apply (Hps g (or_introl eq_refl)). apply Hf. }
        destruct (Hmem x0 ltac:(rewrite Em; left; reflexivity)) as (n' & -> & _).
        assert (HL' : forall f, In f merged -> mxh_les n' (mf_sub f)).
        { intros f Hf. destruct (Hmem f Hf) as (n'' & E' & H'). injection E' as <-. exact H'. }
        specialize (IH _ _ _ _ n' HL' E1). cbn [snd] in IH. lia.
  Qed.
End MxHeight.

Lemma mxn_shape_parts_sub : forall L g x, In g (mxn_shape_parts L) -> In x g -> In x L.
Proof.
  intros L g x Hg Hx. unfold mxn_shape_parts in Hg. apply in_map_iff in Hg. destruct Hg as ([k g'] & <- & Hkg).
  cbn [snd] in Hx. rewrite (gbon_in _ _ _ Hkg) in Hx. apply filter_In in Hx. apply Hx.
Qed.

Lemma mxn_parents_parts_sub s : forall L g x, In g (mxn_parents_parts s L) -> In x g -> In x L.
Proof.
  intros L g x Hg Hx. unfold mxn_parents_parts in Hg. apply in_flat_map in Hg. destruct Hg as ([k g'] & Hkg & Hpg).
  cbn [snd] in Hpg. pose proof (gbcp_incl s g' g x Hpg Hx) as Hx'. rewrite (gbon_in _ _ _ Hkg) in Hx'. apply filter_In in Hx'. apply Hx'.
Qed.

(* one operation: the high water mark stays below the nesting height of the root set *)
Lemma mxh_validate_hi s mfrags st (root : mx_set) st' H : mxh_les mfrags H (snd root) ->
  mxn_validate_operation s mfrags st root = Some st' -> (snd st' <= Nat.max (snd st) H)%nat.
Proof.
  intros Hroot. unfold mxn_validate_operation. destruct (mx_expand mfrags [root]) as [fields|] eqn:Ex; [|discriminate].
  rewrite mxn_shape_walk.
  destruct (mxn_walk mxn_shape_parts (mx_same_output_type_shape s) mfrags mx_fuel 0 st fields) as [st1|] eqn:E1; [|discriminate].
  rewrite mxn_parents_walk.
  destruct (mxn_walk (mxn_parents_parts s) mx_same_name_and_arguments mfrags mx_fuel 0 st1 fields) as [st2|] eqn:E2; [|discriminate].
  intros [= <-]. cbn [mxn_and_ok snd]. destruct fields as [|x0 fr] eqn:Ef.
  - apply (mxh_walk_nil mfrags _ _ mxn_shape_parts_sub) in E1. apply (mxh_walk_nil mfrags _ _ (mxn_parents_parts_sub s)) in E2. lia.
  - rewrite <- Ef in *.
    assert (Hmem : forall x, In x fields -> exists n', H = S n' /\ mxh_les mfrags n' (mf_sub x)).
    { intros x Hx. apply (mxe_expand_coll mfrags _ _ Ex) in Hx. apply (mxh_coll mfrags H [root]); [|exact Hx].
      intros st0 [<-|[]]. exact Hroot. }
    destruct (Hmem x0 ltac:(rewrite Ef; left; reflexivity)) as (n' & -> & _).
    assert (HL : forall f, In f fields -> mxh_les mfrags n' (mf_sub f)).
    { intros f Hf. destruct (Hmem f Hf) as (n'' & E' & H'). injection E' as <-. exact H'. }
    pose proof (mxh_walk_hi mfrags _ _ mxn_shape_parts_sub _ _ _ _ _ n' HL E1) as B1.
    pose proof (mxh_walk_hi mfrags _ _ (mxn_parents_parts_sub s) _ _ _ _ _ n' HL E2) as B2. lia.
Qed.

(* the heights of the parsed selections carry over to the built ones *)
Section HeightTransfer.
  Variable s : schema.
  Variable afrags : list (str * xv_frag).
  Variable mfrags : list (str * mx_set).
  Hypothesis Hassoc : forall n, xv_assoc n mfrags =
    option_map (fun f => (xv_frag_cond f, mx_from_ast s (xv_frag_cond f) (xv_frag_sels f))) (xv_assoc n afrags).

  Lemma mxh_from_ast_sel n x : xh_le afrags n x -> forall p, mxh_les mfrags n (mx_from_ast_sel s p x).
  Proof.
    intros H. revert n x H.
    apply (xh_le_min afrags (fun n x => forall p, mxh_les mfrags n (mx_from_ast_sel s p x))
                            (fun n l => forall p, mxh_les mfrags n (mx_from_ast s p l))).
    - intros n a nm args dirs sub _ IH p. cbn [mx_from_ast_sel]. destruct (xv_lookup_field s p nm) as [fd|]; [|constructor].
      assert (Hgen : mxh_les mfrags (S n) [MxField a nm args dirs fd (inner_named_type (fd_ty fd))
                                              (flat_map (mx_from_ast_sel s (inner_named_type (fd_ty fd))) sub)]).
      { constructor; [|constructor]. constructor. exact (IH (inner_named_type (fd_ty fd))). }
      assert (Hleaf : mxh_les mfrags (S n) (if xv_is_nil sub then [MxField a nm args dirs fd (inner_named_type (fd_ty fd)) []] else [])).
      { destruct (xv_is_nil sub); [|constructor]. constructor; [|constructor]. constructor. constructor. }
      destruct (sch_get_type s (inner_named_type (fd_ty fd))) as [t|]; [|exact Hgen]. destruct t; try exact Hgen; exact Hleaf.
    - intros n nm dirs _ IH p. cbn [mx_from_ast_sel]. constructor; [|constructor]. constructor. intros st Ha.
      rewrite Hassoc in Ha. destruct (xv_assoc nm afrags) as [f|] eqn:Ef; [|discriminate]. cbn [option_map] in Ha. injection Ha as <-.
      cbn [snd]. exact (IH f eq_refl (xv_frag_cond f)).
    - intros n c dirs sub _ IH p. cbn [mx_from_ast_sel]. destruct c as [c'|].
      + destruct (xv_is_some (sch_get_type s c')); [|constructor]. constructor; [|constructor]. constructor. exact (IH c').
      + constructor; [|constructor]. constructor. exact (IH p).
    - intros n p. constructor.
    - intros n x r _ IHx _ IHr p. unfold mx_from_ast. cbn [flat_map]. apply mxh_les_app; [exact (IHx p)|exact (IHr p)].
  Qed.

  Lemma mxh_from_ast n sels p : xh_les afrags n sels -> mxh_les mfrags n (mx_from_ast s p sels).
  Proof.
    intros H. induction H as [|n x r Hx _ IH]; [constructor|]. unfold mx_from_ast. cbn [flat_map].
    apply mxh_les_app; [exact (mxh_from_ast_sel n x Hx p)|exact IH].
  Qed.
End HeightTransfer.

(* ---------- the document: the walk stays below the nesting height bound ---------- *)
Lemma xf_document_hi s d b hi : xv_r_no_fragment_cycles d = true ->
  (forall k f, In (k, f) (xv_frags d) -> xv_is_some (sch_get_type s (xv_frag_cond f)) = true) ->
  mxn_document s d = Some (b, hi) -> (hi <= xf_doc_height d)%nat.
Proof.
  intros Hc Hconds. pose proof (xf_no_cycles d Hc) as Hac. rewrite mxn_document_fold.
  assert (Hassoc : forall n, xv_assoc n (mx_fragments s (xv_frags d) []) =
            option_map (fun f => (xv_frag_cond f, mx_from_ast s (xv_frag_cond f) (xv_frag_sels f))) (xv_assoc n (xv_frags d))).
  { intros n. rewrite (mx_fragments_assoc s (xv_frags d) [] n Hconds). reflexivity. }
  assert (Hfold : forall ops, incl ops (xv_ops d) -> forall st st', (snd st <= xf_doc_height d)%nat ->
            fold_left (mxd_stepn s d) ops (Some st) = Some st' -> (snd st' <= xf_doc_height d)%nat).
  { induction ops as [|o ops IH]; intros Hincl st st' Hst; cbn [fold_left]; [intros [= <-]; exact Hst|].
    unfold mxd_stepn at 2. destruct (xv_root s (xo_type o)) as [r|]; [|apply IH; [intros x Hx; apply Hincl; right; exact Hx|exact Hst]].
    destruct (mxn_validate_operation s (mx_fragments s (xv_frags d) []) st (r, mx_from_ast s r (xo_sels o))) as [st1|] eqn:E;
      [|rewrite mxd_foldn_none; discriminate].
    apply IH; [intros x Hx; apply Hincl; right; exact Hx|].
    assert (Hd : (xv_sels_depth (xo_sels o) <= xf_doc_depth d)%nat).
    { apply xf_fold_max_in. apply in_or_app. left. apply in_map_iff. exists o. split; [reflexivity|apply Hincl; left; reflexivity]. }
    pose proof (xh_bound (xv_frags d) Hac (xf_doc_depth d) (xf_frag_depth d) (xo_sels o) Hd) as Hh. fold (xf_doc_height d) in Hh.
    pose proof (mxh_from_ast s (xv_frags d) _ Hassoc _ _ r Hh) as Hm.
    pose proof (mxh_validate_hi s _ st (r, mx_from_ast s r (xo_sels o)) st1 (xf_doc_height d) Hm E). lia. }
  intros E. exact (Hfold (xv_ops d) (incl_refl _) mxn_initial (b, hi) (Nat.le_0_l _) E).
Qed.

(* goals 2-4 at full strength: over a schema whose field types are defined and whose root operation types are
   composite, for a document that passes the other rules named here and is within apollo-compiler's limits as
   Valid.v states them (xv_within_limits), the literal field-merging algorithm of selection.rs gives exactly the
   verdict of the specification's FieldsInSetCanMerge rule (5.3.2) *)
Theorem xing_equiv_full s d :
  xr_schema_ok s ->
  xv_r_fields_defined s d = true -> xv_r_leaf_selections s d = true -> xv_r_argument_unique s d = true ->
  xv_r_input_field_unique s d = true -> xv_r_fragment_type_exists s d = true -> xv_r_fragment_on_composite s d = true ->
  xv_r_root_operation_defined xv_apollo_params s d = true ->
  xv_r_fragment_name_unique d = true -> xv_r_fragments_used d = true -> xv_r_no_fragment_cycles d = true ->
  xv_within_limits d = true ->
  mx_document_ok s d = Some (xv_r_fields_merge s d).
Proof.
  intros Hs R1 R2 R3 R4 R5 R6 R7 R8 R9 R10 Hlim.
  destruct (mxn_document s d) as [[b hi]|] eqn:En; [|exfalso; exact (mxn_document_some s d En)].
  assert (Hconds : forall k f, In (k, f) (xv_frags d) -> xv_is_some (sch_get_type s (xv_frag_cond f)) = true).
  { intros k f Hkf. unfold xv_r_fragment_type_exists in R5. rewrite forallb_forall in R5. apply R5.
    unfold xv_type_conditions. apply in_or_app. left. apply in_map_iff. exists (k, f). auto. }
  pose proof (xf_document_hi s d b hi R10 Hconds En) as Hhi.
  unfold xv_within_limits in Hlim. apply andb_true_iff in Hlim. destruct Hlim as [_ Hlim]. apply Nat.leb_le in Hlim.
  pose proof (xf_doc_height_fuel d) as Hf.
  apply (xing_equiv_rules s d b hi Hs R1 R2 R3 R4 R5 R6 R7 R8 R9 R10 (xf_verdict_defined s d R10) En).
  unfold mx_field_depth_limit. lia.
Qed.

Theorem xing_equiv_nomemo_full s d b hi :
  xr_schema_ok s ->
  xv_r_fields_defined s d = true -> xv_r_leaf_selections s d = true -> xv_r_argument_unique s d = true ->
  xv_r_input_field_unique s d = true -> xv_r_fragment_type_exists s d = true -> xv_r_fragment_on_composite s d = true ->
  xv_r_root_operation_defined xv_apollo_params s d = true ->
  xv_r_fragment_name_unique d = true -> xv_r_fragments_used d = true -> xv_r_no_fragment_cycles d = true ->
  xv_within_limits d = true ->
  mxn_document s d = Some (b, hi) -> b = xv_r_fields_merge s d /\ (hi <= mx_field_depth_limit)%nat.
Proof.
  intros Hs R1 R2 R3 R4 R5 R6 R7 R8 R9 R10 Hlim En.
  assert (Hconds : forall k f, In (k, f) (xv_frags d) -> xv_is_some (sch_get_type s (xv_frag_cond f)) = true).
  { intros k f Hkf. unfold xv_r_fragment_type_exists in R5. rewrite forallb_forall in R5. apply R5.
    unfold xv_type_conditions. apply in_or_app. left. apply in_map_iff. exists (k, f). auto. }
  pose proof (xf_document_hi s d b hi R10 Hconds En) as Hhi.
  unfold xv_within_limits in Hlim. apply andb_true_iff in Hlim. destruct Hlim as [_ Hlim]. apply Nat.leb_le in Hlim.
  pose proof (xf_doc_height_fuel d) as Hf.
  assert (Hl : (hi <= mx_field_depth_limit)%nat) by (unfold mx_field_depth_limit; lia).
  split; [|exact Hl].
  exact (xing_equiv_nomemo_rules s d b hi Hs R1 R2 R3 R4 R5 R6 R7 R8 R9 R10 (xf_verdict_defined s d R10) En Hl).
Qed.
