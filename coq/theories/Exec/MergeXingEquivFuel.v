(* C17 deepening, part 9: acyclic fragments: the fuels suffice and the depth stays within the limit.
   - xf_reach_complete: xv_reach (Valid.v: S (length frags) rounds of closure) contains everything a spread path
     reaches; so xv_r_no_fragment_cycles gives the declarative acyclicity (xf_acyclic: no fc_reach n n).
   - xf_collect_some: with acyclic fragments xv_collect never runs out of its fuel S (length frags).
   Proofs only; nothing here is extracted. *)
From ApolloVerif Require Import Base.Chars Ast.Ast Schema.Model Exec.Valid Exec.MergeXing Exec.FragCyclesProofs
  Exec.MergeXingProofs Exec.MergeXingEquivExpand Exec.MergeXingEquivBridge Exec.MergeXingEquivSem
  Exec.MergeXingEquivSpec Exec.MergeXingEquivKeys Exec.MergeXingEquivMemo Exec.MergeXingEquivDoc Exec.MergeXingEquivRules.
From Coq Require Import Arith PeanoNat Lia.

(* ---------- chains of spreads ---------- *)
Section Chains.
  Variable frags : list (str * xv_frag).

  (* v = [v0; ..; vk] and v0 -> v1 -> .. -> vk -> b *)
  Fixpoint xf_chain (v : list str) (b : str) : Prop :=
    match v with
    | [] => False
    | x :: r => match r with [] => fc_edge frags x b | y :: _ => fc_edge frags x y /\ xf_chain r b end
    end.

  Lemma xf_chain_cons x y r b : xf_chain (x :: y :: r) b <-> fc_edge frags x y /\ xf_chain (y :: r) b.
  Proof. reflexivity. Qed.

  Lemma xf_reach_chain a b : fc_reach frags a b -> exists v, xf_chain (a :: v) b.
  Proof.
    intros H. induction H as [a b H|a m b H _ [v IH]].
    - exists []. exact H.
    - exists (m :: v). split; assumption.
  Qed.

  Lemma xf_chain_reach v : forall a b, xf_chain (a :: v) b -> fc_reach frags a b.
  Proof.
    induction v as [|m v IH]; intros a b H.
    - apply fcr_step. exact H.
    - destruct H as [H1 H2]. eapply fcr_trans; [exact H1|]. apply IH. exact H2.
  Qed.

  (* a suffix of a chain is a chain *)
  Lemma xf_chain_suffix l1 : forall x l2 b, xf_chain (l1 ++ x :: l2) b -> xf_chain (x :: l2) b.
  Proof.
    induction l1 as [|y l1 IH]; intros x l2 b H; [exact H|]. cbn [app] in H.
    destruct (l1 ++ x :: l2) as [|z r] eqn:E; [destruct l1; discriminate|]. destruct H as [_ H]. rewrite <- E in H. exact (IH x l2 b H).
  Qed.

  (* cutting a loop out of a chain *)
  Lemma xf_chain_cut l1 : forall x l2 l3 b, xf_chain (l1 ++ x :: l2 ++ x :: l3) b -> xf_chain (l1 ++ x :: l3) b.
  Proof.
    induction l1 as [|y l1 IH]; intros x l2 l3 b H.
    - cbn [app] in *. change (x :: l2 ++ x :: l3) with ((x :: l2) ++ x :: l3) in H. exact (xf_chain_suffix _ _ _ _ H).
    - cbn [app] in *. destruct l1 as [|z l1].
      + cbn [app] in *. destruct H as [H1 H2]. split; [exact H1|]. exact (IH x l2 l3 b H2).
      + cbn [app] in *. destruct H as [H1 H2]. split; [exact H1|]. exact (IH x l2 l3 b H2).
  Qed.

  Lemma xf_dup_or_nodup (l : list str) : NoDup l \/ exists x l1 l2 l3, l = l1 ++ x :: l2 ++ x :: l3.
  Proof.
    induction l as [|a r IH]; [left; constructor|]. destruct IH as [IH|(x & l1 & l2 & l3 & ->)].
    - destruct (in_dec (list_eq_dec N.eq_dec) a r) as [Hin|Hin].
      + right. apply in_split in Hin. destruct Hin as (l2 & l3 & ->). exists a, [], l2, l3. reflexivity.
      + left. constructor; assumption.
    - right. exists x, (a :: l1), l2, l3. reflexivity.
  Qed.

  (* every member of a chain spreads something, so it is a defined fragment *)
  Lemma xf_chain_defined v : forall b, xf_chain v b -> forall x, In x v -> In x (map fst frags).
  Proof.
    induction v as [|y r IH]; intros b H x Hx; [destruct Hx|].
    assert (He : exists z, fc_edge frags y z).
    { destruct r as [|z r']; [exists b; exact H|exists z; apply H]. }
    destruct Hx as [<-|Hx].
    - destruct He as [z He]. unfold fc_edge, fc_body in He. destruct (xv_assoc y frags) as [f|] eqn:E; [|destruct He].
      apply xv_assoc_in in E. apply in_map_iff. exists (y, f). auto.
    - destruct r as [|z r']; [destruct Hx|]. destruct H as [_ H]. exact (IH b H x Hx).
  Qed.

  (* a chain without repetition, with the same start *)
  Lemma xf_chain_simple : forall n v b, (length v <= n)%nat -> xf_chain v b ->
    exists v', xf_chain v' b /\ NoDup v' /\ hd_error v' = hd_error v.
  Proof.
    induction n as [|n IH]; intros v b Hn H.
    - destruct v; [destruct H|cbn in Hn; lia].
    - destruct (xf_dup_or_nodup v) as [Hnd|(x & l1 & l2 & l3 & ->)]; [exists v; auto|].
      pose proof (xf_chain_cut _ _ _ _ _ H) as Hc.
      destruct (IH (l1 ++ x :: l3) b) as (v' & H1 & H2 & H3); [|exact Hc|].
      + rewrite !app_length in *. cbn [length] in *. rewrite app_length in Hn. cbn [length] in Hn. lia.
      + exists v'. split; [exact H1|]. split; [exact H2|]. rewrite H3. destruct l1; reflexivity.
  Qed.

  (* ---------- the closure of Valid.v finds the end of every chain ---------- *)
  Notation step := (fun r : list str => xv_union r (xv_succ frags r)).

  Lemma xv_union_l a b x : In x a -> In x (xv_union a b).
  Proof.
    revert a. induction b as [|y b IH]; intros a H; cbn [xv_union]; [exact H|].
    destruct (xv_mem y a); apply IH; [exact H|apply in_or_app; left; exact H].
  Qed.

  Lemma xv_union_r a b x : In x b -> In x (xv_union a b).
  Proof.
    revert a. induction b as [|y b IH]; intros a H; [destruct H|]. cbn [xv_union]. destruct H as [<-|H].
    - destruct (xv_mem y a) eqn:M.
      + apply xv_union_l. apply xv_mem_In. exact M.
      + apply xv_union_l. apply in_or_app. right. left. reflexivity.
    - destruct (xv_mem y a); apply IH; exact H.
  Qed.

  Lemma xf_succ_edge r a b : In a r -> fc_edge frags a b -> In b (xv_succ frags r).
  Proof. intros Ha He. unfold xv_succ. apply in_flat_map. exists a. split; [exact Ha|exact He]. Qed.

  Lemma xf_iter_mono n : forall r x, In x r -> In x (xv_iter n step r).
  Proof. induction n as [|n IH]; intros r x H; cbn [xv_iter]; [exact H|]. apply IH. apply xv_union_l. exact H. Qed.

  Lemma xf_iter_add n k : forall r, xv_iter (n + k) step r = xv_iter k step (xv_iter n step r).
  Proof. induction n as [|n IH]; intros r; cbn [xv_iter Nat.add]; [reflexivity|]. apply IH. Qed.

  Lemma xf_iter_chain v : forall a b r, In a r -> xf_chain (a :: v) b -> In b (xv_iter (S (length v)) step r).
  Proof.
    induction v as [|m v IH]; intros a b r Ha H.
    - cbn [length xv_iter]. apply xv_union_r. exact (xf_succ_edge r a b Ha H).
    - destruct H as [H1 H2]. cbn [length]. change (xv_iter (S (S (length v))) step r) with (xv_iter (S (length v)) step (step r)).
      apply (IH m b); [|exact H2]. apply xv_union_r. exact (xf_succ_edge r a m Ha H1).
  Qed.

  Theorem xf_reach_complete init a b : In a init -> fc_reach frags a b -> In b (xv_reach frags init).
  Proof.
    intros Ha Hr. destruct (xf_reach_chain a b Hr) as [v Hv].
    destruct (xf_chain_simple (length (a :: v)) (a :: v) b (le_n _) Hv) as (v' & H1 & H2 & H3).
    destruct v' as [|a' v']; [destruct H1|]. cbn [hd_error] in H3. injection H3 as ->.
    assert (Hlen : (length (a :: v') <= length frags)%nat).
    { rewrite <- (map_length fst frags). apply NoDup_incl_length; [exact H2|]. intros x Hx. exact (xf_chain_defined _ _ H1 x Hx). }
    cbn [length] in Hlen. unfold xv_reach.
    replace (S (length frags)) with (S (length v') + (length frags - length v'))%nat by lia.
    rewrite xf_iter_add. apply xf_iter_mono. apply (xf_iter_chain v' a b); [|exact H1]. apply xv_union_r. exact Ha.
  Qed.
End Chains.

Definition xf_acyclic (frags : list (str * xv_frag)) : Prop := forall n, ~ fc_reach frags n n.

(* 5.5.2.2 as Valid.v computes it gives the declarative statement *)
Lemma xf_no_cycles d : xv_r_no_fragment_cycles d = true -> xf_acyclic (xv_frags d).
Proof.
  unfold xv_r_no_fragment_cycles. rewrite forallb_forall. intros H n Hc.
  destruct (fc_reach_defined _ _ _ Hc) as [f Ef]. specialize (H (n, f) (xv_assoc_in _ _ _ Ef)).
  apply negb_true_iff in H. unfold xv_frag_cyclic in H. cbn [fst snd] in H. apply xv_mem_false in H. apply H.
  inversion Hc as [a b He Ea Eb|a m b He Hr Ea Eb]; subst.
  - unfold fc_edge, fc_body in He. rewrite Ef in He. unfold xv_reach. apply xf_iter_mono. apply xv_union_r. exact He.
  - unfold fc_edge, fc_body in He. rewrite Ef in He. exact (xf_reach_complete _ _ m n He Hr).
Qed.

(* ---------- xv_collect never runs out of fuel ---------- *)
Section CollectTotal.
  Variable s : schema.
  Variable frags : list (str * xv_frag).
  Hypothesis Hac : xf_acyclic frags.

  Definition xf_path_ok (path : list str) (spreads : list str) : Prop :=
    NoDup path /\ (forall m, In m path -> In m (map fst frags)) /\
    (forall m n, In m path -> In n spreads -> fc_reach frags m n).

  Lemma xf_path_len path spreads : xf_path_ok path spreads -> (length path <= length frags)%nat.
  Proof. intros (H1 & H2 & _). rewrite <- (map_length fst frags). apply NoDup_incl_length; assumption. Qed.

  Lemma xf_path_enter path spreads n f : xf_path_ok path spreads -> In n spreads -> xv_assoc n frags = Some f ->
    xf_path_ok (path ++ [n]) (xv_spreads (xv_frag_sels f)).
  Proof.
    intros (H1 & H2 & H3) Hn Ef. split; [|split].
    - apply nodup_snoc; [exact H1|]. intros Hin. exact (Hac n (H3 n n Hin Hn)).
    - intros m Hm. apply in_app_or in Hm. destruct Hm as [Hm|[<-|[]]]; [exact (H2 m Hm)|].
      apply xv_assoc_in in Ef. apply in_map_iff. exists (n, f). auto.
    - intros m n' Hm Hn'. assert (He : fc_edge frags n n') by (unfold fc_edge, fc_body; rewrite Ef; exact Hn').
      apply in_app_or in Hm. destruct Hm as [Hm|[<-|[]]]; [|apply fcr_step; exact He].
      eapply fc_reach_snoc; [exact (H3 m n Hm Hn)|exact He].
  Qed.

  Lemma xf_path_sub path spreads spreads' : (forall n, In n spreads' -> In n spreads) -> xf_path_ok path spreads -> xf_path_ok path spreads'.
  Proof. intros Hi (H1 & H2 & H3). split; [exact H1|]. split; [exact H2|]. intros m n Hm Hn. apply H3; [exact Hm|apply Hi; exact Hn]. Qed.

  Lemma xf_collect_some_path : forall fuel path p sels, xf_path_ok path (xv_spreads sels) ->
    (length frags < fuel + length path)%nat -> xv_collect fuel s frags p sels <> None.
  Proof.
    induction fuel as [|fuel IH]; intros path p sels Hp Hf.
    - pose proof (xf_path_len _ _ Hp). lia.
    - rewrite xv_collect_S. apply opt_concat_map_total. intros x Hx.
      assert (Hpx : xf_path_ok path (xv_sel_spreads x)).
      { apply (xf_path_sub path (xv_spreads sels)); [|exact Hp]. intros n Hn. unfold xv_spreads. apply in_flat_map. exists x. auto. }
      clear Hx Hp. revert p Hpx.
      induction x as [a n args dirs sub IHx|n dirs|c dirs sub IHx] using selection_ind_nested; intros p Hpx; cbn [xvc_go].
      + destruct (xv_lookup_field s p n); discriminate.
      + destruct (xv_assoc n frags) as [f|] eqn:Ef; [|discriminate].
        apply (IH (path ++ [n])).
        * apply (xf_path_enter path (xv_sel_spreads (SSpread n dirs)) n f Hpx); [left; reflexivity|exact Ef].
        * rewrite app_length. cbn [length]. lia.
      + apply opt_concat_map_total. intros y Hy. rewrite Forall_forall in IHx. apply (IHx y Hy).
        apply (xf_path_sub path (xv_sel_spreads (SInline c dirs sub))); [|exact Hpx].
        intros n Hn. cbn [xv_sel_spreads]. apply in_flat_map. exists y. auto.
  Qed.

  Theorem xf_collect_some p sels : xv_collect (S (length frags)) s frags p sels <> None.
  Proof.
    apply (xf_collect_some_path (S (length frags)) [] p sels); [|cbn [length]; lia].
    split; [constructor|]. split; intros m; intros; contradiction.
  Qed.
End CollectTotal.
