(* C29: type compatibility checks.
   Code: Type::is_assignable_to (ast/impls.rs), is_variable_usage_allowed (validation/variable.rs),
   is_valid_implementation_field_type (validation/interface.rs), Schema::is_subtype (schema/mod.rs).
   Specification: October 2021, 5.8.5 (IsVariableUsageAllowed, AreTypesCompatible) and
   3.6/3.7 type validation (IsValidImplementationFieldType), transcribed over the specification's own
   view of a type (Named | List | NonNull wrappers).
   Definitions only; proofs in CompatProofs.v. *)
From ApolloVerif Require Import Base.Chars Ast.Ast Ast.TypeRef.

(* ---------- the code ---------- *)

(* Type::is_non_null, Type::nullable *)
Definition compat_is_non_null (t : ty) : bool :=
  match t with TNonNullNamed _ | TNonNullList _ => true | _ => false end.
Definition compat_nullable (t : ty) : ty :=
  match t with
  | TNamed _ | TList _ => t
  | TNonNullNamed n => TNamed n
  | TNonNullList i => TList i
  end.

(* Type::is_assignable_to : `match (target, self)`, arms in source order.  Rust's second and third arms
   overlap the first ((NonNullNamed, List) and (NonNullList, Named)); Coq rejects redundant patterns,
   so the overlap is removed from the later arms, which is what first-match semantics does. *)
Fixpoint compat_is_assignable_to (self target : ty) : bool :=
  match target, self with
  | (TNonNullNamed _ | TNonNullList _), (TNamed _ | TList _) => false
  | TNamed _, (TList _ | TNonNullList _) | TNonNullNamed _, TNonNullList _ => false
  | TList _, (TNamed _ | TNonNullNamed _) | TNonNullList _, TNonNullNamed _ => false
  | TNonNullNamed lhs, TNonNullNamed rhs => streq lhs rhs
  | TNonNullList lhs, TNonNullList rhs => compat_is_assignable_to rhs lhs
  | TNamed lhs, (TNamed rhs | TNonNullNamed rhs) => streq lhs rhs
  | TList lhs, (TList rhs | TNonNullList rhs) => compat_is_assignable_to rhs lhs
  end.

(* a default value as far as the rule can see it: the literal `null` or anything else *)
Inductive compat_value := CvNull | CvOther.

(* ast::VariableDefinition { ty, default_value } and ast::InputValueDefinition { ty, default_value } *)
Record compat_vardef := { cv_ty : ty; cv_default : option compat_value }.
Record compat_usage := { cu_ty : ty; cu_default : option compat_value }.

Definition compat_is_null (v : compat_value) : bool := match v with CvNull => true | CvOther => false end.
Definition compat_is_some {A} (o : option A) : bool := match o with Some _ => true | None => false end.

(* validation/variable.rs is_variable_usage_allowed *)
Definition compat_usage_allowed (variable_def : compat_vardef) (variable_usage : compat_usage) : bool :=
  let variable_ty := cv_ty variable_def in
  let location_ty := cu_ty variable_usage in
  if compat_is_non_null location_ty && negb (compat_is_non_null variable_ty) then
    let has_non_null_default_value :=                       (* .as_ref().is_some_and(|value| !value.is_null()) *)
      match cv_default variable_def with Some value => negb (compat_is_null value) | None => false end in
    let has_location_default_value := compat_is_some (cu_default variable_usage) in
    if negb has_non_null_default_value && negb has_location_default_value then false
    else compat_is_assignable_to variable_ty (compat_nullable location_ty)
  else compat_is_assignable_to variable_ty location_ty.

(* validation/interface.rs is_valid_implementation_field_type, arms in source order;
   `sub abstract maybe_subtype` stands for schema.is_subtype *)
Fixpoint compat_valid_impl_field_type (sub : str -> str -> bool) (iface impl : ty) : bool :=
  match iface, impl with
  | (TNonNullNamed _ | TNonNullList _), (TNamed _ | TList _) => false
  | TNonNullNamed iface_name, TNonNullNamed impl_name =>
      streq iface_name impl_name || sub iface_name impl_name
  | TNonNullList iface_inner, TNonNullList impl_inner =>
      compat_valid_impl_field_type sub iface_inner impl_inner
  | TNonNullNamed _, TNonNullList _ | TNonNullList _, TNonNullNamed _ => false
  | TNamed iface_name, (TNamed impl_name | TNonNullNamed impl_name) =>
      streq iface_name impl_name || sub iface_name impl_name
  | TList iface_inner, (TList impl_inner | TNonNullList impl_inner) =>
      compat_valid_impl_field_type sub iface_inner impl_inner
  | TNamed _, (TList _ | TNonNullList _) => false
  | TList _, (TNamed _ | TNonNullNamed _) => false
  end.

(* the part of schema.types that Schema::is_subtype reads *)
Inductive compat_tydef :=
| CtObject (implements : list str)
| CtInterface (implements : list str)
| CtUnion (members : list str)
| CtOther.                                   (* scalar, enum, input object *)

Fixpoint compat_types_get (types : list (str * compat_tydef)) (k : str) : option compat_tydef :=
  match types with
  | [] => None
  | (k', v) :: r => if streq k k' then Some v else compat_types_get r k
  end.

Definition compat_contains (l : list str) (k : str) : bool := existsb (streq k) l.

(* Schema::is_subtype(abstract_type, maybe_subtype) *)
Definition compat_is_subtype (types : list (str * compat_tydef)) (abstract_type maybe_subtype : str) : bool :=
  match compat_types_get types abstract_type with
  | Some (CtInterface _) =>
      match compat_types_get types maybe_subtype with
      | Some (CtObject impls) | Some (CtInterface impls) => compat_contains impls abstract_type
      | _ => false
      end
  | Some (CtUnion members) => compat_contains members maybe_subtype
  | _ => false
  end.

(* ---------- the specification ---------- *)

(* 3.4.1 Wrapping types: a type is a named type, a List of a type or a Non-Null of a (nullable) type *)
Inductive sty := SNamed (n : str) | SList (t : sty) | SNonNull (t : sty).

Fixpoint sty_of (t : ty) : sty :=
  match t with
  | TNamed n => SNamed n
  | TNonNullNamed n => SNonNull (SNamed n)
  | TList i => SList (sty_of i)
  | TNonNullList i => SNonNull (SList (sty_of i))
  end.

Definition SIsNonNull (t : sty) : Prop := exists u, t = SNonNull u.
Definition SIsList (t : sty) : Prop := exists u, t = SList u.

(* 5.8.5 AreTypesCompatible(variableType, locationType) *)
Inductive AreTypesCompatible : sty -> sty -> Prop :=
(* 1. If locationType is a non-null type: a. if variableType is NOT a non-null type, return false;
      b-d. return AreTypesCompatible(nullableVariableType, nullableLocationType) *)
| ATC_1 v l : AreTypesCompatible v l -> AreTypesCompatible (SNonNull v) (SNonNull l)
(* 2. Otherwise, if variableType is a non-null type: return AreTypesCompatible(nullableVariableType, locationType) *)
| ATC_2 v l : ~ SIsNonNull l -> AreTypesCompatible v l -> AreTypesCompatible (SNonNull v) l
(* 3. Otherwise, if locationType is a list type: a. if variableType is NOT a list type, return false;
      b-d. return AreTypesCompatible(itemVariableType, itemLocationType) *)
| ATC_3 v l : AreTypesCompatible v l -> AreTypesCompatible (SList v) (SList l)
(* 4. Otherwise, if variableType is a list type, return false.
   5. Return true if variableType and locationType are identical, otherwise false. *)
| ATC_5 v l : ~ SIsNonNull l -> ~ SIsNonNull v -> ~ SIsList l -> ~ SIsList v -> v = l ->
    AreTypesCompatible v l.

(* 5.8.5 IsVariableUsageAllowed(variableDefinition, variableUsage) *)
Definition HasNonNullVariableDefaultValue (d : compat_vardef) : Prop :=
  exists x, cv_default d = Some x /\ x <> CvNull.      (* a default value exists and is not the value null *)
Definition HasLocationDefaultValue (u : compat_usage) : Prop :=
  exists x, cu_default u = Some x.                      (* a default value exists for the Argument or ObjectField *)

Definition IsVariableUsageAllowed (d : compat_vardef) (u : compat_usage) : Prop :=
  let variableType := sty_of (cv_ty d) in
  let locationType := sty_of (cu_ty u) in
  (* 3. If locationType is a non-null type AND variableType is NOT a non-null type *)
  (forall nullableLocationType,
      locationType = SNonNull nullableLocationType -> ~ SIsNonNull variableType ->
      (* c. if neither default exists, false *)
      (HasNonNullVariableDefaultValue d \/ HasLocationDefaultValue u) /\
      (* d-e. *)
      AreTypesCompatible variableType nullableLocationType) /\
  (* 4. Otherwise return AreTypesCompatible(variableType, locationType) *)
  (~ (SIsNonNull locationType /\ ~ SIsNonNull variableType) ->
      AreTypesCompatible variableType locationType).

(* 3.6 / 3.7 IsValidImplementationFieldType(fieldType, implementedFieldType).
   Steps 4 and 5 ("fieldType is an Object type and implementedFieldType is a Union type and fieldType is
   a possible type of implementedFieldType" / "fieldType is an Object or Interface type and
   implementedFieldType is an Interface type and fieldType declares it implements
   implementedFieldType") are the relation `Sub implementedFieldType fieldType` on named types. *)
Section ImplSpec.
  Variable Sub : str -> str -> Prop.
  Inductive IsValidImplementationFieldType : sty -> sty -> Prop :=
  (* 1. If fieldType is a Non-Null type: strip it, strip implementedFieldType if it is Non-Null, recurse *)
  | IVI_1a f i : IsValidImplementationFieldType f i ->
      IsValidImplementationFieldType (SNonNull f) (SNonNull i)
  | IVI_1b f i : ~ SIsNonNull i -> IsValidImplementationFieldType f i ->
      IsValidImplementationFieldType (SNonNull f) i
  (* 2. If fieldType is a List type and implementedFieldType is also a List type: recurse on the items *)
  | IVI_2 f i : IsValidImplementationFieldType f i ->
      IsValidImplementationFieldType (SList f) (SList i)
  (* 3. If fieldType is the same type as implementedFieldType then return true *)
  | IVI_3 f i : ~ SIsNonNull f -> ~ (SIsList f /\ SIsList i) -> f = i ->
      IsValidImplementationFieldType f i
  (* 4, 5. named types in the subtype relation *)
  | IVI_45 f i : Sub i f -> IsValidImplementationFieldType (SNamed f) (SNamed i).
End ImplSpec.

(* steps 4 and 5 spelled out over a schema, for comparison with Schema::is_subtype *)
Definition SpecSubtype (types : list (str * compat_tydef)) (implemented field : str) : Prop :=
  (* 4. field is an Object type, implemented is a Union type, field is a possible type of it *)
  (exists impls members, compat_types_get types field = Some (CtObject impls) /\
      compat_types_get types implemented = Some (CtUnion members) /\ In field members) \/
  (* 5. field is an Object or Interface type, implemented is an Interface type, field declares it implements it *)
  (exists impls impls', (compat_types_get types field = Some (CtObject impls) \/
                         compat_types_get types field = Some (CtInterface impls)) /\
      compat_types_get types implemented = Some (CtInterface impls') /\ In implemented impls).

(* schema well-formedness used by that comparison: union members are object types (3.8 type validation) *)
Definition UnionMembersAreObjects (types : list (str * compat_tydef)) : Prop :=
  forall u members m, compat_types_get types u = Some (CtUnion members) -> In m members ->
    exists impls, compat_types_get types m = Some (CtObject impls).

(* is_variable_usage_allowed as it was before commit 19b3359 ("fix: a null default value does not make a
   nullable variable usable in a non-null position", DESIGN.md D13): `default_value.is_some()`.
   Kept only for the witness lemma C29_usage_old_refuted; not extracted, not tied. *)
Definition compat_usage_allowed_old (variable_def : compat_vardef) (variable_usage : compat_usage) : bool :=
  let variable_ty := cv_ty variable_def in
  let location_ty := cu_ty variable_usage in
  if compat_is_non_null location_ty && negb (compat_is_non_null variable_ty) then
    let has_non_null_default_value := compat_is_some (cv_default variable_def) in
    let has_location_default_value := compat_is_some (cu_default variable_usage) in
    if negb has_non_null_default_value && negb has_location_default_value then false
    else compat_is_assignable_to variable_ty (compat_nullable location_ty)
  else compat_is_assignable_to variable_ty location_ty.

(* the class of defect D13: a `null` variable default where the spec looks for a non-null one *)
Definition compat_null_default_class (d : compat_vardef) (u : compat_usage) : bool :=
  compat_is_non_null (cu_ty u) && negb (compat_is_non_null (cv_ty d)) &&
  match cv_default d with Some CvNull => true | _ => false end &&
  negb (compat_is_some (cu_default u)).
