(* Proofs about the literal field-merging model (MergeXing.v): same_value is an equivalence on values without
   repeated object keys; first-against-rest decides all pairs for an equivalence; group_by_common_parents puts
   two fields in a common group exactly when the specification compares them. *)
From ApolloVerif Require Import Base.Chars Ast.Ast Schema.Model Exec.Valid Exec.MergeXing Exec.FragCyclesProofs.
From Coq Require Import Arith PeanoNat Lia.

(* ---------- sizes of values, for induction through the nested lists ---------- *)
Fixpoint vsize (v : value) : nat :=
  match v with
  | VList l => S (fold_right (fun x n => vsize x + n)%nat O l)
  | VObject fs => S (fold_right (fun kv n => (match kv with (_, x) => vsize x end) + n)%nat O fs)
  | _ => 1%nat
  end.

Lemma vsize_list_in x l : In x l -> (vsize x < vsize (VList l))%nat.
Proof.
  cbn [vsize]. induction l as [|y l IH]; intros H; [destruct H|]. cbn [fold_right].
  destruct H as [->|H]; [lia|]. specialize (IH H). lia.
Qed.

Lemma vsize_obj_in k x fs : In (k, x) fs -> (vsize x < vsize (VObject fs))%nat.
Proof.
  cbn [vsize]. induction fs as [|[k' y] fs IH]; intros H; [destruct H|]. cbn [fold_right].
  destruct H as [H|H]; [injection H as -> ->; lia|]. specialize (IH H). lia.
Qed.

(* ---------- no repeated object keys (5.6.3), as a proposition ---------- *)
Lemma xv_nodup_NoDup l : xv_nodup l = true <-> NoDup l.
Proof.
  induction l as [|x l IH]; cbn [xv_nodup].
  - split; [constructor|reflexivity].
  - rewrite andb_true_iff, negb_true_iff, IH, xv_mem_false. split.
    + intros [H1 H2]. constructor; assumption.
    + intros H. inversion H; subst. split; assumption.
Qed.

Lemma unique_list l : xv_value_unique (VList l) = true -> forall x, In x l -> xv_value_unique x = true.
Proof. cbn [xv_value_unique]. rewrite forallb_forall. auto. Qed.

Lemma unique_obj fs : xv_value_unique (VObject fs) = true ->
  NoDup (map fst fs) /\ forall k x, In (k, x) fs -> xv_value_unique x = true.
Proof.
  cbn [xv_value_unique]. rewrite andb_true_iff, forallb_forall, xv_nodup_NoDup. intros [H1 H2]. split; [exact H1|].
  intros k x Hin. exact (H2 (k, x) Hin).
Qed.

(* .find(|(other_key, _)| key == other_key) *)
Definition find_key (k : str) (r : list (str * value)) : option (str * value) :=
  find (fun okv => streq k (fst okv)) r.

Lemma find_key_some k r kv : find_key k r = Some kv -> In kv r /\ fst kv = k.
Proof.
  unfold find_key. intros H. apply find_some in H. destruct H as [H1 H2]. apply streq_eq in H2. auto.
Qed.

Lemma find_key_nodup k v r : NoDup (map fst r) -> In (k, v) r -> find_key k r = Some (k, v).
Proof.
  unfold find_key. induction r as [|[k' v'] r IH]; intros Hnd Hin; [destruct Hin|].
  cbn [find fst]. cbn [map fst] in Hnd. inversion Hnd as [|? ? Hnot Hnd']; subst.
  destruct Hin as [Heq|Hin].
  - injection Heq as -> ->. rewrite streq_refl. reflexivity.
  - destruct (streq k k') eqn:E.
    + apply streq_eq in E. subst. exfalso. apply Hnot. apply in_map_iff. exists (k', v). auto.
    + apply IH; assumption.
Qed.

Lemma find_key_none k r : find_key k r = None -> ~ In k (map fst r).
Proof.
  unfold find_key. intros H Hin. apply in_map_iff in Hin. destruct Hin as [[k' v] [Hk Hin]]. cbn in Hk. subst.
  apply (find_none _ _ H) in Hin. cbn in Hin. rewrite streq_refl in Hin. discriminate.
Qed.

Lemma mx_nat_eqb_eq a b : mx_nat_eqb a b = true <-> a = b.
Proof.
  revert b. induction a as [|a IH]; destruct b as [|b]; cbn [mx_nat_eqb]; try (split; [discriminate|congruence]).
  - tauto.
  - rewrite IH. split; congruence.
Qed.

(* the zip of two lists of equal length *)
Definition zip_all (rel : value -> value -> bool) : list value -> list value -> bool :=
  fix zip_all (l r : list value) {struct l} : bool :=
    match l, r with
    | x :: l', y :: r' => rel x y && zip_all l' r'
    | _, _ => true
    end.

Lemma same_value_list l r :
  mx_same_value (VList l) (VList r) = mx_nat_eqb (length l) (length r) && zip_all mx_same_value l r.
Proof. reflexivity. Qed.

Lemma same_value_obj l r :
  mx_same_value (VObject l) (VObject r) =
  mx_nat_eqb (length l) (length r)
  && forallb (fun kv => match kv with
                        | (key, v) => match find_key key r with
                                      | Some (_, other_value) => mx_same_value v other_value
                                      | None => false
                                      end
                        end) l.
Proof. reflexivity. Qed.

Lemma zip_all_forall2 rel l r : length l = length r ->
  (zip_all rel l r = true <-> Forall2 (fun x y => rel x y = true) l r).
Proof.
  revert r. induction l as [|x l IH]; destruct r as [|y r]; cbn [zip_all length]; intros Hl; try discriminate.
  - split; [constructor|reflexivity].
  - rewrite andb_true_iff, IH by congruence. split.
    + intros [H1 H2]. constructor; assumption.
    + intros H. inversion H; subst. split; assumption.
Qed.

(* the object comparison, as a statement about the two field lists *)
Definition obj_sub (rel : value -> value -> bool) (l r : list (str * value)) : Prop :=
  forall k v, In (k, v) l -> exists v', find_key k r = Some (k, v') /\ rel v v' = true.

Lemma same_obj_iff l r :
  mx_same_value (VObject l) (VObject r) = true <-> length l = length r /\ obj_sub mx_same_value l r.
Proof.
  rewrite same_value_obj, andb_true_iff, mx_nat_eqb_eq, forallb_forall. unfold obj_sub. split.
  - intros [Hl H]. split; [exact Hl|]. intros k v Hin. specialize (H (k, v) Hin). cbn beta iota in H.
    destruct (find_key k r) as [[k' v']|] eqn:E; [|discriminate].
    destruct (find_key_some _ _ _ E) as [_ Hk]. cbn in Hk. subst k'. exists v'. auto.
  - intros [Hl H]. split; [exact Hl|]. intros [k v] Hin. destruct (H k v Hin) as [v' [E Hr]]. rewrite E. exact Hr.
Qed.

(* with unique keys on both sides and equal lengths, the inclusion of keys goes both ways *)
Lemma keys_back (l r : list (str * value)) : NoDup (map fst l) -> length l = length r ->
  (forall k, In k (map fst l) -> In k (map fst r)) -> forall k, In k (map fst r) -> In k (map fst l).
Proof.
  intros Hnd Hlen Hincl. apply NoDup_length_incl; [exact Hnd| |exact Hincl].
  rewrite !map_length. lia.
Qed.

(* ---------- reflexivity, symmetry, transitivity ---------- *)
Lemma same_value_refl_n n : forall a, (vsize a < n)%nat -> xv_value_unique a = true -> mx_same_value a a = true.
Proof.
  induction n as [|n IH]; intros a Hs Hu; [lia|].
  destruct a as [| e | v | s | t | t | b | l | fs]; cbn [mx_same_value]; try apply streq_refl; try reflexivity.
  - destruct b; reflexivity.
  - change (mx_same_value (VList l) (VList l) = true). rewrite same_value_list, andb_true_iff. split.
    + apply mx_nat_eqb_eq. reflexivity.
    + apply zip_all_forall2; [reflexivity|].
      assert (H : forall x, In x l -> mx_same_value x x = true).
      { intros x Hx. apply IH; [pose proof (vsize_list_in x l Hx); lia|exact (unique_list l Hu x Hx)]. }
      clear Hs Hu. induction l as [|x l IHl]; constructor.
      * apply H. left. reflexivity.
      * apply IHl. intros y Hy. apply H. right. exact Hy.
  - change (mx_same_value (VObject fs) (VObject fs) = true). apply same_obj_iff. split; [reflexivity|].
    destruct (unique_obj fs Hu) as [Hnd Hsub]. intros k v Hin. exists v. split.
    + apply find_key_nodup; assumption.
    + apply IH; [pose proof (vsize_obj_in k v fs Hin); lia|exact (Hsub k v Hin)].
Qed.

Lemma same_value_refl a : xv_value_unique a = true -> mx_same_value a a = true.
Proof. apply (same_value_refl_n (S (vsize a))). lia. Qed.

Lemma same_value_kind a b : mx_same_value a b = true ->
  match a, b with
  | VNull, VNull | VEnum _, VEnum _ | VVar _, VVar _ | VString _, VString _ | VFloat _, VFloat _ | VInt _, VInt _
  | VBool _, VBool _ | VList _, VList _ | VObject _, VObject _ => True
  | _, _ => False
  end.
Proof. destruct a, b; cbn [mx_same_value]; intros H; try discriminate; exact I. Qed.

Lemma same_value_sym_n n : forall a b, (vsize a < n)%nat ->
  xv_value_unique a = true -> xv_value_unique b = true ->
  mx_same_value a b = true -> mx_same_value b a = true.
Proof.
  induction n as [|n IH]; intros a b Hs Hua Hub H; [lia|].
  pose proof (same_value_kind a b H) as K.
  destruct a as [| e | v | s | t | t | bo | l | fs]; destruct b as [| e' | v' | s' | t' | t' | bo' | l' | fs'];
    try contradiction; cbn [mx_same_value] in *;
    try (apply streq_eq in H; subst; apply streq_refl); try reflexivity.
  - destruct bo, bo'; try discriminate; reflexivity.
  - change (mx_same_value (VList l) (VList l') = true) in H. change (mx_same_value (VList l') (VList l) = true).
    rewrite same_value_list, andb_true_iff in *. destruct H as [Hl Hz]. apply mx_nat_eqb_eq in Hl. split.
    + apply mx_nat_eqb_eq. congruence.
    + apply zip_all_forall2; [congruence|]. apply zip_all_forall2 in Hz; [|exact Hl].
      assert (Hel : forall x, In x l -> forall y, In y l' -> mx_same_value x y = true -> mx_same_value y x = true).
      { intros x Hx y Hy. apply IH; [pose proof (vsize_list_in x l Hx); lia| |].
        - exact (unique_list l Hua x Hx).
        - exact (unique_list l' Hub y Hy). }
      clear Hs Hua Hub Hl. induction Hz as [|x y l l' Hxy Hz IHz]; constructor.
      * apply Hel; [left; reflexivity|left; reflexivity|exact Hxy].
      * apply IHz. intros x' Hx' y' Hy'. apply Hel; right; assumption.
  - change (mx_same_value (VObject fs) (VObject fs') = true) in H. change (mx_same_value (VObject fs') (VObject fs) = true).
    apply same_obj_iff in H. apply same_obj_iff. destruct H as [Hl Hsub]. split; [congruence|].
    destruct (unique_obj fs Hua) as [Hnd Hu]. destruct (unique_obj fs' Hub) as [Hnd' Hu'].
    intros k' v' Hin'.
    (* the key k' of the right side occurs on the left *)
    assert (Hk : In k' (map fst fs)).
    { apply (keys_back fs fs' Hnd Hl).
      - intros k Hk. apply in_map_iff in Hk. destruct Hk as [[k0 v0] [E Hin0]]. cbn in E. subst k0.
        destruct (Hsub k v0 Hin0) as [w [Hf _]]. destruct (find_key_some _ _ _ Hf) as [Hinw _].
        apply in_map_iff. exists (k, w). auto.
      - apply in_map_iff. exists (k', v'). auto. }
    apply in_map_iff in Hk. destruct Hk as [[k0 v] [E Hin]]. cbn in E. subst k0.
    destruct (Hsub k' v Hin) as [w [Hf Hvw]].
    rewrite (find_key_nodup k' v' fs' Hnd' Hin') in Hf. injection Hf as <-.
    exists v. split; [apply find_key_nodup; assumption|].
    apply IH; [pose proof (vsize_obj_in k' v fs Hin); lia|exact (Hu k' v Hin)|exact (Hu' k' v' Hin')|exact Hvw].
Qed.

Lemma same_value_sym a b : xv_value_unique a = true -> xv_value_unique b = true ->
  mx_same_value a b = true -> mx_same_value b a = true.
Proof. apply (same_value_sym_n (S (vsize a))). lia. Qed.

Lemma same_value_trans_n n : forall a b c, (vsize a < n)%nat ->
  xv_value_unique a = true -> xv_value_unique b = true -> xv_value_unique c = true ->
  mx_same_value a b = true -> mx_same_value b c = true -> mx_same_value a c = true.
Proof.
  induction n as [|n IH]; intros a b c Hs Hua Hub Huc H1 H2; [lia|].
  pose proof (same_value_kind a b H1) as K1. pose proof (same_value_kind b c H2) as K2.
  destruct a as [| e | v | s | t | t | bo | l | fs]; destruct b as [| e' | v' | s' | t' | t' | bo' | l' | fs'];
    try contradiction; destruct c as [| e'' | v'' | s'' | t'' | t'' | bo'' | l'' | fs'']; try contradiction;
    cbn [mx_same_value] in *;
    try (apply streq_eq in H1; apply streq_eq in H2; subst; apply streq_refl); try reflexivity.
  - destruct bo, bo', bo''; try discriminate; reflexivity.
  - change (mx_same_value (VList l) (VList l') = true) in H1. change (mx_same_value (VList l') (VList l'') = true) in H2.
    change (mx_same_value (VList l) (VList l'') = true).
    rewrite same_value_list, andb_true_iff in *. destruct H1 as [Hl1 Hz1]. destruct H2 as [Hl2 Hz2].
    apply mx_nat_eqb_eq in Hl1. apply mx_nat_eqb_eq in Hl2. split; [apply mx_nat_eqb_eq; congruence|].
    apply zip_all_forall2; [congruence|]. apply zip_all_forall2 in Hz1; [|exact Hl1]. apply zip_all_forall2 in Hz2; [|exact Hl2].
    assert (Hel : forall x, In x l -> forall y, In y l' -> forall z, In z l'' ->
              mx_same_value x y = true -> mx_same_value y z = true -> mx_same_value x z = true).
    { intros x Hx y Hy z Hz. apply IH; [pose proof (vsize_list_in x l Hx); lia| | |].
      - exact (unique_list l Hua x Hx).
      - exact (unique_list l' Hub y Hy).
      - exact (unique_list l'' Huc z Hz). }
    clear Hs Hua Hub Huc Hl1 Hl2. revert l'' Hz2 Hel.
    induction Hz1 as [|x y l l' Hxy Hz1 IHz]; intros l'' Hz2 Hel; inversion Hz2 as [|? z ? r'' Hyz Hz2']; subst; constructor.
    + apply (Hel x (or_introl eq_refl) y (or_introl eq_refl) z (or_introl eq_refl)); assumption.
    + apply IHz; [exact Hz2'|]. intros x' Hx' y' Hy' z' Hz'. apply Hel; right; assumption.
  - change (mx_same_value (VObject fs) (VObject fs') = true) in H1.
    change (mx_same_value (VObject fs') (VObject fs'') = true) in H2.
    change (mx_same_value (VObject fs) (VObject fs'') = true).
    apply same_obj_iff in H1. apply same_obj_iff in H2. apply same_obj_iff.
    destruct H1 as [Hl1 Hs1]. destruct H2 as [Hl2 Hs2]. split; [congruence|].
    destruct (unique_obj fs Hua) as [_ Hu]. destruct (unique_obj fs' Hub) as [_ Hu']. destruct (unique_obj fs'' Huc) as [_ Hu''].
    intros k v Hin. destruct (Hs1 k v Hin) as [v' [Hf1 Hr1]].
    destruct (find_key_some _ _ _ Hf1) as [Hin' _].
    destruct (Hs2 k v' Hin') as [v'' [Hf2 Hr2]]. destruct (find_key_some _ _ _ Hf2) as [Hin'' _].
    exists v''. split; [exact Hf2|].
    apply (IH v v' v''); [pose proof (vsize_obj_in k v fs Hin); lia|exact (Hu k v Hin)|exact (Hu' k v' Hin')
                          |exact (Hu'' k v'' Hin'')|exact Hr1|exact Hr2].
Qed.

Lemma same_value_trans a b c :
  xv_value_unique a = true -> xv_value_unique b = true -> xv_value_unique c = true ->
  mx_same_value a b = true -> mx_same_value b c = true -> mx_same_value a c = true.
Proof. apply (same_value_trans_n (S (vsize a))). lia. Qed.

(* the zip-only variant (before commit 04e5313) is not transitive: [1,2] ~ [1] ~ [1,3] but not [1,2] ~ [1,3] *)
Definition ex_one : value := VInt [49]. Definition ex_two : value := VInt [50]. Definition ex_three : value := VInt [51].
Lemma same_value_old_not_transitive :
  mx_same_value_old (VList [ex_one; ex_two]) (VList [ex_one]) = true /\
  mx_same_value_old (VList [ex_one]) (VList [ex_one; ex_three]) = true /\
  mx_same_value_old (VList [ex_one; ex_two]) (VList [ex_one; ex_three]) = false /\
  mx_same_value_old (VList [ex_one]) (VList [ex_one; ex_two]) = true /\
  mx_same_value (VList [ex_one]) (VList [ex_one; ex_two]) = false.
Proof. vm_compute. repeat split. Qed.

(* ---------- first against rest ---------- *)
Lemma first_vs_rest_all_pairs (rel : mx_fs -> mx_fs -> bool) (group : list mx_fs) :
  (forall a, In a group -> rel a a = true) ->
  (forall a b, In a group -> In b group -> rel a b = true -> rel b a = true) ->
  (forall a b c, In a group -> In b group -> In c group -> rel a b = true -> rel b c = true -> rel a c = true) ->
  (mx_first_vs_rest rel group = true <-> forall a b, In a group -> In b group -> rel a b = true).
Proof.
  intros Hrefl Hsym Htrans. destruct group as [|f rest]; cbn [mx_first_vs_rest].
  - split; [intros _ a b []|reflexivity].
  - rewrite forallb_forall. split.
    + intros H a b Ha Hb.
      assert (Hf : forall x, In x (f :: rest) -> rel f x = true).
      { intros x [<-|Hx]; [apply Hrefl; left; reflexivity|apply H; exact Hx]. }
      apply (Htrans a f b); auto; [left; reflexivity|].
      apply Hsym; auto. left. reflexivity.
    + intros H x Hx. apply H; [left; reflexivity|right; exact Hx].
Qed.
