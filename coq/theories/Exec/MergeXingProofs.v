(* Proofs about the literal field-merging model (MergeXing.v): same_value is an equivalence on values without
   repeated object keys; first-against-rest decides all pairs for an equivalence; group_by_common_parents puts
   two fields in a common group exactly when the specification compares them. *)
From ApolloVerif Require Import Base.Chars Ast.Ast Schema.Model Exec.Valid Exec.MergeXing Exec.FragCyclesProofs.
From Coq Require Import Arith PeanoNat Lia.

(* ---------- sizes of values, for induction through the nested lists ---------- *)
Fixpoint vsize (v : value) : nat :=
  match v with
  | VList l => S (fold_right (fun x n => vsize x + n)%nat O l)
  | VObject fs => S (fold_right (fun kv n => (match kv with (_, x) => vsize x end) + n)%nat O fs)
  | _ => 1%nat
  end.

Lemma vsize_list_in x l : In x l -> (vsize x < vsize (VList l))%nat.
Proof.
  cbn [vsize]. induction l as [|y l IH]; intros H; [destruct H|]. cbn [fold_right].
  destruct H as [->|H]; [lia|]. specialize (IH H). lia.
Qed.

Lemma vsize_obj_in k x fs : In (k, x) fs -> (vsize x < vsize (VObject fs))%nat.
Proof.
  cbn [vsize]. induction fs as [|[k' y] fs IH]; intros H; [destruct H|]. cbn [fold_right].
  destruct H as [H|H]; [injection H as -> ->; lia|]. specialize (IH H). lia.
Qed.

(* ---------- no repeated object keys (5.6.3), as a proposition ---------- *)
Lemma xv_nodup_NoDup l : xv_nodup l = true <-> NoDup l.
Proof.
  induction l as [|x l IH]; cbn [xv_nodup].
  - split; [constructor|reflexivity].
  - rewrite andb_true_iff, negb_true_iff, IH, xv_mem_false. split.
    + intros [H1 H2]. constructor; assumption.
    + intros H. inversion H; subst. split; assumption.
Qed.

Lemma unique_list l : xv_value_unique (VList l) = true -> forall x, In x l -> xv_value_unique x = true.
Proof. cbn [xv_value_unique]. rewrite forallb_forall. auto. Qed.

Lemma unique_obj fs : xv_value_unique (VObject fs) = true ->
  NoDup (map fst fs) /\ forall k x, In (k, x) fs -> xv_value_unique x = true.
Proof.
  cbn [xv_value_unique]. rewrite andb_true_iff, forallb_forall, xv_nodup_NoDup. intros [H1 H2]. split; [exact H1|].
  intros k x Hin. exact (H2 (k, x) Hin).
Qed.

(* .find(|(other_key, _)| key == other_key) *)
Definition find_key (k : str) (r : list (str * value)) : option (str * value) :=
  find (fun okv => streq k (fst okv)) r.

Lemma find_key_some k r kv : find_key k r = Some kv -> In kv r /\ fst kv = k.
Proof.
  unfold find_key. intros H. apply find_some in H. destruct H as [H1 H2]. apply streq_eq in H2. auto.
Qed.

Lemma find_key_nodup k v r : NoDup (map fst r) -> In (k, v) r -> find_key k r = Some (k, v).
Proof.
  unfold find_key. induction r as [|[k' v'] r IH]; intros Hnd Hin; [destruct Hin|].
  cbn [find fst]. cbn [map fst] in Hnd. inversion Hnd as [|? ? Hnot Hnd']; subst.
  destruct Hin as [Heq|Hin].
  - injection Heq as -> ->. rewrite streq_refl. reflexivity.
  - destruct (streq k k') eqn:E.
    + apply streq_eq in E. subst. exfalso. apply Hnot. apply in_map_iff. exists (k', v). auto.
    + apply IH; assumption.
Qed.

Lemma find_key_none k r : find_key k r = None -> ~ In k (map fst r).
Proof.
  unfold find_key. intros H Hin. apply in_map_iff in Hin. destruct Hin as [[k' v] [Hk Hin]]. cbn in Hk. subst.
  apply (find_none _ _ H) in Hin. cbn in Hin. rewrite streq_refl in Hin. discriminate.
Qed.

Lemma mx_nat_eqb_eq a b : mx_nat_eqb a b = true <-> a = b.
Proof.
  revert b. induction a as [|a IH]; destruct b as [|b]; cbn [mx_nat_eqb]; try (split; [discriminate|congruence]).
  - tauto.
  - rewrite IH. split; congruence.
Qed.

(* the zip of two lists of equal length *)
Definition zip_all (rel : value -> value -> bool) : list value -> list value -> bool :=
  fix zip_all (l r : list value) {struct l} : bool :=
    match l, r with
    | x :: l', y :: r' => rel x y && zip_all l' r'
    | _, _ => true
    end.

Lemma same_value_list l r :
  mx_same_value (VList l) (VList r) = mx_nat_eqb (length l) (length r) && zip_all mx_same_value l r.
Proof. reflexivity. Qed.

Lemma same_value_obj l r :
  mx_same_value (VObject l) (VObject r) =
  mx_nat_eqb (length l) (length r)
  && forallb (fun kv => match kv with
                        | (key, v) => match find_key key r with
                                      | Some (_, other_value) => mx_same_value v other_value
                                      | None => false
                                      end
                        end) l.
Proof. reflexivity. Qed.

Lemma zip_all_forall2 rel l r : length l = length r ->
  (zip_all rel l r = true <-> Forall2 (fun x y => rel x y = true) l r).
Proof.
  revert r. induction l as [|x l IH]; destruct r as [|y r]; cbn [zip_all length]; intros Hl; try discriminate.
  - split; [constructor|reflexivity].
  - rewrite andb_true_iff, IH by congruence. split.
    + intros [H1 H2]. constructor; assumption.
    + intros H. inversion H; subst. split; assumption.
Qed.

(* the object comparison, as a statement about the two field lists *)
Definition obj_sub (rel : value -> value -> bool) (l r : list (str * value)) : Prop :=
  forall k v, In (k, v) l -> exists v', find_key k r = Some (k, v') /\ rel v v' = true.

Lemma same_obj_iff l r :
  mx_same_value (VObject l) (VObject r) = true <-> length l = length r /\ obj_sub mx_same_value l r.
Proof.
  rewrite same_value_obj, andb_true_iff, mx_nat_eqb_eq, forallb_forall. unfold obj_sub. split.
  - intros [Hl H]. split; [exact Hl|]. intros k v Hin. specialize (H (k, v) Hin). cbn beta iota in H.
    destruct (find_key k r) as [[k' v']|] eqn:E; [|discriminate].
    destruct (find_key_some _ _ _ E) as [_ Hk]. cbn in Hk. subst k'. exists v'. auto.
  - intros [Hl H]. split; [exact Hl|]. intros [k v] Hin. destruct (H k v Hin) as [v' [E Hr]]. rewrite E. exact Hr.
Qed.

(* with unique keys on both sides and equal lengths, the inclusion of keys goes both ways *)
Lemma keys_back (l r : list (str * value)) : NoDup (map fst l) -> length l = length r ->
  (forall k, In k (map fst l) -> In k (map fst r)) -> forall k, In k (map fst r) -> In k (map fst l).
Proof.
  intros Hnd Hlen Hincl. apply NoDup_length_incl; [exact Hnd| |exact Hincl].
  rewrite !map_length. lia.
Qed.

(* ---------- reflexivity, symmetry, transitivity ---------- *)
Lemma same_value_refl_n n : forall a, (vsize a < n)%nat -> xv_value_unique a = true -> mx_same_value a a = true.
Proof.
  induction n as [|n IH]; intros a Hs Hu; [lia|].
  destruct a as [| e | v | s | t | t | b | l | fs]; cbn [mx_same_value]; try apply streq_refl; try reflexivity.
  - destruct b; reflexivity.
  - change (mx_same_value (VList l) (VList l) = true). rewrite same_value_list, andb_true_iff. split.
    + apply mx_nat_eqb_eq. reflexivity.
    + apply zip_all_forall2; [reflexivity|].
      assert (H : forall x, In x l -> mx_same_value x x = true).
      { intros x Hx. apply IH; [pose proof (vsize_list_in x l Hx); lia|exact (unique_list l Hu x Hx)]. }
      clear Hs Hu. induction l as [|x l IHl]; constructor.
      * apply H. left. reflexivity.
      * apply IHl. intros y Hy. apply H. right. exact Hy.
  - change (mx_same_value (VObject fs) (VObject fs) = true). apply same_obj_iff. split; [reflexivity|].
    destruct (unique_obj fs Hu) as [Hnd Hsub]. intros k v Hin. exists v. split.
    + apply find_key_nodup; assumption.
    + apply IH; [pose proof (vsize_obj_in k v fs Hin); lia|exact (Hsub k v Hin)].
Qed.

Lemma same_value_refl a : xv_value_unique a = true -> mx_same_value a a = true.
Proof. apply (same_value_refl_n (S (vsize a))). lia. Qed.

Lemma same_value_kind a b : mx_same_value a b = true ->
  match a, b with
  | VNull, VNull | VEnum _, VEnum _ | VVar _, VVar _ | VString _, VString _ | VFloat _, VFloat _ | VInt _, VInt _
  | VBool _, VBool _ | VList _, VList _ | VObject _, VObject _ => True
  | _, _ => False
  end.
Proof. destruct a, b; cbn [mx_same_value]; intros H; try discriminate; exact I. Qed.

Lemma same_value_sym_n n : forall a b, (vsize a < n)%nat ->
  xv_value_unique a = true -> xv_value_unique b = true ->
  mx_same_value a b = true -> mx_same_value b a = true.
Proof.
  induction n as [|n IH]; intros a b Hs Hua Hub H; [lia|].
  pose proof (same_value_kind a b H) as K.
  destruct a as [| e | v | s | t | t | bo | l | fs]; destruct b as [| e' | v' | s' | t' | t' | bo' | l' | fs'];
    try contradiction; cbn [mx_same_value] in *;
    try (apply streq_eq in H; subst; apply streq_refl); try reflexivity.
  - destruct bo, bo'; try discriminate; reflexivity.
  - change (mx_same_value (VList l) (VList l') = true) in H. change (mx_same_value (VList l') (VList l) = true).
    rewrite same_value_list, andb_true_iff in *. destruct H as [Hl Hz]. apply mx_nat_eqb_eq in Hl. split.
    + apply mx_nat_eqb_eq. congruence.
    + apply zip_all_forall2; [congruence|]. apply zip_all_forall2 in Hz; [|exact Hl].
      assert (Hel : forall x, In x l -> forall y, In y l' -> mx_same_value x y = true -> mx_same_value y x = true).
      { intros x Hx y Hy. apply IH; [pose proof (vsize_list_in x l Hx); lia| |].
        - exact (unique_list l Hua x Hx).
        - exact (unique_list l' Hub y Hy). }
      clear Hs Hua Hub Hl. induction Hz as [|x y l l' Hxy Hz IHz]; constructor.
      * apply Hel; [left; reflexivity|left; reflexivity|exact Hxy].
      * apply IHz. intros x' Hx' y' Hy'. apply Hel; right; assumption.
  - change (mx_same_value (VObject fs) (VObject fs') = true) in H. change (mx_same_value (VObject fs') (VObject fs) = true).
    apply same_obj_iff in H. apply same_obj_iff. destruct H as [Hl Hsub]. split; [congruence|].
    destruct (unique_obj fs Hua) as [Hnd Hu]. destruct (unique_obj fs' Hub) as [Hnd' Hu'].
    intros k' v' Hin'.
    (* the key k' of the right side occurs on the left *)
    assert (Hk : In k' (map fst fs)).
    { apply (keys_back fs fs' Hnd Hl).
      - intros k Hk. apply in_map_iff in Hk. destruct Hk as [[k0 v0] [E Hin0]]. cbn in E. subst k0.
        destruct (Hsub k v0 Hin0) as [w [Hf _]]. destruct (find_key_some _ _ _ Hf) as [Hinw _].
        apply in_map_iff. exists (k, w). auto.
      - apply in_map_iff. exists (k', v'). auto. }
    apply in_map_iff in Hk. destruct Hk as [[k0 v] [E Hin]]. cbn in E. subst k0.
    destruct (Hsub k' v Hin) as [w [Hf Hvw]].
    rewrite (find_key_nodup k' v' fs' Hnd' Hin') in Hf. injection Hf as <-.
    exists v. split; [apply find_key_nodup; assumption|].
    apply IH; [pose proof (vsize_obj_in k' v fs Hin); lia|exact (Hu k' v Hin)|exact (Hu' k' v' Hin')|exact Hvw].
Qed.

Lemma same_value_sym a b : xv_value_unique a = true -> xv_value_unique b = true ->
  mx_same_value a b = true -> mx_same_value b a = true.
Proof. apply (same_value_sym_n (S (vsize a))). lia. Qed.

Lemma same_value_trans_n n : forall a b c, (vsize a < n)%nat ->
  xv_value_unique a = true -> xv_value_unique b = true -> xv_value_unique c = true ->
  mx_same_value a b = true -> mx_same_value b c = true -> mx_same_value a c = true.
Proof.
  induction n as [|n IH]; intros a b c Hs Hua Hub Huc H1 H2; [lia|].
  pose proof (same_value_kind a b H1) as K1. pose proof (same_value_kind b c H2) as K2.
  destruct a as [| e | v | s | t | t | bo | l | fs]; destruct b as [| e' | v' | s' | t' | t' | bo' | l' | fs'];
    try contradiction; destruct c as [| e'' | v'' | s'' | t'' | t'' | bo'' | l'' | fs'']; try contradiction;
    cbn [mx_same_value] in *;
    try (apply streq_eq in H1; apply streq_eq in H2; subst; apply streq_refl); try reflexivity.
  - destruct bo, bo', bo''; try discriminate; reflexivity.
  - change (mx_same_value (VList l) (VList l') = true) in H1. change (mx_same_value (VList l') (VList l'') = true) in H2.
    change (mx_same_value (VList l) (VList l'') = true).
    rewrite same_value_list, andb_true_iff in *. destruct H1 as [Hl1 Hz1]. destruct H2 as [Hl2 Hz2].
    apply mx_nat_eqb_eq in Hl1. apply mx_nat_eqb_eq in Hl2. split; [apply mx_nat_eqb_eq; congruence|].
    apply zip_all_forall2; [congruence|]. apply zip_all_forall2 in Hz1; [|exact Hl1]. apply zip_all_forall2 in Hz2; [|exact Hl2].
    assert (Hel : forall x, In x l -> forall y, In y l' -> forall z, In z l'' ->
              mx_same_value x y = true -> mx_same_value y z = true -> mx_same_value x z = true).
    { intros x Hx y Hy z Hz. apply IH; [pose proof (vsize_list_in x l Hx); lia| | |].
      - exact (unique_list l Hua x Hx).
      - exact (unique_list l' Hub y Hy).
      - exact (unique_list l'' Huc z Hz). }
    clear Hs Hua Hub Huc Hl1 Hl2. revert l'' Hz2 Hel.
    induction Hz1 as [|x y l l' Hxy Hz1 IHz]; intros l'' Hz2 Hel; inversion Hz2 as [|? z ? r'' Hyz Hz2']; subst; constructor.
    + apply (Hel x (or_introl eq_refl) y (or_introl eq_refl) z (or_introl eq_refl)); assumption.
    + apply IHz; [exact Hz2'|]. intros x' Hx' y' Hy' z' Hz'. apply Hel; right; assumption.
  - change (mx_same_value (VObject fs) (VObject fs') = true) in H1.
    change (mx_same_value (VObject fs') (VObject fs'') = true) in H2.
    change (mx_same_value (VObject fs) (VObject fs'') = true).
    apply same_obj_iff in H1. apply same_obj_iff in H2. apply same_obj_iff.
    destruct H1 as [Hl1 Hs1]. destruct H2 as [Hl2 Hs2]. split; [congruence|].
    destruct (unique_obj fs Hua) as [_ Hu]. destruct (unique_obj fs' Hub) as [_ Hu']. destruct (unique_obj fs'' Huc) as [_ Hu''].
    intros k v Hin. destruct (Hs1 k v Hin) as [v' [Hf1 Hr1]].
    destruct (find_key_some _ _ _ Hf1) as [Hin' _].
    destruct (Hs2 k v' Hin') as [v'' [Hf2 Hr2]]. destruct (find_key_some _ _ _ Hf2) as [Hin'' _].
    exists v''. split; [exact Hf2|].
    apply (IH v v' v''); [pose proof (vsize_obj_in k v fs Hin); lia|exact (Hu k v Hin)|exact (Hu' k v' Hin')
                          |exact (Hu'' k v'' Hin'')|exact Hr1|exact Hr2].
Qed.

Lemma same_value_trans a b c :
  xv_value_unique a = true -> xv_value_unique b = true -> xv_value_unique c = true ->
  mx_same_value a b = true -> mx_same_value b c = true -> mx_same_value a c = true.
Proof. apply (same_value_trans_n (S (vsize a))). lia. Qed.

(* the zip-only variant (before commit 04e5313) is not transitive: [1,2] ~ [1] ~ [1,3] but not [1,2] ~ [1,3] *)
Definition ex_one : value := VInt [49]. Definition ex_two : value := VInt [50]. Definition ex_three : value := VInt [51].
Lemma same_value_old_not_transitive :
  mx_same_value_old (VList [ex_one; ex_two]) (VList [ex_one]) = true /\
  mx_same_value_old (VList [ex_one]) (VList [ex_one; ex_three]) = true /\
  mx_same_value_old (VList [ex_one; ex_two]) (VList [ex_one; ex_three]) = false /\
  mx_same_value_old (VList [ex_one]) (VList [ex_one; ex_two]) = true /\
  mx_same_value (VList [ex_one]) (VList [ex_one; ex_two]) = false.
Proof. vm_compute. repeat split. Qed.

(* ---------- first against rest ---------- *)
Lemma first_vs_rest_all_pairs (rel : mx_fs -> mx_fs -> bool) (group : list mx_fs) :
  (forall a, In a group -> rel a a = true) ->
  (forall a b, In a group -> In b group -> rel a b = true -> rel b a = true) ->
  (forall a b c, In a group -> In b group -> In c group -> rel a b = true -> rel b c = true -> rel a c = true) ->
  (mx_first_vs_rest rel group = true <-> forall a b, In a group -> In b group -> rel a b = true).
Proof.
  intros Hrefl Hsym Htrans. destruct group as [|f rest]; cbn [mx_first_vs_rest].
  - split; [intros _ a b []|reflexivity].
  - rewrite forallb_forall. split.
    + intros H a b Ha Hb.
      assert (Hf : forall x, In x (f :: rest) -> rel f x = true).
      { intros x [<-|Hx]; [apply Hrefl; left; reflexivity|apply H; exact Hx]. }
      apply (Htrans a f b); auto; [left; reflexivity|].
      apply Hsym; auto. left. reflexivity.
    + intros H x Hx. apply H; [left; reflexivity|right; exact Hx].
Qed.

(* ---------- group_by_common_parents ---------- *)
Fixpoint grp_lookup (k : str) (g : list (str * list mx_fs)) : list mx_fs :=
  match g with
  | [] => []
  | (k', l) :: r => if streq k k' then l else grp_lookup k r
  end.

Lemma grp_insert_keys k f g :
  map fst (mx_group_insert k f g) = if xv_mem k (map fst g) then map fst g else map fst g ++ [k].
Proof.
  induction g as [|[k' l] g IH]; cbn [mx_group_insert map fst xv_mem existsb app]; [reflexivity|].
  destruct (streq k k') eqn:E; cbn [map fst orb]; [reflexivity|].
  rewrite IH. unfold xv_mem. destruct (existsb (streq k) (map fst g)); reflexivity.
Qed.

Lemma nodup_snoc (l : list str) k : NoDup l -> ~ In k l -> NoDup (l ++ [k]).
Proof.
  induction l as [|x l IH]; intros H E; cbn [app].
  - constructor; [intros []|constructor].
  - inversion H; subst. constructor.
    + intros Hin. apply in_app_or in Hin. destruct Hin as [Hin|[->|[]]]; [contradiction|]. apply E. left. reflexivity.
    + apply IH; [assumption|]. intros Hin. apply E. right. exact Hin.
Qed.

Lemma grp_insert_nodup k f g : NoDup (map fst g) -> NoDup (map fst (mx_group_insert k f g)).
Proof.
  intros H. rewrite grp_insert_keys. destruct (xv_mem k (map fst g)) eqn:E; [exact H|].
  apply xv_mem_false in E. apply nodup_snoc; assumption.
Qed.

Lemma grp_insert_lookup k f g k' :
  grp_lookup k' (mx_group_insert k f g) = if streq k' k then grp_lookup k g ++ [f] else grp_lookup k' g.
Proof.
  induction g as [|[k0 l] g IH]; cbn [mx_group_insert grp_lookup].
  - destruct (streq k' k); reflexivity.
  - destruct (streq k k0) eqn:E; cbn [grp_lookup].
    + apply streq_eq in E. subst k0. destruct (streq k' k); reflexivity.
    + destruct (streq k' k0) eqn:E'.
      * destruct (streq k' k) eqn:E''; [|reflexivity].
        apply streq_eq in E'. apply streq_eq in E''. subst. rewrite streq_refl in E. discriminate.
      * exact IH.
Qed.

Section GroupFold.
  Variable key : mx_fs -> option str.
  Definition grp_step (g : list (str * list mx_fs)) (f : mx_fs) : list (str * list mx_fs) :=
    match key f with Some k => mx_group_insert k f g | None => g end.
  Definition key_is (k : str) (f : mx_fs) : bool :=
    match key f with Some k' => streq k k' | None => false end.

  Lemma grp_fold_nodup fields : forall g, NoDup (map fst g) -> NoDup (map fst (fold_left grp_step fields g)).
  Proof.
    induction fields as [|f fields IH]; intros g H; cbn [fold_left]; [exact H|].
    apply IH. unfold grp_step. destruct (key f); [apply grp_insert_nodup; exact H|exact H].
  Qed.

  Lemma grp_fold_lookup fields k : forall g,
    grp_lookup k (fold_left grp_step fields g) = grp_lookup k g ++ filter (key_is k) fields.
  Proof.
    induction fields as [|f fields IH]; intros g; cbn [fold_left filter]; [rewrite app_nil_r; reflexivity|].
    rewrite IH. unfold grp_step, key_is at 2. destruct (key f) as [k'|]; [|reflexivity].
    rewrite grp_insert_lookup. destruct (streq k k') eqn:E; [|reflexivity].
    apply streq_eq in E. subst k'. rewrite <- app_assoc. reflexivity.
  Qed.

  Lemma grp_fold_keys fields : forall g k,
    In k (map fst (fold_left grp_step fields g)) <-> In k (map fst g) \/ exists f, In f fields /\ key f = Some k.
  Proof.
    induction fields as [|f fields IH]; intros g k; cbn [fold_left].
    - split; [auto|intros [H|[f [[] _]]]; exact H].
    - rewrite IH. unfold grp_step at 1. destruct (key f) as [k'|] eqn:E.
      + rewrite grp_insert_keys. destruct (xv_mem k' (map fst g)) eqn:M.
        * apply xv_mem_In in M. split.
          -- intros [H|[x [Hx Hk]]]; [left; exact H|right; exists x; split; [right; exact Hx|exact Hk]].
          -- intros [H|[x [[<-|Hx] Hk]]]; [left; exact H| |right; exists x; auto].
             rewrite E in Hk. injection Hk as <-. left. exact M.
        * split.
          -- intros [H|[x [Hx Hk]]].
             ++ apply in_app_or in H. destruct H as [H|[<-|[]]]; [left; exact H|].
                right. exists f. split; [left; reflexivity|exact E].
             ++ right. exists x. split; [right; exact Hx|exact Hk].
          -- intros [H|[x [[<-|Hx] Hk]]].
             ++ left. apply in_or_app. left. exact H.
             ++ rewrite E in Hk. injection Hk as <-. left. apply in_or_app. right. left. reflexivity.
             ++ right. exists x. auto.
      + split.
        * intros [H|[x [Hx Hk]]]; [left; exact H|right; exists x; split; [right; exact Hx|exact Hk]].
        * intros [H|[x [[<-|Hx] Hk]]]; [left; exact H|congruence|right; exists x; auto].
  Qed.
End GroupFold.

Lemma grp_in_lookup g k l : NoDup (map fst g) -> In (k, l) g -> grp_lookup k g = l.
Proof.
  induction g as [|[k' l'] g IH]; intros Hnd Hin; [destruct Hin|]. cbn [grp_lookup].
  cbn [map fst] in Hnd. inversion Hnd as [|? ? Hnot Hnd']; subst.
  destruct Hin as [Heq|Hin].
  - injection Heq as -> ->. rewrite streq_refl. reflexivity.
  - destruct (streq k k') eqn:E.
    + apply streq_eq in E. subst. exfalso. apply Hnot. apply in_map_iff. exists (k', l). auto.
    + apply IH; assumption.
Qed.

Lemma sch_get_type_name s n t : sch_get_type s n = Some t -> et_name t = n.
Proof.
  unfold sch_get_type. induction (sch_types s) as [|t' r IH]; cbn [sch_find_type]; [discriminate|].
  destruct (streq n (et_name t')) eqn:E.
  - intros [= <-]. apply streq_eq in E. congruence.
  - exact IH.
Qed.

(* the key under which group_by_common_parents files a field: the name of its parent if that is an object type *)
Definition obj_key (s : schema) (f : mx_fs) : option str :=
  match sch_get_type s (mf_parent f) with
  | Some (EObject _ name _ _ _ _) => Some name
  | _ => None
  end.
Definition is_abstract (s : schema) (f : mx_fs) : bool :=
  match sch_get_type s (mf_parent f) with
  | Some (EInterface _ _ _ _ _ _) | Some (EUnion _ _ _ _ _) => true
  | _ => false
  end.

Lemma group_by_common_parents_eq s fields :
  mx_group_by_common_parents s fields =
  match fold_left (grp_step (obj_key s)) fields [] with
  | [] => [filter (is_abstract s) fields]
  | conc => map (fun g => snd g ++ filter (is_abstract s) fields) conc
  end.
Proof.
  unfold mx_group_by_common_parents.
  assert (E : forall g0, fold_left (fun g f => match sch_get_type s (mf_parent f) with
                                               | Some (EObject _ name _ _ _ _) => mx_group_insert name f g
                                               | _ => g
                                               end) fields g0
                         = fold_left (grp_step (obj_key s)) fields g0).
  { induction fields as [|f fields IH]; intros g0; cbn [fold_left]; [reflexivity|]. rewrite IH. f_equal.
    unfold grp_step, obj_key. destruct (sch_get_type s (mf_parent f)) as [[]|]; reflexivity. }
  rewrite E. destruct (fold_left (grp_step (obj_key s)) fields []); reflexivity.
Qed.

Lemma obj_key_parent s f k : obj_key s f = Some k -> k = mf_parent f /\ xv_object_name s (mf_parent f) = true.
Proof.
  unfold obj_key, xv_object_name. destruct (sch_get_type s (mf_parent f)) as [t|] eqn:E; [|discriminate].
  destruct t; try discriminate. intros [= <-]. split; [exact (sch_get_type_name _ _ _ E)|reflexivity].
Qed.

Lemma composite_cases s f : xv_composite_name s (mf_parent f) = true ->
  (obj_key s f = Some (mf_parent f) /\ is_abstract s f = false /\ xv_object_name s (mf_parent f) = true) \/
  (obj_key s f = None /\ is_abstract s f = true /\ xv_object_name s (mf_parent f) = false).
Proof.
  unfold xv_composite_name, obj_key, is_abstract, xv_object_name.
  destruct (sch_get_type s (mf_parent f)) as [t|] eqn:E; [|discriminate].
  pose proof (sch_get_type_name _ _ _ E) as Hn.
  destruct t; cbn [xv_is_composite xv_is_object et_name] in *; try discriminate; intros _;
    [left; subst; auto|right; auto|right; auto].
Qed.

Theorem xing_groups s fields f g :
  (forall x, In x fields -> xv_composite_name s (mf_parent x) = true) ->
  In f fields -> In g fields ->
  ((exists grp, In grp (mx_group_by_common_parents s fields) /\ In f grp /\ In g grp) <->
   (mf_parent f = mf_parent g \/ xv_object_name s (mf_parent f) = false \/ xv_object_name s (mf_parent g) = false)).
Proof.
  intros Hcomp Hf Hg. rewrite group_by_common_parents_eq.
  set (conc := fold_left (grp_step (obj_key s)) fields []).
  set (abs := filter (is_abstract s) fields).
  assert (Hnd : NoDup (map fst conc)) by (apply grp_fold_nodup; constructor).
  assert (Hlk : forall k, grp_lookup k conc = filter (key_is (obj_key s) k) fields).
  { intros k. unfold conc. rewrite grp_fold_lookup. reflexivity. }
  assert (Hkeys : forall k, In k (map fst conc) <-> exists x, In x fields /\ obj_key s x = Some k).
  { intros k. unfold conc. rewrite grp_fold_keys. split; [intros [[]|H]; exact H|auto]. }
  assert (Habs : forall x, In x fields -> is_abstract s x = true -> In x abs).
  { intros x Hx Ha. apply filter_In. auto. }
  assert (Hin_grp : forall x k, In x fields -> obj_key s x = Some k -> exists l, In (k, l) conc /\ In x l).
  { intros x k Hx Hk. assert (Hkk : In k (map fst conc)) by (apply Hkeys; exists x; auto).
    apply in_map_iff in Hkk. destruct Hkk as [[k0 l] [E Hl]]. cbn in E. subst k0. exists l. split; [exact Hl|].
    rewrite <- (grp_in_lookup conc k l Hnd Hl), Hlk. apply filter_In. split; [exact Hx|].
    unfold key_is. rewrite Hk. apply streq_refl. }
  destruct (composite_cases s f (Hcomp f Hf)) as [(Kf & Af & Of)|(Kf & Af & Of)];
    destruct (composite_cases s g (Hcomp g Hg)) as [(Kg & Ag & Og)|(Kg & Ag & Og)].
  - (* both parents are object types *)
    split.
    + intros [grp [Hgrp [Hfg Hgg]]].
      destruct conc as [|c0 conc'] eqn:Ec.
      * destruct Hgrp as [<-|[]]. apply filter_In in Hfg. destruct Hfg as [_ Hfa]. congruence.
      * rewrite <- Ec in *. apply in_map_iff in Hgrp. destruct Hgrp as [[k l] [<- Hkl]]. cbn [snd] in *.
        left.
        assert (Hl : l = filter (key_is (obj_key s) k) fields) by (rewrite <- Hlk; symmetry; apply grp_in_lookup; assumption).
        apply in_app_or in Hfg. apply in_app_or in Hgg.
        destruct Hfg as [Hfg|Hfg]; [|apply filter_In in Hfg; destruct Hfg; congruence].
        destruct Hgg as [Hgg|Hgg]; [|apply filter_In in Hgg; destruct Hgg; congruence].
        rewrite Hl in Hfg, Hgg. apply filter_In in Hfg. apply filter_In in Hgg.
        destruct Hfg as [_ Hfk]. destruct Hgg as [_ Hgk]. unfold key_is in *. rewrite Kf in Hfk. rewrite Kg in Hgk.
        apply streq_eq in Hfk. apply streq_eq in Hgk. congruence.
    + intros [Heq|[H|H]]; try congruence.
      destruct (Hin_grp f _ Hf Kf) as [l [Hl Hfl]].
      assert (Hgl : In g l).
      { rewrite <- (grp_in_lookup conc _ l Hnd Hl), Hlk. apply filter_In. split; [exact Hg|].
        unfold key_is. rewrite Kg, Heq. apply streq_refl. }
      destruct conc as [|c0 conc'] eqn:Ec; [destruct Hl|]. rewrite <- Ec in *.
      exists (l ++ abs). split; [|split; apply in_or_app; left; assumption].
      apply in_map_iff. exists (mf_parent f, l). auto.
  - (* f object, g abstract *)
    split; [intros _; right; right; exact Og|intros _].
    destruct (Hin_grp f _ Hf Kf) as [l [Hl Hfl]].
    destruct conc as [|c0 conc'] eqn:Ec; [destruct Hl|]. rewrite <- Ec in *.
    exists (l ++ abs). split; [|split; apply in_or_app; [left; exact Hfl|right; apply Habs; assumption]].
    apply in_map_iff. exists (mf_parent f, l). auto.
  - (* f abstract, g object *)
    split; [intros _; right; left; exact Of|intros _].
    destruct (Hin_grp g _ Hg Kg) as [l [Hl Hgl]].
    destruct conc as [|c0 conc'] eqn:Ec; [destruct Hl|]. rewrite <- Ec in *.
    exists (l ++ abs). split; [|split; apply in_or_app; [right; apply Habs; assumption|left; exact Hgl]].
    apply in_map_iff. exists (mf_parent g, l). auto.
  - (* both abstract *)
    split; [intros _; right; left; exact Of|intros _].
    destruct conc as [|[k l] conc'] eqn:Ec.
    + exists abs. split; [left; reflexivity|split; apply Habs; assumption].
    + exists (l ++ abs). split; [left; reflexivity|split; apply in_or_app; right; apply Habs; assumption].
Qed.

(* ---------- same_name_and_arguments is an equivalence on fields with well-formed arguments ---------- *)
(* 5.4.2 Argument Uniqueness and 5.6.3 hold for the field *)
Definition args_wf (f : mx_fs) : Prop :=
  NoDup (map fst (mf_args f)) /\ forall k v, In (k, v) (mf_args f) -> xv_value_unique v = true.

Lemma streq_sym a b : streq a b = streq b a.
Proof.
  destruct (streq a b) eqn:E.
  - apply streq_eq in E. subst. symmetry. apply streq_refl.
  - destruct (streq b a) eqn:E'; [|reflexivity]. apply streq_eq in E'. subst. rewrite streq_refl in E. discriminate.
Qed.

Lemma by_name_find_key args n : mx_by_name args n = find_key n args.
Proof.
  unfold mx_by_name, find_key. induction args as [|a args IH]; cbn [find]; [reflexivity|].
  rewrite (streq_sym (fst a) n). destruct (streq n (fst a)); [reflexivity|exact IH].
Qed.

(* the comparison as a statement *)
Definition args_sub (a b : list argument) : Prop :=
  forall k v, In (k, v) a -> exists w, find_key k b = Some (k, w) /\ mx_same_value w v = true.
Definition args_keys_sub (b a : list argument) : Prop :=
  forall k v, In (k, v) b -> exists w, find_key k a = Some (k, w).

Lemma same_name_args_iff a b :
  mx_same_name_and_arguments a b = true <->
  mf_name a = mf_name b /\ args_sub (mf_args a) (mf_args b) /\ args_keys_sub (mf_args b) (mf_args a).
Proof.
  unfold mx_same_name_and_arguments, args_sub, args_keys_sub.
  destruct (streq (mf_name a) (mf_name b)) eqn:En; cbn [negb].
  - apply streq_eq in En. rewrite andb_true_iff, !forallb_forall. split.
    + intros [H1 H2]. split; [exact En|]. split.
      * intros k v Hin. specialize (H1 (k, v) Hin). cbn [fst snd] in H1. rewrite by_name_find_key in H1.
        destruct (find_key k (mf_args b)) as [[k' w]|] eqn:E; [|discriminate].
        destruct (find_key_some _ _ _ E) as [_ Hk]. cbn in Hk. subst k'. exists w. auto.
      * intros k v Hin. specialize (H2 (k, v) Hin). cbn [fst] in H2. rewrite by_name_find_key in H2.
        destruct (find_key k (mf_args a)) as [[k' w]|] eqn:E; [|discriminate].
        destruct (find_key_some _ _ _ E) as [_ Hk]. cbn in Hk. subst k'. exists w. reflexivity.
    + intros [_ [H1 H2]]. split.
      * intros [k v] Hin. cbn [fst snd]. rewrite by_name_find_key. destruct (H1 k v Hin) as [w [E Hs]]. rewrite E. exact Hs.
      * intros [k v] Hin. cbn [fst]. rewrite by_name_find_key. destruct (H2 k v Hin) as [w E]. rewrite E. reflexivity.
  - split; [discriminate|]. intros [H _]. rewrite H, streq_refl in En. discriminate.
Qed.

Lemma same_name_args_refl a : args_wf a -> mx_same_name_and_arguments a a = true.
Proof.
  intros [Hnd Hu]. apply same_name_args_iff. split; [reflexivity|]. split.
  - intros k v Hin. exists v. split; [apply find_key_nodup; assumption|apply same_value_refl; exact (Hu k v Hin)].
  - intros k v Hin. exists v. apply find_key_nodup; assumption.
Qed.

Lemma same_name_args_sym a b : args_wf a -> args_wf b ->
  mx_same_name_and_arguments a b = true -> mx_same_name_and_arguments b a = true.
Proof.
  intros [Hnda Hua] [Hndb Hub] H. apply same_name_args_iff in H. destruct H as [Hn [H1 H2]].
  apply same_name_args_iff. split; [congruence|]. split.
  - intros k v Hin. destruct (H2 k v Hin) as [w Ew]. exists w. split; [exact Ew|].
    destruct (find_key_some _ _ _ Ew) as [Hinw _].
    destruct (H1 k w Hinw) as [v' [Ev' Hs]].
    rewrite (find_key_nodup k v (mf_args b) Hndb Hin) in Ev'. injection Ev' as <-.
    apply same_value_sym; [exact (Hub k v Hin)|exact (Hua k w Hinw)|exact Hs].
  - intros k v Hin. destruct (H1 k v Hin) as [w [Ew _]]. exists w. exact Ew.
Qed.

Lemma same_name_args_trans a b c : args_wf a -> args_wf b -> args_wf c ->
  mx_same_name_and_arguments a b = true -> mx_same_name_and_arguments b c = true ->
  mx_same_name_and_arguments a c = true.
Proof.
  intros [Hnda Hua] [Hndb Hub] [Hndc Huc] H H'.
  apply same_name_args_iff in H. apply same_name_args_iff in H'.
  destruct H as [Hn [H1 H2]]. destruct H' as [Hn' [H1' H2']].
  apply same_name_args_iff. split; [congruence|]. split.
  - intros k v Hin. destruct (H1 k v Hin) as [w [Ew Hs]]. destruct (find_key_some _ _ _ Ew) as [Hinw _].
    destruct (H1' k w Hinw) as [u [Eu Hs']]. destruct (find_key_some _ _ _ Eu) as [Hinu _].
    exists u. split; [exact Eu|].
    apply (same_value_trans u w v); [exact (Huc k u Hinu)|exact (Hub k w Hinw)|exact (Hua k v Hin)|exact Hs'|exact Hs].
  - intros k v Hin. destruct (H2' k v Hin) as [w Ew]. destruct (find_key_some _ _ _ Ew) as [Hinw _].
    exact (H2 k w Hinw).
Qed.

(* ---------- same_output_type_shape is an equivalence on fields whose return types are defined ---------- *)
(* the "shape" of a type: its list / non-null structure, and for the named type at the bottom its name if it
   is a leaf type, nothing if it is composite *)
Fixpoint mx_sig (s : schema) (t : ty) : list bool * (bool * option str) :=
  let bottom (nn : bool) (n : str) :=
    ([], (nn, match sch_get_type s n with Some d => if xv_is_leaf d then Some n else None | None => None end)) in
  match t with
  | TNamed n => bottom false n
  | TNonNullNamed n => bottom true n
  | TList i => let '(w, b) := mx_sig s i in (false :: w, b)
  | TNonNullList i => let '(w, b) := mx_sig s i in (true :: w, b)
  end.

(* the named type at the bottom is an output type of the schema: a leaf or a composite type *)
Definition ty_defined (s : schema) (t : ty) : Prop :=
  exists d, sch_get_type s (inner_named_type t) = Some d /\ (xv_is_leaf d = true \/ xv_is_composite d = true).

Lemma leaf_not_composite d : xv_is_leaf d = true -> xv_is_composite d = false.
Proof. destruct d; cbn; congruence. Qed.

Lemma shape_bottom s nn nn' na nb :
  ty_defined s (TNamed na) -> ty_defined s (TNamed nb) ->
  (Bool.eqb nn nn' &&
   match sch_get_type s na, sch_get_type s nb with
   | Some da, Some db =>
       if mx_scalar_or_enum da && mx_scalar_or_enum db then streq (et_name da) (et_name db)
       else xv_is_composite da && xv_is_composite db
   | _, _ => true
   end = true) <->
  (nn, match sch_get_type s na with Some d => if xv_is_leaf d then Some na else None | None => None end) =
  (nn', match sch_get_type s nb with Some d => if xv_is_leaf d then Some nb else None | None => None end).
Proof.
  intros [da [Ea Ka]] [db [Eb Kb]]. cbn [inner_named_type] in Ea, Eb. rewrite Ea, Eb.
  pose proof (sch_get_type_name _ _ _ Ea) as Na. pose proof (sch_get_type_name _ _ _ Eb) as Nb.
  unfold mx_scalar_or_enum. rewrite andb_true_iff, Bool.eqb_true_iff.
  destruct (xv_is_leaf da) eqn:La; destruct (xv_is_leaf db) eqn:Lb; cbn [andb].
  - rewrite Na, Nb. split.
    + intros [-> H]. apply streq_eq in H. congruence.
    + intros [= -> ->]. split; [reflexivity|apply streq_refl].
  - destruct Kb as [Kb|Kb]; [congruence|]. rewrite (leaf_not_composite da La). cbn [andb].
    split; [intros [_ H]; discriminate|intros H; discriminate H].
  - destruct Ka as [Ka|Ka]; [congruence|]. rewrite (leaf_not_composite db Lb), andb_false_r.
    split; [intros [_ H]; discriminate|intros H; discriminate H].
  - destruct Ka as [Ka|Ka]; [congruence|]. destruct Kb as [Kb|Kb]; [congruence|]. rewrite Ka, Kb. cbn [andb].
    split; [intros [-> _]; reflexivity|intros [= ->]; auto].
Qed.

Lemma ty_defined_inner s t : ty_defined s t <-> ty_defined s (TNamed (inner_named_type t)).
Proof. unfold ty_defined. cbn [inner_named_type]. tauto. Qed.

Lemma shape_sig s (ta tb : ty) : ty_defined s ta -> ty_defined s tb ->
  (match mx_unwrap_lists ta tb with
   | None => false
   | Some (ta', tb') =>
       match ta', tb' with
       | TNonNullNamed na, TNonNullNamed nb | TNamed na, TNamed nb =>
           match sch_get_type s na, sch_get_type s nb with
           | Some da, Some db =>
               if mx_scalar_or_enum da && mx_scalar_or_enum db then streq (et_name da) (et_name db)
               else xv_is_composite da && xv_is_composite db
           | _, _ => true
           end
       | _, _ => false
       end
   end = true) <-> mx_sig s ta = mx_sig s tb.
Proof.
  revert tb. induction ta as [na|na|ia IH|ia IH]; intros tb Da Db; destruct tb as [nb|nb|ib|ib];
    cbn [mx_unwrap_lists mx_sig]; try (split; [discriminate|]);
    try (destruct (mx_sig s ia) as [wa ba] eqn:Sa); try (destruct (mx_sig s ib) as [wb bb] eqn:Sb);
    try (intros E; discriminate E).
  - pose proof (shape_bottom s false false na nb Da Db) as H. cbn [Bool.eqb andb] in H. rewrite H.
    split; intros E; congruence.
  - assert (Da' : ty_defined s (TNamed na)) by (apply ty_defined_inner in Da; exact Da).
    assert (Db' : ty_defined s (TNamed nb)) by (apply ty_defined_inner in Db; exact Db).
    pose proof (shape_bottom s true true na nb Da' Db') as H. cbn [Bool.eqb andb] in H. rewrite H.
    split; intros E; congruence.
  - assert (Da' : ty_defined s ia) by (apply ty_defined_inner; apply ty_defined_inner in Da; exact Da).
    assert (Db' : ty_defined s ib) by (apply ty_defined_inner; apply ty_defined_inner in Db; exact Db).
    rewrite (IH ib Da' Db'), Sb. split; intros E; congruence.
  - assert (Da' : ty_defined s ia) by (apply ty_defined_inner; apply ty_defined_inner in Da; exact Da).
    assert (Db' : ty_defined s ib) by (apply ty_defined_inner; apply ty_defined_inner in Db; exact Db).
    rewrite (IH ib Da' Db'), Sb. split; intros E; congruence.
Qed.

Definition field_ty_defined (s : schema) (f : mx_fs) : Prop := ty_defined s (fd_ty (mf_def f)).

Lemma same_shape_sig s a b : field_ty_defined s a -> field_ty_defined s b ->
  (mx_same_output_type_shape s a b = true <-> mx_sig s (fd_ty (mf_def a)) = mx_sig s (fd_ty (mf_def b))).
Proof. intros Da Db. unfold mx_same_output_type_shape. apply shape_sig; assumption. Qed.

(* ---------- the two first-against-rest loops of selection.rs decide all pairs ---------- *)
Lemma first_vs_rest_arguments group : (forall f, In f group -> args_wf f) ->
  (mx_first_vs_rest mx_same_name_and_arguments group = true <->
   forall a b, In a group -> In b group -> mx_same_name_and_arguments a b = true).
Proof.
  intros Hwf. apply first_vs_rest_all_pairs.
  - intros a Ha. apply same_name_args_refl. auto.
  - intros a b Ha Hb. apply same_name_args_sym; auto.
  - intros a b c Ha Hb Hc. apply same_name_args_trans; auto.
Qed.

Lemma first_vs_rest_shape s group : (forall f, In f group -> field_ty_defined s f) ->
  (mx_first_vs_rest (mx_same_output_type_shape s) group = true <->
   forall a b, In a group -> In b group -> mx_same_output_type_shape s a b = true).
Proof.
  intros Hd. apply first_vs_rest_all_pairs.
  - intros a Ha. apply same_shape_sig; auto.
  - intros a b Ha Hb H. apply same_shape_sig; auto. symmetry. apply same_shape_sig in H; auto.
  - intros a b c Ha Hb Hc H1 H2. apply same_shape_sig; auto.
    apply same_shape_sig in H1; auto. apply same_shape_sig in H2; auto. congruence.
Qed.

(* ---------- the code's comparisons against the specification's, field by field ---------- *)
(* the specification's value comparison (Valid.v xv_value_same) on lists *)
Definition spec_list_go : list value -> list value -> bool :=
  fix go (la lb : list value) {struct la} : bool :=
    match la, lb with
    | [], [] => true
    | x :: la', y :: lb' => xv_value_same x y && go la' lb'
    | _, _ => false
    end.

Lemma spec_list_forall2 la lb :
  spec_list_go la lb = true <-> Forall2 (fun x y => xv_value_same x y = true) la lb.
Proof.
  revert lb. induction la as [|x la IH]; destruct lb as [|y lb]; cbn [spec_list_go].
  - split; [constructor|reflexivity].
  - split; [discriminate|intros H; inversion H].
  - split; [discriminate|intros H; inversion H].
  - rewrite andb_true_iff, IH. split.
    + intros [H1 H2]. constructor; assumption.
    + intros H. inversion H; subst. split; assumption.
Qed.

Lemma spec_same_list la lb : xv_value_same (VList la) (VList lb) = spec_list_go la lb.
Proof. reflexivity. Qed.

Lemma spec_same_obj_iff fa fb :
  xv_value_same (VObject fa) (VObject fb) = true <->
  (forall k x, In (k, x) fa -> exists x', In (k, x') fb /\ xv_value_same x x' = true) /\
  (forall k x', In (k, x') fb -> exists x, In (k, x) fa /\ xv_value_same x x' = true).
Proof.
  cbn [xv_value_same]. rewrite andb_true_iff, !forallb_forall. split.
  - intros [H1 H2]. split.
    + intros k x Hin. specialize (H1 (k, x) Hin). cbn beta iota in H1. apply existsb_exists in H1.
      destruct H1 as [[k' x'] [Hin' H]]. cbn [fst snd] in H. apply andb_true_iff in H. destruct H as [Hk Hs].
      apply streq_eq in Hk. subst k'. exists x'. auto.
    + intros k x' Hin'. specialize (H2 (k, x') Hin'). apply existsb_exists in H2.
      destruct H2 as [[k0 x] [Hin H]]. cbn [fst snd] in H. apply andb_true_iff in H. destruct H as [Hk Hs].
      apply streq_eq in Hk. subst k0. exists x. auto.
  - intros [H1 H2]. split.
    + intros [k x] Hin. cbn beta iota. apply existsb_exists. destruct (H1 k x Hin) as [x' [Hin' Hs]].
      exists (k, x'). split; [exact Hin'|]. cbn [fst snd]. rewrite streq_refl. exact Hs.
    + intros [k x'] Hin'. apply existsb_exists. destruct (H2 k x' Hin') as [x [Hin Hs]].
      exists (k, x). split; [exact Hin|]. cbn [fst snd]. rewrite streq_refl. exact Hs.
Qed.

Lemma forall2_length {A B} (P : A -> B -> Prop) l r : Forall2 P l r -> length l = length r.
Proof. intros H. induction H; cbn [length]; congruence. Qed.

(* same_value computes the specification's comparison on values without repeated object keys *)
Lemma same_value_spec_n n : forall a b, (vsize a < n)%nat ->
  xv_value_unique a = true -> xv_value_unique b = true ->
  (mx_same_value a b = true <-> xv_value_same a b = true).
Proof.
  induction n as [|n IH]; intros a b Hs Hua Hub; [lia|].
  destruct a as [| e | v | s | t | t | bo | l | fs]; destruct b as [| e' | v' | s' | t' | t' | bo' | l' | fs'];
    try (cbn [mx_same_value xv_value_same]; tauto).
  - (* lists *)
    rewrite same_value_list, spec_same_list, andb_true_iff, mx_nat_eqb_eq, spec_list_forall2.
    assert (Hel : forall x, In x l -> forall y, In y l' ->
              (mx_same_value x y = true <-> xv_value_same x y = true)).
    { intros x Hx y Hy. apply IH; [pose proof (vsize_list_in x l Hx); lia| |].
      - exact (unique_list l Hua x Hx).
      - exact (unique_list l' Hub y Hy). }
    split.
    + intros [Hl Hz]. apply zip_all_forall2 in Hz; [|exact Hl]. clear Hs Hua Hub Hl.
      induction Hz as [|x y l l' Hxy Hz IHz]; constructor.
      * apply Hel; [left; reflexivity|left; reflexivity|exact Hxy].
      * apply IHz. intros x' Hx' y' Hy'. apply Hel; right; assumption.
    + intros Hz. pose proof (forall2_length _ _ _ Hz) as Hl. split; [exact Hl|].
      apply zip_all_forall2; [exact Hl|]. clear Hs Hua Hub Hl.
      induction Hz as [|x y l l' Hxy Hz IHz]; constructor.
      * apply Hel; [left; reflexivity|left; reflexivity|exact Hxy].
      * apply IHz. intros x' Hx' y' Hy'. apply Hel; right; assumption.
  - (* objects *)
    rewrite same_obj_iff, spec_same_obj_iff.
    destruct (unique_obj fs Hua) as [Hnd Hu]. destruct (unique_obj fs' Hub) as [Hnd' Hu'].
    assert (Hel : forall k x, In (k, x) fs -> forall k' y, In (k', y) fs' ->
              (mx_same_value x y = true <-> xv_value_same x y = true)).
    { intros k x Hx k' y Hy. apply IH; [pose proof (vsize_obj_in k x fs Hx); lia|exact (Hu k x Hx)|exact (Hu' k' y Hy)]. }
    split.
    + intros [Hl Hsub]. split.
      * intros k x Hin. destruct (Hsub k x Hin) as [x' [Hf Hsame]]. destruct (find_key_some _ _ _ Hf) as [Hin' _].
        exists x'. split; [exact Hin'|]. apply (Hel k x Hin k x' Hin'). exact Hsame.
      * intros k x' Hin'.
        assert (Hk : In k (map fst fs)).
        { apply (keys_back fs fs' Hnd Hl).
          - intros k0 Hk0. apply in_map_iff in Hk0. destruct Hk0 as [[k1 v0] [E Hin0]]. cbn in E. subst k1.
            destruct (Hsub k0 v0 Hin0) as [w [Hf _]]. destruct (find_key_some _ _ _ Hf) as [Hinw _].
            apply in_map_iff. exists (k0, w). auto.
          - apply in_map_iff. exists (k, x'). auto. }
        apply in_map_iff in Hk. destruct Hk as [[k0 x] [E Hin]]. cbn in E. subst k0.
        destruct (Hsub k x Hin) as [w [Hf Hsame]].
        rewrite (find_key_nodup k x' fs' Hnd' Hin') in Hf. injection Hf as <-.
        exists x. split; [exact Hin|]. apply (Hel k x Hin k x' Hin'). exact Hsame.
    + intros [H1 H2]. split.
      * (* the key sets include each other and have no repetition: equal lengths *)
        assert (L1 : (length (map fst fs) <= length (map fst fs'))%nat).
        { apply NoDup_incl_length; [exact Hnd|]. intros k Hk. apply in_map_iff in Hk.
          destruct Hk as [[k0 x] [E Hin]]. cbn in E. subst k0. destruct (H1 k x Hin) as [x' [Hin' _]].
          apply in_map_iff. exists (k, x'). auto. }
        assert (L2 : (length (map fst fs') <= length (map fst fs))%nat).
        { apply NoDup_incl_length; [exact Hnd'|]. intros k Hk. apply in_map_iff in Hk.
          destruct Hk as [[k0 x'] [E Hin']]. cbn in E. subst k0. destruct (H2 k x' Hin') as [x [Hin _]].
          apply in_map_iff. exists (k, x). auto. }
        rewrite !map_length in L1, L2. lia.
      * intros k x Hin. destruct (H1 k x Hin) as [x' [Hin' Hsame]]. exists x'. split.
        -- apply find_key_nodup; assumption.
        -- apply (Hel k x Hin k x' Hin'). exact Hsame.
Qed.

Lemma same_value_spec a b : xv_value_unique a = true -> xv_value_unique b = true ->
  (mx_same_value a b = true <-> xv_value_same a b = true).
Proof. apply (same_value_spec_n (S (vsize a))). lia. Qed.

(* "fieldA and fieldB must have identical field names" and "identical sets of arguments":
   same_name_and_arguments is the specification's test (Valid.v: streq of the names and xv_args_same) *)
Lemma same_name_args_spec a b : args_wf a -> args_wf b ->
  (mx_same_name_and_arguments a b = true <->
   streq (mf_name a) (mf_name b) && xv_args_same (mf_args a) (mf_args b) = true).
Proof.
  intros [Hnda Hua] [Hndb Hub]. rewrite same_name_args_iff, andb_true_iff, streq_eq.
  unfold xv_args_same, args_sub, args_keys_sub. rewrite andb_true_iff, !forallb_forall. split.
  - intros [Hn [H1 H2]]. split; [exact Hn|]. split.
    + intros [k v] Hin. apply existsb_exists. destruct (H1 k v Hin) as [w [Hf Hs]].
      destruct (find_key_some _ _ _ Hf) as [Hinw _]. exists (k, w). split; [exact Hinw|]. cbn [fst snd].
      rewrite streq_refl. cbn [andb]. apply same_value_spec; [exact (Hua k v Hin)|exact (Hub k w Hinw)|].
      apply same_value_sym; [exact (Hub k w Hinw)|exact (Hua k v Hin)|exact Hs].
    + intros [k v] Hin. apply existsb_exists. destruct (H2 k v Hin) as [w Hf].
      destruct (find_key_some _ _ _ Hf) as [Hinw _]. exists (k, w). split; [exact Hinw|]. cbn [fst]. apply streq_refl.
  - intros [Hn [H1 H2]]. split; [exact Hn|]. split.
    + intros k v Hin. specialize (H1 (k, v) Hin). apply existsb_exists in H1. destruct H1 as [[k' w] [Hinw H]].
      cbn [fst snd] in H. apply andb_true_iff in H. destruct H as [Hk Hs]. apply streq_eq in Hk. subst k'.
      exists w. split; [apply find_key_nodup; assumption|].
      apply same_value_sym; [exact (Hua k v Hin)|exact (Hub k w Hinw)|].
      apply same_value_spec; [exact (Hua k v Hin)|exact (Hub k w Hinw)|exact Hs].
    + intros k v Hin. specialize (H2 (k, v) Hin). apply existsb_exists in H2. destruct H2 as [[k' w] [Hinw Hk]].
      cbn [fst] in Hk. apply streq_eq in Hk. subst k'. exists w. apply find_key_nodup; assumption.
Qed.

(* steps 3 to 6 of SameResponseShape as Valid.v's xv_same_shape performs them before descending into the
   sub-selections: strip non-null and list wrappers together, then compare leaf types by name / require both
   composite *)
Definition spec_shape_steps (s : schema) (ta tb : ty) : bool :=
  match xv_shape_types s ta tb with
  | None => false
  | Some (na, nb) =>
      match sch_get_type s na, sch_get_type s nb with
      | Some da, Some db =>
          if xv_is_leaf da || xv_is_leaf db then streq na nb else xv_is_composite da && xv_is_composite db
      | _, _ => true
      end
  end.

Lemma unwrap_lists_shape_types s ta tb :
  match mx_unwrap_lists ta tb with
  | Some (TNonNullNamed na, TNonNullNamed nb) | Some (TNamed na, TNamed nb) => Some (na, nb)
  | _ => None
  end = xv_shape_types s ta tb.
Proof.
  revert tb. induction ta as [na|na|ia IH|ia IH]; intros tb; destruct tb as [nb|nb|ib|ib];
    cbn [mx_unwrap_lists xv_shape_types]; try reflexivity; apply IH.
Qed.

(* same_output_type_shape performs exactly these steps, when the two return types are defined *)
Lemma same_shape_spec s a b : field_ty_defined s a -> field_ty_defined s b ->
  mx_same_output_type_shape s a b = spec_shape_steps s (fd_ty (mf_def a)) (fd_ty (mf_def b)).
Proof.
  unfold field_ty_defined, mx_same_output_type_shape, spec_shape_steps. intros Da Db.
  rewrite <- (unwrap_lists_shape_types s).
  assert (Hin : forall ta tb ta' tb', mx_unwrap_lists ta tb = Some (ta', tb') ->
            inner_named_type ta' = inner_named_type ta /\ inner_named_type tb' = inner_named_type tb).
  { induction ta as [na|na|ia IH|ia IH]; intros tb ta' tb'; destruct tb as [nb|nb|ib|ib];
      cbn [mx_unwrap_lists inner_named_type]; try discriminate; try (intros [= <- <-]; split; reflexivity); apply IH. }
  destruct (mx_unwrap_lists (fd_ty (mf_def a)) (fd_ty (mf_def b))) as [[ta' tb']|] eqn:E; [|reflexivity].
  destruct (Hin _ _ _ _ E) as [Ia Ib].
  destruct Da as [da [Ea Ka]]. destruct Db as [db [Eb Kb]]. rewrite <- Ia in Ea. rewrite <- Ib in Eb.
  assert (Hcore : forall na nb, sch_get_type s na = Some da -> sch_get_type s nb = Some db ->
            (if mx_scalar_or_enum da && mx_scalar_or_enum db then streq (et_name da) (et_name db)
             else xv_is_composite da && xv_is_composite db) =
            (if xv_is_leaf da || xv_is_leaf db then streq na nb else xv_is_composite da && xv_is_composite db)).
  { intros na nb Ga Gb. unfold mx_scalar_or_enum.
    rewrite (sch_get_type_name _ _ _ Ga), (sch_get_type_name _ _ _ Gb).
    destruct (xv_is_leaf da) eqn:La; destruct (xv_is_leaf db) eqn:Lb; cbn [andb orb]; try reflexivity.
    - rewrite (leaf_not_composite da La). cbn [andb]. destruct (streq na nb) eqn:Es; [|reflexivity].
      apply streq_eq in Es. subst nb. rewrite Ga in Gb. injection Gb as ->. congruence.
    - rewrite (leaf_not_composite db Lb), andb_false_r. destruct (streq na nb) eqn:Es; [|reflexivity].
      apply streq_eq in Es. subst nb. rewrite Ga in Gb. injection Gb as ->. congruence. }
  destruct ta' as [na|na|ia|ia]; destruct tb' as [nb|nb|ib|ib]; try reflexivity;
    cbn [inner_named_type] in Ea, Eb; rewrite Ea, Eb; apply Hcore; assumption.
Qed.
