(* Proofs about Exec/Iter.v: the stack machines of root_fields / all_fields compute the declarative walk
   XiDfs (pre-order, each named fragment entered at its first spread only), on every document, cyclic
   spreads included; the walk is a total function. *)
From ApolloVerif Require Import Base.Chars Ast.Ast Exec.Doc Exec.Iter Exec.FromAstProofs.
From Coq Require Import Arith.

Local Open Scope nat_scope.

(* ---------------------------------------------------------------- small facts *)

Lemma xs_size_cons x r : xs_size (x :: r) = xs_node_size x + xs_size r.
Proof. reflexivity. Qed.

Lemma xs_node_size_field d a n ar di ty sub :
  xs_node_size (XsField d a n ar di ty sub) = S (xs_size sub).
Proof. reflexivity. Qed.
Lemma xs_node_size_inline c di ty sub : xs_node_size (XsInline c di ty sub) = S (xs_size sub).
Proof. reflexivity. Qed.
Lemma xs_node_size_spread n di : xs_node_size (XsSpread n di) = 1.
Proof. reflexivity. Qed.

Definition xi_omap (out : list xsel) (r : option (list xsel)) : option (list xsel) :=
  match r with Some l => Some (out ++ l) | None => None end.

Lemma xi_omap_nil r : xi_omap [] r = r.
Proof. destruct r; reflexivity. Qed.
Lemma xi_omap_app a b r : xi_omap a (xi_omap b r) = xi_omap (a ++ b) r.
Proof. destruct r; cbn; [now rewrite app_assoc|reflexivity]. Qed.
Lemma xi_omap_cons f r :
  match r with Some l => Some (f :: l) | None => None end = xi_omap [f] r.
Proof. destruct r; reflexivity. Qed.

(* ---------------------------------------------------------------- the potential of unseen fragments *)

(* what entering every not yet seen fragment can still cost the machine *)
Fixpoint xi_pot (frags : list (str * xfrag)) (seen : list str) : nat :=
  match frags with
  | [] => 0
  | (k, f) :: r => (if xd_mem k seen then 0 else 2 * xs_size (xf_sels f) + 1) + xi_pot r seen
  end.

Lemma xd_mem_cons n k seen : xd_mem k (n :: seen) = streq k n || xd_mem k seen.
Proof. reflexivity. Qed.

Lemma xi_pot_mono frags n seen : xi_pot frags (n :: seen) <= xi_pot frags seen.
Proof.
  induction frags as [|[k f] r IH]; cbn [xi_pot]; [lia|].
  rewrite xd_mem_cons. destruct (streq k n), (xd_mem k seen); cbn [orb]; lia.
Qed.

Lemma xi_pot_enter frags n seen def :
  xd_assoc n frags = Some def -> xd_mem n seen = false ->
  xi_pot frags (n :: seen) + 2 * xs_size (xf_sels def) + 1 <= xi_pot frags seen.
Proof.
  induction frags as [|[k f] r IH]; cbn [xd_assoc xi_pot]; [discriminate|].
  intros Ha Hm. rewrite xd_mem_cons.
  destruct (streq n k) eqn:E.
  - injection Ha as <-. apply streq_eq in E. subst k. rewrite streq_refl, Hm. cbn [orb].
    pose proof (xi_pot_mono r n seen). lia.
  - specialize (IH Ha Hm).
    destruct (streq k n), (xd_mem k seen); cbn [orb]; lia.
Qed.

Lemma xi_pot_nil_bound frags :
  xi_pot frags [] <= 2 * fold_right (fun f n => S (xs_size (xf_sels (snd f)) + n)) 0 frags.
Proof.
  induction frags as [|[k f] r IH]; cbn [xi_pot fold_right snd xd_mem existsb]; lia.
Qed.

(* ---------------------------------------------------------------- the machine runs the walk *)

Lemma xi_dfs_nil_inv all frags seen out seen' :
  XiDfs all frags seen [] out seen' -> out = [] /\ seen' = seen.
Proof. inversion 1; auto. Qed.

Lemma xi_run_dfs all frags seen l out seen' :
  XiDfs all frags seen l out seen' ->
  exists c,
    c + xi_pot frags seen' <= 2 * xs_size l + 1 + xi_pot frags seen /\
    forall k rest,
      xi_run (c + k) all frags {| xi_stack := l :: rest; xi_seen := seen |}
      = xi_omap out (xi_run k all frags {| xi_stack := rest; xi_seen := seen' |}).
Proof.
  induction 1 as
    [seen
    |seen seen1 seen2 def alias name args dirs ty sub r a b Ha IHa Hb IHb
    |seen seen1 seen2 cond dirs ty sub r a b Ha IHa Hb IHb
    |seen seen2 name dirs r b Hund Hb IHb
    |seen seen2 name dirs def r b Hdef Hseen Hb IHb
    |seen seen1 seen2 name dirs def r a b Hdef Hseen Ha IHa Hb IHb].
  - (* nil: one turn pops the exhausted iterator *)
    exists 1. split; [cbn; lia|]. intros k rest. cbn [Nat.add xi_run xi_step xi_stack xi_seen].
    now rewrite xi_omap_nil.
  - (* field *)
    destruct IHb as (cb & Hcb & Rb).
    rewrite xs_size_cons, xs_node_size_field.
    destruct all.
    + destruct sub as [|y sub'].
      * apply xi_dfs_nil_inv in Ha as [-> ->].
        exists (S cb). split; [cbn [xs_size map list_sum]; lia|].
        intros k rest. cbn [Nat.add xi_run xi_step xi_stack xi_seen].
        rewrite Rb, xi_omap_cons, xi_omap_app. reflexivity.
      * destruct IHa as (ca & Hca & Ra).
        exists (S (ca + cb)). split; [lia|].
        intros k rest. cbn [Nat.add xi_run xi_step xi_stack xi_seen].
        rewrite <- Nat.add_assoc, Ra, Rb, xi_omap_cons, !xi_omap_app. reflexivity.
    + apply xi_dfs_nil_inv in Ha as [-> ->].
      exists (S cb). split; [lia|].
      intros k rest. cbn [Nat.add xi_run xi_step xi_stack xi_seen].
      rewrite Rb, xi_omap_cons, xi_omap_app. reflexivity.
  - (* inline fragment *)
    destruct IHa as (ca & Hca & Ra). destruct IHb as (cb & Hcb & Rb).
    rewrite xs_size_cons, xs_node_size_inline.
    exists (S (ca + cb)). split; [lia|].
    intros k rest. cbn [Nat.add xi_run xi_step xi_stack xi_seen].
    rewrite <- Nat.add_assoc, Ra, Rb, xi_omap_app. reflexivity.
  - (* spread of an undefined fragment *)
    destruct IHb as (cb & Hcb & Rb).
    rewrite xs_size_cons, xs_node_size_spread.
    exists (S cb). split; [lia|].
    intros k rest. cbn [Nat.add xi_run xi_step xi_stack xi_seen]. rewrite Hund. apply Rb.
  - (* spread of a fragment already entered *)
    destruct IHb as (cb & Hcb & Rb).
    rewrite xs_size_cons, xs_node_size_spread.
    exists (S cb). split; [lia|].
    intros k rest. cbn [Nat.add xi_run xi_step xi_stack xi_seen]. rewrite Hdef, Hseen. apply Rb.
  - (* first spread of a fragment *)
    destruct IHa as (ca & Hca & Ra). destruct IHb as (cb & Hcb & Rb).
    rewrite xs_size_cons, xs_node_size_spread.
    pose proof (xi_pot_enter _ _ _ _ Hdef Hseen).
    exists (S (ca + cb)). split; [lia|].
    intros k rest. cbn [Nat.add xi_run xi_step xi_stack xi_seen]. rewrite Hdef, Hseen.
    rewrite <- Nat.add_assoc, Ra, Rb, xi_omap_app. reflexivity.
Qed.

Lemma xi_run_empty k all frags seen :
  xi_run (S k) all frags {| xi_stack := []; xi_seen := seen |} = Some [].
Proof. reflexivity. Qed.

(* the iterator, run with the fuel the model gives it, yields exactly the walk *)
Theorem xi_iter_dfs all d sels out seen' :
  XiDfs all (xd_frags d) [] sels out seen' -> xi_iter all d sels = Some out.
Proof.
  intros H. destruct (xi_run_dfs _ _ _ _ _ _ H) as (c & Hc & R).
  unfold xi_iter, xi_fuel.
  pose proof (xi_pot_nil_bound (xd_frags d)) as Hp.
  set (F := fold_right (fun f n => S (xs_size (xf_sels (snd f)) + n)) 0 (xd_frags d)) in *.
  assert (Hle : c + 1 <= 2 * (xs_size sels + F) + 2) by lia.
  replace (2 * (xs_size sels + F) + 2) with (c + S (2 * (xs_size sels + F) + 1 - c)) by lia.
  rewrite R, xi_run_empty. cbn [xi_omap]. now rewrite app_nil_r.
Qed.

(* ---------------------------------------------------------------- the walk is a function *)

Theorem xi_dfs_deterministic all frags seen l out1 s1 :
  XiDfs all frags seen l out1 s1 -> forall out2 s2, XiDfs all frags seen l out2 s2 -> out1 = out2 /\ s1 = s2.
Proof.
  induction 1 as
    [seen
    |seen seen1 seen2 def alias name args dirs ty sub r a b Ha IHa Hb IHb
    |seen seen1 seen2 cond dirs ty sub r a b Ha IHa Hb IHb
    |seen seen2 name dirs r b Hund Hb IHb
    |seen seen2 name dirs def r b Hdef Hseen Hb IHb
    |seen seen1 seen2 name dirs def r a b Hdef Hseen Ha IHa Hb IHb];
    intros out2 s2 H2; inversion H2; subst; try congruence;
    repeat match goal with
    | H1 : xd_assoc ?n ?f = Some ?x, H2 : xd_assoc ?n ?f = Some ?y |- _ =>
        assert (x = y) by congruence; subst; clear H2
    end;
    repeat match goal with
    | IH : forall o s, XiDfs _ _ ?sn ?l o s -> _ = o /\ _ = s, H : XiDfs _ _ ?sn ?l _ _ |- _ =>
        destruct (IH _ _ H) as [? ?]; subst; clear IH
    end; auto.
Qed.

(* ---------------------------------------------------------------- the functional walk is the relation *)

(* continuation form: what one selection contributes in front of the rest of its list *)
Definition xi_sel_sound (all : bool) (frags : list (str * xfrag))
    (enter : list str -> list xsel -> xi_res) (x : xsel) : Prop :=
  forall seen out seen1, xi_dfs_sel all frags enter seen x = (out, seen1, true) ->
  forall r b seen2, XiDfs all frags seen1 r b seen2 -> XiDfs all frags seen (x :: r) (out ++ b) seen2.

Lemma xi_dfs_list_sound all frags enter l :
  Forall (xi_sel_sound all frags enter) l ->
  forall seen out seen', xi_dfs_list (xi_dfs_sel all frags enter) seen l = (out, seen', true) ->
  XiDfs all frags seen l out seen'.
Proof.
  induction 1 as [|x r Hx _ IH]; intros seen out seen'; cbn [xi_dfs_list].
  - intros [= <- <-]. constructor.
  - destruct (xi_dfs_sel all frags enter seen x) as [[a seen1] ok1] eqn:Ex.
    destruct (xi_dfs_list _ seen1 r) as [[b seen2] ok2] eqn:Er.
    intros [= <- <- Hok]. apply andb_true_iff in Hok as [-> ->].
    eapply Hx; [exact Ex|]. apply IH. exact Er.
Qed.

Lemma xi_dfs_sel_sound all frags enter :
  (forall seen l out seen', enter seen l = (out, seen', true) -> XiDfs all frags seen l out seen') ->
  forall x, xi_sel_sound all frags enter x.
Proof.
  intros Henter x.
  induction x as [def alias name args dirs ty sub IH|name dirs|cond dirs ty sub IH] using xsel_ind';
    intros seen out seen1; cbn [xi_dfs_sel].
  - destruct all eqn:Eall.
    + destruct (xi_dfs_list _ seen sub) as [[a s1] ok] eqn:Es. intros [= <- <- ->] r b seen2 Hr.
      cbn [app]. econstructor; [|exact Hr]. eapply xi_dfs_list_sound; [exact IH|exact Es].
    + intros [= <- <-] r b seen2 Hr. cbn [app]. change b with ([] ++ b).
      econstructor; [|exact Hr]. constructor.
  - destruct (xd_assoc name frags) as [def|] eqn:Ed.
    + destruct (xd_mem name seen) eqn:Em.
      * intros [= <- <-] r b seen2 Hr. cbn [app]. eapply XiDfs_spread_again; eassumption.
      * intros He r b seen2 Hr. eapply XiDfs_spread_first; try eassumption. apply Henter. exact He.
    + intros [= <- <-] r b seen2 Hr. cbn [app]. apply XiDfs_spread_undefined; assumption.
  - intros Hs r b seen2 Hr. econstructor; [|exact Hr]. eapply xi_dfs_list_sound; [exact IH|exact Hs].
Qed.

Lemma xi_dfs_sound all frags n : forall seen l out seen',
  xi_dfs n all frags seen l = (out, seen', true) -> XiDfs all frags seen l out seen'.
Proof.
  induction n as [|n IH]; intros seen l out seen'; cbn [xi_dfs]; intros H.
  - eapply xi_dfs_list_sound; [|exact H]. apply Forall_forall. intros x _.
    apply xi_dfs_sel_sound. intros s l' o s' [=].
  - eapply xi_dfs_list_sound; [|exact H]. apply Forall_forall. intros x _.
    apply xi_dfs_sel_sound. exact IH.
Qed.

(* ---------------------------------------------------------------- ... and it never runs out of entries *)

(* number of fragment definitions whose name has not been seen *)
Fixpoint xi_unseen (frags : list (str * xfrag)) (seen : list str) : nat :=
  match frags with
  | [] => 0
  | (k, _) :: r => (if xd_mem k seen then 0 else 1) + xi_unseen r seen
  end.

Lemma xi_unseen_mono frags n seen : xi_unseen frags (n :: seen) <= xi_unseen frags seen.
Proof.
  induction frags as [|[k f] r IH]; cbn [xi_unseen]; [lia|].
  rewrite xd_mem_cons. destruct (streq k n), (xd_mem k seen); cbn [orb]; lia.
Qed.

Lemma xi_unseen_enter frags n seen def :
  xd_assoc n frags = Some def -> xd_mem n seen = false ->
  S (xi_unseen frags (n :: seen)) <= xi_unseen frags seen.
Proof.
  induction frags as [|[k f] r IH]; cbn [xd_assoc xi_unseen]; [discriminate|].
  intros Ha Hm. rewrite xd_mem_cons.
  destruct (streq n k) eqn:E.
  - apply streq_eq in E. subst k. rewrite streq_refl, Hm. cbn [orb].
    pose proof (xi_unseen_mono r n seen). lia.
  - specialize (IH Ha Hm). destruct (streq k n), (xd_mem k seen); cbn [orb]; lia.
Qed.

Lemma xi_unseen_le_length frags seen : xi_unseen frags seen <= length frags.
Proof. induction frags as [|[k f] r IH]; cbn [xi_unseen length]; [lia|]. destruct (xd_mem k seen); lia. Qed.

Definition xi_res_ok (frags : list (str * xfrag)) (seen : list str) (res : xi_res) : Prop :=
  snd res = true /\ xi_unseen frags (snd (fst res)) <= xi_unseen frags seen.

Definition xi_sel_total (all : bool) (frags : list (str * xfrag)) (n : nat)
    (enter : list str -> list xsel -> xi_res) (x : xsel) : Prop :=
  forall seen, xi_unseen frags seen <= n -> xi_res_ok frags seen (xi_dfs_sel all frags enter seen x).

Lemma xi_dfs_list_total all frags n enter l :
  Forall (xi_sel_total all frags n enter) l ->
  forall seen, xi_unseen frags seen <= n ->
  xi_res_ok frags seen (xi_dfs_list (xi_dfs_sel all frags enter) seen l).
Proof.
  induction 1 as [|x r Hx _ IH]; intros seen Hn; cbn [xi_dfs_list].
  - split; cbn; auto.
  - destruct (Hx seen Hn) as [H1 H2].
    destruct (xi_dfs_sel all frags enter seen x) as [[a seen1] ok1]. cbn [fst snd] in H1, H2. subst ok1.
    destruct (IH seen1 ltac:(lia)) as [H3 H4].
    destruct (xi_dfs_list _ seen1 r) as [[b seen2] ok2]. cbn [fst snd] in H3, H4. subst ok2.
    split; cbn [fst snd andb]; [reflexivity|lia].
Qed.

Lemma xi_dfs_sel_total all frags n enter :
  (forall seen l, S (xi_unseen frags seen) <= n -> xi_res_ok frags seen (enter seen l)) ->
  forall x, xi_sel_total all frags n enter x.
Proof.
  intros Henter x.
  induction x as [def alias name args dirs ty sub IH|name dirs|cond dirs ty sub IH] using xsel_ind';
    intros seen Hn; cbn [xi_dfs_sel].
  - destruct all.
    + destruct (xi_dfs_list_total _ _ _ _ sub IH seen Hn) as [H1 H2].
      destruct (xi_dfs_list _ seen sub) as [[a s1] ok]. cbn [fst snd] in *. split; cbn [fst snd]; auto.
    + split; cbn [fst snd]; auto.
  - destruct (xd_assoc name frags) as [def|] eqn:Ed; [|split; cbn; auto].
    destruct (xd_mem name seen) eqn:Em; [split; cbn; auto|].
    pose proof (xi_unseen_enter _ _ _ _ Ed Em) as Hlt.
    destruct (Henter (name :: seen) (xf_sels def) ltac:(lia)) as [H1 H2].
    split; [exact H1|]. lia.
  - eapply xi_dfs_list_total; [exact IH|exact Hn].
Qed.

Lemma xi_dfs_total all frags n : forall seen l,
  xi_unseen frags seen <= n -> xi_res_ok frags seen (xi_dfs n all frags seen l).
Proof.
  induction n as [|n IH]; intros seen l Hn; cbn [xi_dfs].
  - apply (xi_dfs_list_total all frags 0); [|exact Hn]. apply Forall_forall. intros x _.
    apply xi_dfs_sel_total. intros s l' Hs. lia.
  - apply (xi_dfs_list_total all frags (S n)); [|exact Hn]. apply Forall_forall. intros x _.
    apply xi_dfs_sel_total. intros s l' Hs. apply IH. lia.
Qed.

(* the walk exists for every document and every start list, and the function computes it *)
Theorem xi_dfs_fields_once_spec all d sels :
  exists out seen',
    XiDfs all (xd_frags d) [] sels out seen' /\ xi_dfs_fields_once all d sels = Some out.
Proof.
  unfold xi_dfs_fields_once.
  destruct (xi_dfs_total all (xd_frags d) (length (xd_frags d)) [] sels
              (xi_unseen_le_length _ _)) as [Hok _].
  destruct (xi_dfs (length (xd_frags d)) all (xd_frags d) [] sels) as [[out seen'] ok] eqn:E.
  cbn [snd] in Hok. subst ok. exists out, seen'. split; [|reflexivity].
  eapply xi_dfs_sound. exact E.
Qed.

(* C18_root_fields / C18_all_fields: iterator = dfs_fields_once, on every document *)
Theorem xi_iter_eq_dfs all d sels :
  xi_iter all d sels = xi_dfs_fields_once all d sels /\ xi_iter all d sels <> None.
Proof.
  destruct (xi_dfs_fields_once_spec all d sels) as (out & seen' & H & E).
  rewrite E, (xi_iter_dfs _ _ _ _ _ H). split; [reflexivity|discriminate].
Qed.

(* ---------------------------------------------------------------- what is visited is reachable *)

(* f occurs in l, or below a field / inside an inline fragment / inside a defined fragment spread in l *)
Inductive XiReach (all : bool) (frags : list (str * xfrag)) : list xsel -> xsel -> Prop :=
| XiReach_here l def alias name args dirs ty sub :
    In (XsField def alias name args dirs ty sub) l ->
    XiReach all frags l (XsField def alias name args dirs ty sub)
| XiReach_field l def alias name args dirs ty sub f :
    all = true -> In (XsField def alias name args dirs ty sub) l ->
    XiReach all frags sub f -> XiReach all frags l f
| XiReach_inline l cond dirs ty sub f :
    In (XsInline cond dirs ty sub) l -> XiReach all frags sub f -> XiReach all frags l f
| XiReach_spread l name dirs def f :
    In (XsSpread name dirs) l -> xd_assoc name frags = Some def ->
    XiReach all frags (xf_sels def) f -> XiReach all frags l f.

Lemma xi_reach_tail all frags x r f : XiReach all frags r f -> XiReach all frags (x :: r) f.
Proof.
  induction 1.
  - apply XiReach_here. now right.
  - eapply XiReach_field; [assumption|right; eassumption|assumption].
  - eapply XiReach_inline; [right; eassumption|assumption].
  - eapply XiReach_spread; [right; eassumption|eassumption|assumption].
Qed.

Theorem xi_dfs_visits_reachable all frags seen l out seen' :
  XiDfs all frags seen l out seen' -> forall f, In f out -> XiReach all frags l f.
Proof.
  induction 1 as
    [seen
    |seen seen1 seen2 def alias name args dirs ty sub r a b Ha IHa Hb IHb
    |seen seen1 seen2 cond dirs ty sub r a b Ha IHa Hb IHb
    |seen seen2 name dirs r b Hund Hb IHb
    |seen seen2 name dirs def r b Hdef Hseen Hb IHb
    |seen seen1 seen2 name dirs def r a b Hdef Hseen Ha IHa Hb IHb]; intros f Hf.
  - destruct Hf.
  - destruct Hf as [<-|Hf]; [apply XiReach_here; now left|].
    apply in_app_or in Hf as [Hf|Hf].
    + destruct all eqn:Eall.
      * eapply XiReach_field; [reflexivity|left; reflexivity|]. apply IHa. exact Hf.
      * apply xi_dfs_nil_inv in Ha as [-> _]. destruct Hf.
    + apply xi_reach_tail. apply IHb. exact Hf.
  - apply in_app_or in Hf as [Hf|Hf].
    + eapply XiReach_inline; [left; reflexivity|]. apply IHa. exact Hf.
    + apply xi_reach_tail. apply IHb. exact Hf.
  - apply xi_reach_tail. apply IHb. exact Hf.
  - apply xi_reach_tail. apply IHb. exact Hf.
  - apply in_app_or in Hf as [Hf|Hf].
    + eapply XiReach_spread; [left; reflexivity|exact Hdef|]. apply IHa. exact Hf.
    + apply xi_reach_tail. apply IHb. exact Hf.
Qed.

(* the statements of C18_all_fields / C18_root_fields *)
Theorem xi_all_fields_spec d op : exists l seen',
  XiDfs true (xd_frags d) [] (xo_sels op) l seen' /\
  xi_all_fields d op = Some l /\ xi_dfs_fields_once true d (xo_sels op) = Some l.
Proof.
  destruct (xi_dfs_fields_once_spec true d (xo_sels op)) as (l & s & H & E).
  exists l, s. split; [exact H|]. split; [exact (xi_iter_dfs true d (xo_sels op) l s H)|exact E].
Qed.

Theorem xi_root_fields_spec d op : exists l seen',
  XiDfs false (xd_frags d) [] (xo_sels op) l seen' /\
  xi_root_fields d op = Some l /\ xi_dfs_fields_once false d (xo_sels op) = Some l.
Proof.
  destruct (xi_dfs_fields_once_spec false d (xo_sels op)) as (l & s & H & E).
  exists l, s. split; [exact H|]. split; [exact (xi_iter_dfs false d (xo_sels op) l s H)|exact E].
Qed.

(* ---------------------------------------------------------------- what is reachable is visited *)

(* fields / spread names occurring in l without following spreads (below fields only when all = true) *)
Inductive XiLocal (all : bool) : list xsel -> xsel -> Prop :=
| XiLocal_here l def alias name args dirs ty sub :
    In (XsField def alias name args dirs ty sub) l ->
    XiLocal all l (XsField def alias name args dirs ty sub)
| XiLocal_field l def alias name args dirs ty sub f :
    all = true -> In (XsField def alias name args dirs ty sub) l -> XiLocal all sub f -> XiLocal all l f
| XiLocal_inline l cond dirs ty sub f :
    In (XsInline cond dirs ty sub) l -> XiLocal all sub f -> XiLocal all l f.

Inductive XiLSpread (all : bool) : list xsel -> str -> Prop :=
| XiLSpread_here l name dirs : In (XsSpread name dirs) l -> XiLSpread all l name
| XiLSpread_field l def alias name args dirs ty sub n :
    all = true -> In (XsField def alias name args dirs ty sub) l -> XiLSpread all sub n -> XiLSpread all l n
| XiLSpread_inline l cond dirs ty sub n :
    In (XsInline cond dirs ty sub) l -> XiLSpread all sub n -> XiLSpread all l n.

Lemma xi_local_cons_inv all x r f :
  XiLocal all (x :: r) f ->
  XiLocal all r f \/
  match x with
  | XsField _ _ _ _ _ _ sub => f = x \/ (all = true /\ XiLocal all sub f)
  | XsInline _ _ _ sub => XiLocal all sub f
  | XsSpread _ _ => False
  end.
Proof.
  inversion 1 as [l df al nm ar di ty sub Hin|l df al nm ar di ty sub f' Hall Hin Hsub|l co di ty sub f' Hin Hsub];
    subst; destruct Hin as [->|Hin].
  - right. now left.
  - left. now apply XiLocal_here.
  - right. right. auto.
  - left. eapply XiLocal_field; try reflexivity; try eassumption.
  - right. exact Hsub.
  - left. eapply XiLocal_inline; eassumption.
Qed.

Lemma xi_lspread_cons_inv all x r n :
  XiLSpread all (x :: r) n ->
  XiLSpread all r n \/
  match x with
  | XsField _ _ _ _ _ _ sub => all = true /\ XiLSpread all sub n
  | XsInline _ _ _ sub => XiLSpread all sub n
  | XsSpread name _ => name = n
  end.
Proof.
  inversion 1 as [l nm di Hin|l df al nm ar di ty sub n' Hall Hin Hsub|l co di ty sub n' Hin Hsub];
    subst; destruct Hin as [->|Hin].
  - right. reflexivity.
  - left. eapply XiLSpread_here; eassumption.
  - right. auto.
  - left. eapply XiLSpread_field; try reflexivity; try eassumption.
  - right. exact Hsub.
  - left. eapply XiLSpread_inline; eassumption.
Qed.

Lemma xi_local_nil all f : ~ XiLocal all [] f.
Proof. inversion 1; contradiction. Qed.
Lemma xi_lspread_nil all n : ~ XiLSpread all [] n.
Proof. inversion 1; contradiction. Qed.

(* what a walk from `seen` to `seen'` has covered *)
Definition xi_covers (all : bool) (frags : list (str * xfrag)) (out : list xsel) (seen' : list str)
    (l : list xsel) : Prop :=
  (forall f, XiLocal all l f -> In f out) /\
  (forall m defm, XiLSpread all l m -> xd_assoc m frags = Some defm -> xd_mem m seen' = true).

Lemma xi_dfs_invariant all frags seen l out seen' :
  XiDfs all frags seen l out seen' ->
  (forall n, xd_mem n seen = true -> xd_mem n seen' = true) /\
  xi_covers all frags out seen' l /\
  (forall n def, xd_mem n seen' = true -> xd_mem n seen = false -> xd_assoc n frags = Some def ->
                 xi_covers all frags out seen' (xf_sels def)).
Proof.
  induction 1 as
    [seen
    |seen seen1 seen2 def alias name args dirs ty sub r a b Ha IHa Hb IHb
    |seen seen1 seen2 cond dirs ty sub r a b Ha IHa Hb IHb
    |seen seen2 name dirs r b Hund Hb IHb
    |seen seen2 name dirs def r b Hdef Hseen Hb IHb
    |seen seen1 seen2 name dirs def r a b Hdef Hseen Ha IHa Hb IHb].
  - split; [auto|]. split.
    + split; [intros f Hf; now apply xi_local_nil in Hf|intros m dm Hm; now apply xi_lspread_nil in Hm].
    + intros n def H1 H2. congruence.
  - destruct IHa as (Ma & (La & Sa) & Fa). destruct IHb as (Mb & (Lb & Sb) & Fb).
    split; [auto|]. split.
    + split.
      * intros f Hf. apply xi_local_cons_inv in Hf as [Hf|[->|[Hall Hf]]].
        -- right. apply in_or_app. right. auto.
        -- now left.
        -- subst all. right. apply in_or_app. left. apply La. exact Hf.
      * intros m dm Hm Hd. apply xi_lspread_cons_inv in Hm as [Hm|[Hall Hm]].
        -- eapply Sb; eassumption.
        -- subst all. apply Mb. eapply Sa; [exact Hm|exact Hd].
    + intros n dn H2 H0 Hd. destruct (xd_mem n seen1) eqn:E1.
      * destruct (Fa n dn E1 H0 Hd) as [L S]. split.
        -- intros f Hf. right. apply in_or_app. left. auto.
        -- intros m dm Hm Hdm. apply Mb. eapply S; eassumption.
      * destruct (Fb n dn H2 E1 Hd) as [L S]. split.
        -- intros f Hf. right. apply in_or_app. right. auto.
        -- exact S.
  - destruct IHa as (Ma & (La & Sa) & Fa). destruct IHb as (Mb & (Lb & Sb) & Fb).
    split; [auto|]. split.
    + split.
      * intros f Hf. apply in_or_app. apply xi_local_cons_inv in Hf as [Hf|Hf]; [right|left]; auto.
      * intros m dm Hm Hd. apply xi_lspread_cons_inv in Hm as [Hm|Hm].
        -- eapply Sb; eassumption.
        -- apply Mb. eapply Sa; eassumption.
    + intros n dn H2 H0 Hd. destruct (xd_mem n seen1) eqn:E1.
      * destruct (Fa n dn E1 H0 Hd) as [L S]. split.
        -- intros f Hf. apply in_or_app. left. auto.
        -- intros m dm Hm Hdm. apply Mb. eapply S; eassumption.
      * destruct (Fb n dn H2 E1 Hd) as [L S]. split.
        -- intros f Hf. apply in_or_app. right. auto.
        -- exact S.
  - destruct IHb as (Mb & (Lb & Sb) & Fb). split; [auto|]. split; [|exact Fb]. split.
    + intros f Hf. apply xi_local_cons_inv in Hf as [Hf|[]]. auto.
    + intros m dm Hm Hd. apply xi_lspread_cons_inv in Hm as [Hm|<-]; [eapply Sb; eassumption|congruence].
  - destruct IHb as (Mb & (Lb & Sb) & Fb). split; [auto|]. split; [|exact Fb]. split.
    + intros f Hf. apply xi_local_cons_inv in Hf as [Hf|[]]. auto.
    + intros m dm Hm Hd. apply xi_lspread_cons_inv in Hm as [Hm|<-]; [eapply Sb; eassumption|auto].
  - destruct IHa as (Ma & (La & Sa) & Fa). destruct IHb as (Mb & (Lb & Sb) & Fb).
    assert (Mn : forall n, xd_mem n seen = true -> xd_mem n (name :: seen) = true).
    { intros n Hn. rewrite xd_mem_cons, Hn. apply orb_true_r. }
    split; [auto|]. split.
    + split.
      * intros f Hf. apply in_or_app. right. apply xi_local_cons_inv in Hf as [Hf|[]]. auto.
      * intros m dm Hm Hd. apply xi_lspread_cons_inv in Hm as [Hm|<-]; [eapply Sb; eassumption|].
        apply Mb, Ma. rewrite xd_mem_cons, streq_refl. reflexivity.
    + intros n dn H2 H0 Hd. destruct (streq n name) eqn:En.
      * apply streq_eq in En. subst n. assert (dn = def) by congruence. subst dn. split.
        -- intros f Hf. apply in_or_app. left. auto.
        -- intros m dm Hm Hdm. apply Mb. eapply Sa; eassumption.
      * destruct (xd_mem n seen1) eqn:E1.
        -- assert (H0' : xd_mem n (name :: seen) = false) by (rewrite xd_mem_cons, En, H0; reflexivity).
           destruct (Fa n dn E1 H0' Hd) as [L S]. split.
           ++ intros f Hf. apply in_or_app. left. auto.
           ++ intros m dm Hm Hdm. apply Mb. eapply S; eassumption.
        -- destruct (Fb n dn H2 E1 Hd) as [L S]. split.
           ++ intros f Hf. apply in_or_app. right. auto.
           ++ exact S.
Qed.

(* every reachable field is visited by a walk that starts with no fragment seen *)
Theorem xi_dfs_visits_all_reachable all frags l out seen' :
  XiDfs all frags [] l out seen' -> forall f, XiReach all frags l f -> In f out.
Proof.
  intros H. destruct (xi_dfs_invariant _ _ _ _ _ _ H) as (_ & Hl & Hfr).
  assert (Hgood : forall L f, XiReach all frags L f -> xi_covers all frags out seen' L -> In f out).
  { intros L f HR. induction HR as
      [L df al nm ar di ty sub Hin
      |L df al nm ar di ty sub f Hall Hin HR IH
      |L co di ty sub f Hin HR IH
      |L nm di def f Hin Hd HR IH]; intros [CL CS].
    - apply CL. now apply XiLocal_here.
    - apply IH. split.
      + intros f' Hf'. apply CL. eapply XiLocal_field; eassumption.
      + intros m dm Hm Hdm. eapply CS; [|exact Hdm]. eapply XiLSpread_field; eassumption.
    - apply IH. split.
      + intros f' Hf'. apply CL. eapply XiLocal_inline; eassumption.
      + intros m dm Hm Hdm. eapply CS; [|exact Hdm]. eapply XiLSpread_inline; eassumption.
    - apply IH. apply (Hfr nm def); [|reflexivity|exact Hd].
      eapply CS; [|exact Hd]. eapply XiLSpread_here; eassumption. }
  intros f HR. exact (Hgood l f HR Hl).
Qed.

(* exactly the reachable fields *)
Theorem xi_dfs_visits_exactly_reachable all frags l out seen' :
  XiDfs all frags [] l out seen' -> forall f, In f out <-> XiReach all frags l f.
Proof.
  intros H f. split.
  - exact (xi_dfs_visits_reachable _ _ _ _ _ _ H f).
  - exact (xi_dfs_visits_all_reachable _ _ _ _ _ H f).
Qed.

(* the iterators yield exactly the reachable fields *)
Theorem xi_iter_exactly_reachable all d sels l :
  xi_iter all d sels = Some l -> forall f, In f l <-> XiReach all (xd_frags d) sels f.
Proof.
  intros E. destruct (xi_dfs_fields_once_spec all d sels) as (l' & s & H & _).
  rewrite (xi_iter_dfs _ _ _ _ _ H) in E. injection E as <-.
  exact (xi_dfs_visits_exactly_reachable _ _ _ _ _ H).
Qed.
