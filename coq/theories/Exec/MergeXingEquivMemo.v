(* C17 deepening, part 6: soundness of the two memo guards (same_response_shape_guard,
   same_for_common_parents_guard) with the validator's cache.
   - mxm_walk: both literal passes (mx_shape, mx_parents of MergeXing.v) as one generic walk with the cache
     (mx_shape_walk, mx_parents_walk: the literal functions are instances).
   - mxm_walk_inv: every set whose guard is on is either still being walked or closed: its own comparisons were
     made (and are reflected in the ok flag) and the guards of the sets it descends into are on.
   - mxm_closure: from a state where all marked sets are closed, ok holds and the high water mark is within the
     limit, the walk without memo guards finds nothing to complain about on any marked set.
   - mxm_sim: the walk with guards makes a subset of the checks of the walk without.
   - mx_validate_memo / mx_document_memo_sound: the literal algorithm with the guards gives the verdict of the
     variant without them, whenever the latter stays within the depth limit.
   Proofs only; nothing here is extracted. *)
From ApolloVerif Require Import Base.Chars Ast.Ast Schema.Model Exec.Valid Exec.MergeXing Exec.FragCyclesProofs
  Exec.MergeXingProofs Exec.MergeXingEquivExpand Exec.MergeXingEquivBridge Exec.MergeXingEquivSem Exec.MergeXingEquivKeys.
From Coq Require Import Arith PeanoNat Lia.

Fixpoint mxm_fold {S A} (f : S -> A -> option S) (st : S) (l : list A) : option S :=
  match l with
  | [] => Some st
  | x :: r => match f st x with Some st' => mxm_fold f st' r | None => None end
  end.

(* ---------- both passes, with the cache, as one walk ---------- *)
Section MemoWalk.
  Variable getfl : mx_entry -> bool.                       (* the guard of the pass: already_done() *)
  Variable setfl : mx_entry -> mx_entry.                   (* ... turned on *)
  Variable pre : mx_state -> list mx_fs -> mx_state.       (* done for a name group before its parts *)
  Variable subparts : list mx_fs -> list (list mx_fs).     (* the parts of a name group compared first-against-rest *)
  Variable rel : mx_fs -> mx_fs -> bool.
  Variable frags : list (str * mx_set).

  Definition mxm_step (rec : nat -> mx_state -> list mx_fs -> option mx_state) (depth : nat) (st : mx_state)
      (g : list mx_fs) : option mx_state :=
    let st := mx_and_ok st (mx_first_vs_rest rel g) in
    match mx_nested_sets g with
    | [] => Some st
    | nested =>
        match mx_expand frags nested with
        | None => None
        | Some merged =>
            let '(st, reached) := mx_enter st depth in
            if reached then Some st else rec (S depth) st merged
        end
    end.

  Fixpoint mxm_walk (fuel : nat) (depth : nat) (st : mx_state) (fields : list mx_fs) {struct fuel} : option mx_state :=
    match fuel with
    | O => None
    | S fuel' =>
        let '(st, e) := mx_lookup st fields in
        if getfl e then Some st
        else
          let st := mx_set_entry st (setfl e) in
          mxm_fold (fun st kg => mxm_fold (mxm_step (mxm_walk fuel') depth) (pre st (snd kg)) (subparts (snd kg)))
                   st (mx_group_by_output_name fields)
    end.

  Lemma mxm_walk_some : forall fuel depth st fields,
    (mx_field_depth_limit + 2 <= fuel + depth)%nat -> (depth <= mx_field_depth_limit)%nat ->
    mxm_walk fuel depth st fields <> None.
  Proof.
    induction fuel as [|fuel IH]; intros depth st fields Hf Hd; [lia|]. cbn [mxm_walk].
    destruct (mx_lookup st fields) as [st1 e]. destruct (getfl e); [discriminate|].
    generalize (mx_set_entry st1 (setfl e)). generalize (mx_group_by_output_name fields). intros gs.
    induction gs as [|kg gs IHgs]; intros st0; cbn [mxm_fold]; [discriminate|].
    assert (Hin : forall ps st2, mxm_fold (mxm_step (mxm_walk fuel) depth) st2 ps <> None).
    { induction ps as [|g ps IHps]; intros st2; cbn [mxm_fold]; [discriminate|].
      destruct (mxm_step (mxm_walk fuel) depth st2 g) as [st3|] eqn:E; [apply IHps|]. exfalso. revert E.
      unfold mxm_step. destruct (mx_nested_sets g) as [|n0 nr]; [discriminate|].
      destruct (mx_expand frags (n0 :: nr)) as [merged|] eqn:Ex; [|exfalso; exact (mx_expand_some _ _ Ex)].
      unfold mx_enter. destruct (Nat.ltb mx_field_depth_limit (S depth)) eqn:L; [discriminate|].
      apply Nat.ltb_ge in L. apply IH; lia. }
    destruct (mxm_fold (mxm_step (mxm_walk fuel) depth) (pre st0 (snd kg)) (subparts (snd kg))) as [st2|] eqn:E;
      [apply IHgs|]. exfalso. exact (Hin _ _ E).
  Qed.
End MemoWalk.

Definition mxm_set_shape (e : mx_entry) : mx_entry :=
  {| me_key := me_key e; me_shape_done := true; me_parents_done := me_parents_done e |}.
Definition mxm_set_parents (e : mx_entry) : mx_entry :=
  {| me_key := me_key e; me_shape_done := me_shape_done e; me_parents_done := true |}.
Definition mxm_pre_none (st : mx_state) (g : list mx_fs) : mx_state := st.
Definition mxm_pre_lookup (st : mx_state) (g : list mx_fs) : mx_state := fst (mx_lookup st g).
Definition mxm_one (g : list mx_fs) : list (list mx_fs) := [g].

Lemma mx_shape_walk s frags : forall fuel depth st fields,
  mx_shape fuel s frags depth st fields =
  mxm_walk me_shape_done mxm_set_shape mxm_pre_none mxm_one (mx_same_output_type_shape s) frags fuel depth st fields.
Proof.
  induction fuel as [|fuel IH]; intros depth st fields; [reflexivity|]. cbn [mx_shape mxm_walk].
  destruct (mx_lookup st fields) as [st1 e]. destruct (me_shape_done e); [reflexivity|].
  change {| me_key := me_key e; me_shape_done := true; me_parents_done := me_parents_done e |} with (mxm_set_shape e).
  generalize (mx_set_entry st1 (mxm_set_shape e)). generalize (mx_group_by_output_name fields). intros gs.
  remember (mxm_walk me_shape_done mxm_set_shape mxm_pre_none mxm_one (mx_same_output_type_shape s) frags fuel) as W eqn:EW.
  assert (EG : forall st0 g, mxm_fold (mxm_step (mx_same_output_type_shape s) frags W depth) (mxm_pre_none st0 g) (mxm_one g)
                             = mxm_step (mx_same_output_type_shape s) frags W depth st0 g).
  { intros st0 g. unfold mxm_one, mxm_pre_none. cbn [mxm_fold].
    destruct (mxm_step (mx_same_output_type_shape s) frags W depth st0 g); reflexivity. }
  induction gs as [|[k g] gs IHgs]; intros st0; cbn [mxm_fold snd]; [reflexivity|].
  rewrite EG. unfold mxm_step at 1. cbn zeta.
  destruct (mx_nested_sets g) as [|n0 nr]; [apply IHgs|].
  destruct (mx_expand frags (n0 :: nr)) as [merged|]; [|reflexivity].
  destruct (mx_enter (mx_and_ok st0 (mx_first_vs_rest (mx_same_output_type_shape s) g)) depth) as [st2 reached].
  destruct reached; [apply IHgs|]. rewrite IH; try rewrite <- EW.
  destruct (W (S depth) st2 merged); [apply IHgs|reflexivity].
Qed.

Lemma mx_parents_walk s frags : forall fuel depth st fields,
  mx_parents fuel s frags depth st fields =
  mxm_walk me_parents_done mxm_set_parents mxm_pre_lookup (mx_group_by_common_parents s) mx_same_name_and_arguments frags
    fuel depth st fields.
Proof.
  induction fuel as [|fuel IH]; intros depth st fields; [reflexivity|]. cbn [mx_parents mxm_walk].
  destruct (mx_lookup st fields) as [st1 e]. destruct (me_parents_done e); [reflexivity|].
  change {| me_key := me_key e; me_shape_done := me_shape_done e; me_parents_done := true |} with (mxm_set_parents e).
  generalize (mx_set_entry st1 (mxm_set_parents e)). generalize (mx_group_by_output_name fields). intros gs.
  remember (mxm_walk me_parents_done mxm_set_parents mxm_pre_lookup (mx_group_by_common_parents s)
              mx_same_name_and_arguments frags fuel) as W eqn:EW.
  assert (E : forall ps st3,
    (fix pgroups (st : mx_state) (ps : list (list mx_fs)) {struct ps} : option mx_state :=
       match ps with
       | [] => Some st
       | fields_for_parents :: ps' =>
           let st := mx_and_ok st (mx_first_vs_rest mx_same_name_and_arguments fields_for_parents) in
           match mx_nested_sets fields_for_parents with
           | [] => pgroups st ps'
           | nested =>
               match mx_expand frags nested with
               | None => None
               | Some merged =>
                   let '(st, reached) := mx_enter st depth in
                   if reached then pgroups st ps'
                   else match mx_parents fuel s frags (S depth) st merged with
                        | Some st => pgroups st ps'
                        | None => None
                        end
               end
           end
       end) st3 ps
    = mxm_fold (mxm_step mx_same_name_and_arguments frags W depth) st3 ps).
  { induction ps as [|pg ps IHps]; intros st3; cbn [mxm_fold]; [reflexivity|].
    unfold mxm_step at 1. cbn zeta.
    destruct (mx_nested_sets pg) as [|n0 nr]; [apply IHps|].
    destruct (mx_expand frags (n0 :: nr)) as [merged|]; [|reflexivity].
    destruct (mx_enter (mx_and_ok st3 (mx_first_vs_rest mx_same_name_and_arguments pg)) depth) as [st4 reached].
    destruct reached; [apply IHps|]. rewrite IH; try rewrite <- EW.
    destruct (W (S depth) st4 merged); [apply IHps|reflexivity]. }
  induction gs as [|[k g] gs IHgs]; intros st0; cbn [mxm_fold snd]; [reflexivity|].
  unfold mxm_pre_lookup at 1. destruct (mx_lookup st0 g) as [st2 e2]. cbn [fst].
  rewrite E.
  destruct (mxm_fold (mxm_step mx_same_name_and_arguments frags W depth) st2 (mx_group_by_common_parents s g)) as [st5|];
    [apply IHgs|reflexivity].
Qed.

(* the parts of the walk without guards, from the parts of a name group *)
Definition mxm_parts (subparts : list mx_fs -> list (list mx_fs)) (fields : list mx_fs) : list (list mx_fs) :=
  flat_map (fun kg => subparts (snd kg)) (mx_group_by_output_name fields).

Lemma mxm_parts_shape fields : mxm_parts mxm_one fields = mxn_shape_parts fields.
Proof.
  unfold mxm_parts, mxn_shape_parts. induction (mx_group_by_output_name fields) as [|kg gs IH]; [reflexivity|].
  cbn [flat_map map mxm_one app]. rewrite IH. reflexivity.
Qed.
Lemma mxm_parts_parents s fields : mxm_parts (mx_group_by_common_parents s) fields = mxn_parents_parts s fields.
Proof. reflexivity. Qed.

(* the walk without guards only lowers ok and raises the high water mark *)
Lemma mxn_walk_mono parts rel frags : forall fuel depth st L st',
  mxn_walk parts rel frags fuel depth st L = Some st' -> (fst st' = true -> fst st = true) /\ (snd st <= snd st')%nat.
Proof.
  induction fuel as [|fuel IH]; intros depth st L st'; cbn [mxn_walk]; [discriminate|].
  generalize (parts L). intros ps. revert st. induction ps as [|g ps IHps]; intros st; cbn [mxn_fold].
  - intros [= <-]. split; [auto|lia].
  - destruct (mxn_step rel frags (mxn_walk parts rel frags fuel) depth st g) as [st1|] eqn:E; [|discriminate].
    intros E'. destruct (IHps _ E') as [H1 H2].
    assert (Hs : (fst st1 = true -> fst st = true) /\ (snd st <= snd st1)%nat).
    { revert E. unfold mxn_step. destruct (mx_nested_sets g) as [|n0 nr].
      - intros [= <-]. cbn [mxn_and_ok fst snd]. split; [intros H; apply andb_true_iff in H; apply H|lia].
      - destruct (mx_expand frags (n0 :: nr)) as [merged|]; [|discriminate]. unfold mxn_enter, mxn_and_ok. cbn [fst snd].
        destruct (Nat.ltb mx_field_depth_limit (S depth)).
        + intros [= <-]. cbn [fst snd]. split; [intros H; apply andb_true_iff in H; apply H|lia].
        + intros E. destruct (IH _ _ _ _ E) as [H3 H4]. cbn [fst snd] in H3, H4. split; [|lia].
          intros H. apply H3 in H. apply andb_true_iff in H. apply H. }
    destruct Hs as [H3 H4]. split; [auto|lia].
Qed.

Section MemoInv.
  Variable s : schema.
  Variable frags : list (str * mx_set).
  Hypothesis Hfrags : mxb_frags_ok s frags.

  Variable sel osel : bool * bool -> bool.                 (* the guard of this pass, the guard of the other *)
  Variable getfl : mx_entry -> bool.
  Variable setfl : mx_entry -> mx_entry.
  Hypothesis get_sel : forall e, getfl e = sel (mxk_eflags e).
  Hypothesis set_key : forall e, me_key (setfl e) = me_key e.
  Hypothesis set_sel : forall e, sel (mxk_eflags (setfl e)) = true.
  Hypothesis set_osel : forall e, osel (mxk_eflags (setfl e)) = osel (mxk_eflags e).

  Variable pre : mx_state -> list mx_fs -> mx_state.
  Hypothesis pre_ok : forall st g, mxk_wf s st -> mxk_keyok s g ->
    mxk_wf s (pre st g) /\ mx_ok (pre st g) = mx_ok st /\ mx_high (pre st g) = mx_high st /\
    forall K, mxk_flags (pre st g) K = mxk_flags st K.

  Variable subparts : list mx_fs -> list (list mx_fs).
  Hypothesis sub_incl : forall g pg x, In pg (subparts g) -> In x pg -> In x g.
  Variable rel : mx_fs -> mx_fs -> bool.

  Notation walk := (mxm_walk getfl setfl pre subparts rel frags).
  Notation limit := mx_field_depth_limit.

  (* ---------- keys stay lists of field selections of the built document ---------- *)
  Lemma mxm_reach_ok sets : (forall ty sels, In (ty, sels) sets -> Forall (mxb_ok s ty) sels) ->
    forall ty sels, mxe_reach frags sets (ty, sels) -> Forall (mxb_ok s ty) sels.
  Proof.
    intros H ty sels R. remember (ty, sels) as st eqn:Est. revert ty sels Est.
    induction R as [st Hin|ty0 sels0 c dirs sty sub _ IH Hin|ty0 sels0 n dirs st _ IH Hin Ha]; intros ty sels Est.
    - subst st. apply H. exact Hin.
    - injection Est as <- <-. specialize (IH ty0 sels0 eq_refl). rewrite Forall_forall in IH.
      specialize (IH _ Hin). apply mxb_ok_inline in IH. apply IH.
    - subst st. exact (Hfrags n ty sels Ha).
  Qed.

  Lemma mxm_expand_keyok g merged : mxk_keyok s g -> mx_expand frags (mx_nested_sets g) = Some merged -> mxk_keyok s merged.
  Proof.
    intros Hg Ex f Hf. apply (mxe_expand_coll frags _ _ Ex) in Hf. destruct Hf as (ty & sels & R & Hin).
    assert (Hok : Forall (mxb_ok s ty) sels).
    { apply (mxm_reach_ok (mx_nested_sets g)); [|exact R]. intros ty0 sels0 H0. unfold mx_nested_sets in H0.
      apply in_map_iff in H0. destruct H0 as (f0 & [= <- <-] & H0). apply filter_In in H0. destruct H0 as [H0 _].
      apply (Hg f0 H0). }
    apply mxe_fields_in in Hin. destruct Hin as (a & n & args & dirs & def & sty & sub & Hx & ->).
    rewrite Forall_forall in Hok. specialize (Hok _ Hx). apply mxb_ok_field in Hok. exact Hok.
  Qed.

  Lemma mxm_group_keyok K kg : mxk_keyok s K -> In kg (mx_group_by_output_name K) -> mxk_keyok s (snd kg).
  Proof.
    intros HK Hkg f Hf. destruct kg as [k g]. cbn [snd] in Hf. rewrite (gbon_in _ _ _ Hkg) in Hf.
    apply filter_In in Hf. apply HK. apply Hf.
  Qed.

  Lemma mxm_sub_keyok g pg : mxk_keyok s g -> In pg (subparts g) -> mxk_keyok s pg.
  Proof. intros Hg Hpg f Hf. apply Hg. eapply sub_incl; eassumption. Qed.

  (* ---------- marked, closed ---------- *)
  Definition mxm_marked (st : mx_state) (K : list mx_fs) : Prop := sel (mxk_flags st K) = true.
  Definition mxm_mono (st st' : mx_state) : Prop :=
    (mx_ok st' = true -> mx_ok st = true) /\ (mx_high st <= mx_high st')%nat /\
    (forall K, mxk_keyok s K -> mxm_marked st K -> mxm_marked st' K) /\
    (forall K, mxk_keyok s K -> osel (mxk_flags st' K) = osel (mxk_flags st K)).

  Lemma mxm_mono_refl st : mxm_mono st st.
  Proof. split; [auto|]. split; [lia|]. split; auto. Qed.

  Lemma mxm_mono_trans a b c : mxm_mono a b -> mxm_mono b c -> mxm_mono a c.
  Proof.
    intros (A1 & A2 & A3 & A4) (B1 & B2 & B3 & B4). split; [auto|]. split; [lia|]. split; [auto|].
    intros K HK. rewrite (B4 K HK). apply A4. exact HK.
  Qed.

  Lemma mxm_mono_same st st' : (mx_ok st' = true -> mx_ok st = true) -> (mx_high st <= mx_high st')%nat ->
    (forall K, mxk_flags st' K = mxk_flags st K) -> mxm_mono st st'.
  Proof.
    intros H1 H2 H3. split; [exact H1|]. split; [exact H2|]. split.
    - intros K _. unfold mxm_marked. rewrite H3. auto.
    - intros K _. rewrite H3. reflexivity.
  Qed.

  Definition mxm_child (K M : list mx_fs) : Prop :=
    exists kg g, In kg (mx_group_by_output_name K) /\ In g (subparts (snd kg)) /\
                 mx_nested_sets g <> [] /\ mx_expand frags (mx_nested_sets g) = Some M.
  Definition mxm_local (K : list mx_fs) : Prop :=
    forall kg g, In kg (mx_group_by_output_name K) -> In g (subparts (snd kg)) -> mx_first_vs_rest rel g = true.
  Definition mxm_closed (st : mx_state) (K : list mx_fs) : Prop :=
    mx_ok st = true -> (mx_high st <= limit)%nat -> mxm_local K /\ forall M, mxm_child K M -> mxm_marked st M.
  (* every marked set is in progress (X) or closed *)
  Definition mxm_inv (st : mx_state) (X : list (list mx_fs)) : Prop :=
    forall K, mxk_keyok s K -> mxm_marked st K -> In K X \/ mxm_closed st K.

  Lemma mxm_child_keyok K M : mxk_keyok s K -> mxm_child K M -> mxk_keyok s M.
  Proof.
    intros HK (kg & g & Hkg & Hg & _ & Ex). eapply mxm_expand_keyok; [|exact Ex].
    eapply mxm_sub_keyok; [|exact Hg]. eapply mxm_group_keyok; eassumption.
  Qed.

  Lemma mxm_closed_mono st st' K : mxk_keyok s K -> mxm_mono st st' -> mxm_closed st K -> mxm_closed st' K.
  Proof.
    intros HK (M1 & M2 & M3 & _) Hc Hok Hhi. destruct (Hc (M1 Hok) ltac:(lia)) as [Hl Hch]. split; [exact Hl|].
    intros M HM. apply M3; [eapply mxm_child_keyok; eassumption|]. apply Hch. exact HM.
  Qed.

  (* a state change that turns no guard of this pass on keeps the invariant *)
  Lemma mxm_inv_mono st st' X : mxm_mono st st' -> (forall K, mxk_keyok s K -> mxm_marked st' K -> mxm_marked st K) ->
    mxm_inv st X -> mxm_inv st' X.
  Proof.
    intros Hm Hno Hinv K HK Hmk. destruct (Hinv K HK (Hno K HK Hmk)) as [H|H]; [left; exact H|right].
    eapply mxm_closed_mono; eassumption.
  Qed.

  (* what the walk has established about a part once it is through with it *)
  Definition mxm_done (g : list mx_fs) (st1 : mx_state) : Prop :=
    forall st2, mxm_mono st1 st2 -> mx_ok st2 = true -> (mx_high st2 <= limit)%nat ->
      mx_first_vs_rest rel g = true /\
      forall M, mx_nested_sets g <> [] -> mx_expand frags (mx_nested_sets g) = Some M -> mxm_marked st2 M.

  Lemma mxm_done_mono g st1 st1' : mxm_mono st1 st1' -> mxm_done g st1 -> mxm_done g st1'.
  Proof. intros Hm Hd st2 Hm2. apply Hd. eapply mxm_mono_trans; eassumption. Qed.

  Definition mxm_rec_ok (rec : nat -> mx_state -> list mx_fs -> option mx_state) : Prop :=
    forall depth st L st' X, rec depth st L = Some st' -> mxk_wf s st -> mxk_keyok s L -> mxm_inv st X ->
      mxk_wf s st' /\ mxm_mono st st' /\ mxm_marked st' L /\ mxm_inv st' X.

  Lemma mxm_step_inv rec depth st g st1 X : mxm_rec_ok rec ->
    mxm_step rel frags rec depth st g = Some st1 -> mxk_wf s st -> mxk_keyok s g -> mxm_inv st X ->
    mxk_wf s st1 /\ mxm_mono st st1 /\ mxm_inv st1 X /\ mxm_done g st1.
  Proof.
    intros Hrec E Hwf Hg Hinv. unfold mxm_step in E.
    set (b := mx_first_vs_rest rel g) in *. set (st0 := mx_and_ok st b) in *.
    assert (Hm0 : mxm_mono st st0).
    { apply mxm_mono_same; [|cbn; lia|reflexivity]. cbn. intros H. apply andb_true_iff in H. apply H. }
    assert (Hb : mx_ok st0 = true -> b = true) by (cbn; intros H; apply andb_true_iff in H; apply H).
    assert (Hinv0 : mxm_inv st0 X) by (apply (mxm_inv_mono st st0 X Hm0); [intros K _ H; exact H|exact Hinv]).
    destruct (mx_nested_sets g) as [|n0 nr] eqn:En.
    - injection E as <-. split; [exact Hwf|]. split; [exact Hm0|]. split; [exact Hinv0|].
      intros st2 (M1 & _) Hok _. split; [apply Hb; apply M1; exact Hok|]. intros M Hne. exfalso. apply Hne. exact En.
    - rewrite <- En in *. destruct (mx_expand frags (mx_nested_sets g)) as [merged|] eqn:Ex; [|discriminate].
      unfold mx_enter in E. cbn [mx_cache mx_ok mx_high] in E.
      set (st0' := {| mx_cache := mx_cache st0; mx_ok := mx_ok st0; mx_high := Nat.max (mx_high st0) (S depth) |}) in *.
      assert (Hm0' : mxm_mono st0 st0') by (apply mxm_mono_same; [auto|cbn; lia|reflexivity]).
      assert (Hinv0' : mxm_inv st0' X) by (apply (mxm_inv_mono st0 st0' X Hm0'); [intros K _ H; exact H|exact Hinv0]).
      assert (Hhi0' : (S depth <= mx_high st0')%nat) by (cbn; lia).
      destruct (Nat.ltb limit (S depth)) eqn:L.
      + injection E as <-. split; [exact Hwf|]. split; [eapply mxm_mono_trans; eassumption|]. split; [exact Hinv0'|].
        intros st2 (_ & M2 & _) _ Hhi. apply Nat.ltb_lt in L. lia.
      + assert (Hmk : mxk_keyok s merged) by (eapply mxm_expand_keyok; eassumption).
        destruct (Hrec _ _ _ _ X E Hwf Hmk Hinv0') as (Hwf1 & Hm1 & Hmk1 & Hinv1).
        split; [exact Hwf1|]. split; [eapply mxm_mono_trans; [exact Hm0|]; eapply mxm_mono_trans; eassumption|].
        split; [exact Hinv1|].
        intros st2 Hm2 Hok _. destruct Hm2 as (N1 & _ & N3 & _). destruct Hm1 as (P1 & _).
        split; [apply Hb; apply P1; apply N1; exact Hok|].
        intros M _ EM. rewrite Ex in EM. injection EM as <-. apply N3; [exact Hmk|exact Hmk1].
  Qed.

  Lemma mxm_parts_inv rec depth X : mxm_rec_ok rec -> forall ps st st',
    mxm_fold (mxm_step rel frags rec depth) st ps = Some st' -> mxk_wf s st -> (forall g, In g ps -> mxk_keyok s g) ->
    mxm_inv st X ->
    mxk_wf s st' /\ mxm_mono st st' /\ mxm_inv st' X /\ forall g, In g ps -> mxm_done g st'.
  Proof.
    intros Hrec. induction ps as [|g ps IH]; intros st st' E Hwf Hps Hinv; cbn [mxm_fold] in E.
    - injection E as <-. split; [exact Hwf|]. split; [apply mxm_mono_refl|]. split; [exact Hinv|intros ? []].
    - destruct (mxm_step rel frags rec depth st g) as [st1|] eqn:E1; [|discriminate].
      destruct (mxm_step_inv rec depth st g st1 X Hrec E1 Hwf (Hps g (or_introl eq_refl)) Hinv) as (W1 & M1 & I1 & D1).
      destruct (IH st1 st' E W1 (fun g' H' => Hps g' (or_intror H')) I1) as (W2 & M2 & I2 & D2).
      split; [exact W2|]. split; [eapply mxm_mono_trans; eassumption|]. split; [exact I2|].
      intros g' [<-|Hg']; [eapply mxm_done_mono; eassumption|apply D2; exact Hg'].
  Qed.

  Lemma mxm_groups_inv rec depth X : mxm_rec_ok rec -> forall (gs : list (str * list mx_fs)) st st',
    mxm_fold (fun st kg => mxm_fold (mxm_step rel frags rec depth) (pre st (snd kg)) (subparts (snd kg))) st gs = Some st' ->
    mxk_wf s st -> (forall kg, In kg gs -> mxk_keyok s (snd kg)) -> mxm_inv st X ->
    mxk_wf s st' /\ mxm_mono st st' /\ mxm_inv st' X /\
    forall kg g, In kg gs -> In g (subparts (snd kg)) -> mxm_done g st'.
  Proof.
    intros Hrec. induction gs as [|kg gs IH]; intros st st' E Hwf Hgs Hinv; cbn [mxm_fold] in E.
    - injection E as <-. split; [exact Hwf|]. split; [apply mxm_mono_refl|]. split; [exact Hinv|intros ? ? []].
    - destruct (mxm_fold (mxm_step rel frags rec depth) (pre st (snd kg)) (subparts (snd kg))) as [st1|] eqn:E1; [|discriminate].
      assert (Hkg : mxk_keyok s (snd kg)) by (apply Hgs; left; reflexivity).
      destruct (pre_ok st (snd kg) Hwf Hkg) as (W0 & O0 & H0 & F0).
      assert (M0 : mxm_mono st (pre st (snd kg))) by (apply mxm_mono_same; [rewrite O0; auto|rewrite H0; lia|exact F0]).
      assert (I0 : mxm_inv (pre st (snd kg)) X).
      { apply (mxm_inv_mono st _ X M0); [|exact Hinv]. intros K _. unfold mxm_marked. rewrite F0. auto. }
      destruct (mxm_parts_inv rec depth X Hrec _ _ _ E1 W0 (fun g Hg => mxm_sub_keyok _ g Hkg Hg) I0) as (W1 & M1 & I1 & D1).
      destruct (IH st1 st' E W1 (fun kg' H' => Hgs kg' (or_intror H')) I1) as (W2 & M2 & I2 & D2).
      split; [exact W2|]. split; [eapply mxm_mono_trans; [exact M0|]; eapply mxm_mono_trans; eassumption|].
      split; [exact I2|].
      intros kg' g [<-|Hkg'] Hg; [eapply mxm_done_mono; [exact M2|]; apply D1; exact Hg|eapply D2; eassumption].
  Qed.

  (* the invariant of the walk with guards *)
  Theorem mxm_walk_inv : forall fuel, mxm_rec_ok (walk fuel).
  Proof.
    induction fuel as [|fuel IH]; intros depth st L st' X E Hwf HL Hinv; cbn [mxm_walk] in E; [discriminate|].
    destruct (mx_lookup st L) as [st1 e] eqn:El.
    destruct (mxk_lookup s st L st1 e Hwf HL El) as (W1 & O1 & H1 & Ke & Fe & F1).
    assert (M1 : mxm_mono st st1) by (apply mxm_mono_same; [rewrite O1; auto|rewrite H1; lia|exact F1]).
    assert (I1 : mxm_inv st1 X).
    { apply (mxm_inv_mono st st1 X M1); [|exact Hinv]. intros K _. unfold mxm_marked. rewrite F1. auto. }
    rewrite get_sel, Fe in E. destruct (sel (mxk_flags st L)) eqn:Es.
    - injection E as <-. split; [exact W1|]. split; [exact M1|]. split; [|exact I1].
      unfold mxm_marked. rewrite F1. exact Es.
    - set (st2 := mx_set_entry st1 (setfl e)) in *.
      assert (Ks : mxk_keyok s (me_key (setfl e))) by (rewrite set_key, Ke; exact HL).
      assert (W2 : mxk_wf s st2) by (apply mxk_set_wf; assumption).
      assert (F2 : forall K, mxk_keyok s K ->
                mxk_flags st2 K = if mx_list_eqb mx_fs_eqb K L then mxk_eflags (setfl e) else mxk_flags st1 K).
      { intros K HK. unfold st2. rewrite (mxk_set_flags s st1 (setfl e) K W1 Ks HK), set_key, Ke. reflexivity. }
      assert (M2 : mxm_mono st1 st2).
      { split; [auto|]. split; [cbn; lia|]. split.
        - intros K HK Hmk. unfold mxm_marked. rewrite (F2 K HK). destruct (mx_list_eqb mx_fs_eqb K L); [apply set_sel|exact Hmk].
        - intros K HK. rewrite (F2 K HK). destruct (mx_list_eqb mx_fs_eqb K L) eqn:EK; [|reflexivity].
          apply (mxk_key_eqb_eq s K L HK HL) in EK. subst K. rewrite set_osel, Fe, F1. reflexivity. }
      assert (I2 : mxm_inv st2 (L :: X)).
      { intros K HK Hmk. unfold mxm_marked in Hmk. rewrite (F2 K HK) in Hmk.
        destruct (mx_list_eqb mx_fs_eqb K L) eqn:EK.
        - left. left. symmetry. exact (mxk_key_eqb_eq s K L HK HL EK).
        - destruct (I1 K HK Hmk) as [H|H]; [left; right; exact H|right]. eapply mxm_closed_mono; eassumption. }
      destruct (mxm_groups_inv (walk fuel) depth (L :: X) IH _ _ _ E W2
                  (fun kg Hkg => mxm_group_keyok L kg HL Hkg) I2) as (W3 & M3 & I3 & D3).
      split; [exact W3|]. split; [eapply mxm_mono_trans; [exact M1|]; eapply mxm_mono_trans; eassumption|].
      assert (Hmk2 : mxm_marked st2 L).
      { unfold mxm_marked. rewrite (F2 L HL), mxk_key_eqb_refl. apply set_sel. }
      split; [destruct M3 as (_ & _ & M33 & _); apply M33; assumption|].
      intros K HK Hmk. destruct (I3 K HK Hmk) as [[<-|H]|H]; [|left; exact H|right; exact H].
      right. intros Hok Hhi. split.
      + intros kg g Hkg Hg. apply (D3 kg g Hkg Hg st' (mxm_mono_refl st') Hok Hhi).
      + intros M (kg & g & Hkg & Hg & Hne & Ex). apply (D3 kg g Hkg Hg st' (mxm_mono_refl st') Hok Hhi); assumption.
  Qed.

  (* ---------- from a closed state, the walk without guards finds nothing on a marked set ---------- *)
  Lemma mxm_closure stf : mx_ok stf = true -> (mx_high stf <= limit)%nat -> mxm_inv stf [] ->
    forall fuel depth stn K stn', mxk_keyok s K -> mxm_marked stf K ->
      mxn_walk (mxm_parts subparts) rel frags fuel depth stn K = Some stn' -> (snd stn' <= limit)%nat ->
      fst stn' = fst stn.
  Proof.
    intros Hok Hhi Hinv. induction fuel as [|fuel IH]; intros depth stn K stn' HK Hmk E Hlim; cbn [mxn_walk] in E; [discriminate|].
    destruct (Hinv K HK Hmk) as [[]|Hc]. destruct (Hc Hok Hhi) as [Hloc Hch].
    assert (Hps : forall g, In g (mxm_parts subparts K) ->
              mx_first_vs_rest rel g = true /\ mxk_keyok s g /\
              forall M, mx_nested_sets g <> [] -> mx_expand frags (mx_nested_sets g) = Some M -> mxm_marked stf M).
    { intros g Hg. unfold mxm_parts in Hg. apply in_flat_map in Hg. destruct Hg as (kg & Hkg & Hg).
      split; [exact (Hloc kg g Hkg Hg)|]. split.
      - eapply mxm_sub_keyok; [|exact Hg]. eapply mxm_group_keyok; eassumption.
      - intros M Hne Ex. apply Hch. exists kg, g. auto. }
    revert E Hps. generalize (mxm_parts subparts K). intros ps. revert stn.
    induction ps as [|g ps IHps]; intros stn E Hps; cbn [mxn_fold] in E.
    - injection E as <-. reflexivity.
    - destruct (mxn_step rel frags (mxn_walk (mxm_parts subparts) rel frags fuel) depth stn g) as [st1|] eqn:E1; [|discriminate].
      rewrite (IHps st1 E (fun g' H' => Hps g' (or_intror H'))).
      destruct (Hps g (or_introl eq_refl)) as (Hf & Hg & Hm).
      (* the rest of the loop only raises the high water mark *)
      assert (Hhi1 : (snd st1 <= limit)%nat).
      { clear -E Hlim. revert st1 E. induction ps as [|g' ps IHp]; intros st1 E; cbn [mxn_fold] in E.
        - injection E as <-. exact Hlim.
        - destruct (mxn_step rel frags (mxn_walk (mxm_parts subparts) rel frags fuel) depth st1 g') as [st2|] eqn:E2; [|discriminate].
          specialize (IHp _ E).
          assert (snd st1 <= snd st2)%nat; [|lia].
          revert E2. unfold mxn_step. destruct (mx_nested_sets g') as [|n0 nr]; [intros [= <-]; cbn; lia|].
          destruct (mx_expand frags (n0 :: nr)) as [merged|]; [|discriminate]. unfold mxn_enter, mxn_and_ok. cbn [fst snd].
          destruct (Nat.ltb limit (S depth)); [intros [= <-]; cbn; lia|].
          intros E2. apply mxn_walk_mono in E2. cbn [fst snd] in E2. lia. }
      revert E1. unfold mxn_step. rewrite Hf. unfold mxn_and_ok. rewrite andb_true_r.
      destruct (mx_nested_sets g) as [|n0 nr] eqn:En; [intros [= <-]; reflexivity|]. rewrite <- En in *.
      destruct (mx_expand frags (mx_nested_sets g)) as [merged|] eqn:Ex; [|discriminate].
      unfold mxn_enter. cbn [fst snd]. destruct (Nat.ltb limit (S depth)) eqn:L.
      + intros [= <-]. reflexivity.
      + intros E1. assert (Hne : mx_nested_sets g <> []) by (rewrite En; discriminate).
        rewrite (IH _ _ _ _ (mxm_expand_keyok g merged Hg Ex) (Hm merged Hne eq_refl) E1 Hhi1). reflexivity.
  Qed.

  (* ---------- the walk with guards makes a subset of the checks ---------- *)
  Definition mxm_sim (stm : mx_state) (stn : mxn_st) : Prop :=
    (fst stn = true -> mx_ok stm = true) /\ (mx_high stm <= snd stn)%nat.

  Definition mxm_rec_sim (rec : nat -> mx_state -> list mx_fs -> option mx_state)
      (recn : nat -> mxn_st -> list mx_fs -> option mxn_st) : Prop :=
    forall depth stm stn L stm' stn', mxk_wf s stm -> mxk_keyok s L ->
      rec depth stm L = Some stm' -> recn depth stn L = Some stn' -> mxm_sim stm stn ->
      mxk_wf s stm' /\ mxm_sim stm' stn'.

  Lemma mxm_step_sim rec recn depth stm stn g stm1 stn1 : mxm_rec_sim rec recn -> mxk_wf s stm -> mxk_keyok s g ->
    mxm_step rel frags rec depth stm g = Some stm1 -> mxn_step rel frags recn depth stn g = Some stn1 ->
    mxm_sim stm stn -> mxk_wf s stm1 /\ mxm_sim stm1 stn1.
  Proof.
    intros Hrec Hwf Hg Em En Hsim. revert Em En. unfold mxm_step, mxn_step.
    set (b := mx_first_vs_rest rel g).
    assert (Sb : mxm_sim (mx_and_ok stm b) (mxn_and_ok stn b)).
    { destruct Hsim as [A B]. split; [|exact B]. cbn. intros H. apply andb_true_iff in H. destruct H as [H ->].
      rewrite (A H). reflexivity. }
    destruct (mx_nested_sets g) as [|n0 nr] eqn:Eg.
    - intros [= <-] [= <-]. split; [exact Hwf|exact Sb].
    - rewrite <- Eg in *. destruct (mx_expand frags (mx_nested_sets g)) as [merged|] eqn:Ex; [|discriminate].
      unfold mx_enter, mxn_enter. cbn [mx_cache mx_ok mx_high fst snd mx_and_ok mxn_and_ok].
      set (stm4 := {| mx_cache := mx_cache stm; mx_ok := mx_ok stm && b; mx_high := Nat.max (mx_high stm) (S depth) |}).
      set (stn4 := (fst stn && b, Nat.max (snd stn) (S depth))).
      assert (S4 : mxm_sim stm4 stn4).
      { destruct Sb as [A B]. split; [exact A|]. cbn in B |- *. lia. }
      assert (W4 : mxk_wf s stm4) by exact Hwf.
      destruct (Nat.ltb limit (S depth)).
      + intros [= <-] [= <-]. split; [exact W4|exact S4].
      + intros Em4 En4. exact (Hrec _ _ _ _ _ _ W4 (mxm_expand_keyok g merged Hg Ex) Em4 En4 S4).
  Qed.

  Lemma mxm_parts_sim rec recn depth : mxm_rec_sim rec recn -> forall ps stm stn stm1 stn1,
    mxk_wf s stm -> (forall g, In g ps -> mxk_keyok s g) ->
    mxm_fold (mxm_step rel frags rec depth) stm ps = Some stm1 ->
    mxn_fold (mxn_step rel frags recn depth) stn ps = Some stn1 ->
    mxm_sim stm stn -> mxk_wf s stm1 /\ mxm_sim stm1 stn1.
  Proof.
    intros Hrec. induction ps as [|g ps IH]; intros stm stn stm1 stn1 Hwf Hps Em En Hsim; cbn [mxm_fold mxn_fold] in Em, En.
    - injection Em as <-. injection En as <-. split; assumption.
    - destruct (mxm_step rel frags rec depth stm g) as [stm3|] eqn:Em3; [|discriminate].
      destruct (mxn_step rel frags recn depth stn g) as [stn3|] eqn:En3; [|discriminate].
      destruct (mxm_step_sim rec recn depth stm stn g stm3 stn3 Hrec Hwf (Hps g (or_introl eq_refl)) Em3 En3 Hsim) as [W3 S3].
      exact (IH _ _ _ _ W3 (fun g' H' => Hps g' (or_intror H')) Em En S3).
  Qed.

  Lemma mxm_groups_sim rec recn depth : mxm_rec_sim rec recn -> forall (gs : list (str * list mx_fs)) stm stn stm1 stn1,
    mxk_wf s stm -> (forall kg, In kg gs -> mxk_keyok s (snd kg)) ->
    mxm_fold (fun st kg => mxm_fold (mxm_step rel frags rec depth) (pre st (snd kg)) (subparts (snd kg))) stm gs = Some stm1 ->
    mxn_fold (mxn_step rel frags recn depth) stn (flat_map (fun kg => subparts (snd kg)) gs) = Some stn1 ->
    mxm_sim stm stn -> mxk_wf s stm1 /\ mxm_sim stm1 stn1.
  Proof.
    intros Hrec. induction gs as [|kg gs IH]; intros stm stn stm1 stn1 Hwf Hgs Em En Hsim; cbn [mxm_fold flat_map] in Em, En.
    - cbn [mxn_fold] in En. injection Em as <-. injection En as <-. split; assumption.
    - rewrite mxn_fold_app in En.
      destruct (mxm_fold (mxm_step rel frags rec depth) (pre stm (snd kg)) (subparts (snd kg))) as [stm2|] eqn:Em2; [|discriminate].
      destruct (mxn_fold (mxn_step rel frags recn depth) stn (subparts (snd kg))) as [stn2|] eqn:En2; [|discriminate].
      assert (Hkg : mxk_keyok s (snd kg)) by (apply Hgs; left; reflexivity).
      destruct (pre_ok stm (snd kg) Hwf Hkg) as (Wp & Op & Hp & Fp).
      assert (Sp : mxm_sim (pre stm (snd kg)) stn) by (destruct Hsim as [A B]; split; [rewrite Op; exact A|rewrite Hp; exact B]).
      destruct (mxm_parts_sim rec recn depth Hrec _ _ _ _ _ Wp (fun g Hg => mxm_sub_keyok _ g Hkg Hg) Em2 En2 Sp) as [W2 S2].
      exact (IH _ _ _ _ W2 (fun kg' H' => Hgs kg' (or_intror H')) Em En S2).
  Qed.

  Theorem mxm_walk_sim : forall fuel, mxm_rec_sim (walk fuel) (mxn_walk (mxm_parts subparts) rel frags fuel).
  Proof.
    induction fuel as [|fuel IH]; intros depth stm stn L stm' stn' Hwf HL Em En Hsim; cbn [mxm_walk] in Em; [discriminate|].
    destruct (mx_lookup stm L) as [st1 e] eqn:El.
    destruct (mxk_lookup s stm L st1 e Hwf HL El) as (W1 & O1 & H1 & Ke & Fe & F1).
    destruct (getfl e).
    - injection Em as <-. destruct (mxn_walk_mono _ _ _ _ _ _ _ _ En) as [N1 N2]. destruct Hsim as [S1 S2].
      split; [exact W1|]. split; [rewrite O1; auto|rewrite H1; lia].
    - assert (Ks : mxk_keyok s (me_key (setfl e))) by (rewrite set_key, Ke; exact HL).
      assert (W2 : mxk_wf s (mx_set_entry st1 (setfl e))) by (apply mxk_set_wf; assumption).
      assert (S2 : mxm_sim (mx_set_entry st1 (setfl e)) stn).
      { destruct Hsim as [S1 S2]. split; [cbn; rewrite O1; exact S1|cbn; rewrite H1; exact S2]. }
      cbn [mxn_walk] in En. unfold mxm_parts in En.
      exact (mxm_groups_sim _ _ depth IH _ _ _ _ _ W2 (fun kg Hkg => mxm_group_keyok L kg HL Hkg) Em En S2).
  Qed.
End MemoInv.

(* ---------- mx_from_ast only builds selections that are mxb_ok: no hypothesis on the document ---------- *)
Lemma mx_from_ast_sel_ok s x : forall ty, Forall (mxb_ok s ty) (mx_from_ast_sel s ty x).
Proof.
  induction x as [a n args dirs sub IH|n dirs|c dirs sub IH] using selection_ind_nested; intros ty; cbn [mx_from_ast_sel].
  - destruct (xv_lookup_field s ty n) as [fd|] eqn:L; [|constructor].
    set (tn := inner_named_type (fd_ty fd)).
    assert (Hsub : Forall (mxb_ok s tn) (flat_map (mx_from_ast_sel s tn) sub)).
    { clear -IH. induction IH as [|y r Hy _ IHr]; cbn [flat_map]; [constructor|]. apply Forall_app. split; [apply Hy|exact IHr]. }
    assert (Hgen : mxb_leaf_name s tn = false -> Forall (mxb_ok s ty) [MxField a n args dirs fd tn (flat_map (mx_from_ast_sel s tn) sub)]).
    { intros Hl. constructor; [|constructor]. apply mxb_ok_field. split; [exact L|]. split; [reflexivity|]. split; [|exact Hsub].
      rewrite Hl. discriminate. }
    assert (Hleaf : Forall (mxb_ok s ty) (if xv_is_nil sub then [MxField a n args dirs fd tn []] else [])).
    { destruct (xv_is_nil sub); [|constructor]. constructor; [|constructor]. apply mxb_ok_field.
      split; [exact L|]. split; [reflexivity|]. split; [reflexivity|constructor]. }
    unfold mxb_leaf_name in Hgen. destruct (sch_get_type s tn) as [t|]; [|apply Hgen; reflexivity].
    destruct t; try (apply Hgen; reflexivity); exact Hleaf.
  - constructor; [exact I|constructor].
  - assert (Hsub : forall tn, Forall (mxb_ok s tn) (flat_map (mx_from_ast_sel s tn) sub)).
    { intros tn. clear -IH. induction IH as [|y r Hy _ IHr]; cbn [flat_map]; [constructor|]. apply Forall_app. split; [apply Hy|exact IHr]. }
    destruct c as [c'|].
    + destruct (xv_is_some (sch_get_type s c')); [|constructor]. constructor; [|constructor].
      apply mxb_ok_inline. split; [reflexivity|apply Hsub].
    + constructor; [|constructor]. apply mxb_ok_inline. split; [reflexivity|apply Hsub].
Qed.

Lemma mx_from_ast_ok s ty sels : Forall (mxb_ok s ty) (mx_from_ast s ty sels).
Proof.
  unfold mx_from_ast. induction sels as [|x r IH]; cbn [flat_map]; [constructor|]. apply Forall_app.
  split; [apply mx_from_ast_sel_ok|exact IH].
Qed.

Lemma mx_fragments_ok s : forall fr acc, mxb_frags_ok s acc -> mxb_frags_ok s (mx_fragments s fr acc).
Proof.
  induction fr as [|[k f] r IH]; intros acc Hacc; cbn [mx_fragments]; [exact Hacc|].
  destruct (xv_is_some (xv_assoc k acc)) eqn:Ek; [apply IH; exact Hacc|].
  destruct (xv_is_some (sch_get_type s (xv_frag_cond f))); [|apply IH; exact Hacc].
  apply IH. intros n ty sels. rewrite xv_assoc_app. destruct (xv_assoc n acc) as [v|] eqn:En.
  - intros [= ->]. exact (Hacc n ty sels En).
  - cbn [xv_assoc]. destruct (streq n k); [|discriminate]. intros [= <- <-]. apply mx_from_ast_ok.
Qed.

Lemma mx_fragments_ok_nil s fr : mxb_frags_ok s (mx_fragments s fr []).
Proof. apply mx_fragments_ok. intros n ty sels. discriminate. Qed.

(* the walk without guards depends on its parts pointwise *)
Lemma mxn_fold_ext {A} (f g : mxn_st -> A -> option mxn_st) l : (forall st x, f st x = g st x) ->
  forall st, mxn_fold f st l = mxn_fold g st l.
Proof.
  intros H. induction l as [|x l IH]; intros st; cbn [mxn_fold]; [reflexivity|]. rewrite H.
  destruct (g st x); [apply IH|reflexivity].
Qed.

Lemma mxn_walk_ext parts parts' rel frags : (forall L, parts L = parts' L) ->
  forall fuel depth st L, mxn_walk parts rel frags fuel depth st L = mxn_walk parts' rel frags fuel depth st L.
Proof.
  intros H. induction fuel as [|fuel IH]; intros depth st L; cbn [mxn_walk]; [reflexivity|]. rewrite H.
  apply mxn_fold_ext. intros st0 g. unfold mxn_step. destruct (mx_nested_sets g); [reflexivity|].
  destruct (mx_expand frags (m :: l)); [|reflexivity].
  destruct (mxn_enter (mxn_and_ok st0 (mx_first_vs_rest rel g)) depth) as [st1 reached]. destruct reached; [reflexivity|apply IH].
Qed.

Section MemoDoc.
  Variable s : schema.
  Variable frags : list (str * mx_set).
  Hypothesis Hfrags : mxb_frags_ok s frags.

  Notation shape := (mx_same_output_type_shape s).
  Notation nameargs := mx_same_name_and_arguments.
  Notation limit := mx_field_depth_limit.
  Notation gbcp := (mx_group_by_common_parents s).

  Lemma mxd_pre_none_ok : forall st g, mxk_wf s st -> mxk_keyok s g ->
    mxk_wf s (mxm_pre_none st g) /\ mx_ok (mxm_pre_none st g) = mx_ok st /\ mx_high (mxm_pre_none st g) = mx_high st /\
    forall K, mxk_flags (mxm_pre_none st g) K = mxk_flags st K.
  Proof. intros st g Hwf _. unfold mxm_pre_none. auto. Qed.

  Lemma mxd_pre_lookup_ok : forall st g, mxk_wf s st -> mxk_keyok s g ->
    mxk_wf s (mxm_pre_lookup st g) /\ mx_ok (mxm_pre_lookup st g) = mx_ok st /\
    mx_high (mxm_pre_lookup st g) = mx_high st /\ forall K, mxk_flags (mxm_pre_lookup st g) K = mxk_flags st K.
  Proof.
    intros st g Hwf Hg. unfold mxm_pre_lookup. destruct (mx_lookup st g) as [st1 e] eqn:E. cbn [fst].
    destruct (mxk_lookup s st g st1 e Hwf Hg E) as (W & O & H & _ & _ & F). auto.
  Qed.

  Lemma mxd_one_incl : forall (g pg : list mx_fs) (x : mx_fs), In pg (mxm_one g) -> In x pg -> In x g.
  Proof. intros g pg x [<-|[]] Hx. exact Hx. Qed.

  Lemma mxd_gbcp_incl : forall (g pg : list mx_fs) (x : mx_fs), In pg (gbcp g) -> In x pg -> In x g.
  Proof. intros g pg x. apply gbcp_incl. Qed.

  Definition mxd_walk_s := mxm_walk me_shape_done mxm_set_shape mxm_pre_none mxm_one shape frags.
  Definition mxd_walk_p := mxm_walk me_parents_done mxm_set_parents mxm_pre_lookup gbcp nameargs frags.

  Lemma mxd_shape_inv fuel : mxm_rec_ok s frags fst snd mxm_one shape (mxd_walk_s fuel).
  Proof.
    apply (mxm_walk_inv s frags Hfrags fst snd me_shape_done mxm_set_shape); try (intros e; reflexivity);
      [exact mxd_pre_none_ok|exact mxd_one_incl].
  Qed.
  Lemma mxd_parents_inv fuel : mxm_rec_ok s frags snd fst gbcp nameargs (mxd_walk_p fuel).
  Proof.
    apply (mxm_walk_inv s frags Hfrags snd fst me_parents_done mxm_set_parents); try (intros e; reflexivity);
      [exact mxd_pre_lookup_ok|exact mxd_gbcp_incl].
  Qed.
  Lemma mxd_shape_sim fuel : mxm_rec_sim s (mxd_walk_s fuel) (mxn_walk (mxm_parts mxm_one) shape frags fuel).
  Proof.
    apply (mxm_walk_sim s frags Hfrags fst snd me_shape_done mxm_set_shape); try (intros e; reflexivity);
      [exact mxd_pre_none_ok|exact mxd_one_incl].
  Qed.
  Lemma mxd_parents_sim fuel : mxm_rec_sim s (mxd_walk_p fuel) (mxn_walk (mxm_parts gbcp) nameargs frags fuel).
  Proof.
    apply (mxm_walk_sim s frags Hfrags snd fst me_parents_done mxm_set_parents); try (intros e; reflexivity);
      [exact mxd_pre_lookup_ok|exact mxd_gbcp_incl].
  Qed.

  Definition mxd_inv_s (st : mx_state) : Prop := mxm_inv s frags fst mxm_one shape st [].
  Definition mxd_inv_p (st : mx_state) : Prop := mxm_inv s frags snd gbcp nameargs st [].
  (* between operations: keys are fine, every marked set of either pass is closed, and ok implies within the limit *)
  Definition mxd_J (st : mx_state) : Prop :=
    mxk_wf s st /\ mxd_inv_s st /\ mxd_inv_p st /\ (mx_ok st = true -> (mx_high st <= limit)%nat).

  (* the state moved on without touching the guards of a pass: its invariant stays *)
  Lemma mxd_inv_transfer sel subparts rel :
    (forall (g pg : list mx_fs) (x : mx_fs), In pg (subparts g) -> In x pg -> In x g) ->
    forall st st', (mx_ok st' = true -> mx_ok st = true) -> (mx_high st <= mx_high st')%nat ->
    (forall K, mxk_keyok s K -> sel (mxk_flags st' K) = sel (mxk_flags st K)) ->
    mxm_inv s frags sel subparts rel st [] -> mxm_inv s frags sel subparts rel st' [].
  Proof.
    intros Hincl st st' H1 H2 Hsame Hinv K HK Hmk. unfold mxm_marked in Hmk. rewrite (Hsame K HK) in Hmk.
    destruct (Hinv K HK Hmk) as [[]|Hc]. right. intros Hok Hhi.
    destruct (Hc (H1 Hok) ltac:(lia)) as [Hl Hch]. split; [exact Hl|]. intros M HM.
    assert (HMk : mxk_keyok s M).
    { destruct HM as (kg & g & Hkg & Hg & _ & Ex). apply (mxm_expand_keyok s frags Hfrags g M); [|exact Ex].
      intros f Hf. destruct kg as [k g0]. cbn [snd] in Hg. rewrite (gbon_in _ _ _ Hkg) in Hg.
      assert (Hf0 : In f (filter (fun f0 => streq k (mx_response_key f0)) K)) by (eapply Hincl; eassumption).
      apply filter_In in Hf0. apply HK. apply Hf0. }
    unfold mxm_marked. rewrite (Hsame M HMk). apply Hch. exact HM.
  Qed.

  Lemma mxd_root_keyok (root : mx_set) fields : Forall (mxb_ok s (fst root)) (snd root) -> mx_expand frags [root] = Some fields ->
    mxk_keyok s fields.
  Proof.
    intros Hroot Ex f Hf. apply (mxe_expand_coll frags _ _ Ex) in Hf. destruct Hf as (ty & sels & R & Hin).
    assert (Hok : Forall (mxb_ok s ty) sels).
    { apply (mxm_reach_ok s frags Hfrags [root]); [|exact R]. intros ty0 sels0 [E|[]]. subst root. exact Hroot. }
    apply mxe_fields_in in Hin. destruct Hin as (a & n & args & dirs & def & sty & sub & Hx & ->).
    rewrite Forall_forall in Hok. specialize (Hok _ Hx). apply mxb_ok_field in Hok. exact Hok.
  Qed.

  (* ---------- one operation, with the guards ---------- *)
  Lemma mxd_validate_inv st (root : mx_set) st' : Forall (mxb_ok s (fst root)) (snd root) -> mxd_J st ->
    mx_validate_operation s frags st root = Some st' ->
    mxd_J st' /\ (mx_ok st' = true -> mx_ok st = true) /\
    (forall K, mxk_keyok s K -> mxm_marked fst st K -> mxm_marked fst st' K) /\
    (forall K, mxk_keyok s K -> mxm_marked snd st K -> mxm_marked snd st' K) /\
    exists fields, mx_expand frags [root] = Some fields /\ mxk_keyok s fields /\
                   mxm_marked fst st' fields /\ mxm_marked snd st' fields.
  Proof.
    intros Hroot (Hwf & Is & Ip & Hq). unfold mx_validate_operation.
    destruct (mx_expand frags [root]) as [fields|] eqn:Ex; [|discriminate].
    pose proof (mxd_root_keyok root fields Hroot Ex) as Hk.
    rewrite mx_shape_walk. fold (mxd_walk_s mx_fuel).
    destruct (mxd_walk_s mx_fuel 0 st fields) as [st1|] eqn:E1; [|discriminate].
    rewrite mx_parents_walk. fold (mxd_walk_p mx_fuel).
    destruct (mxd_walk_p mx_fuel 0 st1 fields) as [st2|] eqn:E2; [|discriminate].
    intros [= <-].
    destruct (mxd_shape_inv mx_fuel 0%nat st fields st1 [] E1 Hwf Hk Is) as (W1 & (A1 & A2 & A3 & A4) & Mk1 & Is1).
    assert (Ip1 : mxd_inv_p st1) by (apply (mxd_inv_transfer snd gbcp nameargs mxd_gbcp_incl st st1 A1 A2 A4 Ip)).
    destruct (mxd_parents_inv mx_fuel 0%nat st1 fields st2 [] E2 W1 Hk Ip1) as (W2 & (B1 & B2 & B3 & B4) & Mk2 & Ip2).
    assert (Is2 : mxd_inv_s st2) by (apply (mxd_inv_transfer fst mxm_one shape mxd_one_incl st1 st2 B1 B2 B4 Is1)).
    set (c := negb (Nat.ltb limit (mx_high st2))).
    assert (Hsame : forall K, mxk_flags (mx_and_ok st2 c) K = mxk_flags st2 K) by reflexivity.
    assert (Hok' : mx_ok (mx_and_ok st2 c) = true -> mx_ok st2 = true /\ c = true) by (cbn; intros H; apply andb_true_iff in H; exact H).
    split.
    - split; [exact W2|]. split; [|split].
      + apply (mxd_inv_transfer fst mxm_one shape mxd_one_incl st2 _); [intros H; apply Hok'; exact H|cbn; lia| |exact Is2].
        intros K _. rewrite Hsame. reflexivity.
      + apply (mxd_inv_transfer snd gbcp nameargs mxd_gbcp_incl st2 _); [intros H; apply Hok'; exact H|cbn; lia| |exact Ip2].
        intros K _. rewrite Hsame. reflexivity.
      + intros H. destruct (Hok' H) as [_ Hc]. unfold c in Hc. apply negb_true_iff in Hc. apply Nat.ltb_ge in Hc. exact Hc.
    - split; [intros H; apply A1; apply B1; apply Hok'; exact H|]. split; [|split].
      + intros K HK Hm. unfold mxm_marked. rewrite Hsame, (B4 K HK). apply A3; assumption.
      + intros K HK Hm. unfold mxm_marked. rewrite Hsame. apply B3; [exact HK|]. unfold mxm_marked. rewrite (A4 K HK). exact Hm.
      + exists fields. split; [reflexivity|]. split; [exact Hk|]. split.
        * unfold mxm_marked. rewrite Hsame, (B4 fields Hk). exact Mk1.
        * unfold mxm_marked. rewrite Hsame. exact Mk2.
  Qed.

  Lemma mxd_validate_sim stm stn (root : mx_set) stm' stn' : Forall (mxb_ok s (fst root)) (snd root) -> mxk_wf s stm ->
    mx_validate_operation s frags stm root = Some stm' -> mxn_validate_operation s frags stn root = Some stn' ->
    mxm_sim stm stn -> mxk_wf s stm' /\ mxm_sim stm' stn'.
  Proof.
    intros Hroot Hwf. unfold mx_validate_operation, mxn_validate_operation.
    destruct (mx_expand frags [root]) as [fields|] eqn:Ex; [|discriminate].
    pose proof (mxd_root_keyok root fields Hroot Ex) as Hk.
    rewrite mx_shape_walk, mxn_shape_walk. fold (mxd_walk_s mx_fuel).
    rewrite (mxn_walk_ext mxn_shape_parts (mxm_parts mxm_one)) by (intros L; symmetry; apply mxm_parts_shape).
    destruct (mxd_walk_s mx_fuel 0 stm fields) as [sm1|] eqn:Em1; [|discriminate].
    destruct (mxn_walk (mxm_parts mxm_one) shape frags mx_fuel 0 stn fields) as [sn1|] eqn:En1; [|discriminate].
    rewrite mx_parents_walk, mxn_parents_walk. fold (mxd_walk_p mx_fuel).
    change (mxn_parents_parts s) with (mxm_parts gbcp).
    destruct (mxd_walk_p mx_fuel 0 sm1 fields) as [sm2|] eqn:Em2; [|discriminate].
    destruct (mxn_walk (mxm_parts gbcp) nameargs frags mx_fuel 0 sn1 fields) as [sn2|] eqn:En2; [|discriminate].
    intros [= <-] [= <-] Hsim.
    destruct (mxd_shape_sim mx_fuel 0%nat stm stn fields sm1 sn1 Hwf Hk Em1 En1 Hsim) as [W1 S1].
    destruct (mxd_parents_sim mx_fuel 0%nat sm1 sn1 fields sm2 sn2 W1 Hk Em2 En2 S1) as [W2 [S2a S2b]].
    split; [exact W2|]. split.
    - cbn [mx_ok mx_high mx_and_ok mxn_and_ok fst snd]. intros H. apply andb_true_iff in H. destruct H as [H1 H2].
      rewrite (S2a H1). cbn [andb].
      apply negb_true_iff in H2. apply Nat.ltb_ge in H2. apply negb_true_iff. apply Nat.ltb_ge. lia.
    - exact S2b.
  Qed.

  Lemma mxd_validate_some st (root : mx_set) : mx_validate_operation s frags st root <> None.
  Proof.
    unfold mx_validate_operation. destruct (mx_expand frags [root]) as [fields|] eqn:Ex; [|exfalso; exact (mx_expand_some _ _ Ex)].
    rewrite mx_shape_walk.
    destruct (mxm_walk me_shape_done mxm_set_shape mxm_pre_none mxm_one shape frags mx_fuel 0 st fields) as [st1|] eqn:E1.
    - rewrite mx_parents_walk.
      destruct (mxm_walk me_parents_done mxm_set_parents mxm_pre_lookup gbcp nameargs frags mx_fuel 0 st1 fields) as [st2|] eqn:E2;
        [discriminate|].
      exfalso. revert E2. apply mxm_walk_some; unfold mx_fuel, mx_field_depth_limit; lia.
    - exfalso. revert E1. apply mxm_walk_some; unfold mx_fuel, mx_field_depth_limit; lia.
  Qed.

  (* ---------- one operation without the guards, seen from a final state of the run with guards ---------- *)
  Lemma mxd_validate_closure stf (root : mx_set) fields stn stn' :
    mx_ok stf = true -> mxd_J stf -> mx_expand frags [root] = Some fields -> mxk_keyok s fields ->
    mxm_marked fst stf fields -> mxm_marked snd stf fields ->
    mxn_validate_operation s frags stn root = Some stn' -> (snd stn' <= limit)%nat -> fst stn' = fst stn.
  Proof.
    intros Hok (Hwf & Is & Ip & Hq) Ex Hk Ms Mp. unfold mxn_validate_operation. rewrite Ex.
    rewrite mxn_shape_walk, (mxn_walk_ext mxn_shape_parts (mxm_parts mxm_one)) by (intros L; symmetry; apply mxm_parts_shape).
    destruct (mxn_walk (mxm_parts mxm_one) shape frags mx_fuel 0 stn fields) as [sn1|] eqn:En1; [|discriminate].
    rewrite mxn_parents_walk. change (mxn_parents_parts s) with (mxm_parts gbcp).
    destruct (mxn_walk (mxm_parts gbcp) nameargs frags mx_fuel 0 sn1 fields) as [sn2|] eqn:En2; [|discriminate].
    intros [= <-]. cbn [mxn_and_ok fst snd]. intros Hlim.
    destruct (mxn_walk_mono _ _ _ _ _ _ _ _ En2) as [_ Hhi2].
    rewrite (proj2 (Nat.ltb_ge _ _) Hlim). cbn [negb]. rewrite andb_true_r.
    rewrite (mxm_closure s frags Hfrags snd gbcp mxd_gbcp_incl nameargs stf Hok (Hq Hok) Ip mx_fuel 0%nat sn1 fields sn2 Hk Mp En2 Hlim).
    apply (mxm_closure s frags Hfrags fst mxm_one mxd_one_incl shape stf Hok (Hq Hok) Is mx_fuel 0%nat stn fields sn1 Hk Ms En1). lia.
  Qed.
End MemoDoc.

(* ---------- the whole document: one validator (one cache) for all operations ---------- *)
Section MemoDocument.
  Variable s : schema.
  Variable d : document.
  Notation frags := (mx_fragments s (xv_frags d) []).
  Notation limit := mx_field_depth_limit.

  Definition mxd_stepm (st : option mx_state) (o : xv_op) : option mx_state :=
    match st with
    | None => None
    | Some st =>
        match xv_root s (xo_type o) with
        | Some root => mx_validate_operation s frags st (root, mx_from_ast s root (xo_sels o))
        | None => Some st
        end
    end.
  Definition mxd_stepn (st : option mxn_st) (o : xv_op) : option mxn_st :=
    match st with
    | None => None
    | Some st =>
        match xv_root s (xo_type o) with
        | Some root => mxn_validate_operation s frags st (root, mx_from_ast s root (xo_sels o))
        | None => Some st
        end
    end.

  Lemma mx_document_ok_fold : mx_document_ok s d = option_map mx_ok (fold_left mxd_stepm (xv_ops d) (Some mx_initial)).
  Proof. reflexivity. Qed.
  Lemma mxn_document_fold : mxn_document s d = fold_left mxd_stepn (xv_ops d) (Some mxn_initial).
  Proof. reflexivity. Qed.

  Lemma mxd_foldm_none ops : fold_left mxd_stepm ops None = None.
  Proof. induction ops as [|o ops IH]; [reflexivity|exact IH]. Qed.
  Lemma mxd_foldn_none ops : fold_left mxd_stepn ops None = None.
  Proof. induction ops as [|o ops IH]; [reflexivity|exact IH]. Qed.

  Let Hfrags : mxb_frags_ok s frags := mx_fragments_ok_nil s (xv_frags d).

  Lemma mxd_foldm_some ops : forall st, fold_left mxd_stepm ops (Some st) <> None.
  Proof.
    induction ops as [|o ops IH]; intros st; cbn [fold_left]; [discriminate|]. unfold mxd_stepm at 2.
    destruct (xv_root s (xo_type o)) as [root|]; [|apply IH].
    destruct (mx_validate_operation s frags st (root, mx_from_ast s root (xo_sels o))) as [st1|] eqn:E; [apply IH|].
    exfalso. exact (mxd_validate_some s frags st _ E).
  Qed.

  (* the fields of an operation *)
  Definition mxd_op_marked (stf : mx_state) (o : xv_op) : Prop :=
    forall root, xv_root s (xo_type o) = Some root ->
      exists fields, mx_expand frags [(root, mx_from_ast s root (xo_sels o))] = Some fields /\ mxk_keyok s fields /\
                     mxm_marked fst stf fields /\ mxm_marked snd stf fields.

  Lemma mxd_foldm_inv ops : forall st stf, mxd_J s frags st -> fold_left mxd_stepm ops (Some st) = Some stf ->
    mxd_J s frags stf /\ (mx_ok stf = true -> mx_ok st = true) /\
    (forall K, mxk_keyok s K -> mxm_marked fst st K -> mxm_marked fst stf K) /\
    (forall K, mxk_keyok s K -> mxm_marked snd st K -> mxm_marked snd stf K) /\
    (forall o, In o ops -> mxd_op_marked stf o).
  Proof.
    induction ops as [|o ops IH]; intros st stf HJ; cbn [fold_left].
    - intros [= <-]. split; [exact HJ|]. split; [auto|]. split; [auto|]. split; [auto|intros ? []].
    - unfold mxd_stepm at 2. destruct (xv_root s (xo_type o)) as [root|] eqn:Er.
      + destruct (mx_validate_operation s frags st (root, mx_from_ast s root (xo_sels o))) as [st1|] eqn:E;
          [|rewrite mxd_foldm_none; discriminate].
        intros Ef.
        destruct (mxd_validate_inv s frags Hfrags st (root, mx_from_ast s root (xo_sels o)) st1 (mx_from_ast_ok s root (xo_sels o)) HJ E)
          as (J1 & O1 & Ms1 & Mp1 & (fields & Ex & Hk & Fs & Fp)).
        destruct (IH st1 stf J1 Ef) as (Jf & Of & Msf & Mpf & Hops).
        split; [exact Jf|]. split; [auto|]. split; [auto|]. split; [auto|].
        intros o' [<-|Ho']; [|apply Hops; exact Ho'].
        intros root' Er'. rewrite Er in Er'. injection Er' as <-. exists fields. auto.
      + intros Ef. destruct (IH st stf HJ Ef) as (Jf & Of & Msf & Mpf & Hops).
        split; [exact Jf|]. split; [exact Of|]. split; [exact Msf|]. split; [exact Mpf|].
        intros o' [<-|Ho']; [|apply Hops; exact Ho']. intros root' Er'. congruence.
  Qed.

  Lemma mxd_validate_n_mono st root st' : mxn_validate_operation s frags st root = Some st' -> (snd st <= snd st')%nat.
  Proof.
    unfold mxn_validate_operation. destruct (mx_expand frags [root]) as [fields|]; [|discriminate].
    rewrite mxn_shape_walk.
    destruct (mxn_walk mxn_shape_parts (mx_same_output_type_shape s) frags mx_fuel 0 st fields) as [st1|] eqn:E1; [|discriminate].
    rewrite mxn_parents_walk.
    destruct (mxn_walk (mxn_parents_parts s) mx_same_name_and_arguments frags mx_fuel 0 st1 fields) as [st2|] eqn:E2; [|discriminate].
    intros [= <-]. cbn [mxn_and_ok snd]. apply mxn_walk_mono in E1. apply mxn_walk_mono in E2. lia.
  Qed.

  Lemma mxd_foldn_mono ops : forall st st', fold_left mxd_stepn ops (Some st) = Some st' -> (snd st <= snd st')%nat.
  Proof.
    induction ops as [|o ops IH]; intros st st'; cbn [fold_left]; [intros [= <-]; lia|]. unfold mxd_stepn at 2.
    destruct (xv_root s (xo_type o)) as [root|]; [|apply IH].
    destruct (mxn_validate_operation s frags st (root, mx_from_ast s root (xo_sels o))) as [st1|] eqn:E;
      [|rewrite mxd_foldn_none; discriminate].
    intros Ef. apply IH in Ef. apply mxd_validate_n_mono in E. lia.
  Qed.

  Lemma mxd_foldn_closure stf : mx_ok stf = true -> mxd_J s frags stf -> forall ops,
    (forall o, In o ops -> mxd_op_marked stf o) ->
    forall st st', fold_left mxd_stepn ops (Some st) = Some st' -> (snd st' <= limit)%nat -> fst st' = fst st.
  Proof.
    intros Hok HJ. induction ops as [|o ops IH]; intros Hops st st'; cbn [fold_left]; [intros [= <-]; reflexivity|].
    unfold mxd_stepn at 2. destruct (xv_root s (xo_type o)) as [root|] eqn:Er.
    - destruct (mxn_validate_operation s frags st (root, mx_from_ast s root (xo_sels o))) as [st1|] eqn:E;
        [|rewrite mxd_foldn_none; discriminate].
      intros Ef Hlim. rewrite (IH (fun o' H' => Hops o' (or_intror H')) st1 st' Ef Hlim).
      destruct (Hops o (or_introl eq_refl) root Er) as (fields & Ex & Hk & Fs & Fp).
      apply (mxd_validate_closure s frags Hfrags stf (root, mx_from_ast s root (xo_sels o)) fields st st1 Hok HJ Ex Hk Fs Fp E).
      apply mxd_foldn_mono in Ef. lia.
    - intros Ef Hlim. exact (IH (fun o' H' => Hops o' (or_intror H')) st st' Ef Hlim).
  Qed.

  Lemma mxd_fold_sim ops : forall stm stn stmf stnf, mxk_wf s stm -> mxm_sim stm stn ->
    fold_left mxd_stepm ops (Some stm) = Some stmf -> fold_left mxd_stepn ops (Some stn) = Some stnf ->
    mxm_sim stmf stnf.
  Proof.
    induction ops as [|o ops IH]; intros stm stn stmf stnf Hwf Hsim; cbn [fold_left].
    - intros [= <-] [= <-]. exact Hsim.
    - unfold mxd_stepm at 2, mxd_stepn at 2. destruct (xv_root s (xo_type o)) as [root|]; [|apply IH; assumption].
      destruct (mx_validate_operation s frags stm (root, mx_from_ast s root (xo_sels o))) as [sm1|] eqn:Em;
        [|rewrite mxd_foldm_none; discriminate].
      destruct (mxn_validate_operation s frags stn (root, mx_from_ast s root (xo_sels o))) as [sn1|] eqn:En;
        [|rewrite mxd_foldn_none; discriminate].
      destruct (mxd_validate_sim s frags Hfrags stm stn (root, mx_from_ast s root (xo_sels o)) sm1 sn1 (mx_from_ast_ok s root (xo_sels o)) Hwf Em En Hsim) as [W1 S1].
      apply IH; assumption.
  Qed.

  Lemma mxd_initial_J : mxd_J s frags mx_initial.
  Proof.
    split; [intros e []|]. split; [|split].
    - intros K _ H. discriminate H.
    - intros K _ H. discriminate H.
    - intros _. cbn. lia.
  Qed.

  (* goal 3: the literal algorithm with the two memo guards and the cache gives the verdict of the variant without
     them, whenever the variant without them stays within the depth limit (its high water mark is at most
     FIELD_DEPTH_LIMIT); no hypothesis on the document *)
  Theorem mx_document_memo_sound b hi :
    mxn_document s d = Some (b, hi) -> (hi <= limit)%nat -> mx_document_ok s d = Some b.
  Proof.
    rewrite mxn_document_fold, mx_document_ok_fold. intros En Hhi.
    destruct (fold_left mxd_stepm (xv_ops d) (Some mx_initial)) as [stf|] eqn:Em;
      [|exfalso; exact (mxd_foldm_some _ _ Em)].
    cbn [option_map]. f_equal.
    assert (Hsim : mxm_sim stf (b, hi)).
    { apply (mxd_fold_sim (xv_ops d) mx_initial mxn_initial stf (b, hi)); [intros e []| |exact Em|exact En].
      split; [reflexivity|cbn; lia]. }
    destruct Hsim as [S1 _]. cbn [fst] in S1.
    destruct (mx_ok stf) eqn:Eok.
    - destruct (mxd_foldm_inv (xv_ops d) mx_initial stf mxd_initial_J Em) as (Jf & _ & _ & _ & Hops).
      symmetry. exact (mxd_foldn_closure stf Eok Jf (xv_ops d) Hops mxn_initial (b, hi) En Hhi).
    - destruct b; [|reflexivity]. exact (S1 eq_refl).
  Qed.
End MemoDocument.
