(* The typed executable document of crates/apollo-compiler/src/executable/mod.rs as Gallina data
   (locations erased; Node<T> is T; IndexMap is an association list in insertion order).
   Names carry the prefix Xd/Xs/xd_/xo_/xf_ (one flat extraction).

   SelectionSet { ty, selections } is flattened into its owner: a field / inline fragment / operation /
   fragment carries `ty` (the selection set's type name) next to its selection list. *)
From ApolloVerif Require Import Base.Chars Ast.Ast.

(* executable::Selection with Field / FragmentSpread / InlineFragment inlined *)
Inductive xsel :=
| XsField (def : fielddef)            (* Field::definition : the schema's FieldDefinition, or UNKNOWN *)
          (alias : option str) (name : str) (args : list argument) (dirs : list directive)
          (ty : str) (sels : list xsel)      (* Field::selection_set *)
| XsSpread (name : str) (dirs : list directive)
| XsInline (cond : option str) (dirs : list directive)
           (ty : str) (sels : list xsel).   (* InlineFragment::selection_set *)

(* executable::Operation *)
Record xop := {
  xo_type : optype; xo_name : option str; xo_vars : list vardef; xo_dirs : list directive;
  xo_ty : str; xo_sels : list xsel }.

(* executable::Fragment *)
Record xfrag := { xf_name : str; xf_dirs : list directive; xf_ty : str; xf_sels : list xsel }.

(* ExecutableDocument: OperationMap { anonymous, named } and FragmentMap *)
Record xdoc := {
  xd_anon : option xop;
  xd_named : list (str * xop);
  xd_frags : list (str * xfrag) }.

Definition xd_empty : xdoc := {| xd_anon := None; xd_named := []; xd_frags := [] |}.

(* IndexMap::get / contains_key on an association list: first entry with the key *)
Fixpoint xd_assoc {A} (k : str) (m : list (str * A)) : option A :=
  match m with
  | [] => None
  | (k', v) :: r => if streq k k' then Some v else xd_assoc k r
  end.

(* OperationMap::iter : the anonymous operation, then the named ones in insertion order *)
Definition xd_ops (d : xdoc) : list xop :=
  match xd_anon d with Some o => [o] | None => [] end ++ map snd (xd_named d).

(* document.fragments.get(name) *)
Definition xd_frag (d : xdoc) (n : str) : option xfrag := xd_assoc n (xd_frags d).

(* Field::response_key *)
Definition xs_response_key (alias : option str) (name : str) : str :=
  match alias with Some a => a | None => name end.

(* HashSet<&Name>::contains on a list *)
Definition xd_mem (n : str) (l : list str) : bool := existsb (streq n) l.

(* string constants *)
Definition xn_typename : str := [95;95;116;121;112;101;110;97;109;101].     (* __typename *)
Definition xn_schema : str := [95;95;115;99;104;101;109;97].               (* __schema *)
Definition xn_type : str := [95;95;116;121;112;101].                        (* __type *)
Definition xn_String : str := [83;116;114;105;110;103].                     (* String *)
Definition xn_Schema : str := [95;95;83;99;104;101;109;97].                 (* __Schema *)
Definition xn_Type : str := [95;95;84;121;112;101].                         (* __Type *)
Definition xn_name : str := [110;97;109;101].                               (* name *)
Definition xn_UNKNOWN : str := [85;78;75;78;79;87;78].                      (* UNKNOWN *)
Definition xn_Query : str := [81;117;101;114;121].                          (* Query *)
Definition xn_Mutation : str := [77;117;116;97;116;105;111;110].            (* Mutation *)
Definition xn_Subscription : str := [83;117;98;115;99;114;105;112;116;105;111;110]. (* Subscription *)

(* the pseudo-definition given to every field when there is no schema (from_ast.rs, `ty!(UNKNOWN)`) *)
Definition xd_unknown_def (name : str) : fielddef :=
  {| fd_desc := None; fd_name := name; fd_args := []; fd_ty := TNamed xn_UNKNOWN; fd_dirs := [] |}.

(* number of selection nodes: measures for proofs and fuel for the walkers.
   (xsel is nested through list: recursion goes through map, the guard checker sees through it) *)
Fixpoint xs_node_size (x : xsel) : nat :=
  match x with
  | XsField _ _ _ _ _ _ sub => S (list_sum (map xs_node_size sub))
  | XsSpread _ _ => 1%nat
  | XsInline _ _ _ sub => S (list_sum (map xs_node_size sub))
  end.
Definition xs_size (l : list xsel) : nat := list_sum (map xs_node_size l).

Definition xd_size (d : xdoc) : nat :=
  (fold_right (fun o n => S (xs_size (xo_sels o) + n)) 0 (xd_ops d)
   + fold_right (fun f n => S (xs_size (xf_sels (snd f)) + n)) 0 (xd_frags d))%nat.
