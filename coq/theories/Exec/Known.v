(* C17: the classes of the known findings, as executable definitions.
   Each switch of xk_defects weakens (or, for one, strengthens) exactly one rule of Exec/Valid.v in the way
   apollo-compiler is observed to deviate from it.  xk_exec_valid q is the specification's verdict with the
   defects q "applied"; with every switch off it is xv_exec_valid.  The driver classifies a disagreement between
   apollo-compiler and xv_exec_valid as KNOWN only if the verdict of xk_exec_valid with the switch(es) of listed
   classes agrees with apollo-compiler; so each class is exactly as wide as the modelled deviation.
   These are not deliberate differences (those are xv_params); nothing here is part of the specification.
   Three further classes were repaired in /repo; their old definitions are at the end of the file, outside
   xk_defects: variables and null items inside custom-scalar literals (validation/value.rs), and subscription root
   fields counted whatever the type conditions (validation/operation.rs). *)
From ApolloVerif Require Import Base.Chars Ast.Ast Schema.Model Exec.Compat Exec.Valid.

Record xk_defects := {
  (* D12d (validation/value.rs, Variable case): a variable nested inside a list or input-object literal is
     compared with the position only by the innermost named type, not by IsVariableUsageAllowed *)
  xk_nested_variable_by_named_type : bool }.

Definition xk_none : xk_defects := {| xk_nested_variable_by_named_type := false |}.

(* 5.8.5 with the first defect *)
Definition xk_r_variable_usages_allowed (q : xk_defects) (s : schema) (d : document) : bool :=
  forallb (fun o => forallb (fun u => match xv_find_var (xu_name u) (xo_vars o), xu_loc u with
                                      | Some vd, Some loc =>
                                          if xk_nested_variable_by_named_type q && xu_nested u
                                          then streq (inner_named_type (v_ty vd)) (inner_named_type (fst loc))
                                          else xv_usage_allowed vd loc
                                      | _, _ => true
                                      end) (xv_op_usages s (xv_frags d) o)) (xv_ops d).

Definition xk_rule_vector (q : xk_defects) (p : xv_params) (s : schema) (d : document) : list bool :=
  [ xv_r_executable_definitions d;
    xv_r_operation_name_unique d;
    xv_r_lone_anonymous d;
    xv_r_subscription_single_root p s d;
    xv_r_fields_defined s d;
    xv_r_fields_merge s d;
    xv_r_leaf_selections s d;
    xv_r_argument_names s d;
    xv_r_argument_unique s d;
    xv_r_required_arguments s d;
    xv_r_fragment_name_unique d;
    xv_r_fragment_type_exists s d;
    xv_r_fragment_on_composite s d;
    xv_r_fragments_used d;
    xv_r_spread_target_defined s d;
    xv_r_no_fragment_cycles d;
    xv_r_spread_possible p s d;
    xv_r_values_correct_type s d;
    xv_r_input_field_names s d;
    xv_r_input_field_unique s d;
    xv_r_input_required_fields s d;
    xv_r_variable_unique d;
    xv_r_variables_input_types s d;
    xv_r_variables_defined s d;
    xv_r_variables_used s d;
    xk_r_variable_usages_allowed q s d;
    xv_r_directives_defined s d;
    xv_r_directive_locations s d;
    xv_r_directives_unique s d;
    xv_r_root_operation_defined p s d;
    xv_r_subscription_no_skip_include p s d ].

Definition xk_exec_valid (q : xk_defects) (p : xv_params) (s : schema) (d : document) : bool :=
  forallb (fun b => b) (xk_rule_vector q p s d).

(* the switches by number, for the driver: 0 *)
Definition xk_single (i : N) : xk_defects := {| xk_nested_variable_by_named_type := i =? 0 |}.
Definition xk_of_mask (m : list bool) : xk_defects := {| xk_nested_variable_by_named_type := nth 0 m false |}.

(* ------------------------------------------------------------------------------------------------ *)
(* Two former classes, repaired in validation/value.rs (fixes/fix-c17.patch); the deviations as they were, kept
   only for the record (Props/C17.v: C17_scalar_literal_old_refuted).  Not part of xk_exec_valid, not extracted.

   (1) undefined-variable-inside-custom-scalar-object: variables inside an object literal written for a custom
   scalar were not visited, and UndefinedVariable is only reported from value.rs: an undefined variable used in
   such a place was not reported (5.8.3).  value_of_correct_type now walks the literal
   (undefined_nested_variables). *)
Definition xk_old_r_variables_defined (s : schema) (d : document) : bool :=
  forallb (fun o => forallb (fun u => xu_in_scalar_object u || xv_is_some (xv_find_var (xu_name u) (xo_vars o)))
                            (xv_op_usages s (xv_frags d) o)) (xv_ops d).

(* (2) null-item-in-list-for-non-null-custom-scalar: the items of a list literal written for a custom scalar were
   checked against the scalar's own type reference, so `null` inside the list (at any list depth) was rejected
   when that reference is non-null (`j: JSON!`, value `[null]`); a custom scalar accepts any literal (3.5.6).
   The items are now checked against the nullable named type. *)
Fixpoint xk_old_list_has_null (v : value) : bool :=
  match v with
  | VNull => true
  | VList l => existsb xk_old_list_has_null l
  | _ => false
  end.
Fixpoint xk_old_scalar_list_null (s : schema) (v : value) (t : ty) {struct v} : bool :=
  match v with
  | VList l =>
      match t with
      | TList i | TNonNullList i => existsb (fun x => xk_old_scalar_list_null s x i) l
      | TNonNullNamed n => xv_custom_scalar s n && existsb xk_old_list_has_null l
      | TNamed _ => false
      end
  | VObject fs =>
      match xv_input_fields s (inner_named_type t) with
      | Some defs =>
          existsb (fun kv => match kv with
                             | (k, x) => match xv_find_iv k defs with
                                         | Some f => xk_old_scalar_list_null s x (iv_ty f)
                                         | None => false
                                         end
                             end) fs
      | None => false
      end
  | _ => false
  end.
Definition xk_old_r_values_correct_type (s : schema) (d : document) : bool :=
  xv_r_values_correct_type s d
  && negb (existsb (fun vt => xk_old_scalar_list_null s (fst vt) (snd vt)) (xv_typed_values s d)).

(* ------------------------------------------------------------------------------------------------ *)
(* A former class, repaired in validation/operation.rs (fixes/fix2-c17-1.patch); the deviation as it was, kept only
   for the record (Props/C17.v: C17_subscription_conditions_old_refuted).  Not part of xk_exec_valid, not extracted.

   subscription-root-fields-counted-ignoring-type-conditions: validate_subscription walked the root selection set
   through inline fragments and named fragments whatever their type conditions, so fields that CollectFields
   (6.3.2) never collects for the subscription root type were counted as root fields (5.2.3.1), reported as
   introspection fields, and had their @skip/@include reported.  walk_selections now skips the selections of a
   fragment whose type condition does not apply to the root type. *)
Definition xk_old_r_subscription_single_root (p : xv_params) (s : schema) (d : document) : bool :=
  forallb (xv_subscription_ok_gen false p s (xv_frags d)) (xv_ops d).
Definition xk_old_r_subscription_no_skip_include : xv_params -> schema -> document -> bool :=
  xv_r_subscription_no_skip_include_gen false.
