(* C17: the former known-finding classes of this property, as executable definitions, for the record.
   Every class was a way apollo-compiler deviated from Exec/Valid.v on one rule; all are repaired in /repo, the
   repaired code follows xv_exec_valid, and no disagreement is filtered any more.  Each xk_old_* definition below is
   the rule as apollo-compiler computed it before the repair; Props/C17.v has, per repair, a theorem that it differs
   from the specification on the former witness.  Nothing here is part of the specification or of the tie; nothing
   is extracted.
   These are not deliberate differences (those are xv_params). *)
From ApolloVerif Require Import Base.Chars Ast.Ast Schema.Model Exec.Compat Exec.Valid.

(* ------------------------------------------------------------------------------------------------ *)
(* D12d, nested-variable-checked-by-named-type-only, repaired in validation/value.rs (fixes/fix2-c17-2.patch;
   Props/C17.v: C17_nested_variable_old_refuted).  In value_of_correct_type a variable nested inside a list or
   input-object literal was compared with its position only by the innermost named type, not by
   IsVariableUsageAllowed (5.8.5): a list-typed variable was accepted as a list item, a nullable variable (or one
   with a null default) as the value of a non-null input field without default.  The Variable case now calls
   is_variable_usage_allowed with the item type / the input field's type and whether the field has a default. *)
Definition xk_old_r_variable_usages_allowed (s : schema) (d : document) : bool :=
  forallb (fun o => forallb (fun u => match xv_find_var (xu_name u) (xo_vars o), xu_loc u with
                                      | Some vd, Some loc =>
                                          if xu_nested u
                                          then streq (inner_named_type (v_ty vd)) (inner_named_type (fst loc))
                                          else xv_usage_allowed vd loc
                                      | _, _ => true
                                      end) (xv_op_usages s (xv_frags d) o)) (xv_ops d).
(* the verdict as it was: the rule vector of Valid.v with the entry of 5.8.5 (position 25) replaced *)
Fixpoint xk_old_set_nth {A} (n : nat) (x : A) (l : list A) : list A :=
  match l, n with
  | [], _ => []
  | _ :: r, O => x :: r
  | y :: r, S n => y :: xk_old_set_nth n x r
  end.
Definition xk_old_exec_valid_nested_variable (p : xv_params) (s : schema) (d : document) : bool :=
  forallb (fun b => b) (xk_old_set_nth 25 (xk_old_r_variable_usages_allowed s d) (xv_rule_vector p s d)).

(* ------------------------------------------------------------------------------------------------ *)
(* Two former classes, repaired in validation/value.rs (fixes/fix-c17.patch); the deviations as they were, kept
   only for the record (Props/C17.v: C17_scalar_literal_old_refuted).  Not extracted.

   (1) undefined-variable-inside-custom-scalar-object: variables inside an object literal written for a custom
   scalar were not visited, and UndefinedVariable is only reported from value.rs: an undefined variable used in
   such a place was not reported (5.8.3).  value_of_correct_type now walks the literal
   (undefined_nested_variables). *)
Definition xk_old_r_variables_defined (s : schema) (d : document) : bool :=
  forallb (fun o => forallb (fun u => xu_in_scalar_object u || xv_is_some (xv_find_var (xu_name u) (xo_vars o)))
                            (xv_op_usages s (xv_frags d) o)) (xv_ops d).

(* (2) null-item-in-list-for-non-null-custom-scalar: the items of a list literal written for a custom scalar were
   checked against the scalar's own type reference, so `null` inside the list (at any list depth) was rejected
   when that reference is non-null (`j: JSON!`, value `[null]`); a custom scalar accepts any literal (3.5.6).
   The items are now checked against the nullable named type. *)
Fixpoint xk_old_list_has_null (v : value) : bool :=
  match v with
  | VNull => true
  | VList l => existsb xk_old_list_has_null l
  | _ => false
  end.
Fixpoint xk_old_scalar_list_null (s : schema) (v : value) (t : ty) {struct v} : bool :=
  match v with
  | VList l =>
      match t with
      | TList i | TNonNullList i => existsb (fun x => xk_old_scalar_list_null s x i) l
      | TNonNullNamed n => xv_custom_scalar s n && existsb xk_old_list_has_null l
      | TNamed _ => false
      end
  | VObject fs =>
      match xv_input_fields s (inner_named_type t) with
      | Some defs =>
          existsb (fun kv => match kv with
                             | (k, x) => match xv_find_iv k defs with
                                         | Some f => xk_old_scalar_list_null s x (iv_ty f)
                                         | None => false
                                         end
                             end) fs
      | None => false
      end
  | _ => false
  end.
Definition xk_old_r_values_correct_type (s : schema) (d : document) : bool :=
  xv_r_values_correct_type s d
  && negb (existsb (fun vt => xk_old_scalar_list_null s (fst vt) (snd vt)) (xv_typed_values s d)).

(* ------------------------------------------------------------------------------------------------ *)
(* A former class, repaired in validation/operation.rs (fixes/fix2-c17-1.patch); the deviation as it was, kept only
   for the record (Props/C17.v: C17_subscription_conditions_old_refuted).  Not extracted.

   subscription-root-fields-counted-ignoring-type-conditions: validate_subscription walked the root selection set
   through inline fragments and named fragments whatever their type conditions, so fields that CollectFields
   (6.3.2) never collects for the subscription root type were counted as root fields (5.2.3.1), reported as
   introspection fields, and had their @skip/@include reported.  walk_selections now skips the selections of a
   fragment whose type condition does not apply to the root type. *)
Definition xk_old_r_subscription_single_root (p : xv_params) (s : schema) (d : document) : bool :=
  forallb (xv_subscription_ok_gen false p s (xv_frags d)) (xv_ops d).
Definition xk_old_r_subscription_no_skip_include : xv_params -> schema -> document -> bool :=
  xv_r_subscription_no_skip_include_gen false.
