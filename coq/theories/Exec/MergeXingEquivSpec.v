(* C17 deepening, part 4: the walk without memo guards against the specification's rule, for one operation.
   - mxq_ssr / mxq_pap: the declarative reading of the two passes (mxq_gen instantiated).
   - mxn_validate_sem: validate_operation (no memo) decides the two readings on the fields of the root set.
   - mxs_shape_true / mxs_can_merge_true: the readings force the specification's functions to answer true.
   - mxq_SH / mxq_PA: if the specification's rule holds of every selection set under the operation, the
     readings hold (the diagonal pairs, which the specification never compares inside one set, are supplied by
     the rule holding of the sub-selection set itself).
   - mxq_operation_equiv: validate_operation (no memo, within the depth limit) = the specification's rule on all
     selection sets under the operation.
   Proofs only; nothing here is extracted. *)
From ApolloVerif Require Import Base.Chars Ast.Ast Schema.Model Exec.Valid Exec.MergeXing Exec.FragCyclesProofs
  Exec.MergeXingProofs Exec.MergeXingEquivExpand Exec.MergeXingEquivBridge Exec.MergeXingEquivSem.
From Coq Require Import Arith PeanoNat Lia.

(* ---------- three-valued conjunctions ---------- *)
Lemma xv_and3_some a b r : xv_and3 a b = Some r -> exists r1 r2, a = Some r1 /\ b = Some r2 /\ r = r1 && r2.
Proof. destruct a as [x|], b as [y|]; cbn [xv_and3]; try discriminate. intros [= <-]. exists x, y. auto. Qed.

Lemma xv_and3_true a b : xv_and3 a b = Some true -> a = Some true /\ b = Some true.
Proof.
  intros H. destruct (xv_and3_some _ _ _ H) as (r1 & r2 & -> & -> & E). symmetry in E. apply andb_true_iff in E.
  destruct E as [-> ->]. auto.
Qed.

Lemma xv_all3_some_true {A} (f : A -> option bool) l r : xv_all3 f l = Some r ->
  (forall x, In x l -> forall r', f x = Some r' -> r' = true) -> r = true.
Proof.
  revert r. induction l as [|x l IH]; intros r; cbn [xv_all3]; [intros [= <-]; reflexivity|].
  intros E H. destruct (xv_and3_some _ _ _ E) as (r1 & r2 & E1 & E2 & ->).
  rewrite (H x (or_introl eq_refl) r1 E1), (IH r2 E2); [reflexivity|]. intros y Hy. apply H. right. exact Hy.
Qed.

Lemma xv_pairs3_some_true {A} (f : A -> A -> option bool) l r : xv_pairs3 f l = Some r ->
  (forall x y, In x l -> In y l -> forall r', f x y = Some r' -> r' = true) -> r = true.
Proof.
  revert r. induction l as [|x l IH]; intros r; cbn [xv_pairs3]; [intros [= <-]; reflexivity|].
  intros E H. destruct (xv_and3_some _ _ _ E) as (r1 & r2 & E1 & E2 & ->).
  rewrite (xv_all3_some_true _ _ _ E1), (IH r2 E2); [reflexivity| |].
  - intros y z Hy Hz. apply H; right; assumption.
  - intros y Hy. apply H; [left; reflexivity|right; exact Hy].
Qed.

Lemma xv_all3_true_inv {A} (f : A -> option bool) l : xv_all3 f l = Some true -> forall x, In x l -> f x = Some true.
Proof.
  induction l as [|x l IH]; cbn [xv_all3]; [intros _ ? []|]. intros E. apply xv_and3_true in E. destruct E as [E1 E2].
  intros y [<-|Hy]; [exact E1|exact (IH E2 y Hy)].
Qed.

Lemma xv_pairs3_true_inv {A} (f : A -> A -> option bool) l : xv_pairs3 f l = Some true ->
  forall x y, In x l -> In y l -> x = y \/ f x y = Some true \/ f y x = Some true.
Proof.
  induction l as [|x0 l IH]; cbn [xv_pairs3]; [intros _ ? ? []|]. intros E. apply xv_and3_true in E. destruct E as [E1 E2].
  intros x y [<-|Hx] [<-|Hy].
  - left. reflexivity.
  - right. left. exact (xv_all3_true_inv _ _ E1 y Hy).
  - right. right. exact (xv_all3_true_inv _ _ E1 x Hx).
  - exact (IH E2 x y Hx Hy).
Qed.

Lemma xv_shape_types_inner s ta tb na nb : xv_shape_types s ta tb = Some (na, nb) ->
  na = inner_named_type ta /\ nb = inner_named_type tb.
Proof.
  revert tb. induction ta as [a|a|ia IH|ia IH]; intros tb; destruct tb as [b|b|ib|ib]; cbn [xv_shape_types inner_named_type];
    try discriminate; try (intros [= <- <-]; split; reflexivity); apply IH.
Qed.

(* ---------- the selection sets under a root set: through inline fragments, spreads and fields ---------- *)
Section HSet.
  Variable frags : list (str * mx_set).

  Inductive mxq_hset (root : mx_set) : mx_set -> Prop :=
  | mxq_hs_init : mxq_hset root root
  | mxq_hs_inline ty sels c dirs sty sub :
      mxq_hset root (ty, sels) -> In (MxInline c dirs sty sub) sels -> mxq_hset root (sty, sub)
  | mxq_hs_spread ty sels n dirs st :
      mxq_hset root (ty, sels) -> In (MxSpread n dirs) sels -> xv_assoc n frags = Some st -> mxq_hset root st
  | mxq_hs_field ty sels a n args dirs def sty sub :
      mxq_hset root (ty, sels) -> In (MxField a n args dirs def sty sub) sels -> mxq_hset root (sty, sub).

  Definition mxq_hfield (root : mx_set) (f : mx_fs) : Prop :=
    exists ty sels, mxq_hset root (ty, sels) /\ In f (mxe_fields ty sels).

  Lemma mxq_hset_reach root st st' : mxq_hset root st -> mxe_reach frags [st] st' -> mxq_hset root st'.
  Proof.
    intros H R. induction R as [st' Hin|ty sels c dirs sty sub _ IH Hin|ty sels n dirs st' _ IH Hin Ha].
    - destruct Hin as [<-|[]]. exact H.
    - eapply mxq_hs_inline; eassumption.
    - eapply mxq_hs_spread; eassumption.
  Qed.

  Lemma mxq_hfield_coll root st f : mxq_hset root st -> mxe_coll frags [st] f -> mxq_hfield root f.
  Proof. intros H (ty & sels & R & Hf). exists ty, sels. split; [eapply mxq_hset_reach; eassumption|exact Hf]. Qed.

  Lemma mxq_hfield_subset root f : mxq_hfield root f -> mxq_hset root (mf_sub_ty f, mf_sub f).
  Proof.
    intros (ty & sels & H & Hf). apply mxe_fields_in in Hf.
    destruct Hf as (a & n & args & dirs & def & sty & sub & Hx & ->). cbn [mf_sub_ty mf_sub].
    eapply mxq_hs_field; eassumption.
  Qed.

  Lemma mxq_hfield_sub root f x : mxq_hfield root f -> mxq_sub frags f x -> mxq_hfield root x.
  Proof. intros H Hs. eapply mxq_hfield_coll; [apply mxq_hfield_subset; exact H|exact Hs]. Qed.
End HSet.

Section Spec.
  Variable s : schema.
  Variable frags : list (str * mx_set).
  Variable cfuel : nat.

  Notation key := mx_response_key.
  Notation shape := (mx_same_output_type_shape s).
  Notation nameargs := mx_same_name_and_arguments.

  (* what the rules other than field merging guarantee for a field selection *)
  Definition mxq_good (f : mx_fs) : Prop :=
    mxb_fok s f /\ args_wf f /\ field_ty_defined s f /\ xv_composite_name s (mf_parent f) = true.

  Definition mxq_cmp_shape (a b : mx_fs) : Prop := key a = key b.
  Definition mxq_pcond (a b : mx_fs) : Prop :=
    mf_parent a = mf_parent b \/ xv_object_name s (mf_parent a) = false \/ xv_object_name s (mf_parent b) = false.
  Definition mxq_cmp_par (a b : mx_fs) : Prop := key a = key b /\ mxq_pcond a b.
  Definition mxq_ssr : nat -> mx_fs -> mx_fs -> Prop := mxq_gen frags mxq_cmp_shape shape.
  Definition mxq_pap : nat -> mx_fs -> mx_fs -> Prop := mxq_gen frags mxq_cmp_par nameargs.
  Definition mxq_shape_ok (n : nat) (P : mx_fs -> Prop) : Prop := mxq_gen_ok frags mxq_cmp_shape shape n P.
  Definition mxq_par_ok (n : nat) (P : mx_fs -> Prop) : Prop := mxq_gen_ok frags mxq_cmp_par nameargs n P.

  Lemma mxq_pcond_bool a b :
    streq (mf_parent a) (mf_parent b) || negb (xv_object_name s (mf_parent a)) || negb (xv_object_name s (mf_parent b)) = true
    <-> mxq_pcond a b.
  Proof.
    unfold mxq_pcond. rewrite !orb_true_iff, !negb_true_iff, streq_eq. tauto.
  Qed.

  Lemma mxq_pcond_sym a b : mxq_pcond a b -> mxq_pcond b a.
  Proof. unfold mxq_pcond. intros [H|[H|H]]; auto. Qed.

  Lemma mxq_gen_ok_ext cmp rel n (P Q : mx_fs -> Prop) : (forall x, Q x -> P x) ->
    mxq_gen_ok frags cmp rel n P -> mxq_gen_ok frags cmp rel n Q.
  Proof. intros H G a b Ha Hb. apply G; apply H; assumption. Qed.

  Lemma mxs_merged_in a b merged : mxs_merged frags cfuel a b = Some merged ->
    forall x, In x merged <-> mxq_sub2 frags a b x.
  Proof.
    unfold mxs_merged, mxq_sub2, mxq_sub.
    destruct (mxc_collect cfuel frags (mf_sub_ty a) (mf_sub a)) as [la|] eqn:Ea; [|discriminate].
    destruct (mxc_collect cfuel frags (mf_sub_ty b) (mf_sub b)) as [lb|] eqn:Eb; [|discriminate].
    intros [= <-] x. rewrite in_app_iff, (mxc_collect_coll _ _ _ _ _ Ea), (mxc_collect_coll _ _ _ _ _ Eb). tauto.
  Qed.

  Section Universe.
    Variable U : mx_fs -> Prop.
    Hypothesis U_sub : forall f x, U f -> mxq_sub frags f x -> U x.
    Hypothesis U_good : forall f, U f -> mxq_good f.

    Lemma U_sub2 a b x : U a -> U b -> mxq_sub2 frags a b x -> U x.
    Proof. intros Ua Ub [H|H]; [exact (U_sub a x Ua H)|exact (U_sub b x Ub H)]. Qed.

    (* ---------- the code side: the two passes ---------- *)
    Lemma mxn_shape_sem fuel n : (fuel <= n)%nat ->
      mxq_rec_ok frags mxq_cmp_shape shape U n (mxn_walk mxn_shape_parts shape frags fuel).
    Proof.
      apply mxn_walk_sem.
      - exact U_sub.
      - intros L g x _ Hg Hx. unfold mxn_shape_parts in Hg. apply in_map_iff in Hg. destruct Hg as ([k g'] & <- & Hkg).
        cbn [snd] in Hx. rewrite (gbon_in _ _ _ Hkg) in Hx. apply filter_In in Hx. apply Hx.
      - intros L g x y _ Hg Hx Hy. unfold mxn_shape_parts in Hg. apply in_map_iff in Hg. destruct Hg as ([k g'] & <- & Hkg).
        cbn [snd] in Hx, Hy. rewrite (gbon_in _ _ _ Hkg) in Hx, Hy. apply filter_In in Hx. apply filter_In in Hy.
        destruct Hx as [_ Hx]. destruct Hy as [_ Hy]. apply streq_eq in Hx. apply streq_eq in Hy. unfold mxq_cmp_shape. congruence.
      - intros L a b _ Ha Hb Hc. destruct (gbon_cover L a Ha) as [g Hg]. exists g. split.
        + unfold mxn_shape_parts. apply in_map_iff. exists (key a, g). auto.
        + rewrite (gbon_in _ _ _ Hg). split; apply filter_In; split; try assumption; [apply streq_refl|].
          apply streq_eq. exact Hc.
      - intros g Hg. apply first_vs_rest_shape. intros f Hf. apply (U_good f (Hg f Hf)).
    Qed.

    Lemma mxn_parents_sem fuel n : (fuel <= n)%nat ->
      mxq_rec_ok frags mxq_cmp_par nameargs U n (mxn_walk (mxn_parents_parts s) nameargs frags fuel).
    Proof.
      assert (Hparts : forall L pg, In pg (mxn_parents_parts s L) ->
                exists k g, In (k, g) (mx_group_by_output_name L) /\ In pg (mx_group_by_common_parents s g)).
      { intros L pg H. unfold mxn_parents_parts in H. apply in_flat_map in H. destruct H as ([k g] & Hkg & Hpg).
        exists k, g. auto. }
      assert (Hg_in : forall L k g x, In (k, g) (mx_group_by_output_name L) -> In x g -> In x L /\ key x = k).
      { intros L k g x Hkg Hx. rewrite (gbon_in _ _ _ Hkg) in Hx. apply filter_In in Hx. destruct Hx as [H1 H2].
        apply streq_eq in H2. auto. }
      apply mxn_walk_sem.
      - exact U_sub.
      - intros L pg x _ Hpg Hx. destruct (Hparts L pg Hpg) as (k & g & Hkg & Hin).
        apply (Hg_in L k g x Hkg). eapply gbcp_incl; eassumption.
      - intros L pg x y HU Hpg Hx Hy. destruct (Hparts L pg Hpg) as (k & g & Hkg & Hin).
        pose proof (gbcp_incl s g pg x Hin Hx) as Hxg. pose proof (gbcp_incl s g pg y Hin Hy) as Hyg.
        destruct (Hg_in L k g x Hkg Hxg) as [HxL Kx]. destruct (Hg_in L k g y Hkg Hyg) as [HyL Ky].
        split; [unfold key in *; congruence|].
        apply (xing_groups s g x y); [|exact Hxg|exact Hyg|exists pg; auto].
        intros z Hz. destruct (Hg_in L k g z Hkg Hz) as [HzL _]. apply (U_good z (HU z HzL)).
      - intros L a b HU Ha Hb [Hk Hp]. destruct (gbon_cover L a Ha) as [g Hg].
        assert (Hag : In a g) by (rewrite (gbon_in _ _ _ Hg); apply filter_In; split; [exact Ha|apply streq_refl]).
        assert (Hbg : In b g) by (rewrite (gbon_in _ _ _ Hg); apply filter_In; split; [exact Hb|apply streq_eq; exact Hk]).
        assert (Hcomp : forall z, In z g -> xv_composite_name s (mf_parent z) = true).
        { intros z Hz. destruct (Hg_in L _ g z Hg Hz) as [HzL _]. apply (U_good z (HU z HzL)). }
        destruct (proj2 (xing_groups s g a b Hcomp Hag Hbg) Hp) as (pg & Hpg & Hapg & Hbpg).
        exists pg. split; [|auto]. unfold mxn_parents_parts. apply in_flat_map. exists (key a, g). auto.
      - intros g Hg. apply first_vs_rest_arguments. intros f Hf. apply (U_good f (Hg f Hf)).
    Qed.

    (* validate_operation without memo, within the depth limit, decides the two readings on the root's fields *)
    Theorem mxn_validate_sem root st st' : (forall f, mxe_coll frags [root] f -> U f) ->
      mxn_validate_operation s frags st root = Some st' -> (snd st' <= mx_field_depth_limit)%nat ->
      forall n, (mx_fuel <= n)%nat ->
      (snd st <= snd st')%nat /\
      (fst st' = true <-> fst st = true /\ mxq_shape_ok n (mxe_coll frags [root]) /\ mxq_par_ok n (mxe_coll frags [root])).
    Proof.
      intros HU. unfold mxn_validate_operation.
      destruct (mx_expand frags [root]) as [fields|] eqn:Ex; [|discriminate].
      pose proof (mxe_expand_coll frags _ _ Ex) as Hm.
      rewrite mxn_shape_walk.
      destruct (mxn_walk mxn_shape_parts shape frags mx_fuel 0 st fields) as [st1|] eqn:E1; [|discriminate].
      rewrite mxn_parents_walk.
      destruct (mxn_walk (mxn_parents_parts s) nameargs frags mx_fuel 0 st1 fields) as [st2|] eqn:E2; [|discriminate].
      intros [= <-]. cbn [mxn_and_ok fst snd]. intros Hlim n Hn.
      assert (HUf : forall f, In f fields -> U f) by (intros f Hf; apply HU; apply Hm; exact Hf).
      destruct (mxn_parents_sem mx_fuel n Hn 0%nat st1 fields st2 HUf E2 Hlim) as [Hhi2 Hok2].
      assert (Hlim1 : (snd st1 <= mx_field_depth_limit)%nat) by lia.
      destruct (mxn_shape_sem mx_fuel n Hn 0%nat st fields st1 HUf E1 Hlim1) as [Hhi1 Hok1].
      split; [lia|].
      assert (L : Nat.ltb mx_field_depth_limit (snd st2) = false) by (apply Nat.ltb_ge; exact Hlim).
      rewrite L. cbn [negb]. rewrite andb_true_r, Hok2, Hok1.
      assert (Es : mxq_gen_ok frags mxq_cmp_shape shape n (fun x => In x fields) <-> mxq_shape_ok n (mxe_coll frags [root])).
      { split; apply mxq_gen_ok_ext; intros x Hx; apply Hm; exact Hx. }
      assert (Ep : mxq_gen_ok frags mxq_cmp_par nameargs n (fun x => In x fields) <-> mxq_par_ok n (mxe_coll frags [root])).
      { split; apply mxq_gen_ok_ext; intros x Hx; apply Hm; exact Hx. }
      rewrite Es, Ep. tauto.
    Qed.

    (* ---------- the readings force the specification's functions to answer true ---------- *)
    Lemma mxs_shape_true : forall fuel n a b r, (fuel <= n)%nat -> U a -> U b -> key a = key b ->
      mxs_same_shape s frags fuel cfuel a b = Some r -> mxq_ssr n a b -> r = true.
    Proof.
      induction fuel as [|fuel IH]; intros n a b r Hn Ua Ub Hk; [discriminate|].
      destruct n as [|n]; [lia|]. cbn [mxs_same_shape]. intros E G.
      destruct (U_good a Ua) as (Fa & Wa & Da & Ca). destruct (U_good b Ub) as (Fb & Wb & Db & Cb).
      unfold mxq_ssr in G. cbn [mxq_gen] in G. destruct (G Hk) as [Hs Hsub].
      rewrite (same_shape_spec s a b Da Db) in Hs. unfold spec_shape_steps in Hs.
      destruct (xv_shape_types s (fd_ty (mf_def a)) (fd_ty (mf_def b))) as [[na nb]|]; [|discriminate Hs].
      destruct (sch_get_type s na) as [ta|]; [|congruence]. destruct (sch_get_type s nb) as [tb|]; [|congruence].
      destruct (xv_is_leaf ta || xv_is_leaf tb); [congruence|].
      destruct (xv_is_composite ta && xv_is_composite tb); [|discriminate Hs].
      destruct (mxs_merged frags cfuel a b) as [merged|] eqn:Em; [|discriminate].
      eapply xv_pairs3_some_true; [exact E|]. intros x y Hx Hy r' Er'. cbn beta in Er'.
      destruct (streq (key x) (key y)) eqn:Ek; [|injection Er' as <-; reflexivity]. apply streq_eq in Ek.
      apply (mxs_merged_in a b merged Em) in Hx. apply (mxs_merged_in a b merged Em) in Hy.
      apply (IH n x y r'); [lia|eapply U_sub2; [| |eassumption]; assumption|eapply U_sub2; [| |eassumption]; assumption|exact Ek|exact Er'|].
      apply Hsub; assumption.
    Qed.

    Lemma mxs_can_merge_true : forall fuel n L r, (fuel <= n)%nat -> (forall f, In f L -> U f) ->
      mxq_shape_ok n (fun x => In x L) -> mxq_par_ok n (fun x => In x L) ->
      mxs_can_merge s frags fuel cfuel L = Some r -> r = true.
    Proof.
      induction fuel as [|fuel IH]; intros n L r Hn HU Hs Hp; [discriminate|].
      destruct n as [|n]; [lia|]. cbn [mxs_can_merge]. intros E.
      eapply xv_pairs3_some_true; [exact E|]. intros a b Ha Hb r' Er'. cbn beta in Er'.
      destruct (streq (key a) (key b)) eqn:Ek; [|injection Er' as <-; reflexivity]. apply streq_eq in Ek.
      destruct (xv_and3_some _ _ _ Er') as (r1 & r2 & E1 & E2 & ->).
      pose proof (Hs a b Ha Hb) as Gs. pose proof (Hp a b Ha Hb) as Gp.
      rewrite (mxs_shape_true fuel (S n) a b r1); [|lia|apply HU; exact Ha|apply HU; exact Hb|exact Ek|exact E1|exact Gs].
      cbn [andb].
      destruct (streq (mf_parent a) (mf_parent b) || negb (xv_object_name s (mf_parent a))
                || negb (xv_object_name s (mf_parent b))) eqn:Epc; [|injection E2 as <-; reflexivity].
      apply mxq_pcond_bool in Epc. cbn [mxq_gen] in Gp. destruct (Gp (conj Ek Epc)) as [Hna Hsubp].
      destruct (U_good a (HU a Ha)) as (Fa & Wa & Da & Ca). destruct (U_good b (HU b Hb)) as (Fb & Wb & Db & Cb).
      apply (same_name_args_spec a b Wa Wb) in Hna. rewrite Hna in E2.
      destruct (mxs_merged frags cfuel a b) as [merged|] eqn:Em; [|discriminate].
      cbn [mxq_gen] in Gs. destruct (Gs Ek) as [_ Hsubs].
      apply (IH n merged r2); [lia| | | |exact E2].
      - intros f Hf. apply (mxs_merged_in a b merged Em) in Hf. eapply U_sub2; [apply HU; exact Ha|apply HU; exact Hb|exact Hf].
      - intros x y Hx Hy. apply Hsubs; apply (mxs_merged_in a b merged Em); assumption.
      - intros x y Hx Hy. apply Hsubp; apply (mxs_merged_in a b merged Em); assumption.
    Qed.

    (* ---------- the specification's rule, holding of every sub-selection set, gives the readings ---------- *)
    Definition mxq_ss_hyp (a b : mx_fs) : Prop := exists fuel, mxs_same_shape s frags fuel cfuel a b = Some true.
    Definition mxq_cm_hyp (a b : mx_fs) : Prop :=
      nameargs a b = true /\
      exists fuel merged, mxs_merged frags cfuel a b = Some merged /\ mxs_can_merge s frags fuel cfuel merged = Some true.
    Definition mxq_pair_hyp (x y : mx_fs) : Prop :=
      key x = key y -> mxq_ss_hyp x y /\ (mxq_pcond x y -> mxq_cm_hyp x y).

    Lemma mxs_cm_pair fuel M x y : mxs_can_merge s frags fuel cfuel M = Some true -> In x M -> In y M -> U x -> U y ->
      x = y \/ mxq_pair_hyp x y \/ mxq_pair_hyp y x.
    Proof.
      destruct fuel as [|fuel]; [discriminate|]. cbn [mxs_can_merge]. intros E Hx Hy Ux Uy.
      assert (Hone : forall a b, U a -> U b ->
        (if streq (key a) (key b) then
           xv_and3 (mxs_same_shape s frags fuel cfuel a b)
             (if streq (mf_parent a) (mf_parent b) || negb (xv_object_name s (mf_parent a))
                 || negb (xv_object_name s (mf_parent b))
              then if streq (mf_name a) (mf_name b) && xv_args_same (mf_args a) (mf_args b)
                   then match mxs_merged frags cfuel a b with
                        | Some merged => mxs_can_merge s frags fuel cfuel merged
                        | None => None
                        end
                   else Some false
              else Some true)
         else Some true) = Some true -> mxq_pair_hyp a b).
      { intros a b Ua Ub H Hk. apply streq_eq in Hk. rewrite Hk in H. apply xv_and3_true in H. destruct H as [H1 H2].
        split; [exists fuel; exact H1|]. intros Hp. apply mxq_pcond_bool in Hp. rewrite Hp in H2.
        destruct (U_good a Ua) as (_ & Wa & _). destruct (U_good b Ub) as (_ & Wb & _).
        destruct (streq (mf_name a) (mf_name b) && xv_args_same (mf_args a) (mf_args b)) eqn:Ena; [|discriminate].
        split; [apply (same_name_args_spec a b Wa Wb); exact Ena|].
        destruct (mxs_merged frags cfuel a b) as [merged|]; [|discriminate]. exists fuel, merged. auto. }
      destruct (xv_pairs3_true_inv _ _ E x y Hx Hy) as [H|[H|H]]; [left; exact H|right; left|right; right];
        apply Hone; assumption.
    Qed.

    Lemma mxs_shape_inv fuel a b : U a -> U b -> mxs_same_shape s frags (S fuel) cfuel a b = Some true ->
      shape a b = true /\
      ((forall x, ~ mxq_sub2 frags a b x) \/
       exists merged, mxs_merged frags cfuel a b = Some merged /\
         xv_pairs3 (fun x y => if streq (key x) (key y) then mxs_same_shape s frags fuel cfuel x y else Some true) merged
         = Some true).
    Proof.
      intros Ua Ub. destruct (U_good a Ua) as (Fa & Wa & Da & Ca). destruct (U_good b Ub) as (Fb & Wb & Db & Cb).
      rewrite (same_shape_spec s a b Da Db). unfold spec_shape_steps. cbn [mxs_same_shape].
      destruct (xv_shape_types s (fd_ty (mf_def a)) (fd_ty (mf_def b))) as [[na nb]|] eqn:Est; [|discriminate].
      destruct (xv_shape_types_inner _ _ _ _ _ Est) as [-> ->].
      destruct Da as [da [Ga Ka]]. destruct Db as [db [Gb Kb]]. rewrite Ga, Gb.
      destruct (xv_is_leaf da || xv_is_leaf db) eqn:El.
      - intros [= Es]. split; [exact Es|]. left. apply streq_eq in Es. rewrite <- Es in Gb. rewrite Ga in Gb. injection Gb as <-.
        assert (Hl : xv_is_leaf da = true) by (destruct (xv_is_leaf da); [reflexivity|discriminate El]).
        destruct Fa as (_ & Ta & La & _). destruct Fb as (_ & Tb & Lb & _).
        assert (Sa : mf_sub a = []). { apply La. unfold mxb_leaf_name. rewrite Ta, Ga. exact Hl. }
        assert (Sb : mf_sub b = []). { apply Lb. unfold mxb_leaf_name. rewrite Tb, <- Es, Ga. exact Hl. }
        intros x [Hx|Hx]; [exact (mxq_sub_nil frags a x Sa Hx)|exact (mxq_sub_nil frags b x Sb Hx)].
      - destruct (xv_is_composite da && xv_is_composite db); [|discriminate].
        destruct (mxs_merged frags cfuel a b) as [merged|]; [|discriminate]. intros E. split; [reflexivity|].
        right. exists merged. auto.
    Qed.

    Hypothesis Hdoc : forall f, U f -> exists fuel L,
      mxc_collect cfuel frags (mf_sub_ty f) (mf_sub f) = Some L /\ mxs_can_merge s frags fuel cfuel L = Some true.

    Lemma mxq_sub2_sym a b x : mxq_sub2 frags a b x -> mxq_sub2 frags b a x.
    Proof. unfold mxq_sub2. tauto. Qed.

    (* the pairs of the sub-selection of one field, or of the merged sub-selections of two fields the
       specification has compared *)
    Lemma mxq_pairs_below a b : U a -> U b ->
      (a = b \/ mxq_ss_hyp a b \/ mxq_ss_hyp b a) ->
      forall x y, mxq_sub2 frags a b x -> mxq_sub2 frags a b y -> key x = key y ->
        x = y \/ mxq_ss_hyp x y \/ mxq_ss_hyp y x.
    Proof.
      intros Ua Ub H x y Sx Sy Hk.
      assert (Ux : U x) by (eapply U_sub2; [| |eassumption]; assumption). assert (Uy : U y) by (eapply U_sub2; [| |eassumption]; assumption).
      assert (Hinv : forall a b, U a -> U b -> mxq_ss_hyp a b -> mxq_sub2 frags a b x -> mxq_sub2 frags a b y ->
                x = y \/ mxq_ss_hyp x y \/ mxq_ss_hyp y x).
      { intros a0 b0 Ua0 Ub0 [f E] Sx0 Sy0. destruct f as [|f]; [discriminate|].
        destruct (mxs_shape_inv f a0 b0 Ua0 Ub0 E) as [_ [Hno|(merged & Em & Ep)]]; [exfalso; exact (Hno x Sx0)|].
        apply (mxs_merged_in a0 b0 merged Em) in Sx0. apply (mxs_merged_in a0 b0 merged Em) in Sy0.
        destruct (xv_pairs3_true_inv _ _ Ep x y Sx0 Sy0) as [Hxy|[Hxy|Hxy]]; [left; exact Hxy|right; left|right; right].
        - rewrite Hk, streq_refl in Hxy. exists f. exact Hxy.
        - rewrite Hk, streq_refl in Hxy. exists f. exact Hxy. }
      destruct H as [->|[H|H]].
      - destruct (Hdoc b Ub) as (fuel & L & Ec & Em).
        assert (HxL : In x L). { apply (mxc_collect_coll _ _ _ _ _ Ec). destruct Sx as [Sx|Sx]; exact Sx. }
        assert (HyL : In y L). { apply (mxc_collect_coll _ _ _ _ _ Ec). destruct Sy as [Sy|Sy]; exact Sy. }
        destruct (mxs_cm_pair fuel L x y Em HxL HyL Ux Uy) as [Hxy|[Hxy|Hxy]]; [left; exact Hxy|right; left|right; right].
        + apply Hxy. exact Hk.
        + apply Hxy. symmetry. exact Hk.
      - exact (Hinv a b Ua Ub H Sx Sy).
      - apply (Hinv b a Ub Ua H); apply mxq_sub2_sym; assumption.
    Qed.

    Lemma mxq_SH : forall n a b, U a -> U b -> (key a = key b -> a = b \/ mxq_ss_hyp a b \/ mxq_ss_hyp b a) ->
      mxq_ssr n a b.
    Proof.
      induction n as [|n IH]; intros a b Ua Ub H; [exact I|]. unfold mxq_ssr. cbn [mxq_gen]. intros Hk. specialize (H Hk).
      destruct (U_good a Ua) as (Fa & Wa & Da & Ca). destruct (U_good b Ub) as (Fb & Wb & Db & Cb). split.
      - destruct H as [->|[[f E]|[f E]]].
        + apply (same_shape_sig s b b Db Db). reflexivity.
        + destruct f as [|f]; [discriminate|]. apply (mxs_shape_inv f a b Ua Ub E).
        + destruct f as [|f]; [discriminate|]. destruct (mxs_shape_inv f b a Ub Ua E) as [Hs _].
          apply (same_shape_sig s a b Da Db). symmetry. apply (same_shape_sig s b a Db Da). exact Hs.
      - intros x y Sx Sy. apply IH; [eapply U_sub2; [| |eassumption]; assumption|eapply U_sub2; [| |eassumption]; assumption|].
        intros Hkxy. exact (mxq_pairs_below a b Ua Ub H x y Sx Sy Hkxy).
    Qed.

    Lemma mxq_PA : forall n a b, U a -> U b ->
      (key a = key b -> mxq_pcond a b -> a = b \/ mxq_cm_hyp a b \/ mxq_cm_hyp b a) -> mxq_pap n a b.
    Proof.
      induction n as [|n IH]; intros a b Ua Ub H; [exact I|]. unfold mxq_pap. cbn [mxq_gen]. intros [Hk Hp].
      specialize (H Hk Hp).
      destruct (U_good a Ua) as (Fa & Wa & Da & Ca). destruct (U_good b Ub) as (Fb & Wb & Db & Cb). split.
      - destruct H as [->|[[Hna _]|[Hna _]]].
        + apply same_name_args_refl. exact Wb.
        + exact Hna.
        + apply same_name_args_sym; assumption.
      - intros x y Sx Sy.
        assert (Ux : U x) by (eapply U_sub2; [| |eassumption]; assumption). assert (Uy : U y) by (eapply U_sub2; [| |eassumption]; assumption).
        apply IH; [exact Ux|exact Uy|]. intros Hkxy Hpxy.
        assert (Hlist : exists fuel M, mxs_can_merge s frags fuel cfuel M = Some true /\ In x M /\ In y M).
        { destruct H as [->|[[_ (f & merged & Em & Ec)]|[_ (f & merged & Em & Ec)]]].
          - destruct (Hdoc b Ub) as (fuel & L & Ec & Em). exists fuel, L. split; [exact Em|].
            split; apply (mxc_collect_coll _ _ _ _ _ Ec).
            + destruct Sx as [Sx|Sx]; exact Sx.
            + destruct Sy as [Sy|Sy]; exact Sy.
          - exists f, merged. split; [exact Ec|]. split; apply (mxs_merged_in a b merged Em); assumption.
          - exists f, merged. split; [exact Ec|]. split; apply (mxs_merged_in b a merged Em); apply mxq_sub2_sym; assumption. }
        destruct Hlist as (fuel & M & Ec & HxM & HyM).
        destruct (mxs_cm_pair fuel M x y Ec HxM HyM Ux Uy) as [Hxy|[Hxy|Hxy]]; [left; exact Hxy|right; left|right; right].
        + apply (Hxy Hkxy). exact Hpxy.
        + apply (Hxy (eq_sym Hkxy)). apply mxq_pcond_sym. exact Hpxy.
    Qed.
  End Universe.

  (* ---------- one operation ---------- *)
  (* the specification's rule evaluated on a selection set under the root: defined (not out of fuel) / true *)
  Definition mxq_spec_defined (fuel : nat) (root : mx_set) : Prop :=
    forall st, mxq_hset frags root st ->
      exists L r, mxc_collect cfuel frags (fst st) (snd st) = Some L /\ mxs_can_merge s frags fuel cfuel L = Some r.
  Definition mxq_spec_true (fuel : nat) (root : mx_set) : Prop :=
    forall st, mxq_hset frags root st -> forall L, mxc_collect cfuel frags (fst st) (snd st) = Some L ->
      mxs_can_merge s frags fuel cfuel L = Some true.

  Theorem mxq_operation_equiv fuel root st st' :
    (forall f, mxq_hfield frags root f -> mxq_good f) ->
    mxq_spec_defined fuel root ->
    mxn_validate_operation s frags st root = Some st' -> (snd st' <= mx_field_depth_limit)%nat ->
    (snd st <= snd st')%nat /\ (fst st' = true <-> fst st = true /\ mxq_spec_true fuel root).
  Proof.
    intros Hgood Hdef E Hlim.
    set (U := mxq_hfield frags root).
    assert (U_sub : forall f x, U f -> mxq_sub frags f x -> U x) by (intros f x; apply mxq_hfield_sub).
    assert (HU0 : forall f, mxe_coll frags [root] f -> U f).
    { intros f Hf. eapply mxq_hfield_coll; [apply mxq_hs_init|exact Hf]. }
    pose proof (mxn_validate_sem U U_sub Hgood root st st' HU0 E Hlim) as Hcode.
    split; [apply (Hcode mx_fuel (le_n _))|]. split.
    - intros Hok. split; [apply (Hcode mx_fuel (le_n _)); exact Hok|].
      (* the readings hold, at every depth from mx_fuel on, of every selection set under the root *)
      assert (Hinv : forall st0, mxq_hset frags root st0 -> forall n, (mx_fuel <= n)%nat ->
                mxq_shape_ok n (mxe_coll frags [st0]) /\ mxq_par_ok n (mxe_coll frags [st0])).
      { intros st0 H0. induction H0 as [|ty sels c dirs sty sub _ IH Hin|ty sels n0 dirs st1 _ IH Hin Ha
                                        |ty sels a n0 args dirs def sty sub _ IH Hin]; intros n Hn.
        - apply (Hcode n Hn) in Hok. tauto.
        - destruct (IH n Hn) as [H1 H2].
          assert (Hsub : forall x, mxe_coll frags [(sty, sub)] x -> mxe_coll frags [(ty, sels)] x).
          { apply mxe_coll_mono. intros st2 [<-|[]]. eapply mxe_r_inline; [|exact Hin]. apply mxe_r_init. left. reflexivity. }
          split; [exact (mxq_gen_ok_ext _ _ n _ _ Hsub H1)|exact (mxq_gen_ok_ext _ _ n _ _ Hsub H2)].
        - destruct (IH n Hn) as [H1 H2].
          assert (Hsub : forall x, mxe_coll frags [st1] x -> mxe_coll frags [(ty, sels)] x).
          { apply mxe_coll_mono. intros st2 [<-|[]]. eapply mxe_r_spread; [|exact Hin|exact Ha]. apply mxe_r_init. left. reflexivity. }
          split; [exact (mxq_gen_ok_ext _ _ n _ _ Hsub H1)|exact (mxq_gen_ok_ext _ _ n _ _ Hsub H2)].
        - destruct (IH (S n) (le_S _ _ Hn)) as [H1 H2].
          set (f := {| mf_parent := ty; mf_alias := a; mf_name := n0; mf_args := args; mf_dirs := dirs; mf_def := def;
                       mf_sub_ty := sty; mf_sub := sub |}).
          assert (Hf : mxe_coll frags [(ty, sels)] f).
          { exists ty, sels. split; [apply mxe_r_init; left; reflexivity|]. apply mxe_fields_in.
            exists a, n0, args, dirs, def, sty, sub. auto. }
          pose proof (H1 f f Hf Hf) as G1. pose proof (H2 f f Hf Hf) as G2. cbn [mxq_gen] in G1, G2.
          destruct (G1 eq_refl) as [_ S1]. destruct (G2 (conj eq_refl (or_introl eq_refl))) as [_ S2].
          split; intros x y Hx Hy; [apply S1|apply S2]; left; assumption. }
      intros st0 H0 L Ec. destruct (Hdef st0 H0) as (L' & r & Ec' & Em). rewrite Ec in Ec'. injection Ec' as <-.
      rewrite Em. f_equal.
      destruct (Hinv st0 H0 (Nat.max mx_fuel fuel) (Nat.le_max_l _ _)) as [H1 H2].
      assert (HL : forall x, In x L -> mxe_coll frags [st0] x).
      { intros x Hx. destruct st0 as [ty0 sels0]. apply (mxc_collect_coll _ _ _ _ _ Ec). exact Hx. }
      apply (mxs_can_merge_true U U_sub Hgood fuel (Nat.max mx_fuel fuel) L r (Nat.le_max_r _ _)); [| | |exact Em].
      + intros x Hx. eapply mxq_hfield_coll; [exact H0|apply HL; exact Hx].
      + exact (mxq_gen_ok_ext _ _ _ _ _ HL H1).
      + exact (mxq_gen_ok_ext _ _ _ _ _ HL H2).
    - intros [Hok Htrue]. apply (Hcode mx_fuel (le_n _)). split; [exact Hok|].
      assert (Hdoc : forall f, U f -> exists fuel0 L,
                mxc_collect cfuel frags (mf_sub_ty f) (mf_sub f) = Some L /\ mxs_can_merge s frags fuel0 cfuel L = Some true).
      { intros f Uf. pose proof (mxq_hfield_subset frags root f Uf) as Hs.
        destruct (Hdef _ Hs) as (L & r & Ec & _). exists fuel, L. split; [exact Ec|]. exact (Htrue _ Hs L Ec). }
      destruct (Hdef root (mxq_hs_init frags root)) as (L0 & r0 & Ec0 & _).
      pose proof (Htrue root (mxq_hs_init frags root) L0 Ec0) as Em0.
      assert (HL0 : forall x, mxe_coll frags [root] x -> In x L0).
      { intros x Hx. destruct root as [ty0 sels0]. apply (mxc_collect_coll _ _ _ _ _ Ec0). exact Hx. }
      split; intros a b Ha Hb.
      + apply (mxq_SH U U_sub Hgood Hdoc); [apply HU0; exact Ha|apply HU0; exact Hb|]. intros Hk.
        destruct (mxs_cm_pair U Hgood fuel L0 a b Em0 (HL0 a Ha) (HL0 b Hb) (HU0 a Ha) (HU0 b Hb)) as [H|[H|H]];
          [left; exact H|right; left|right; right].
        * apply (H Hk).
        * apply (H (eq_sym Hk)).
      + apply (mxq_PA U U_sub Hgood Hdoc); [apply HU0; exact Ha|apply HU0; exact Hb|]. intros Hk Hp.
        destruct (mxs_cm_pair U Hgood fuel L0 a b Em0 (HL0 a Ha) (HL0 b Hb) (HU0 a Ha) (HU0 b Hb)) as [H|[H|H]];
          [left; exact H|right; left|right; right].
        * apply (H Hk). exact Hp.
        * apply (H (eq_sym Hk)). apply mxq_pcond_sym. exact Hp.
  Qed.
End Spec.
