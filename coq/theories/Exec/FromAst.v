(* crates/apollo-compiler/src/executable/from_ast.rs, literally: AST document (+ optional schema) to the
   typed executable document plus build errors, and Schema::type_field / root_operation of schema/mod.rs.
   Definitions only (extracted).  Prefix xb_ / Xb / xs_ / Xtf. *)
From ApolloVerif Require Import Base.Chars Ast.Ast Schema.Model Exec.Doc.

(* ---------------------------------------------------------------- schema/mod.rs *)

(* MetaFieldDefinitions *)
Definition xm_typename : fielddef :=
  {| fd_desc := None; fd_name := xn_typename; fd_args := []; fd_ty := TNonNullNamed xn_String; fd_dirs := [] |}.
Definition xm_schema : fielddef :=
  {| fd_desc := None; fd_name := xn_schema; fd_args := []; fd_ty := TNonNullNamed xn_Schema; fd_dirs := [] |}.
Definition xm_type : fielddef :=
  {| fd_desc := None; fd_name := xn_type;
     fd_args := [ {| iv_desc := None; iv_name := xn_name; iv_ty := TNonNullNamed xn_String;
                     iv_default := None; iv_dirs := [] |} ];
     fd_ty := TNamed xn_Type; fd_dirs := [] |}.

(* FieldLookupError *)
Inductive xtf_res :=
| XtfOk (fd : fielddef)
| XtfNoSuchType
| XtfNoSuchField (type_name : str).

(* IndexMap<Name, Component<FieldDefinition>>::get : keys are the fields' own names *)
Fixpoint xs_find_field (n : str) (fs : list (comp fielddef)) : option fielddef :=
  match fs with
  | [] => None
  | c :: r => if streq n (fd_name (c_val c)) then Some (c_val c) else xs_find_field n r
  end.

Definition xs_explicit_field (td : ext_type) (n : str) : option fielddef :=
  match td with
  | EObject _ _ _ _ fs _ | EInterface _ _ _ _ fs _ => xs_find_field n fs
  | EScalar _ _ _ _ | EUnion _ _ _ _ _ | EEnum _ _ _ _ _ | EInput _ _ _ _ _ => None
  end.

Definition xs_is_composite (td : ext_type) : bool :=
  match td with
  | EObject _ _ _ _ _ _ | EInterface _ _ _ _ _ _ | EUnion _ _ _ _ _ => true
  | _ => false
  end.

(* schema_definition.query.as_ref().is_some_and(|q| q == type_name) *)
Definition xs_is_query_root (s : schema) (tn : str) : bool :=
  match sd_query (sch_def s) with
  | Some q => streq (c_val q) tn
  | None => false
  end.

(* Schema::type_field *)
Definition xs_type_field (s : schema) (tn fname : str) : xtf_res :=
  match sch_get_type s tn with
  | None => XtfNoSuchType
  | Some td =>
      match xs_explicit_field td fname with
      | Some d => XtfOk d
      | None =>
          if streq fname xn_typename && xs_is_composite td then XtfOk xm_typename
          else if xs_is_query_root s tn then
            if streq fname xn_schema then XtfOk xm_schema
            else if streq fname xn_type then XtfOk xm_type
            else XtfNoSuchField tn
          else XtfNoSuchField tn
      end
  end.

(* Schema::root_operation *)
Definition xs_root_operation (s : schema) (o : optype) : option str :=
  match (match o with
         | OpQuery => sd_query (sch_def s)
         | OpMutation => sd_mutation (sch_def s)
         | OpSubscription => sd_subscription (sch_def s)
         end) with
  | Some c => Some (c_val c)
  | None => None
  end.

(* OperationType::default_type_name *)
Definition xs_default_root (o : optype) : str :=
  match o with OpQuery => xn_Query | OpMutation => xn_Mutation | OpSubscription => xn_Subscription end.

(* A schema is closed when every type name that can type a selection set is a type of the schema: the root
   operation types, the inner types of all field definitions, and the types of the meta-fields.
   Schema validation guarantees it (a Valid<Schema> is closed); on a schema that is not closed
   extend_from_ast drops fields without recording an error (FieldLookupError::NoSuchType). *)
Definition xs_defined (s : schema) (n : str) : bool :=
  match sch_get_type s n with Some _ => true | None => false end.

Definition xs_closedb (s : schema) : bool :=
  forallb (fun o => match xs_root_operation s o with Some ty => xs_defined s ty | None => true end)
          [OpQuery; OpMutation; OpSubscription]
  && xs_defined s xn_String && xs_defined s xn_Schema && xs_defined s xn_Type
  && forallb (fun td =>
                match td with
                | EObject _ _ _ _ fs _ | EInterface _ _ _ _ fs _ =>
                    forallb (fun c => xs_defined s (inner_named_type (fd_ty (c_val c)))) fs
                | _ => true
                end) (sch_types s).

(* ---------------------------------------------------------------- BuildError (executable/mod.rs) *)

Inductive xberr :=
| XbTypeSystemDefinition
| XbAmbiguousAnonymous
| XbOperationNameCollision (name : str)
| XbFragmentNameCollision (name : str)
| XbUndefinedRootOperation (o : optype)
| XbUndefinedTypeInNamedFragment (type_name fragment_name : str)
| XbUndefinedTypeInInlineFragment (type_name : str) (path : list str)
| XbSubselectionOnScalar (type_name : str) (path : list str)
| XbSubselectionOnEnum (type_name : str) (path : list str)
| XbUndefinedField (type_name field_name : str) (path : list str).

(* ---------------------------------------------------------------- SelectionSet::extend_from_ast *)

Section XbCollect.
  Context {A B E : Type} (f : A -> list B * list E).
  (* the `for selection in ast_selections` loop: results pushed in order, errors pushed in order *)
  Fixpoint xb_collect (l : list A) : list B * list E :=
    match l with
    | [] => ([], [])
    | x :: r =>
        let '(a, e1) := f x in
        let '(b, e2) := xb_collect r in
        (a ++ b, e1 ++ e2)
    end.
End XbCollect.

Definition xb_is_nil {A} (l : list A) : bool := match l with [] => true | _ => false end.

(* One iteration of the loop of extend_from_ast on a selection set of type `pty`.
   `path` is errors.path.nested_fields.  Returns the selections pushed (0 or 1) and the errors pushed. *)
Fixpoint xb_sel (s : option schema) (pty : str) (path : list str) (x : selection) {struct x}
  : list xsel * list xberr :=
  match x with
  | SField alias name args dirs sub =>
      let res := match s with
                 | Some sc => xs_type_field sc pty name
                 | None => XtfOk (xd_unknown_def name)
                 end in
      let path' := path ++ [xs_response_key alias name] in
      match res with
      | XtfOk fd =>
          let leaf := xb_is_nil sub in
          let tn := inner_named_type (fd_ty fd) in
          let push :=
            let '(subs, es) := xb_collect (xb_sel s tn path') sub in
            ([XsField fd alias name args dirs tn subs], es) in
          match (match s with Some sc => sch_get_type sc tn | None => None end) with
          | Some (EScalar _ _ _ _) => if leaf then push else ([], [XbSubselectionOnScalar tn path'])
          | Some (EEnum _ _ _ _ _) => if leaf then push else ([], [XbSubselectionOnEnum tn path'])
          | _ => push
          end
      | XtfNoSuchField tyn => ([], [XbUndefinedField tyn name path'])
      | XtfNoSuchType => ([], [])
      end
  | SSpread name dirs => ([XsSpread name dirs], [])
  | SInline cond dirs sub =>
      let undefined :=
        match cond, s with
        | Some tc, Some sc => match sch_get_type sc tc with None => true | Some _ => false end
        | _, _ => false
        end in
      match cond with
      | Some tc =>
          if undefined then ([], [XbUndefinedTypeInInlineFragment tc path])
          else
            let '(subs, es) := xb_collect (xb_sel s tc path) sub in
            ([XsInline (Some tc) dirs tc subs], es)
      | None =>
          let '(subs, es) := xb_collect (xb_sel s pty path) sub in
          ([XsInline None dirs pty subs], es)
      end
  end.

Definition xb_sels (s : option schema) (pty : str) (path : list str) (l : list selection)
  : list xsel * list xberr :=
  xb_collect (xb_sel s pty path) l.

(* Operation::from_ast : None when the schema does not define the root operation type *)
Definition xb_operation (s : option schema) (o : optype) (name : option str) (vars : list vardef)
    (dirs : list directive) (sels : list selection) : option (xop * list xberr) :=
  match (match s with
         | Some sc => xs_root_operation sc o
         | None => Some (xs_default_root o)
         end) with
  | None => None
  | Some ty =>
      let '(xs, es) := xb_sels s ty [] sels in
      Some ({| xo_type := o; xo_name := name; xo_vars := vars; xo_dirs := dirs;
               xo_ty := ty; xo_sels := xs |}, es)
  end.

(* Fragment::from_ast : (None, [error]) when the type condition is not a type of the schema *)
Definition xb_fragment (s : option schema) (name cond : str) (dirs : list directive)
    (sels : list selection) : option xfrag * list xberr :=
  let undefined :=
    match s with
    | Some sc => match sch_get_type sc cond with None => true | Some _ => false end
    | None => false
    end in
  if undefined then (None, [XbUndefinedTypeInNamedFragment cond name])
  else
    let '(xs, es) := xb_sels s cond [] sels in
    (Some {| xf_name := name; xf_dirs := dirs; xf_ty := cond; xf_sels := xs |}, es).

(* ---------------------------------------------------------------- add_ast_document_not_adding_sources *)

(* builder state: the document so far, `multiple_anonymous`, the errors so far *)
Record xb_state := {
  xb_doc : xdoc;
  xb_multiple_anonymous : bool;
  xb_errs : list xberr }.

Definition xb_init : xb_state :=
  {| xb_doc := xd_empty; xb_multiple_anonymous := false; xb_errs := [] |}.

Definition xb_push (st : xb_state) (es : list xberr) : xb_state :=
  {| xb_doc := xb_doc st; xb_multiple_anonymous := xb_multiple_anonymous st;
     xb_errs := xb_errs st ++ es |}.

Definition xb_with_doc (st : xb_state) (d : xdoc) : xb_state :=
  {| xb_doc := d; xb_multiple_anonymous := xb_multiple_anonymous st; xb_errs := xb_errs st |}.

Definition xb_has_key {A} (k : str) (m : list (str * A)) : bool :=
  match xd_assoc k m with Some _ => true | None => false end.

(* one iteration of `for definition in &document.definitions` *)
Definition xb_definition (s : option schema) (ts_defs_are_errors : bool) (st : xb_state)
    (def : definition) : xb_state :=
  let d := xb_doc st in
  match def with
  | DOperation o (Some name) vars dirs sels =>
      let st1 := match xd_anon d with
                 | Some _ => xb_push st [XbAmbiguousAnonymous]
                 | None => st
                 end in
      if xb_has_key name (xd_named d) then xb_push st1 [XbOperationNameCollision name]
      else
        match xb_operation s o (Some name) vars dirs sels with
        | Some (op, es) =>
            xb_with_doc (xb_push st1 es)
              {| xd_anon := xd_anon d; xd_named := xd_named d ++ [(name, op)]; xd_frags := xd_frags d |}
        | None => xb_push st1 [XbUndefinedRootOperation o]
        end
  | DOperation o None vars dirs sels =>
      match xd_anon d with
      | Some _ =>
          if xb_multiple_anonymous st then xb_push st [XbAmbiguousAnonymous]
          else
            {| xb_doc := d; xb_multiple_anonymous := true;
               xb_errs := xb_errs st ++ [XbAmbiguousAnonymous; XbAmbiguousAnonymous] |}
      | None =>
          if negb (xb_is_nil (xd_named d)) then xb_push st [XbAmbiguousAnonymous]
          else
            match xb_operation s o None vars dirs sels with
            | Some (op, es) =>
                xb_with_doc (xb_push st es)
                  {| xd_anon := Some op; xd_named := xd_named d; xd_frags := xd_frags d |}
            | None => xb_push st [XbUndefinedRootOperation o]
            end
      end
  | DFragment name cond dirs sels =>
      if xb_has_key name (xd_frags d) then xb_push st [XbFragmentNameCollision name]
      else
        match xb_fragment s name cond dirs sels with
        | (Some f, es) =>
            xb_with_doc (xb_push st es)
              {| xd_anon := xd_anon d; xd_named := xd_named d; xd_frags := xd_frags d ++ [(name, f)] |}
        | (None, es) => xb_push st es
        end
  | _ => if ts_defs_are_errors then xb_push st [XbTypeSystemDefinition] else st
  end.

(* document_from_ast *)
Definition xb_document (s : option schema) (ts_defs_are_errors : bool) (a : document)
  : xdoc * list xberr :=
  let st := fold_left (xb_definition s ts_defs_are_errors) a xb_init in
  (xb_doc st, xb_errs st).

(* the entry used by parse / to_executable / validate_standalone_executable *)
Definition xb_from_ast (s : option schema) (a : document) : xdoc * list xberr :=
  xb_document s true a.

(* Parser::parse_field_set_inner : a bare selection set against a given type *)
Definition xb_field_set (s : schema) (ty : str) (l : list selection) : list xsel * list xberr :=
  xb_sels (Some s) ty [] l.
