(* Proofs about Exec/ToAst.v: to_ast is a left inverse of an error-free from_ast, up to the order in which the
   document stores its definitions. *)
From ApolloVerif Require Import Base.Chars Ast.Ast Schema.Model Exec.Doc Exec.FromAst Exec.ToAst
  Exec.FromAstProofs.

(* ---------------------------------------------------------------- selections *)

Lemma xb_collect_to_ast {A} (f : A -> list xsel * list xberr) (g : xsel -> A) (l : list A) :
  Forall (fun x => forall out, f x = (out, []) -> map g out = [x]) l ->
  forall out, xb_collect f l = (out, []) -> map g out = l.
Proof.
  induction 1 as [|x r Hx _ IH]; intros out; cbn [xb_collect].
  - intros [= <-]. reflexivity.
  - destruct (f x) as [a e1] eqn:Ef. destruct (xb_collect f r) as [b e2] eqn:Er.
    intros [= <- He]. apply app_eq_nil in He as [-> ->].
    rewrite map_app, (Hx _ eq_refl), (IH _ eq_refl). reflexivity.
Qed.

(* On a closed schema (or without a schema), an error-free extend_from_ast pushes, for each AST selection,
   exactly one typed selection, and it prints back to that AST selection. *)
Lemma xb_sel_to_ast s (Hcl : xs_closed s) x : forall pty path out,
  xs_ty_ok s pty -> xb_sel s pty path x = (out, []) -> map xt_sel out = [x].
Proof.
  induction x as [alias name args dirs sub IH|name dirs|cond dirs sub IH] using selection_ind';
    intros pty path out Hty; cbn [xb_sel].
  - destruct (match s with Some sc => xs_type_field sc pty name | None => XtfOk (xd_unknown_def name) end)
      as [fd| |tyn] eqn:Eres; try discriminate.
    + set (tn := inner_named_type (fd_ty fd)).
      assert (Htn : xs_ty_ok s tn).
      { destruct s as [sc|]; [|exact I]. cbn in Hcl |- *. destruct Hcl as [_ Hf]. eapply Hf. exact Eres. }
      assert (Hpush : forall out,
        (let '(subs, es) := xb_collect (xb_sel s tn (path ++ [xs_response_key alias name])) sub in
         ([XsField fd alias name args dirs tn subs], es)) = (out, []) ->
        map xt_sel out = [SField alias name args dirs sub]).
      { intros o. destruct (xb_collect _ sub) as [subs es] eqn:Ec. intros [= <- ->].
        cbn [map xt_sel]. f_equal. f_equal.
        eapply xb_collect_to_ast; [|exact Ec].
        eapply Forall_impl; [|exact IH]. intros y Hy o' Hy'. eapply Hy; [exact Htn|exact Hy']. }
      destruct (match s with Some sc => sch_get_type sc tn | None => None end) as [[| | | | |]|];
        try (apply Hpush); destruct (xb_is_nil sub); try (apply Hpush); discriminate.
    + (* NoSuchType cannot happen: pty is a type of the schema *)
      destruct s as [sc|]; [|discriminate]. apply xs_type_field_no_such_type in Eres.
      cbn in Hty. congruence.
  - intros [= <-]. reflexivity.
  - destruct cond as [tc|].
    + destruct (match s with
                | Some sc => match sch_get_type sc tc with None => true | Some _ => false end
                | None => false end) eqn:Eu; [discriminate|].
      assert (Htc : xs_ty_ok s tc).
      { destruct s as [sc|]; [|exact I]. cbn. destruct (sch_get_type sc tc); congruence. }
      destruct (xb_collect _ sub) as [subs es] eqn:Ec. intros [= <- ->].
      cbn [map xt_sel]. f_equal. f_equal.
      eapply xb_collect_to_ast; [|exact Ec].
      eapply Forall_impl; [|exact IH]. intros y Hy o' Hy'. eapply Hy; [exact Htc|exact Hy'].
    + destruct (xb_collect _ sub) as [subs es] eqn:Ec. intros [= <- ->].
      cbn [map xt_sel]. f_equal. f_equal.
      eapply xb_collect_to_ast; [|exact Ec].
      eapply Forall_impl; [|exact IH]. intros y Hy o' Hy'. eapply Hy; [exact Hty|exact Hy'].
Qed.

Lemma xb_sels_to_ast s (Hcl : xs_closed s) pty path l out :
  xs_ty_ok s pty -> xb_sels s pty path l = (out, []) -> xt_sels out = l.
Proof.
  intros Hty. unfold xb_sels, xt_sels. apply xb_collect_to_ast.
  apply Forall_forall. intros x _ o. now apply xb_sel_to_ast.
Qed.

Lemma xb_operation_to_ast s (Hcl : xs_closed s) o name vars dirs sels op :
  xb_operation s o name vars dirs sels = Some (op, []) ->
  xt_op op = DOperation o name vars dirs sels.
Proof.
  unfold xb_operation.
  destruct (match s with Some sc => xs_root_operation sc o | None => Some (xs_default_root o) end)
    as [ty|] eqn:Ety; [|discriminate].
  destruct (xb_sels s ty [] sels) as [xs es] eqn:Es. intros [= <- ->].
  unfold xt_op. cbn [xo_type xo_name xo_vars xo_dirs xo_sels]. f_equal.
  eapply xb_sels_to_ast; [exact Hcl| |exact Es].
  destruct s as [sc|]; [|exact I]. cbn in Hcl |- *. destruct Hcl as [Hr _]. eapply Hr. exact Ety.
Qed.

Lemma xb_fragment_to_ast s (Hcl : xs_closed s) name cond dirs sels f :
  xb_fragment s name cond dirs sels = (Some f, []) ->
  xt_frag f = DFragment name cond dirs sels.
Proof.
  unfold xb_fragment.
  destruct (match s with
            | Some sc => match sch_get_type sc cond with None => true | Some _ => false end
            | None => false end) eqn:Eu; [discriminate|].
  destruct (xb_sels s cond [] sels) as [xs es] eqn:Es. intros [= <- ->].
  unfold xt_frag. cbn [xf_name xf_ty xf_dirs xf_sels]. f_equal.
  eapply xb_sels_to_ast; [exact Hcl| |exact Es].
  destruct s as [sc|]; [|exact I]. cbn. destruct (sch_get_type sc cond); congruence.
Qed.

(* ---------------------------------------------------------------- documents *)

(* errors only accumulate *)
Lemma xb_definition_errs s ts st def :
  exists es, xb_errs (xb_definition s ts st def) = xb_errs st ++ es.
Proof.
  destruct def; cbn [xb_definition];
    try (destruct ts; [exists [XbTypeSystemDefinition]; reflexivity|exists []; now rewrite app_nil_r]).
  - destruct name as [name|].
    + destruct (xd_anon (xb_doc st)) as [prev|];
        destruct (xb_has_key name (xd_named (xb_doc st)));
        try destruct (xb_operation s op (Some name) vars dirs sels) as [[o es]|];
        cbn [xb_push xb_with_doc xb_errs xb_doc]; rewrite <- ?app_assoc; eexists; reflexivity.
    + destruct (xd_anon (xb_doc st)) as [prev|].
      * destruct (xb_multiple_anonymous st); cbn [xb_push xb_errs]; eexists; reflexivity.
      * destruct (negb (xb_is_nil (xd_named (xb_doc st)))); [eexists; reflexivity|].
        destruct (xb_operation s op None vars dirs sels) as [[o es]|];
          cbn [xb_push xb_with_doc xb_errs]; eexists; reflexivity.
  - destruct (xb_has_key name (xd_frags (xb_doc st))); [eexists; reflexivity|].
    destruct (xb_fragment s name cond dirs sels) as [[f|] es];
      cbn [xb_push xb_with_doc xb_errs]; eexists; reflexivity.
Qed.

Lemma xb_fold_errs s ts l : forall st,
  exists es, xb_errs (fold_left (xb_definition s ts) l st) = xb_errs st ++ es.
Proof.
  induction l as [|def r IH]; intros st; cbn [fold_left].
  - exists []. now rewrite app_nil_r.
  - destruct (IH (xb_definition s ts st def)) as [es2 H2].
    destruct (xb_definition_errs s ts st def) as [es1 H1].
    exists (es1 ++ es2). rewrite H2, H1. now rewrite app_assoc.
Qed.

(* what the three parts of the stored document print to, against the definitions processed so far *)
Definition xt_anon_part (d : xdoc) : document :=
  match xd_anon d with Some o => [xt_op o] | None => [] end.
Definition xt_named_part (d : xdoc) : document := map (fun kv => xt_op (snd kv)) (xd_named d).
Definition xt_frag_part (d : xdoc) : document := map (fun kv => xt_frag (snd kv)) (xd_frags d).

Definition xt_inv (pre : document) (d : xdoc) : Prop :=
  xt_anon_part d = filter xt_is_anon pre /\
  xt_named_part d = filter xt_is_named pre /\
  xt_frag_part d = filter xt_is_frag pre.

Lemma xt_doc_parts d : xt_doc d = xt_anon_part d ++ xt_named_part d ++ xt_frag_part d.
Proof. reflexivity. Qed.

Lemma filter_snoc {A} (p : A -> bool) l x : filter p (l ++ [x]) = filter p l ++ (if p x then [x] else []).
Proof. rewrite filter_app. cbn [filter]. destruct (p x); reflexivity. Qed.

(* one error-free step of the builder keeps the three parts in step with the filters *)
Lemma xb_definition_to_ast s (Hcl : xs_closed s) ts pre st def :
  xb_errs st = [] -> xb_errs (xb_definition s ts st def) = [] ->
  xt_inv pre (xb_doc st) -> xt_inv (pre ++ [def]) (xb_doc (xb_definition s ts st def)).
Proof.
  intros He0 He (Ia & In & If). unfold xt_inv. rewrite !filter_snoc.
  assert (Hkeep : forall d, xt_is_anon d = false -> xt_is_named d = false -> xt_is_frag d = false ->
            xt_anon_part (xb_doc st) = filter xt_is_anon pre ++ (if xt_is_anon d then [d] else []) /\
            xt_named_part (xb_doc st) = filter xt_is_named pre ++ (if xt_is_named d then [d] else []) /\
            xt_frag_part (xb_doc st) = filter xt_is_frag pre ++ (if xt_is_frag d then [d] else [])).
  { intros d -> -> ->. rewrite !app_nil_r. auto. }
  destruct def; cbn [xb_definition] in He |- *;
    try (destruct ts; [cbn [xb_push xb_errs] in He; rewrite He0 in He; discriminate|apply Hkeep; reflexivity]).
  - (* operation *)
    destruct name as [name|].
    + destruct (xd_anon (xb_doc st)) as [prev|] eqn:Ea.
      { exfalso. destruct (xb_has_key name (xd_named (xb_doc st)));
          [|destruct (xb_operation s op (Some name) vars dirs sels) as [[o es]|]];
          cbn [xb_push xb_with_doc xb_errs] in He; rewrite He0 in He; discriminate. }
      destruct (xb_has_key name (xd_named (xb_doc st))).
      { exfalso. cbn [xb_push xb_errs] in He. rewrite He0 in He. discriminate. }
      destruct (xb_operation s op (Some name) vars dirs sels) as [[o es]|] eqn:Eo.
      * cbn [xb_push xb_with_doc xb_errs xb_doc] in He |- *. rewrite He0 in He. cbn [app] in He. subst es.
        unfold xt_anon_part, xt_named_part, xt_frag_part in *. cbn [xd_anon xd_named xd_frags xt_is_anon xt_is_named xt_is_frag].
        rewrite Ea in *. rewrite map_app, In, !app_nil_r. cbn [map snd].
        rewrite (xb_operation_to_ast _ Hcl _ _ _ _ _ _ Eo). auto.
      * exfalso. cbn [xb_push xb_errs] in He. rewrite He0 in He. discriminate.
    + destruct (xd_anon (xb_doc st)) as [prev|] eqn:Ea.
      { exfalso. destruct (xb_multiple_anonymous st); cbn [xb_push xb_errs] in He;
          rewrite He0 in He; discriminate. }
      destruct (xb_is_nil (xd_named (xb_doc st))) eqn:En; cbn [negb] in He |- *.
      2:{ exfalso. cbn [xb_push xb_errs] in He. rewrite He0 in He. discriminate. }
      destruct (xb_operation s op None vars dirs sels) as [[o es]|] eqn:Eo.
      * cbn [xb_push xb_with_doc xb_errs xb_doc] in He |- *. rewrite He0 in He. cbn [app] in He. subst es.
        unfold xt_anon_part, xt_named_part, xt_frag_part in *. cbn [xd_anon xd_named xd_frags xt_is_anon xt_is_named xt_is_frag].
        rewrite Ea in Ia. rewrite <- Ia, !app_nil_r. cbn [app].
        rewrite (xb_operation_to_ast _ Hcl _ _ _ _ _ _ Eo). auto.
      * exfalso. cbn [xb_push xb_errs] in He. rewrite He0 in He. discriminate.
  - (* fragment *)
    destruct (xb_has_key name (xd_frags (xb_doc st))).
    { exfalso. cbn [xb_push xb_errs] in He. rewrite He0 in He. discriminate. }
    destruct (xb_fragment s name cond dirs sels) as [[f|] es] eqn:Ef.
    + cbn [xb_push xb_with_doc xb_errs xb_doc] in He |- *. rewrite He0 in He. cbn [app] in He. subst es.
      unfold xt_anon_part, xt_named_part, xt_frag_part in *. cbn [xd_anon xd_named xd_frags xt_is_anon xt_is_named xt_is_frag].
      rewrite map_app, If, !app_nil_r. cbn [map snd].
      rewrite (xb_fragment_to_ast _ Hcl _ _ _ _ _ Ef). auto.
    + exfalso. unfold xb_fragment in Ef.
      destruct (match s with
                | Some sc => match sch_get_type sc cond with None => true | Some _ => false end
                | None => false end).
      * injection Ef as <-. cbn [xb_push xb_errs] in He. rewrite He0 in He. discriminate.
      * destruct (xb_sels s cond [] sels). discriminate.
Qed.

Lemma xb_fold_to_ast s (Hcl : xs_closed s) ts l : forall pre st,
  xb_errs (fold_left (xb_definition s ts) l st) = [] ->
  xt_inv pre (xb_doc st) -> xt_inv (pre ++ l) (xb_doc (fold_left (xb_definition s ts) l st)).
Proof.
  induction l as [|def r IH]; intros pre st He Hinv; cbn [fold_left] in *.
  - now rewrite app_nil_r.
  - destruct (xb_fold_errs s ts r (xb_definition s ts st def)) as [es2 H2].
    destruct (xb_definition_errs s ts st def) as [es1 H1].
    pose proof He as He'. rewrite H2 in He'. apply app_eq_nil in He' as [He1 _].
    assert (He0 : xb_errs st = []) by (rewrite H1 in He1; now apply app_eq_nil in He1).
    replace (pre ++ def :: r) with ((pre ++ [def]) ++ r) by now rewrite <- app_assoc.
    apply IH; [exact He|].
    apply xb_definition_to_ast; assumption.
Qed.

(* C19_to_ast_left_inverse *)
Theorem xb_document_to_ast s ts a d :
  xs_closed s -> xb_document s ts a = (d, []) -> xt_doc d = xt_reorder a.
Proof.
  intros Hcl. unfold xb_document. intros [= <- He].
  destruct (xb_fold_to_ast s Hcl ts a [] xb_init He) as (Ia & In & If).
  { unfold xt_inv, xt_anon_part, xt_named_part, xt_frag_part. cbn. auto. }
  rewrite xt_doc_parts. unfold xt_reorder. cbn [app] in *. now rewrite Ia, In, If.
Qed.

(* the stored order is a fixed point of the reordering *)
Lemma filter_filter_same {A} (p : A -> bool) l : filter p (filter p l) = filter p l.
Proof. induction l as [|x r IH]; cbn [filter]; [reflexivity|]. destruct (p x) eqn:E; cbn [filter]; rewrite ?E, IH; reflexivity. Qed.

Lemma filter_filter_disjoint {A} (p q : A -> bool) l :
  (forall x, p x = true -> q x = false) -> filter q (filter p l) = [].
Proof.
  intros H. induction l as [|x r IH]; cbn [filter]; [reflexivity|].
  destruct (p x) eqn:E; cbn [filter]; [rewrite (H _ E)|]; exact IH.
Qed.

Theorem xt_reorder_idempotent a : xt_reorder (xt_reorder a) = xt_reorder a.
Proof.
  unfold xt_reorder. rewrite !filter_app.
  rewrite !filter_filter_same.
  rewrite (filter_filter_disjoint xt_is_named xt_is_anon), (filter_filter_disjoint xt_is_frag xt_is_anon),
    (filter_filter_disjoint xt_is_anon xt_is_named), (filter_filter_disjoint xt_is_frag xt_is_named),
    (filter_filter_disjoint xt_is_anon xt_is_frag), (filter_filter_disjoint xt_is_named xt_is_frag);
    try (intros [] ; cbn; try discriminate; try reflexivity; destruct name; cbn; congruence).
  now rewrite !app_nil_r.
Qed.

(* field sets *)
Theorem xb_field_set_to_ast sc ty l out :
  xs_schema_closed sc -> sch_get_type sc ty <> None ->
  xb_field_set sc ty l = (out, []) -> xt_sels out = l.
Proof. intros Hcl Hty. apply (xb_sels_to_ast (Some sc) Hcl); exact Hty. Qed.

(* a second round: if the printed AST builds without errors again, it prints to the same AST *)
Theorem xb_second_round s ts a d d2 :
  xs_closed s -> xb_document s ts a = (d, []) -> xb_document s ts (xt_doc d) = (d2, []) ->
  xt_doc d2 = xt_doc d.
Proof.
  intros Hcl H1 H2. rewrite (xb_document_to_ast _ _ _ _ Hcl H2), (xb_document_to_ast _ _ _ _ Hcl H1).
  apply xt_reorder_idempotent.
Qed.

(* ---------------------------------------------------------------- the second round, in full *)

(* how the stored parts were built from the definitions of each kind, in order *)
Inductive XtNamedBuilt (s : option schema) : document -> list (str * xop) -> Prop :=
| XtNB_nil : XtNamedBuilt s [] []
| XtNB_snoc L M o n v di sl op :
    XtNamedBuilt s L M -> xb_has_key n M = false ->
    xb_operation s o (Some n) v di sl = Some (op, []) ->
    XtNamedBuilt s (L ++ [DOperation o (Some n) v di sl]) (M ++ [(n, op)]).

Inductive XtFragsBuilt (s : option schema) : document -> list (str * xfrag) -> Prop :=
| XtFB_nil : XtFragsBuilt s [] []
| XtFB_snoc L M n c di sl f :
    XtFragsBuilt s L M -> xb_has_key n M = false ->
    xb_fragment s n c di sl = (Some f, []) ->
    XtFragsBuilt s (L ++ [DFragment n c di sl]) (M ++ [(n, f)]).

Definition XtAnonBuilt (s : option schema) (L : document) (anon : option xop) : Prop :=
  (L = [] /\ anon = None) \/
  (exists o v di sl op, L = [DOperation o None v di sl] /\
                        xb_operation s o None v di sl = Some (op, []) /\ anon = Some op).

Definition xt_facts (s : option schema) (pre : document) (d : xdoc) : Prop :=
  XtAnonBuilt s (filter xt_is_anon pre) (xd_anon d) /\
  XtNamedBuilt s (filter xt_is_named pre) (xd_named d) /\
  XtFragsBuilt s (filter xt_is_frag pre) (xd_frags d) /\
  (xd_anon d <> None -> xd_named d = []).

Lemma xb_is_nil_true {A} (l : list A) : xb_is_nil l = true -> l = [].
Proof. destruct l; [reflexivity|discriminate]. Qed.

Lemma xb_definition_facts s ts pre st def :
  xb_errs st = [] -> xb_errs (xb_definition s ts st def) = [] ->
  xt_facts s pre (xb_doc st) -> xt_facts s (pre ++ [def]) (xb_doc (xb_definition s ts st def)).
Proof.
  intros He0 He (Fa & Fn & Ff & Fan). unfold xt_facts. rewrite !filter_snoc.
  assert (Hkeep : forall d, xt_is_anon d = false -> xt_is_named d = false -> xt_is_frag d = false ->
            XtAnonBuilt s (filter xt_is_anon pre ++ (if xt_is_anon d then [d] else [])) (xd_anon (xb_doc st)) /\
            XtNamedBuilt s (filter xt_is_named pre ++ (if xt_is_named d then [d] else [])) (xd_named (xb_doc st)) /\
            XtFragsBuilt s (filter xt_is_frag pre ++ (if xt_is_frag d then [d] else [])) (xd_frags (xb_doc st)) /\
            (xd_anon (xb_doc st) <> None -> xd_named (xb_doc st) = [])).
  { intros d -> -> ->. rewrite !app_nil_r. auto. }
  destruct def; cbn [xb_definition] in He |- *;
    try (destruct ts; [cbn [xb_push xb_errs] in He; rewrite He0 in He; discriminate|apply Hkeep; reflexivity]).
  - destruct name as [name|].
    + destruct (xd_anon (xb_doc st)) as [prev|] eqn:Ea.
      { exfalso. destruct (xb_has_key name (xd_named (xb_doc st)));
          [|destruct (xb_operation s op (Some name) vars dirs sels) as [[o es]|]];
          cbn [xb_push xb_with_doc xb_errs] in He; rewrite He0 in He; discriminate. }
      destruct (xb_has_key name (xd_named (xb_doc st))) eqn:Ek.
      { exfalso. cbn [xb_push xb_errs] in He. rewrite He0 in He. discriminate. }
      destruct (xb_operation s op (Some name) vars dirs sels) as [[o es]|] eqn:Eo.
      2:{ exfalso. cbn [xb_push xb_errs] in He. rewrite He0 in He. discriminate. }
      cbn [xb_push xb_with_doc xb_errs xb_doc] in He |- *. rewrite He0 in He. cbn [app] in He. subst es.
      cbn [xd_anon xd_named xd_frags xt_is_anon xt_is_named xt_is_frag]. rewrite !app_nil_r.
      repeat split; try assumption.
      * econstructor; eassumption.
      * intros H. now contradiction H.
    + destruct (xd_anon (xb_doc st)) as [prev|] eqn:Ea.
      { exfalso. destruct (xb_multiple_anonymous st); cbn [xb_push xb_errs] in He;
          rewrite He0 in He; discriminate. }
      destruct (xb_is_nil (xd_named (xb_doc st))) eqn:En; cbn [negb] in He |- *.
      2:{ exfalso. cbn [xb_push xb_errs] in He. rewrite He0 in He. discriminate. }
      destruct (xb_operation s op None vars dirs sels) as [[o es]|] eqn:Eo.
      2:{ exfalso. cbn [xb_push xb_errs] in He. rewrite He0 in He. discriminate. }
      cbn [xb_push xb_with_doc xb_errs xb_doc] in He |- *. rewrite He0 in He. cbn [app] in He. subst es.
      cbn [xd_anon xd_named xd_frags xt_is_anon xt_is_named xt_is_frag]. rewrite !app_nil_r.
      repeat split; try assumption.
      * right. destruct Fa as [[-> _]|(o' & v' & di' & sl' & op' & _ & _ & Hs)]; [|discriminate].
        cbn [app]. do 5 eexists. split; [reflexivity|]. split; [exact Eo|reflexivity].
      * intros _. now apply xb_is_nil_true.
  - destruct (xb_has_key name (xd_frags (xb_doc st))) eqn:Ek.
    { exfalso. cbn [xb_push xb_errs] in He. rewrite He0 in He. discriminate. }
    destruct (xb_fragment s name cond dirs sels) as [[f|] es] eqn:Ef.
    + cbn [xb_push xb_with_doc xb_errs xb_doc] in He |- *. rewrite He0 in He. cbn [app] in He. subst es.
      cbn [xd_anon xd_named xd_frags xt_is_anon xt_is_named xt_is_frag]. rewrite !app_nil_r.
      repeat split; try assumption. econstructor; eassumption.
    + exfalso. unfold xb_fragment in Ef.
      destruct (match s with
                | Some sc => match sch_get_type sc cond with None => true | Some _ => false end
                | None => false end).
      * injection Ef as <-. cbn [xb_push xb_errs] in He. rewrite He0 in He. discriminate.
      * destruct (xb_sels s cond [] sels). discriminate.
Qed.

Lemma xb_fold_facts s ts l : forall pre st,
  xb_errs (fold_left (xb_definition s ts) l st) = [] ->
  xt_facts s pre (xb_doc st) -> xt_facts s (pre ++ l) (xb_doc (fold_left (xb_definition s ts) l st)).
Proof.
  induction l as [|def r IH]; intros pre st He Hinv; cbn [fold_left] in *.
  - now rewrite app_nil_r.
  - destruct (xb_fold_errs s ts r (xb_definition s ts st def)) as [es2 H2].
    destruct (xb_definition_errs s ts st def) as [es1 H1].
    pose proof He as He'. rewrite H2 in He'. apply app_eq_nil in He' as [He1 _].
    assert (He0 : xb_errs st = []) by (rewrite H1 in He1; now apply app_eq_nil in He1).
    replace (pre ++ def :: r) with ((pre ++ [def]) ++ r) by now rewrite <- app_assoc.
    apply IH; [exact He|]. apply xb_definition_facts; assumption.
Qed.

(* replaying each kind on its own *)
Definition xt_state (a : option xop) (n : list (str * xop)) (f : list (str * xfrag)) (m : bool) : xb_state :=
  {| xb_doc := {| xd_anon := a; xd_named := n; xd_frags := f |}; xb_multiple_anonymous := m; xb_errs := [] |}.

Lemma xt_replay_named s ts N M : XtNamedBuilt s N M -> forall f m,
  fold_left (xb_definition s ts) N (xt_state None [] f m) = xt_state None M f m.
Proof.
  induction 1 as [|L M o n v di sl op HB IH Hk Ho]; intros f m; [reflexivity|].
  rewrite fold_left_app, IH. cbn [fold_left xb_definition xt_state xb_doc xd_anon xd_named].
  rewrite Hk, Ho. reflexivity.
Qed.

Lemma xt_replay_frags s ts F M : XtFragsBuilt s F M -> forall a n m,
  fold_left (xb_definition s ts) F (xt_state a n [] m) = xt_state a n M m.
Proof.
  induction 1 as [|L M n c di sl f HB IH Hk Hf]; intros a nm m; [reflexivity|].
  rewrite fold_left_app, IH. cbn [fold_left xb_definition xt_state xb_doc xd_frags].
  rewrite Hk, Hf. reflexivity.
Qed.

Lemma xt_named_built_nil s L : XtNamedBuilt s L [] -> L = [].
Proof. inversion 1 as [|L' M o n v di sl op _ _ _ HL HM]; [reflexivity|]. now destruct M. Qed.

(* an error-free build is reproduced when the printed AST is built again *)
Theorem xb_second_round_full s ts a d :
  xs_closed s -> xb_document s ts a = (d, []) -> xb_document s ts (xt_doc d) = (d, []).
Proof.
  intros Hcl H. rewrite (xb_document_to_ast _ _ _ _ Hcl H).
  unfold xb_document in H. injection H as Hd He.
  destruct (xb_fold_facts s ts a [] xb_init He) as (Fa & Fn & Ff & Fan).
  { unfold xt_facts. cbn. repeat split; try constructor; auto. }
  cbn [app] in *. rewrite Hd in *.
  unfold xb_document, xt_reorder. rewrite !fold_left_app.
  change xb_init with (xt_state None [] [] false).
  destruct d as [anon named frags]. cbn [xd_anon xd_named xd_frags] in *.
  destruct Fa as [[-> ->]|(o & v & di & sl & op & -> & Ho & ->)].
  - cbn [fold_left]. rewrite (xt_replay_named _ _ _ _ Fn), (xt_replay_frags _ _ _ _ Ff). reflexivity.
  - rewrite (Fan ltac:(discriminate)) in *. apply xt_named_built_nil in Fn. rewrite Fn.
    cbn [fold_left xb_definition xt_state xb_doc xd_anon xd_named xb_is_nil negb]. rewrite Ho.
    change (xb_with_doc _ _) with (xt_state (Some op) [] [] false).
    rewrite (xt_replay_frags _ _ _ _ Ff). reflexivity.
Qed.
