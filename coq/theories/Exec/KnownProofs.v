(* C17: the classes repaired in validation/value.rs (fixes/fix-c17.patch, fixes/fix2-c17-2.patch) and
   validation/operation.rs (fixes/fix2-c17-1.patch), on their witnesses: the specification's verdict, which the
   repaired code now gives, against the deviation as it was (Known.v: xk_old_r_variables_defined,
   xk_old_r_values_correct_type, xk_old_r_subscription_single_root, xk_old_r_subscription_no_skip_include,
   xk_old_r_variable_usages_allowed). *)
From ApolloVerif Require Import Base.Chars Ast.Ast Schema.Model Exec.Compat Exec.Valid Exec.ValidProofs Exec.Known.

Definition kx_Q : str := [81]. Definition kx_f : str := [102]. Definition kx_j : str := [106].
Definition kx_a : str := [97]. Definition kx_v : str := [118]. Definition kx_u : str := [117].
Definition kx_JSON : str := [74; 83; 79; 78].

(* scalar JSON  scalar Int  type Query { f(j: <t>): Int } *)
Definition kx_schema (t : ty) : schema :=
  {| sch_def := {| sd_desc := None; sd_dirs := []; sd_query := Some (mkcomp ODef kx_Q); sd_mutation := None;
                   sd_subscription := None |};
     sch_dirdefs := [];
     sch_types :=
       [ EScalar None xs_Int [] true;
         EScalar None kx_JSON [] false;
         EObject None kx_Q [] []
           [ mkcomp ODef {| fd_desc := None; fd_name := kx_f;
                            fd_args := [ {| iv_desc := None; iv_name := kx_j; iv_ty := t;
                                            iv_default := None; iv_dirs := [] |} ];
                            fd_ty := TNamed xs_Int; fd_dirs := [] |} ] false ] |}.

(* query <vars> { f(j: <v>) } *)
Definition kx_doc (vars : list vardef) (v : value) : document :=
  [ DOperation OpQuery None vars [] [ SField None kx_f [ (kx_j, v) ] [] [] ] ].
Definition kx_var (t : ty) : vardef := {| v_name := kx_v; v_ty := t; v_default := None; v_dirs := [] |}.

(* `{ f(j: {a: $u}) }` with `j: JSON`: $u is not defined (5.8.3); the old walk did not look there.
   `{ f(j: [null]) }` with `j: JSON!`: valid (3.5.6); the old item check rejected it. *)
Lemma kx_old_refuted :
  (exists s d, xv_r_variables_defined s d = false /\ xv_exec_valid xv_apollo_params s d = false /\
               xk_old_r_variables_defined s d = true) /\
  (exists s d, xv_exec_valid xv_apollo_params s d = true /\ xk_old_r_values_correct_type s d = false).
Proof.
  split.
  - exists (kx_schema (TNamed kx_JSON)), (kx_doc [] (VObject [(kx_a, VVar kx_u)])).
    vm_compute. repeat split.
  - exists (kx_schema (TNonNullNamed kx_JSON)), (kx_doc [] (VList [VNull])).
    vm_compute. repeat split.
Qed.

(* neighbours, by the specification (and the repaired code): a defined variable inside the object is fine; an
   undefined one inside a list written for the scalar is reported as before; `[$v]` with a nullable `$v: JSON`
   is a value of `JSON!` like `[null]`; `null` itself is not;
   `[[null]]` is a value of `[JSON!]` (the old item check rejected it too) *)
Lemma kx_neighbours :
  xv_exec_valid xv_apollo_params (kx_schema (TNamed kx_JSON))
    (kx_doc [kx_var (TNamed xs_Int)] (VObject [(kx_a, VVar kx_v)])) = true /\
  xv_r_variables_defined (kx_schema (TNamed kx_JSON)) (kx_doc [] (VList [VVar kx_u])) = false /\
  xv_exec_valid xv_apollo_params (kx_schema (TNonNullNamed kx_JSON))
    (kx_doc [kx_var (TNamed kx_JSON)] (VList [VVar kx_v])) = true /\
  xv_r_variable_usages_allowed (kx_schema (TNonNullNamed kx_JSON))
    (kx_doc [kx_var (TNamed kx_JSON)] (VVar kx_v)) = false /\
  xv_r_values_correct_type (kx_schema (TNonNullNamed kx_JSON)) (kx_doc [] VNull) = false /\
  xv_exec_valid xv_apollo_params (kx_schema (TList (TNonNullNamed kx_JSON))) (kx_doc [] (VList [VList [VNull]])) = true /\
  xk_old_r_values_correct_type (kx_schema (TList (TNonNullNamed kx_JSON))) (kx_doc [] (VList [VList [VNull]])) = false.
Proof. vm_compute. repeat split. Qed.

(* ------------------------------------------------------------------------------------------------ *)
(* subscription root fields and type conditions (fixes/fix2-c17-1.patch) *)
Definition kx_I : str := [73]. Definition kx_O : str := [79]. Definition kx_S : str := [83].
Definition kx_b : str := [98]. Definition kx_c : str := [99]. Definition kx_q : str := [113].
Definition kx_F : str := [70].
Definition kx_fd (n : str) : comp fielddef :=
  mkcomp ODef {| fd_desc := None; fd_name := n; fd_args := []; fd_ty := TNamed xs_Int; fd_dirs := [] |}.
Definition kx_skip_dd : dirdef :=
  {| dd_desc := None; dd_name := xs_skip;
     dd_args := [ {| iv_desc := None; iv_name := xs_if; iv_ty := TNonNullNamed xs_Boolean; iv_default := None;
                     iv_dirs := [] |} ];
     dd_repeatable := false; dd_locs := [LField; LFragmentSpread; LInlineFragment]; dd_builtin := true |}.

(* interface I { a: Int }  type S implements I { a: Int b: Int }  type O implements I { a: Int c: Int }
   type Q { q: Int }  schema { query: Q subscription: S } *)
Definition kx_sub_schema : schema :=
  {| sch_def := {| sd_desc := None; sd_dirs := []; sd_query := Some (mkcomp ODef kx_Q); sd_mutation := None;
                   sd_subscription := Some (mkcomp ODef kx_S) |};
     sch_dirdefs := [kx_skip_dd];
     sch_types :=
       [ EScalar None xs_Int [] true; EScalar None xs_Boolean [] true;
         EInterface None kx_I [] [] [ kx_fd kx_a ] false;
         EObject None kx_S [mkcomp ODef kx_I] [] [ kx_fd kx_a; kx_fd kx_b ] false;
         EObject None kx_O [mkcomp ODef kx_I] [] [ kx_fd kx_a; kx_fd kx_c ] false;
         EObject None kx_Q [] [] [ kx_fd kx_q ] false ] |}.

Definition kx_sub (sels : list selection) : definition := DOperation OpSubscription None [] [] sels.
Definition kx_leaf (n : str) (dirs : list directive) : selection := SField None n [] dirs [].
Definition kx_skip_true : directive := {| d_name := xs_skip; d_args := [ (xs_if, VBool true) ] |}.

(* `subscription { b ... on I { ... on O { c } } }`: CollectFields on the root type S enters `... on I` (S
   implements I) and skips `... on O`: one root field, valid; the old walk counted `c` as a second root field.
   `subscription { b ... on I { ...F } }  fragment F on O { c @skip(if: true) }`: F does not apply to S: valid (with apollo's
   rule against @skip/@include at the root too); the old walk counted `c` and reported its @skip. *)
Lemma kx_subscription_old_refuted :
  (exists s d, xv_exec_valid xv_apollo_params s d = true /\
               xk_old_r_subscription_single_root xv_apollo_params s d = false) /\
  (exists s d, xv_exec_valid xv_apollo_params s d = true /\
               xk_old_r_subscription_single_root xv_apollo_params s d = false /\
               xk_old_r_subscription_no_skip_include xv_apollo_params s d = false).
Proof.
  split.
  - exists kx_sub_schema,
      [ kx_sub [ kx_leaf kx_b []; SInline (Some kx_I) [] [ SInline (Some kx_O) [] [ kx_leaf kx_c [] ] ] ] ].
    vm_compute. repeat split.
  - exists kx_sub_schema,
      [ kx_sub [ kx_leaf kx_b []; SInline (Some kx_I) [] [ SSpread kx_F [] ] ];
        DFragment kx_F kx_O [] [ kx_leaf kx_c [kx_skip_true] ] ].
    vm_compute. repeat split.
Qed.

(* neighbours, by the specification (and the repaired code): a second field under an applicable condition is
   still counted, directly (`... on I { a }` next to `b`) or through a named fragment on the root type itself;
   @skip on a field under an applicable condition, and on the inapplicable inline fragment itself, is still
   reported by apollo's rule; a repeated response key under an applicable condition is one root field *)
Lemma kx_subscription_neighbours :
  xv_r_subscription_single_root xv_apollo_params kx_sub_schema
    [ kx_sub [ kx_leaf kx_b []; SInline (Some kx_I) [] [ kx_leaf kx_a [] ] ] ] = false /\
  xv_r_subscription_single_root xv_apollo_params kx_sub_schema
    [ kx_sub [ kx_leaf kx_b []; SSpread kx_F [] ]; DFragment kx_F kx_S [] [ kx_leaf kx_a [] ] ] = false /\
  xv_r_subscription_no_skip_include xv_apollo_params kx_sub_schema
    [ kx_sub [ SInline (Some kx_I) [] [ kx_leaf kx_a [kx_skip_true] ] ] ] = false /\
  xv_r_subscription_no_skip_include xv_apollo_params kx_sub_schema
    [ kx_sub [ kx_leaf kx_b []; SInline (Some kx_O) [kx_skip_true] [ kx_leaf kx_c [] ] ] ] = false /\
  xv_exec_valid xv_apollo_params kx_sub_schema
    [ kx_sub [ kx_leaf kx_a []; SInline (Some kx_I) [] [ kx_leaf kx_a [] ] ] ] = true.
Proof. vm_compute. repeat split. Qed.

(* ------------------------------------------------------------------------------------------------ *)
(* D12d: variables nested in list and input-object literals (fixes/fix2-c17-2.patch) *)
Definition kx_In : str := [73; 110]. Definition kx_x : str := [120]. Definition kx_y : str := [121].
Definition kx_one : value := VInt [49].
(* scalar Int  input In { x: Int!  y: Int! = 1 }  type Query { f(j: In): Int } *)
Definition kx_in_schema : schema :=
  {| sch_def := {| sd_desc := None; sd_dirs := []; sd_query := Some (mkcomp ODef kx_Q); sd_mutation := None;
                   sd_subscription := None |};
     sch_dirdefs := [];
     sch_types :=
       [ EScalar None xs_Int [] true;
         EInput None kx_In []
           [ mkcomp ODef {| iv_desc := None; iv_name := kx_x; iv_ty := TNonNullNamed xs_Int; iv_default := None;
                            iv_dirs := [] |};
             mkcomp ODef {| iv_desc := None; iv_name := kx_y; iv_ty := TNonNullNamed xs_Int;
                            iv_default := Some kx_one; iv_dirs := [] |} ] false;
         EObject None kx_Q [] []
           [ mkcomp ODef {| fd_desc := None; fd_name := kx_f;
                            fd_args := [ {| iv_desc := None; iv_name := kx_j; iv_ty := TNamed kx_In;
                                            iv_default := None; iv_dirs := [] |} ];
                            fd_ty := TNamed xs_Int; fd_dirs := [] |} ] false ] |}.
Definition kx_var_d (t : ty) (dv : option value) : vardef :=
  {| v_name := kx_v; v_ty := t; v_default := dv; v_dirs := [] |}.

(* `query($v: [Int]) { f(j: [$v]) }` with `j: [Int]`: a list where an Int is expected (5.8.5);
   `query($v: Int) { f(j: {x: $v}) }` and `query($v: Int = null) { f(j: {x: $v}) }` with `x: Int!`: a nullable
   variable in a non-null position without default.  The old test compared the named types only (Int = Int) and the
   documents validated. *)
Lemma kx_nested_variable_old_refuted :
  (exists s d, xv_r_variable_usages_allowed s d = false /\ xv_exec_valid xv_apollo_params s d = false /\
               xk_old_exec_valid_nested_variable xv_apollo_params s d = true) /\
  (exists s d, xv_r_variable_usages_allowed s d = false /\ xv_exec_valid xv_apollo_params s d = false /\
               xk_old_exec_valid_nested_variable xv_apollo_params s d = true) /\
  (exists s d, xv_r_variable_usages_allowed s d = false /\ xv_exec_valid xv_apollo_params s d = false /\
               xk_old_exec_valid_nested_variable xv_apollo_params s d = true).
Proof.
  split; [|split].
  - exists (kx_schema (TList (TNamed xs_Int))), (kx_doc [kx_var (TList (TNamed xs_Int))] (VList [VVar kx_v])).
    vm_compute. repeat split.
  - exists kx_in_schema, (kx_doc [kx_var (TNamed xs_Int)] (VObject [(kx_x, VVar kx_v)])).
    vm_compute. repeat split.
  - exists kx_in_schema, (kx_doc [kx_var_d (TNamed xs_Int) (Some VNull)] (VObject [(kx_x, VVar kx_v)])).
    vm_compute. repeat split.
Qed.

(* neighbours, by the specification (and the repaired code): an Int variable as an item of [Int]; a non-null
   variable, or a nullable one with a non-null default, for `x: Int!`; a nullable variable for `y: Int! = 1` (the
   field's default makes the usage allowed); a nullable item variable for `[Int!]` is not allowed; an Int variable
   where the input field expects a list is not allowed (no list coercion of variables) *)
Lemma kx_nested_variable_neighbours :
  xv_exec_valid xv_apollo_params (kx_schema (TList (TNamed xs_Int)))
    (kx_doc [kx_var (TNamed xs_Int)] (VList [VVar kx_v])) = true /\
  xv_exec_valid xv_apollo_params kx_in_schema
    (kx_doc [kx_var (TNonNullNamed xs_Int)] (VObject [(kx_x, VVar kx_v)])) = true /\
  xv_exec_valid xv_apollo_params kx_in_schema
    (kx_doc [kx_var_d (TNamed xs_Int) (Some kx_one)] (VObject [(kx_x, VVar kx_v)])) = true /\
  xv_exec_valid xv_apollo_params kx_in_schema
    (kx_doc [kx_var (TNamed xs_Int)] (VObject [(kx_x, kx_one); (kx_y, VVar kx_v)])) = true /\
  xv_r_variable_usages_allowed (kx_schema (TList (TNonNullNamed xs_Int)))
    (kx_doc [kx_var (TNamed xs_Int)] (VList [VVar kx_v])) = false /\
  xk_old_r_variable_usages_allowed (kx_schema (TList (TNonNullNamed xs_Int)))
    (kx_doc [kx_var (TNamed xs_Int)] (VList [VVar kx_v])) = true /\
  xv_r_variable_usages_allowed (kx_schema (TList (TList (TNamed xs_Int))))
    (kx_doc [kx_var (TNamed xs_Int)] (VList [VVar kx_v])) = false.
Proof. vm_compute. repeat split. Qed.
