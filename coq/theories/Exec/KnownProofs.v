(* C17: the two classes repaired in validation/value.rs (fixes/fix-c17.patch), on their witnesses: the
   specification's verdict, which the repaired code now gives, against the deviation as it was
   (Known.v: xk_old_r_variables_defined, xk_old_r_values_correct_type). *)
From ApolloVerif Require Import Base.Chars Ast.Ast Schema.Model Exec.Compat Exec.Valid Exec.ValidProofs Exec.Known.

Definition kx_Q : str := [81]. Definition kx_f : str := [102]. Definition kx_j : str := [106].
Definition kx_a : str := [97]. Definition kx_v : str := [118]. Definition kx_u : str := [117].
Definition kx_JSON : str := [74; 83; 79; 78].

(* scalar JSON  scalar Int  type Query { f(j: <t>): Int } *)
Definition kx_schema (t : ty) : schema :=
  {| sch_def := {| sd_desc := None; sd_dirs := []; sd_query := Some (mkcomp ODef kx_Q); sd_mutation := None;
                   sd_subscription := None |};
     sch_dirdefs := [];
     sch_types :=
       [ EScalar None xs_Int [] true;
         EScalar None kx_JSON [] false;
         EObject None kx_Q [] []
           [ mkcomp ODef {| fd_desc := None; fd_name := kx_f;
                            fd_args := [ {| iv_desc := None; iv_name := kx_j; iv_ty := t;
                                            iv_default := None; iv_dirs := [] |} ];
                            fd_ty := TNamed xs_Int; fd_dirs := [] |} ] false ] |}.

(* query <vars> { f(j: <v>) } *)
Definition kx_doc (vars : list vardef) (v : value) : document :=
  [ DOperation OpQuery None vars [] [ SField None kx_f [ (kx_j, v) ] [] [] ] ].
Definition kx_var (t : ty) : vardef := {| v_name := kx_v; v_ty := t; v_default := None; v_dirs := [] |}.

(* `{ f(j: {a: $u}) }` with `j: JSON`: $u is not defined (5.8.3); the old walk did not look there.
   `{ f(j: [null]) }` with `j: JSON!`: valid (3.5.6); the old item check rejected it. *)
Lemma kx_old_refuted :
  (exists s d, xv_r_variables_defined s d = false /\ xv_exec_valid xv_apollo_params s d = false /\
               xk_old_r_variables_defined s d = true) /\
  (exists s d, xv_exec_valid xv_apollo_params s d = true /\ xk_old_r_values_correct_type s d = false).
Proof.
  split.
  - exists (kx_schema (TNamed kx_JSON)), (kx_doc [] (VObject [(kx_a, VVar kx_u)])).
    vm_compute. repeat split.
  - exists (kx_schema (TNonNullNamed kx_JSON)), (kx_doc [] (VList [VNull])).
    vm_compute. repeat split.
Qed.

(* neighbours, by the specification (and the repaired code): a defined variable inside the object is fine; an
   undefined one inside a list written for the scalar is reported as before; `[$v]` with a nullable `$v: JSON`
   is a value of `JSON!` like `[null]`; `null` itself is not;
   `[[null]]` is a value of `[JSON!]` (the old item check rejected it too) *)
Lemma kx_neighbours :
  xv_exec_valid xv_apollo_params (kx_schema (TNamed kx_JSON))
    (kx_doc [kx_var (TNamed xs_Int)] (VObject [(kx_a, VVar kx_v)])) = true /\
  xv_r_variables_defined (kx_schema (TNamed kx_JSON)) (kx_doc [] (VList [VVar kx_u])) = false /\
  xv_exec_valid xv_apollo_params (kx_schema (TNonNullNamed kx_JSON))
    (kx_doc [kx_var (TNamed kx_JSON)] (VList [VVar kx_v])) = true /\
  xv_r_variable_usages_allowed (kx_schema (TNonNullNamed kx_JSON))
    (kx_doc [kx_var (TNamed kx_JSON)] (VVar kx_v)) = false /\
  xv_r_values_correct_type (kx_schema (TNonNullNamed kx_JSON)) (kx_doc [] VNull) = false /\
  xv_exec_valid xv_apollo_params (kx_schema (TList (TNonNullNamed kx_JSON))) (kx_doc [] (VList [VList [VNull]])) = true /\
  xk_old_r_values_correct_type (kx_schema (TList (TNonNullNamed kx_JSON))) (kx_doc [] (VList [VList [VNull]])) = false.
Proof. vm_compute. repeat split. Qed.
