(* C17: a LITERAL model of the field merging validation of crates/apollo-compiler/src/validation/selection.rs
   (the "XING" algorithm): expand_selections with its queue and one visit per named fragment,
   group_by_output_name, group_by_common_parents, the first-against-rest comparisons, same_name_and_arguments,
   same_value, same_output_type_shape, the two memo guards of MergedFieldSet with the validator's cache, and the
   depth limit FIELD_DEPTH_LIMIT.  It works on the executable document as executable/from_ast.rs builds it
   (mx_from_ast: undefined fields, leaf fields with sub-selections and inline fragments on undefined types are
   dropped).  Separate from the specification's FieldsInSetCanMerge (Exec/Valid.v).  Definitions only. *)
From ApolloVerif Require Import Base.Chars Ast.Ast Schema.Model Exec.Valid.

(* ---------- executable::{Selection, Field, InlineFragment, SelectionSet} ---------- *)
Inductive mx_sel :=
| MxField (alias : option str) (name : str) (args : list argument) (dirs : list directive)
          (def : fielddef) (sub_ty : str) (sub : list mx_sel)      (* selection_set = { ty: sub_ty, selections: sub } *)
| MxSpread (name : str) (dirs : list directive)
| MxInline (cond : option str) (dirs : list directive) (sub_ty : str) (sub : list mx_sel).

(* a SelectionSet *)
Definition mx_set := (str * list mx_sel)%type.

(* SelectionSet::extend_from_ast with a schema *)
Fixpoint mx_from_ast_sel (s : schema) (ty : str) (x : selection) {struct x} : list mx_sel :=
  match x with
  | SField a n args dirs sub =>
      match xv_lookup_field s ty n with                         (* schema.type_field(&self.ty, &ast.name) *)
      | Some fd =>
          let type_name := inner_named_type (fd_ty fd) in
          let leaf := xv_is_nil sub in
          match sch_get_type s type_name with
          | Some (EScalar _ _ _ _) | Some (EEnum _ _ _ _ _) =>
              if leaf then [MxField a n args dirs fd type_name []] else []     (* SubselectionOnScalarType / EnumType *)
          | _ => [MxField a n args dirs fd type_name (flat_map (mx_from_ast_sel s type_name) sub)]
          end
      | None => []                                              (* UndefinedField, or an unknown parent type *)
      end
  | SSpread n dirs => [MxSpread n dirs]
  | SInline c dirs sub =>
      match c with
      | Some c' =>
          if xv_is_some (sch_get_type s c') then [MxInline c dirs c' (flat_map (mx_from_ast_sel s c') sub)]
          else []                                               (* UndefinedTypeInInlineFragmentTypeCondition *)
      | None => [MxInline c dirs ty (flat_map (mx_from_ast_sel s ty) sub)]
      end
  end.
Definition mx_from_ast (s : schema) (ty : str) (sels : list selection) : list mx_sel :=
  flat_map (mx_from_ast_sel s ty) sels.

(* document.fragments: an IndexMap, the first definition of a name is kept; a fragment whose type condition is
   not defined is not inserted *)
Fixpoint mx_fragments (s : schema) (fr : list (str * xv_frag)) (acc : list (str * mx_set)) : list (str * mx_set) :=
  match fr with
  | [] => acc
  | (n, f) :: r =>
      if xv_is_some (xv_assoc n acc) then mx_fragments s r acc
      else if xv_is_some (sch_get_type s (xv_frag_cond f))
           then mx_fragments s r (acc ++ [(n, (xv_frag_cond f, mx_from_ast s (xv_frag_cond f) (xv_frag_sels f)))])
           else mx_fragments s r acc
  end.

(* ---------- FieldSelection { parent_type, field } ---------- *)
Record mx_fs := { mf_parent : str; mf_alias : option str; mf_name : str; mf_args : list argument;
                  mf_dirs : list directive; mf_def : fielddef; mf_sub_ty : str; mf_sub : list mx_sel }.
Definition mx_response_key (f : mx_fs) : str := match mf_alias f with Some a => a | None => mf_name f end.

(* ---------- expand_selections ---------- *)
(* one selection set popped from the queue: fields are emitted, inline fragments and (new) named fragments are
   pushed to the back of the queue *)
Fixpoint mx_expand_set (frags : list (str * mx_set)) (ty : str) (sels : list mx_sel)
    (queue : list mx_set) (seen : list str) : list mx_fs * list mx_set * list str :=
  match sels with
  | [] => ([], queue, seen)
  | x :: r =>
      match x with
      | MxField a n args dirs def sty sub =>
          let '(out, q, sn) := mx_expand_set frags ty r queue seen in
          ({| mf_parent := ty; mf_alias := a; mf_name := n; mf_args := args; mf_dirs := dirs; mf_def := def;
              mf_sub_ty := sty; mf_sub := sub |} :: out, q, sn)
      | MxInline _ _ sty sub => mx_expand_set frags ty r (queue ++ [(sty, sub)]) seen
      | MxSpread n _ =>
          if xv_mem n seen then mx_expand_set frags ty r queue seen
          else match xv_assoc n frags with
               | Some set => mx_expand_set frags ty r (queue ++ [set]) (n :: seen)
               | None => mx_expand_set frags ty r queue (n :: seen)
               end
      end
  end.

(* `while let Some(next_set) = queue.pop_front()`; fuel: one unit per set popped; None = out of fuel *)
Fixpoint mx_expand_loop (fuel : nat) (frags : list (str * mx_set)) (queue : list mx_set) (seen : list str)
    : option (list mx_fs) :=
  match queue with
  | [] => Some []
  | (ty, sels) :: rest =>
      match fuel with
      | O => None
      | S fuel' =>
          let '(out, q, sn) := mx_expand_set frags ty sels rest seen in
          match mx_expand_loop fuel' frags q sn with
          | Some more => Some (out ++ more)
          | None => None
          end
      end
  end.

(* the number of selection sets a walk can ever enqueue is bounded by the sets written in the document *)
Fixpoint mx_sel_size (x : mx_sel) : nat :=
  match x with
  | MxField _ _ _ _ _ _ sub | MxInline _ _ _ sub => S (fold_right (fun y m => mx_sel_size y + m)%nat O sub)
  | MxSpread _ _ => 1%nat
  end.
Definition mx_set_size (st : mx_set) : nat := S (fold_right (fun y m => mx_sel_size y + m)%nat O (snd st)).
Definition mx_expand_fuel (frags : list (str * mx_set)) (sets : list mx_set) : nat :=
  S (fold_right (fun st m => mx_set_size st + m)%nat O (sets ++ map snd frags)).

Definition mx_expand (frags : list (str * mx_set)) (sets : list mx_set) : option (list mx_fs) :=
  mx_expand_loop (mx_expand_fuel frags sets) frags sets [].

(* ---------- same_value, same_name_and_arguments ---------- *)
Fixpoint mx_nat_eqb (a b : nat) : bool :=
  match a, b with O, O => true | S a', S b' => mx_nat_eqb a' b' | _, _ => false end.
Fixpoint mx_same_value (left right : value) {struct left} : bool :=
  match left, right with
  | VNull, VNull => true
  | VEnum l, VEnum r | VVar l, VVar r | VString l, VString r | VFloat l, VFloat r | VInt l, VInt r => streq l r
  | VBool l, VBool r => Bool.eqb l r
  | VList l, VList r =>
      mx_nat_eqb (length l) (length r)                                      (* `if left.len() == right.len()` *)
      && (fix zip_all (l r : list value) {struct l} : bool :=
            match l, r with
            | x :: l', y :: r' => mx_same_value x y && zip_all l' r'
            | _, _ => true                                                 (* zip stops at the shorter *)
            end) l r
  | VObject l, VObject r =>
      mx_nat_eqb (length l) (length r)
      && forallb (fun kv => match kv with
                            | (key, v) =>
                                match find (fun okv => streq key (fst okv)) r with       (* .find(|(other_key, _)| key == other_key) *)
                                | Some (_, other_value) => mx_same_value v other_value    (* .is_some_and(...) *)
                                | None => false
                                end
                            end) l
  | _, _ => false
  end.

(* same_value before commit 04e5313 (DESIGN.md D12a): lists are zipped without comparing their lengths.
   Kept only for C17_same_value_old_refuted; not extracted, not tied. *)
Fixpoint mx_same_value_old (left right : value) {struct left} : bool :=
  match left, right with
  | VNull, VNull => true
  | VEnum l, VEnum r | VVar l, VVar r | VString l, VString r | VFloat l, VFloat r | VInt l, VInt r => streq l r
  | VBool l, VBool r => Bool.eqb l r
  | VList l, VList r =>
      (fix zip_all (l r : list value) {struct l} : bool :=
         match l, r with
         | x :: l', y :: r' => mx_same_value_old x y && zip_all l' r'
         | _, _ => true
         end) l r
  | VObject l, VObject r =>
      mx_nat_eqb (length l) (length r)
      && forallb (fun kv => match kv with
                            | (key, v) =>
                                match find (fun okv => streq key (fst okv)) r with
                                | Some (_, other_value) => mx_same_value_old v other_value
                                | None => false
                                end
                            end) l
  | _, _ => false
  end.

(* ArgumentLookup::by_name (the List variant: at most 20 arguments; with more the code uses a HashMap, which
   differs only when an argument name is repeated) *)
Definition mx_by_name (args : list argument) (n : str) : option argument :=
  find (fun a => streq (fst a) n) args.

(* Ok(()) = true *)
Definition mx_same_name_and_arguments (a b : mx_fs) : bool :=
  if negb (streq (mf_name a) (mf_name b)) then false
  else
    forallb (fun arg => match mx_by_name (mf_args b) (fst arg) with
                        | None => false
                        | Some other_arg => mx_same_value (snd other_arg) (snd arg)
                        end) (mf_args a)
    && forallb (fun arg => xv_is_some (mx_by_name (mf_args a) (fst arg))) (mf_args b).

(* ---------- same_output_type_shape ---------- *)
Definition mx_is_named (t : ty) : bool := match t with TNamed _ | TNonNullNamed _ => true | _ => false end.

(* the `while !type_a.is_named() || !type_b.is_named()` loop; None = mismatch *)
Fixpoint mx_unwrap_lists (a b : ty) {struct a} : option (ty * ty) :=
  match a, b with
  | TList a', TList b' | TNonNullList a', TNonNullList b' => mx_unwrap_lists a' b'
  | (TList _ | TNonNullList _), _ | _, (TList _ | TNonNullList _) => None
  | _, _ => Some (a, b)
  end.

Definition mx_scalar_or_enum (t : ext_type) : bool := xv_is_leaf t.

Definition mx_same_output_type_shape (s : schema) (a b : mx_fs) : bool :=
  match mx_unwrap_lists (fd_ty (mf_def a)) (fd_ty (mf_def b)) with
  | None => false
  | Some (ta, tb) =>
      match ta, tb with
      | TNonNullNamed na, TNonNullNamed nb | TNamed na, TNamed nb =>
          match sch_get_type s na, sch_get_type s nb with
          | Some da, Some db =>
              if mx_scalar_or_enum da && mx_scalar_or_enum db then streq (et_name da) (et_name db)   (* def_a == def_b *)
              else xv_is_composite da && xv_is_composite db
          | _, _ => true                                           (* "Cannot do much if we don't know the type" *)
          end
      | _, _ => false
      end
  end.

(* ---------- group_by_output_name, group_by_common_parents ---------- *)
(* IndexMap<Name, Vec<_>>: entry(key).or_default().push(selection), keys in first-insertion order *)
Fixpoint mx_group_insert (k : str) (f : mx_fs) (groups : list (str * list mx_fs)) : list (str * list mx_fs) :=
  match groups with
  | [] => [(k, [f])]
  | (k', l) :: r => if streq k k' then (k', l ++ [f]) :: r else (k', l) :: mx_group_insert k f r
  end.
Definition mx_group_by_output_name (fields : list mx_fs) : list (str * list mx_fs) :=
  fold_left (fun g f => mx_group_insert (mx_response_key f) f g) fields [].

Definition mx_group_by_common_parents (s : schema) (fields : list mx_fs) : list (list mx_fs) :=
  let abstract_parents :=
    filter (fun f => match sch_get_type s (mf_parent f) with
                     | Some (EInterface _ _ _ _ _ _) | Some (EUnion _ _ _ _ _) => true
                     | _ => false
                     end) fields in
  let concrete_parents :=
    fold_left (fun g f => match sch_get_type s (mf_parent f) with
                          | Some (EObject _ name _ _ _ _) => mx_group_insert name f g
                          | _ => g
                          end) fields [] in
  match concrete_parents with
  | [] => [abstract_parents]
  | _ => map (fun g => snd g ++ abstract_parents) concrete_parents
  end.

(* ---------- the cache of MergedFieldSets with their two OnceBool guards ---------- *)
(* equality of field selections as the cache key compares them (parent type and the field node; the field's
   definition and the type of its selection set are functions of (parent type, name) and are not compared) *)
Fixpoint mx_value_eqb (a b : value) {struct a} : bool :=
  match a, b with
  | VNull, VNull => true
  | VEnum x, VEnum y | VVar x, VVar y | VString x, VString y | VFloat x, VFloat y | VInt x, VInt y => streq x y
  | VBool x, VBool y => Bool.eqb x y
  | VList la, VList lb =>
      (fix go (la lb : list value) {struct la} : bool :=
         match la, lb with
         | [], [] => true
         | x :: la', y :: lb' => mx_value_eqb x y && go la' lb'
         | _, _ => false
         end) la lb
  | VObject fa, VObject fb =>
      (fix go (fa fb : list (str * value)) {struct fa} : bool :=
         match fa, fb with
         | [], [] => true
         | (k, x) :: fa', (k', y) :: fb' => streq k k' && mx_value_eqb x y && go fa' fb'
         | _, _ => false
         end) fa fb
  | _, _ => false
  end.
Fixpoint mx_list_eqb {A} (eqb : A -> A -> bool) (a b : list A) : bool :=
  match a, b with
  | [], [] => true
  | x :: a', y :: b' => eqb x y && mx_list_eqb eqb a' b'
  | _, _ => false
  end.
Definition mx_opt_eqb (a b : option str) : bool :=
  match a, b with Some x, Some y => streq x y | None, None => true | _, _ => false end.
Definition mx_arg_eqb (a b : argument) : bool := streq (fst a) (fst b) && mx_value_eqb (snd a) (snd b).
Definition mx_dir_eqb (a b : directive) : bool :=
  streq (d_name a) (d_name b) && mx_list_eqb mx_arg_eqb (d_args a) (d_args b).
Fixpoint mx_sel_eqb (a b : mx_sel) {struct a} : bool :=
  match a, b with
  | MxField al n args dirs _ _ sub, MxField al' n' args' dirs' _ _ sub' =>
      mx_opt_eqb al al' && streq n n' && mx_list_eqb mx_arg_eqb args args' && mx_list_eqb mx_dir_eqb dirs dirs'
      && (fix go (x y : list mx_sel) {struct x} : bool :=
            match x, y with
            | [], [] => true
            | u :: x', v :: y' => mx_sel_eqb u v && go x' y'
            | _, _ => false
            end) sub sub'
  | MxSpread n dirs, MxSpread n' dirs' => streq n n' && mx_list_eqb mx_dir_eqb dirs dirs'
  | MxInline c dirs _ sub, MxInline c' dirs' _ sub' =>
      mx_opt_eqb c c' && mx_list_eqb mx_dir_eqb dirs dirs'
      && (fix go (x y : list mx_sel) {struct x} : bool :=
            match x, y with
            | [], [] => true
            | u :: x', v :: y' => mx_sel_eqb u v && go x' y'
            | _, _ => false
            end) sub sub'
  | _, _ => false
  end.
Definition mx_fs_eqb (a b : mx_fs) : bool :=
  streq (mf_parent a) (mf_parent b) && mx_opt_eqb (mf_alias a) (mf_alias b) && streq (mf_name a) (mf_name b)
  && mx_list_eqb mx_arg_eqb (mf_args a) (mf_args b) && mx_list_eqb mx_dir_eqb (mf_dirs a) (mf_dirs b)
  && mx_list_eqb mx_sel_eqb (mf_sub a) (mf_sub b).

(* a cache entry: the key and the two guards (same_response_shape_guard, same_for_common_parents_guard) *)
Record mx_entry := { me_key : list mx_fs; me_shape_done : bool; me_parents_done : bool }.

(* the validator: cache, whether a diagnostic was pushed, recursion_limit.high *)
Record mx_state := { mx_cache : list mx_entry; mx_ok : bool; mx_high : nat }.

(* FieldsInSetCanMerge::lookup: entry(selections).or_insert_with(new) *)
Fixpoint mx_cache_find (key : list mx_fs) (c : list mx_entry) : option mx_entry :=
  match c with
  | [] => None
  | e :: r => if mx_list_eqb mx_fs_eqb key (me_key e) then Some e else mx_cache_find key r
  end.
Fixpoint mx_cache_set (e : mx_entry) (c : list mx_entry) : list mx_entry :=
  match c with
  | [] => [e]
  | e' :: r => if mx_list_eqb mx_fs_eqb (me_key e) (me_key e') then e :: r else e' :: mx_cache_set e r
  end.
Definition mx_lookup (st : mx_state) (key : list mx_fs) : mx_state * mx_entry :=
  match mx_cache_find key (mx_cache st) with
  | Some e => (st, e)
  | None =>
      let e := {| me_key := key; me_shape_done := false; me_parents_done := false |} in
      ({| mx_cache := mx_cache st ++ [e]; mx_ok := mx_ok st; mx_high := mx_high st |}, e)
  end.
Definition mx_set_entry (st : mx_state) (e : mx_entry) : mx_state :=
  {| mx_cache := mx_cache_set e (mx_cache st); mx_ok := mx_ok st; mx_high := mx_high st |}.
Definition mx_and_ok (st : mx_state) (b : bool) : mx_state :=
  {| mx_cache := mx_cache st; mx_ok := mx_ok st && b; mx_high := mx_high st |}.

Definition mx_field_depth_limit : nat := 128.           (* FIELD_DEPTH_LIMIT *)

(* the non-empty nested selection sets of a group *)
Definition mx_nested_sets (group : list mx_fs) : list mx_set :=
  map (fun f => (mf_sub_ty f, mf_sub f)) (filter (fun f => negb (xv_is_nil (mf_sub f))) group).

(* first against rest *)
Definition mx_first_vs_rest (rel : mx_fs -> mx_fs -> bool) (group : list mx_fs) : bool :=
  match group with
  | [] => true
  | field_a :: rest => forallb (rel field_a) rest
  end.

(* LimitTracker::check_and_increment on entering the validator's wrapper at `depth` = current:
   current + 1 becomes the new high water mark if larger; "reached" if it exceeds the limit *)
Definition mx_enter (st : mx_state) (depth : nat) : mx_state * bool :=
  let cur := S depth in
  ({| mx_cache := mx_cache st; mx_ok := mx_ok st; mx_high := Nat.max (mx_high st) cur |},
   Nat.ltb mx_field_depth_limit cur).

(* MergedFieldSet::same_response_shape_by_name for the set with key `fields`, called at recursion depth `depth`.
   `fuel` bounds the nesting; the depth limit stops the recursion long before (fuel is limit + 2 - depth).
   None = out of fuel, or expand_selections out of fuel. *)
Fixpoint mx_shape (fuel : nat) (s : schema) (frags : list (str * mx_set)) (depth : nat) (st : mx_state)
    (fields : list mx_fs) {struct fuel} : option mx_state :=
  match fuel with
  | O => None
  | S fuel' =>
      let '(st, e) := mx_lookup st fields in
      if me_shape_done e then Some st                                  (* already_done() *)
      else
        let st := mx_set_entry st {| me_key := me_key e; me_shape_done := true; me_parents_done := me_parents_done e |} in
        (fix groups (st : mx_state) (gs : list (str * list mx_fs)) {struct gs} : option mx_state :=
           match gs with
           | [] => Some st
           | (_, fields_for_name) :: gs' =>
               let st := mx_and_ok st (mx_first_vs_rest (mx_same_output_type_shape s) fields_for_name) in
               let nested := mx_nested_sets fields_for_name in
               match nested with
               | [] => groups st gs'
               | _ =>
                   match mx_expand frags nested with
                   | None => None
                   | Some merged =>
                       (* validator.same_response_shape_by_name(merged_set, ..) *)
                       let '(st, reached) := mx_enter st depth in
                       if reached then groups st gs'
                       else match mx_shape fuel' s frags (S depth) st merged with
                            | Some st => groups st gs'
                            | None => None
                            end
                   end
               end
           end) st (mx_group_by_output_name fields)
  end.

(* MergedFieldSet::same_for_common_parents_by_name *)
Fixpoint mx_parents (fuel : nat) (s : schema) (frags : list (str * mx_set)) (depth : nat) (st : mx_state)
    (fields : list mx_fs) {struct fuel} : option mx_state :=
  match fuel with
  | O => None
  | S fuel' =>
      let '(st, e) := mx_lookup st fields in
      if me_parents_done e then Some st
      else
        let st := mx_set_entry st {| me_key := me_key e; me_shape_done := me_shape_done e; me_parents_done := true |} in
        (fix groups (st : mx_state) (gs : list (str * list mx_fs)) {struct gs} : option mx_state :=
           match gs with
           | [] => Some st
           | (_, fields_for_name) :: gs' =>
               let '(st, _) := mx_lookup st fields_for_name in          (* validator.lookup(fields_for_name) *)
               match
                 (fix pgroups (st : mx_state) (ps : list (list mx_fs)) {struct ps} : option mx_state :=
                    match ps with
                    | [] => Some st
                    | fields_for_parents :: ps' =>
                        let st := mx_and_ok st (mx_first_vs_rest mx_same_name_and_arguments fields_for_parents) in
                        match mx_nested_sets fields_for_parents with
                        | [] => pgroups st ps'
                        | nested =>
                            match mx_expand frags nested with
                            | None => None
                            | Some merged =>
                                let '(st, reached) := mx_enter st depth in
                                if reached then pgroups st ps'
                                else match mx_parents fuel' s frags (S depth) st merged with
                                     | Some st => pgroups st ps'
                                     | None => None
                                     end
                            end
                        end
                    end) st (mx_group_by_common_parents s fields_for_name)
               with
               | Some st => groups st gs'
               | None => None
               end
           end) st (mx_group_by_output_name fields)
  end.

Definition mx_fuel : nat := 131.             (* FIELD_DEPTH_LIMIT + 3 *)

(* FieldsInSetCanMerge::validate_operation *)
Definition mx_validate_operation (s : schema) (frags : list (str * mx_set)) (st : mx_state) (root : mx_set)
    : option mx_state :=
  match mx_expand frags [root] with
  | None => None
  | Some fields =>
      match mx_shape mx_fuel s frags 0 st fields with
      | None => None
      | Some st =>
          match mx_parents mx_fuel s frags 0 st fields with
          | None => None
          | Some st => Some (mx_and_ok st (negb (Nat.ltb mx_field_depth_limit (mx_high st))))   (* RecursionLimitError *)
          end
      end
  end.

(* validate_with_schema: one validator for all operations of the document (operations whose root type is not
   defined are not in the executable document) *)
Definition mx_initial : mx_state := {| mx_cache := []; mx_ok := true; mx_high := 0 |}.
Definition mx_document_ok (s : schema) (d : document) : option bool :=
  let frags := mx_fragments s (xv_frags d) [] in
  option_map mx_ok
    (fold_left (fun st o =>
                  match st with
                  | None => None
                  | Some st =>
                      match xv_root s (xo_type o) with
                      | Some root => mx_validate_operation s frags st (root, mx_from_ast s root (xo_sels o))
                      | None => Some st
                      end
                  end) (xv_ops d) (Some mx_initial)).
