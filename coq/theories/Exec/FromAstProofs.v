(* Proofs about Exec/FromAst.v: every node of the built document is typed as C18 says (valid or not). *)
From ApolloVerif Require Import Base.Chars Ast.Ast Schema.Model Exec.Doc Exec.FromAst.

(* ---------------------------------------------------------------- induction over nested selections *)

Section SelectionInd.
  Context (P : selection -> Prop).
  Context (HF : forall alias name args dirs sub, Forall P sub -> P (SField alias name args dirs sub)).
  Context (HS : forall name dirs, P (SSpread name dirs)).
  Context (HI : forall cond dirs sub, Forall P sub -> P (SInline cond dirs sub)).
  Fixpoint selection_ind' (x : selection) : P x :=
    match x with
    | SField a n ar d sub =>
        HF a n ar d sub
           ((fix go (l : list selection) : Forall P l :=
               match l with
               | [] => Forall_nil P
               | y :: r => Forall_cons y (selection_ind' y) (go r)
               end) sub)
    | SSpread n d => HS n d
    | SInline c d sub =>
        HI c d sub
           ((fix go (l : list selection) : Forall P l :=
               match l with
               | [] => Forall_nil P
               | y :: r => Forall_cons y (selection_ind' y) (go r)
               end) sub)
    end.
End SelectionInd.

Section XselInd.
  Context (P : xsel -> Prop).
  Context (HF : forall def alias name args dirs ty sub, Forall P sub -> P (XsField def alias name args dirs ty sub)).
  Context (HS : forall name dirs, P (XsSpread name dirs)).
  Context (HI : forall cond dirs ty sub, Forall P sub -> P (XsInline cond dirs ty sub)).
  Fixpoint xsel_ind' (x : xsel) : P x :=
    match x with
    | XsField df a n ar d ty sub =>
        HF df a n ar d ty sub
           ((fix go (l : list xsel) : Forall P l :=
               match l with
               | [] => Forall_nil P
               | y :: r => Forall_cons y (xsel_ind' y) (go r)
               end) sub)
    | XsSpread n d => HS n d
    | XsInline c d ty sub =>
        HI c d ty sub
           ((fix go (l : list xsel) : Forall P l :=
               match l with
               | [] => Forall_nil P
               | y :: r => Forall_cons y (xsel_ind' y) (go r)
               end) sub)
    end.
End XselInd.

(* ---------------------------------------------------------------- the typing statement of C18 *)

(* what `definition` must be for a field `name` selected on a selection set of type `pty` *)
Definition xw_def_ok (s : option schema) (pty name : str) (def : fielddef) : Prop :=
  match s with
  | Some sc => xs_type_field sc pty name = XtfOk def
  | None => def = xd_unknown_def name
  end.

(* `XwSel s pty x`: the selection x, sitting in a selection set of type pty, and everything below it, is
   typed consistently: a field carries type_field(pty, name) and its selection set is typed by the inner
   named type of that definition; an inline fragment's selection set is typed by its type condition, or
   by pty when it has none. *)
Inductive XwSel (s : option schema) : str -> xsel -> Prop :=
| XwField pty def alias name args dirs sub :
    xw_def_ok s pty name def ->
    Forall (XwSel s (inner_named_type (fd_ty def))) sub ->
    XwSel s pty (XsField def alias name args dirs (inner_named_type (fd_ty def)) sub)
| XwSpread pty name dirs : XwSel s pty (XsSpread name dirs)
| XwInlineCond pty tc dirs sub :
    Forall (XwSel s tc) sub -> XwSel s pty (XsInline (Some tc) dirs tc sub)
| XwInlineNoCond pty dirs sub :
    Forall (XwSel s pty) sub -> XwSel s pty (XsInline None dirs pty sub).

(* an operation is typed by the schema's root operation type (the default name without a schema) and
   comes from an operation definition of the AST with the same head *)
Definition XwOp (s : option schema) (a : document) (o : xop) : Prop :=
  match s with
  | Some sc => xs_root_operation sc (xo_type o) = Some (xo_ty o)
  | None => xo_ty o = xs_default_root (xo_type o)
  end
  /\ Forall (XwSel s (xo_ty o)) (xo_sels o)
  /\ exists sels, In (DOperation (xo_type o) (xo_name o) (xo_vars o) (xo_dirs o) sels) a.

(* a fragment is typed by its type condition, which (with a schema) is a type of the schema *)
Definition XwFrag (s : option schema) (a : document) (f : xfrag) : Prop :=
  match s with
  | Some sc => sch_get_type sc (xf_ty f) <> None
  | None => True
  end
  /\ Forall (XwSel s (xf_ty f)) (xf_sels f)
  /\ exists sels, In (DFragment (xf_name f) (xf_ty f) (xf_dirs f) sels) a.

Definition XwDoc (s : option schema) (a : document) (d : xdoc) : Prop :=
  Forall (XwOp s a) (xd_ops d)
  /\ Forall (fun kv => XwFrag s a (snd kv) /\ xf_name (snd kv) = fst kv) (xd_frags d)
  /\ Forall (fun kv => xo_name (snd kv) = Some (fst kv)) (xd_named d)
  /\ (forall o, xd_anon d = Some o -> xo_name o = None).

(* ---------------------------------------------------------------- selections *)

Lemma xb_collect_Forall {A B E} (f : A -> list B * list E) (Q : B -> Prop) (l : list A) :
  Forall (fun x => forall out errs, f x = (out, errs) -> Forall Q out) l ->
  forall out errs, xb_collect f l = (out, errs) -> Forall Q out.
Proof.
  induction 1 as [|x r Hx _ IH]; cbn [xb_collect]; intros out errs.
  - intros [= <- <-]. constructor.
  - destruct (f x) as [a e1] eqn:Ef. destruct (xb_collect f r) as [b e2] eqn:Er.
    intros [= <- <-]. apply Forall_app. split; [eapply Hx; reflexivity|eapply IH; reflexivity].
Qed.

Lemma xb_sel_typed s x : forall pty path out errs,
  xb_sel s pty path x = (out, errs) -> Forall (XwSel s pty) out.
Proof.
  induction x as [alias name args dirs sub IH|name dirs|cond dirs sub IH] using selection_ind';
    intros pty path out errs; cbn [xb_sel].
  - (* field *)
    set (res := match s with Some sc => xs_type_field sc pty name | None => XtfOk (xd_unknown_def name) end).
    assert (Hres : forall fd, res = XtfOk fd -> xw_def_ok s pty name fd).
    { subst res. unfold xw_def_ok. destruct s; [auto|]. intros fd [= <-]. reflexivity. }
    destruct res as [fd| |tyn]; try (intros [= <- <-]; constructor).
    specialize (Hres fd eq_refl).
    set (tn := inner_named_type (fd_ty fd)).
    assert (Hpush : forall out errs,
      (let '(subs, es) := xb_collect (xb_sel s tn (path ++ [xs_response_key alias name])) sub in
       ([XsField fd alias name args dirs tn subs], es)) = (out, errs) -> Forall (XwSel s pty) out).
    { intros o e. destruct (xb_collect _ sub) as [subs es] eqn:Ec. intros [= <- <-].
      constructor; [|constructor]. subst tn. constructor; [exact Hres|].
      eapply xb_collect_Forall; [|exact Ec].
      eapply Forall_impl; [|exact IH]. intros y Hy o' e' Hy'. eapply Hy. exact Hy'. }
    destruct (match s with Some sc => sch_get_type sc tn | None => None end) as [[| | | | |]|];
      try (apply Hpush);
      destruct (xb_is_nil sub); try (apply Hpush); intros [= <- <-]; constructor.
  - intros [= <- <-]. repeat constructor.
  - destruct cond as [tc|].
    + destruct (match s with
                | Some sc => match sch_get_type sc tc with None => true | Some _ => false end
                | None => false end).
      * intros [= <- <-]. constructor.
      * destruct (xb_collect _ sub) as [subs es] eqn:Ec. intros [= <- <-].
        constructor; [|constructor]. constructor.
        eapply xb_collect_Forall; [|exact Ec].
        eapply Forall_impl; [|exact IH]. intros y Hy o' e' Hy'. eapply Hy. exact Hy'.
    + destruct (xb_collect _ sub) as [subs es] eqn:Ec. intros [= <- <-].
      constructor; [|constructor]. constructor.
      eapply xb_collect_Forall; [|exact Ec].
      eapply Forall_impl; [|exact IH]. intros y Hy o' e' Hy'. eapply Hy. exact Hy'.
Qed.

Lemma xb_sels_typed s pty path l out errs :
  xb_sels s pty path l = (out, errs) -> Forall (XwSel s pty) out.
Proof.
  unfold xb_sels. apply xb_collect_Forall. apply Forall_forall. intros x _ o e. apply xb_sel_typed.
Qed.

(* ---------------------------------------------------------------- operations, fragments, documents *)

Lemma xb_operation_typed s o name vars dirs sels op es a :
  In (DOperation o name vars dirs sels) a ->
  xb_operation s o name vars dirs sels = Some (op, es) ->
  XwOp s a op /\ xo_name op = name.
Proof.
  intros Hin. unfold xb_operation.
  destruct (match s with Some sc => xs_root_operation sc o | None => Some (xs_default_root o) end)
    as [ty|] eqn:Ety; [|discriminate].
  destruct (xb_sels s ty [] sels) as [xs es'] eqn:Es. intros [= <- <-].
  split; [|reflexivity]. unfold XwOp. cbn [xo_type xo_ty xo_sels xo_name xo_vars xo_dirs].
  split; [|split].
  - destruct s; [exact Ety|]. now injection Ety as <-.
  - eapply xb_sels_typed. exact Es.
  - exists sels. exact Hin.
Qed.

Lemma xb_fragment_typed s name cond dirs sels f es a :
  In (DFragment name cond dirs sels) a ->
  xb_fragment s name cond dirs sels = (Some f, es) ->
  XwFrag s a f /\ xf_name f = name.
Proof.
  intros Hin. unfold xb_fragment.
  destruct (match s with
            | Some sc => match sch_get_type sc cond with None => true | Some _ => false end
            | None => false end) eqn:Eu; [discriminate|].
  destruct (xb_sels s cond [] sels) as [xs es'] eqn:Es. intros [= <- <-].
  split; [|reflexivity]. unfold XwFrag. cbn [xf_ty xf_sels xf_name xf_dirs].
  split; [|split].
  - destruct s as [sc|]; [|exact I]. destruct (sch_get_type sc cond); [discriminate|discriminate Eu].
  - eapply xb_sels_typed. exact Es.
  - exists sels. exact Hin.
Qed.

Lemma xd_ops_named anon named frags :
  xd_ops {| xd_anon := anon; xd_named := named; xd_frags := frags |}
  = match anon with Some o => [o] | None => [] end ++ map snd named.
Proof. reflexivity. Qed.

(* one step of the builder preserves the typing invariant *)
Lemma xb_definition_typed s ts a st def :
  In def a -> XwDoc s a (xb_doc st) -> XwDoc s a (xb_doc (xb_definition s ts st def)).
Proof.
  intros Hin (Hops & Hfr & Hnm & Han).
  assert (Hkeep : XwDoc s a (xb_doc st)) by (repeat split; assumption).
  destruct def; cbn [xb_definition]; try (destruct ts; exact Hkeep).
  - (* operation *)
    destruct name as [name|].
    + assert (Hst1 : xb_doc (match xd_anon (xb_doc st) with
                             | Some _ => xb_push st [XbAmbiguousAnonymous] | None => st end) = xb_doc st)
        by (destruct (xd_anon (xb_doc st)); reflexivity).
      destruct (xb_has_key name (xd_named (xb_doc st))).
      { cbn [xb_push xb_doc]. rewrite Hst1. exact Hkeep. }
      destruct (xb_operation s op (Some name) vars dirs sels) as [[o es]|] eqn:Eo.
      * destruct (xb_operation_typed _ _ _ _ _ _ _ _ _ Hin Eo) as [Ho Hn].
        cbn [xb_with_doc xb_doc]. unfold XwDoc. cbn [xd_frags xd_named xd_anon].
        rewrite xd_ops_named. unfold xd_ops in Hops.
        rewrite map_app, app_assoc. cbn [map snd].
        repeat split.
        -- apply Forall_app. split; [exact Hops|]. constructor; [exact Ho|constructor].
        -- exact Hfr.
        -- apply Forall_app. split; [exact Hnm|]. constructor; [exact Hn|constructor].
        -- exact Han.
      * cbn [xb_push xb_doc]. rewrite Hst1. exact Hkeep.
    + destruct (xd_anon (xb_doc st)) as [prev|] eqn:Ea.
      { destruct (xb_multiple_anonymous st); cbn [xb_push xb_doc]; exact Hkeep. }
      destruct (negb (xb_is_nil (xd_named (xb_doc st)))); [exact Hkeep|].
      destruct (xb_operation s op None vars dirs sels) as [[o es]|] eqn:Eo; [|exact Hkeep].
      destruct (xb_operation_typed _ _ _ _ _ _ _ _ _ Hin Eo) as [Ho Hn].
      cbn [xb_with_doc xb_doc]. unfold XwDoc. cbn [xd_frags xd_named xd_anon].
      rewrite xd_ops_named. unfold xd_ops in Hops. rewrite Ea in Hops. cbn [app] in Hops.
      repeat split.
      -- cbn [app]. constructor; [exact Ho|exact Hops].
      -- exact Hfr.
      -- exact Hnm.
      -- intros o' [= <-]. exact Hn.
  - (* fragment *)
    destruct (xb_has_key name (xd_frags (xb_doc st))); [exact Hkeep|].
    destruct (xb_fragment s name cond dirs sels) as [[f|] es] eqn:Ef; [|exact Hkeep].
    destruct (xb_fragment_typed _ _ _ _ _ _ _ _ Hin Ef) as [Hf Hn].
    cbn [xb_with_doc xb_doc]. unfold XwDoc. cbn [xd_frags xd_named xd_anon].
    repeat split.
    + exact Hops.
    + apply Forall_app. split; [exact Hfr|]. constructor; [|constructor]. cbn [snd fst]. split; assumption.
    + exact Hnm.
    + exact Han.
Qed.

Lemma xb_fold_typed s ts a l : forall st,
  incl l a -> XwDoc s a (xb_doc st) -> XwDoc s a (xb_doc (fold_left (xb_definition s ts) l st)).
Proof.
  induction l as [|def r IH]; intros st Hincl Hst; cbn [fold_left]; [exact Hst|].
  apply IH.
  - intros x Hx. apply Hincl. now right.
  - apply xb_definition_typed; [apply Hincl; now left|exact Hst].
Qed.

Lemma xw_doc_empty s a : XwDoc s a xd_empty.
Proof. unfold XwDoc, xd_empty, xd_ops. cbn. repeat split; try constructor. discriminate. Qed.

Theorem xb_document_typed s ts a d errs :
  xb_document s ts a = (d, errs) -> XwDoc s a d.
Proof.
  unfold xb_document. intros [= <- _].
  apply xb_fold_typed; [apply incl_refl|apply xw_doc_empty].
Qed.

(* field sets: the bare selection set against the given type *)
Theorem xb_field_set_typed s ty l out errs :
  xb_field_set s ty l = (out, errs) -> Forall (XwSel (Some s) ty) out.
Proof. apply xb_sels_typed. Qed.

(* ---------------------------------------------------------------- closed schemas: nothing is dropped silently *)

Definition xs_schema_closed (sc : schema) : Prop :=
  (forall o ty, xs_root_operation sc o = Some ty -> sch_get_type sc ty <> None) /\
  (forall tn fname fd, xs_type_field sc tn fname = XtfOk fd ->
                       sch_get_type sc (inner_named_type (fd_ty fd)) <> None).

Definition xs_closed (s : option schema) : Prop :=
  match s with Some sc => xs_schema_closed sc | None => True end.

(* the selection set type `pty` is a type of the schema (always true without a schema) *)
Definition xs_ty_ok (s : option schema) (pty : str) : Prop :=
  match s with Some sc => sch_get_type sc pty <> None | None => True end.

Lemma xs_defined_spec sc n : xs_defined sc n = true <-> sch_get_type sc n <> None.
Proof. unfold xs_defined. destruct (sch_get_type sc n); split; congruence. Qed.

Lemma sch_find_type_In n ts td : sch_find_type n ts = Some td -> In td ts.
Proof.
  induction ts as [|t r IH]; cbn [sch_find_type]; [discriminate|].
  destruct (streq n (et_name t)); [intros [= <-]; now left|intros H; right; auto].
Qed.

Lemma xs_find_field_In n fs fd : xs_find_field n fs = Some fd -> exists c, In c fs /\ c_val c = fd.
Proof.
  induction fs as [|c r IH]; cbn [xs_find_field]; [discriminate|].
  destruct (streq n (fd_name (c_val c))).
  - intros [= <-]. exists c. split; [now left|reflexivity].
  - intros H. destruct (IH H) as (c' & Hin & Hc). exists c'. split; [now right|exact Hc].
Qed.

Lemma xs_closedb_spec sc : xs_closedb sc = true -> xs_schema_closed sc.
Proof.
  unfold xs_closedb. rewrite !andb_true_iff. intros [[[[Hroots HS] HSc] HT] Hfields].
  split.
  - intros o ty Ho. rewrite forallb_forall in Hroots.
    assert (Hin : In o [OpQuery; OpMutation; OpSubscription]) by (destruct o; cbn; tauto).
    specialize (Hroots o Hin). rewrite Ho in Hroots. now apply xs_defined_spec.
  - intros tn fname fd. unfold xs_type_field.
    destruct (sch_get_type sc tn) as [td|] eqn:Et; [|discriminate].
    destruct (xs_explicit_field td fname) as [d|] eqn:Ee.
    + intros [= <-]. apply xs_defined_spec.
      rewrite forallb_forall in Hfields. specialize (Hfields td (sch_find_type_In _ _ _ Et)).
      destruct td; cbn [xs_explicit_field] in Ee; try discriminate;
        destruct (xs_find_field_In _ _ _ Ee) as (c & Hc & <-);
        rewrite forallb_forall in Hfields; exact (Hfields c Hc).
    + destruct (streq fname xn_typename && xs_is_composite td).
      { intros [= <-]. now apply xs_defined_spec. }
      destruct (xs_is_query_root sc tn); [|discriminate].
      destruct (streq fname xn_schema); [intros [= <-]; now apply xs_defined_spec|].
      destruct (streq fname xn_type); [intros [= <-]; now apply xs_defined_spec|discriminate].
Qed.

Lemma xs_type_field_no_such_type sc tn fname :
  xs_type_field sc tn fname = XtfNoSuchType -> sch_get_type sc tn = None.
Proof.
  unfold xs_type_field. destruct (sch_get_type sc tn) as [td|]; [|reflexivity].
  destruct (xs_explicit_field td fname); [discriminate|].
  destruct (streq fname xn_typename && xs_is_composite td); [discriminate|].
  destruct (xs_is_query_root sc tn); [|discriminate].
  destruct (streq fname xn_schema); [discriminate|]. destruct (streq fname xn_type); discriminate.
Qed.
