(* C17: the validation rules of the October 2021 GraphQL specification, section 5 ("Validation"), for
   executable documents, as an executable specification: one NAMED boolean function per rule of the section,
   and their conjunction xv_exec_valid.  Transcribed from the specification text, not from apollo-compiler;
   where the prose is ambiguous graphql-js 16's reading is taken and the paragraph is named in a comment.
   Inputs: the parsed document (Ast.v, from the real parser through `ast_dump`) and the built schema with the
   built-in definitions (Schema/Model.v, from `schema_dump b`).  Only schemas that validate are meant.
   Definitions only (extracted); proofs in ValidProofs.v. *)
From ApolloVerif Require Import Base.Chars Ast.Ast Schema.Model Exec.Compat.
From Coq Require Import ZArith.

(* ------------------------------------------------------------------------------------------------ *)
(* The deliberate differences between apollo-compiler and the specification, each an explicit switch
   (part of the statement, not a filter on disagreements).  xv_apollo_params is what the tie runs with. *)
Record xv_params := {
  (* apollo: an operation whose root operation type is not defined by the schema is a build error
     (executable/from_ast.rs UndefinedRootOperation).  Section 5 has no such rule. *)
  xp_reject_undefined_root_operation : bool;
  (* apollo: the three @defer rules of validation/operation.rs (validate_defer).  NOT MODELLED: the generator
     never writes @defer (the generated schemas do not define it, so its use is already "directive not
     defined"); the switch is kept so that the difference is on record.  No rule reads it. *)
  xp_defer_rules : bool;
  (* apollo: @skip / @include on a selection at the root level of a subscription (root selection set
     expanded through the inline fragments and named fragments whose type condition applies to the subscription
     root type) is an error (validate_subscription: SubscriptionUsesConditionalSelection).  In the October 2021
     text CollectFields evaluates them. *)
  xp_subscription_skip_include_rule : bool;
  (* 5.5.2.3: by the letter GetPossibleTypes(parent) /\ GetPossibleTypes(fragment) must be non-empty, so a
     spread `... on I` inside a selection on I is invalid when the interface I has no implementing object.
     graphql-js (doTypesOverlap: `if (typeA === typeB) return true`), and apollo after it, accept a spread
     whose type condition is literally the parent type (graphql-spec issue 1109). *)
  xp_same_type_spread_always_possible : bool }.

Definition xv_apollo_params : xv_params :=
  {| xp_reject_undefined_root_operation := true; xp_defer_rules := true;
     xp_subscription_skip_include_rule := true; xp_same_type_spread_always_possible := true |}.

(* ------------------------------------------------------------------------------------------------ *)
(* names used by the rules *)
Definition xs_meta_typename : str := [95; 95; 116; 121; 112; 101; 110; 97; 109; 101].  (* "__typename" *)
Definition xs_meta_schema : str := [95; 95; 115; 99; 104; 101; 109; 97].              (* "__schema" *)
Definition xs_meta_type : str := [95; 95; 116; 121; 112; 101].                          (* "__type" *)
Definition xs_Schema_ty : str := [95; 95; 83; 99; 104; 101; 109; 97].                   (* "__Schema" *)
Definition xs_Type_ty : str := [95; 95; 84; 121; 112; 101].                             (* "__Type" *)
Definition xs_String : str := [83; 116; 114; 105; 110; 103].
Definition xs_Int : str := [73; 110; 116].
Definition xs_Float : str := [70; 108; 111; 97; 116].
Definition xs_Boolean : str := [66; 111; 111; 108; 101; 97; 110].
Definition xs_ID : str := [73; 68].
Definition xs_name : str := [110; 97; 109; 101].
Definition xs_skip : str := [115; 107; 105; 112].
Definition xs_include : str := [105; 110; 99; 108; 117; 100; 101].
Definition xs_if : str := [105; 102].

(* ------------------------------------------------------------------------------------------------ *)
(* small list helpers *)
Definition xv_mem (x : str) (l : list str) : bool := existsb (streq x) l.

Fixpoint xv_nodup (l : list str) : bool :=
  match l with
  | [] => true
  | x :: r => negb (xv_mem x r) && xv_nodup r
  end.

Definition xv_is_some {A} (o : option A) : bool := match o with Some _ => true | None => false end.
Definition xv_is_nil {A} (l : list A) : bool := match l with [] => true | _ => false end.

Fixpoint xv_assoc {A} (k : str) (l : list (str * A)) : option A :=
  match l with
  | [] => None
  | (k', v) :: r => if streq k k' then Some v else xv_assoc k r
  end.

Definition xv_inter_nonempty (a b : list str) : bool := existsb (fun x => xv_mem x b) a.

(* a ++ (the elements of b not yet present), without introducing duplicates *)
Fixpoint xv_union (a b : list str) : list str :=
  match b with
  | [] => a
  | x :: r => if xv_mem x a then xv_union a r else xv_union (a ++ [x]) r
  end.

Fixpoint xv_iter {A} (n : nat) (f : A -> A) (x : A) : A :=
  match n with O => x | S n => xv_iter n f (f x) end.

(* ------------------------------------------------------------------------------------------------ *)
(* the schema as the rules read it (section 3) *)
Definition xv_is_composite (t : ext_type) : bool :=
  match t with EObject _ _ _ _ _ _ | EInterface _ _ _ _ _ _ | EUnion _ _ _ _ _ => true | _ => false end.
Definition xv_is_object (t : ext_type) : bool :=
  match t with EObject _ _ _ _ _ _ => true | _ => false end.
Definition xv_is_leaf (t : ext_type) : bool :=
  match t with EScalar _ _ _ _ | EEnum _ _ _ _ _ => true | _ => false end.
(* 3.4.2 IsInputType on a named type *)
Definition xv_is_input (t : ext_type) : bool :=
  match t with EScalar _ _ _ _ | EEnum _ _ _ _ _ | EInput _ _ _ _ _ => true | _ => false end.

Definition xv_composite_name (s : schema) (n : str) : bool :=
  match sch_get_type s n with Some t => xv_is_composite t | None => false end.
Definition xv_object_name (s : schema) (n : str) : bool :=
  match sch_get_type s n with Some t => xv_is_object t | None => false end.

Definition xv_et_fields (t : ext_type) : list fielddef :=
  match t with
  | EObject _ _ _ _ fs _ | EInterface _ _ _ _ fs _ => map c_val fs
  | _ => []
  end.

Fixpoint xv_find_fd (n : str) (l : list fielddef) : option fielddef :=
  match l with
  | [] => None
  | f :: r => if streq n (fd_name f) then Some f else xv_find_fd n r
  end.

Fixpoint xv_find_iv (n : str) (l : list inputvaldef) : option inputvaldef :=
  match l with
  | [] => None
  | f :: r => if streq n (iv_name f) then Some f else xv_find_iv n r
  end.

(* 3.3.1 root operation types *)
Definition xv_root (s : schema) (op : optype) : option str :=
  option_map c_val
    match op with
    | OpQuery => sd_query (sch_def s)
    | OpMutation => sd_mutation (sch_def s)
    | OpSubscription => sd_subscription (sch_def s)
    end.

(* 4.1 __typename (every composite type), 4.2 __schema / __type (the query root type) *)
Definition xv_meta_typename_fd : fielddef :=
  {| fd_desc := None; fd_name := xs_meta_typename; fd_args := []; fd_ty := TNonNullNamed xs_String; fd_dirs := [] |}.
Definition xv_meta_schema_fd : fielddef :=
  {| fd_desc := None; fd_name := xs_meta_schema; fd_args := []; fd_ty := TNonNullNamed xs_Schema_ty; fd_dirs := [] |}.
Definition xv_meta_type_fd : fielddef :=
  {| fd_desc := None; fd_name := xs_meta_type;
     fd_args := [ {| iv_desc := None; iv_name := xs_name; iv_ty := TNonNullNamed xs_String; iv_default := None;
                     iv_dirs := [] |} ];
     fd_ty := TNamed xs_Type_ty; fd_dirs := [] |}.

Definition xv_is_query_root (s : schema) (n : str) : bool :=
  match xv_root s OpQuery with Some q => streq q n | None => false end.

(* the definition of field `fname` on the type named `parent`, meta-fields included *)
Definition xv_lookup_field (s : schema) (parent fname : str) : option fielddef :=
  match sch_get_type s parent with
  | None => None
  | Some t =>
      match xv_find_fd fname (xv_et_fields t) with
      | Some fd => Some fd
      | None =>
          if streq fname xs_meta_typename && xv_is_composite t then Some xv_meta_typename_fd
          else if xv_is_query_root s parent then
            if streq fname xs_meta_schema then Some xv_meta_schema_fd
            else if streq fname xs_meta_type then Some xv_meta_type_fd
            else None
          else None
      end
  end.

Definition xv_composite_opt (s : schema) (n : str) : option str :=
  if xv_composite_name s n then Some n else None.

(* the type in scope inside a field's selection set: graphql-js TypeInfo pushes the named type only if it is
   composite (so a selection under a leaf, or under an undefined field, is not checked field by field; other
   rules report those) *)
Definition xv_sub_parent (s : schema) (fd : option fielddef) : option str :=
  match fd with
  | Some fd => xv_composite_opt s (inner_named_type (fd_ty fd))
  | None => None
  end.

Definition xv_field_def (s : schema) (parent : option str) (fname : str) : option fielddef :=
  match parent with Some p => xv_lookup_field s p fname | None => None end.

(* the type in scope inside an inline fragment *)
Definition xv_inline_parent (s : schema) (parent : option str) (cond : option str) : option str :=
  match cond with Some c => xv_composite_opt s c | None => parent end.

Definition xv_implements (t : ext_type) (iface : str) : bool :=
  match t with
  | EObject _ _ impls _ _ _ | EInterface _ _ impls _ _ _ => xv_mem iface (map c_val impls)
  | _ => false
  end.

(* 5.5.2.3 GetPossibleTypes *)
Definition xv_possible (s : schema) (n : str) : list str :=
  match sch_get_type s n with
  | Some (EObject _ _ _ _ _ _) => [n]
  | Some (EInterface _ _ _ _ _ _) =>
      map et_name (filter (fun t => xv_is_object t && xv_implements t n) (sch_types s))
  | Some (EUnion _ _ _ members _) => map c_val members
  | _ => []
  end.

(* ------------------------------------------------------------------------------------------------ *)
(* the document *)
Definition xv_is_executable (d : definition) : bool :=
  match d with DOperation _ _ _ _ _ | DFragment _ _ _ _ => true | _ => false end.

(* fragment definitions: (name, (type condition, directives, selections)); lookups take the first of a name *)
Definition xv_frag := (str * list directive * list selection)%type.
Fixpoint xv_frags (d : document) : list (str * xv_frag) :=
  match d with
  | [] => []
  | DFragment n c dirs sels :: r => (n, (c, dirs, sels)) :: xv_frags r
  | _ :: r => xv_frags r
  end.
Definition xv_frag_cond (f : xv_frag) : str := fst (fst f).
Definition xv_frag_dirs (f : xv_frag) : list directive := snd (fst f).
Definition xv_frag_sels (f : xv_frag) : list selection := snd f.

(* operations: (type, name, variables, directives, selections) *)
Record xv_op := { xo_type : optype; xo_name : option str; xo_vars : list vardef; xo_dirs : list directive;
                  xo_sels : list selection }.
Fixpoint xv_ops (d : document) : list xv_op :=
  match d with
  | [] => []
  | DOperation t n vars dirs sels :: r =>
      {| xo_type := t; xo_name := n; xo_vars := vars; xo_dirs := dirs; xo_sels := sels |} :: xv_ops r
  | _ :: r => xv_ops r
  end.

(* every spread name written in a selection list, at any depth (not through fragments) *)
Fixpoint xv_sel_spreads (x : selection) : list str :=
  match x with
  | SField _ _ _ _ sub => flat_map xv_sel_spreads sub
  | SSpread n _ => [n]
  | SInline _ _ sub => flat_map xv_sel_spreads sub
  end.
Definition xv_spreads (sels : list selection) : list str := flat_map xv_sel_spreads sels.

(* one step of the "spreads" relation from a set of fragment names *)
Definition xv_succ (frags : list (str * xv_frag)) (names : list str) : list str :=
  flat_map (fun n => match xv_assoc n frags with Some f => xv_spreads (xv_frag_sels f) | None => [] end) names.

(* the fragment names reachable from `init` through spreads, `init` included: the closure is reached after at
   most (number of fragments) rounds because every round that changes the set adds a name *)
Definition xv_reach (frags : list (str * xv_frag)) (init : list str) : list str :=
  xv_iter (S (length frags)) (fun r => xv_union r (xv_succ frags r)) (xv_union [] init).

(* ------------------------------------------------------------------------------------------------ *)
(* one traversal: every field, spread and inline fragment written in a selection list (not through named
   fragments) with the type in scope *)
Inductive xv_ev :=
| XeField (parent : option str) (alias : option str) (name : str) (args : list argument)
          (dirs : list directive) (has_sub : bool)
| XeSpread (parent : option str) (name : str) (dirs : list directive)
| XeInline (parent : option str) (cond : option str) (dirs : list directive).

Fixpoint xv_sel_events (s : schema) (parent : option str) (x : selection) : list xv_ev :=
  match x with
  | SField a n args dirs sub =>
      XeField parent a n args dirs (negb (xv_is_nil sub))
      :: flat_map (xv_sel_events s (xv_sub_parent s (xv_field_def s parent n))) sub
  | SSpread n dirs => [XeSpread parent n dirs]
  | SInline c dirs sub =>
      XeInline parent c dirs :: flat_map (xv_sel_events s (xv_inline_parent s parent c)) sub
  end.
Definition xv_events (s : schema) (parent : option str) (sels : list selection) : list xv_ev :=
  flat_map (xv_sel_events s parent) sels.

Definition xv_op_events (s : schema) (o : xv_op) : list xv_ev :=
  xv_events s (xv_root s (xo_type o)) (xo_sels o).
Definition xv_frag_events (s : schema) (f : xv_frag) : list xv_ev :=
  xv_events s (xv_composite_opt s (xv_frag_cond f)) (xv_frag_sels f).

(* every selection of the document, operations first then fragment definitions *)
Definition xv_doc_events (s : schema) (d : document) : list xv_ev :=
  flat_map (xv_op_events s) (xv_ops d) ++ flat_map (fun nf => xv_frag_events s (snd nf)) (xv_frags d).

(* ------------------------------------------------------------------------------------------------ *)
(* 5.1.1 Executable Definitions *)
Definition xv_r_executable_definitions (d : document) : bool := forallb xv_is_executable d.

(* 5.2.1.1 Operation Name Uniqueness *)
Definition xv_r_operation_name_unique (d : document) : bool :=
  xv_nodup (flat_map (fun o => match xo_name o with Some n => [n] | None => [] end) (xv_ops d)).

(* 5.2.2.1 Lone Anonymous Operation: if the document has more than one operation, none is anonymous *)
Definition xv_r_lone_anonymous (d : document) : bool :=
  match xv_ops d with
  | [] | [_] => true
  | ops => forallb (fun o => xv_is_some (xo_name o)) ops
  end.

(* ------------------------------------------------------------------------------------------------ *)
(* 5.2.3.1 Single root field.  CollectFields (6.3.2) with variableValues the empty set. *)
Definition xv_dir_if (name : str) (dirs : list directive) : option value :=
  match find (fun d => streq (d_name d) name) dirs with
  | Some d => match xv_assoc xs_if (d_args d) with Some v => Some v | None => Some VNull end
  | None => None
  end.
(* 6.3.2 step 3a/3b with no variable values: @skip(if: true) skips; @include whose `if` "is not true and is
   not a variable in variableValues with the value true" skips, which with the empty set means: anything
   but the literal true *)
Definition xv_skipped (dirs : list directive) : bool :=
  match xv_dir_if xs_skip dirs with Some (VBool true) => true | _ => false end
  || match xv_dir_if xs_include dirs with Some (VBool true) => false | Some _ => true | None => false end.

(* DoesFragmentTypeApply(objectType, fragmentType) *)
Definition xv_type_applies (s : schema) (object_type fragment_type : str) : bool :=
  match sch_get_type s fragment_type with
  | Some (EObject _ _ _ _ _ _) => streq object_type fragment_type
  | Some (EInterface _ _ _ _ _ _) =>
      match sch_get_type s object_type with Some t => xv_implements t fragment_type | None => false end
  | Some (EUnion _ _ _ members _) => xv_mem object_type (map c_val members)
  | _ => false
  end.

(* threading a visited set through a list, concatenating the outputs *)
Definition xv_thread {A B} (f : list str -> A -> list str * list B) : list str -> list A -> list str * list B :=
  fix go (visited : list str) (l : list A) {struct l} : list str * list B :=
    match l with
    | [] => (visited, [])
    | y :: r => let '(v1, here) := f visited y in let '(v2, more) := go v1 r in (v2, here ++ more)
    end.

(* the response keys and field names collected, in order; `visited` is the spec's visitedFragments.
   `conds` = true is the specification (DoesFragmentTypeApply is consulted); false is read only by Exec/Known.v
   (the record of a repaired defect).
   Fuel: one unit per fragment entered; each fragment is entered at most once, so S (length frags) is enough. *)
Fixpoint xv_collect_root (fuel : nat) (s : schema) (frags : list (str * xv_frag)) (apply_dirs conds : bool)
    (object_type : str) (visited : list str) (sels : list selection) {struct fuel}
    : list str * list (str * str) :=
  match fuel with
  | O => (visited, [])
  | S fuel' =>
      xv_thread
        (fix go (visited : list str) (x : selection) {struct x} : list str * list (str * str) :=
           match x with
           | SField a n _ dirs _ =>
               if apply_dirs && xv_skipped dirs then (visited, [])
               else (visited, [(match a with Some k => k | None => n end, n)])
           | SSpread n dirs =>
               if apply_dirs && xv_skipped dirs then (visited, [])
               else if xv_mem n visited then (visited, [])
               else match xv_assoc n frags with
                    | None => (n :: visited, [])
                    | Some f =>
                        if negb conds || xv_type_applies s object_type (xv_frag_cond f)
                        then xv_collect_root fuel' s frags apply_dirs conds object_type (n :: visited) (xv_frag_sels f)
                        else (n :: visited, [])
                    end
           | SInline c dirs sub =>
               if apply_dirs && xv_skipped dirs then (visited, [])
               else if negb conds || match c with Some c => xv_type_applies s object_type c | None => true end
                    then xv_thread go visited sub
                    else (visited, [])
           end) visited sels
  end.

Definition xv_keys_distinct (l : list (str * str)) : list str := xv_union [] (map fst l).

(* does a name start with two underscores (an introspection field, 4.1 "Reserved Names")? *)
Definition xv_is_introspection_name (n : str) : bool :=
  match n with 95 :: 95 :: _ => true | _ => false end.

(* the directive lists of the selections at the root level of an operation (used only by the apollo
   @skip/@include switch): the selections CollectFields visits with no directive evaluated, i.e. through inline
   fragments and named fragments whose type condition applies to the root type; a fragment spread or inline
   fragment contributes its own directives whether or not its type condition applies (validation/operation.rs
   walk_selections, as CollectSubscriptionFields of the later specification drafts).
   `conds` = true is the rule; false (type conditions ignored) is read only by Exec/Known.v. *)
Fixpoint xv_root_level_dirs (fuel : nat) (s : schema) (frags : list (str * xv_frag)) (conds : bool)
    (object_type : str) (visited : list str) (sels : list selection) {struct fuel}
    : list str * list (list directive) :=
  match fuel with
  | O => (visited, [])
  | S fuel' =>
      xv_thread
        (fix go (visited : list str) (x : selection) {struct x} : list str * list (list directive) :=
           match x with
           | SField _ _ _ dirs _ => (visited, [dirs])
           | SSpread n dirs =>
               if xv_mem n visited then (visited, [dirs])
               else match xv_assoc n frags with
                    | None => (n :: visited, [dirs])
                    | Some f =>
                        if negb conds || xv_type_applies s object_type (xv_frag_cond f)
                        then let '(v, l) := xv_root_level_dirs fuel' s frags conds object_type (n :: visited)
                                              (xv_frag_sels f) in
                             (v, dirs :: l)
                        else (n :: visited, [dirs])
                    end
           | SInline c dirs sub =>
               if negb conds || match c with Some c => xv_type_applies s object_type c | None => true end
               then let '(v, l) := xv_thread go visited sub in (v, dirs :: l)
               else (visited, [dirs])
           end) visited sels
  end.

Definition xv_has_skip_include (dirs : list directive) : bool :=
  existsb (fun d => streq (d_name d) xs_skip || streq (d_name d) xs_include) dirs.

Definition xv_subscription_ok_gen (conds : bool) (p : xv_params) (s : schema) (frags : list (str * xv_frag))
    (o : xv_op) : bool :=
  match xo_type o with
  | OpSubscription =>
      match xv_root s OpSubscription with
      | None => true                           (* no subscription type: nothing to collect against *)
      | Some st =>
          (* with the apollo switch on, a conditional root selection is an error by itself and the fields are
             collected without evaluating the directives *)
          let apply_dirs := negb (xp_subscription_skip_include_rule p) in
          let collected := snd (xv_collect_root (S (length frags)) s frags apply_dirs conds st [] (xo_sels o)) in
          match xv_keys_distinct collected with
          | [_] => forallb (fun kn => negb (xv_is_introspection_name (snd kn))) collected
          | _ => false
          end
      end
  | _ => true
  end.
Definition xv_subscription_ok := xv_subscription_ok_gen true.
Definition xv_r_subscription_single_root (p : xv_params) (s : schema) (d : document) : bool :=
  forallb (xv_subscription_ok p s (xv_frags d)) (xv_ops d).

(* switch xp_subscription_skip_include_rule *)
Definition xv_r_subscription_no_skip_include_gen (conds : bool) (p : xv_params) (s : schema) (d : document) : bool :=
  negb (xp_subscription_skip_include_rule p) ||
  forallb (fun o =>
    match xo_type o with
    | OpSubscription =>
        match xv_root s OpSubscription with
        | None => true                         (* no subscription type: nothing to collect against *)
        | Some st =>
            forallb (fun dirs => negb (xv_has_skip_include dirs))
                    (snd (xv_root_level_dirs (S (length (xv_frags d))) s (xv_frags d) conds st [] (xo_sels o)))
        end
    | _ => true
    end) (xv_ops d).
Definition xv_r_subscription_no_skip_include := xv_r_subscription_no_skip_include_gen true.

(* switch xp_reject_undefined_root_operation *)
Definition xv_r_root_operation_defined (p : xv_params) (s : schema) (d : document) : bool :=
  negb (xp_reject_undefined_root_operation p) ||
  forallb (fun o => xv_is_some (xv_root s (xo_type o))) (xv_ops d).

(* ------------------------------------------------------------------------------------------------ *)
(* 5.3.1 Field Selections: the field must be defined on the type in scope *)
Definition xv_r_fields_defined (s : schema) (d : document) : bool :=
  forallb (fun e => match e with
                    | XeField (Some p) _ n _ _ _ => xv_is_some (xv_lookup_field s p n)
                    | _ => true
                    end) (xv_doc_events s d).

(* 5.3.3 Leaf Field Selections *)
Definition xv_r_leaf_selections (s : schema) (d : document) : bool :=
  forallb (fun e => match e with
                    | XeField parent _ n _ _ has_sub =>
                        match xv_field_def s parent n with
                        | Some fd =>
                            match sch_get_type s (inner_named_type (fd_ty fd)) with
                            | Some t => if xv_is_leaf t then negb has_sub
                                        else if xv_is_composite t then has_sub else true
                            | None => true
                            end
                        | None => true
                        end
                    | _ => true
                    end) (xv_doc_events s d).

(* ------------------------------------------------------------------------------------------------ *)
(* argument sites: the arguments written on a field or a directive, with the definitions they refer to *)
Definition xv_argsite := (option (list inputvaldef) * list argument)%type.

Definition xv_dir_site (s : schema) (dr : directive) : xv_argsite :=
  (option_map dd_args (sch_find_dirdef (d_name dr) (sch_dirdefs s)), d_args dr).

Definition xv_ev_dirs (e : xv_ev) : list directive :=
  match e with XeField _ _ _ _ dirs _ | XeSpread _ _ dirs | XeInline _ _ dirs => dirs end.

Definition xv_ev_sites (s : schema) (e : xv_ev) : list xv_argsite :=
  match e with
  | XeField parent _ n args _ _ => [(option_map fd_args (xv_field_def s parent n), args)]
  | _ => []
  end ++ map (xv_dir_site s) (xv_ev_dirs e).

(* the directive lists of the document that are not on selections, with their locations *)
Definition xv_op_loc (t : optype) : dirloc :=
  match t with OpQuery => LQuery | OpMutation => LMutation | OpSubscription => LSubscription end.

Definition xv_toplevel_dirs (d : document) : list (dirloc * list directive) :=
  flat_map (fun o => (xv_op_loc (xo_type o), xo_dirs o)
                     :: map (fun v => (LVariableDefinition, v_dirs v)) (xo_vars o)) (xv_ops d)
  ++ map (fun nf => (LFragmentDefinition, xv_frag_dirs (snd nf))) (xv_frags d).

Definition xv_ev_loc (e : xv_ev) : dirloc :=
  match e with XeField _ _ _ _ _ _ => LField | XeSpread _ _ _ => LFragmentSpread | XeInline _ _ _ => LInlineFragment end.

(* every directive list of the document with its location *)
Definition xv_all_dirs (s : schema) (d : document) : list (dirloc * list directive) :=
  xv_toplevel_dirs d ++ map (fun e => (xv_ev_loc e, xv_ev_dirs e)) (xv_doc_events s d).

(* every argument site of the document *)
Definition xv_all_sites (s : schema) (d : document) : list xv_argsite :=
  flat_map (fun ld => map (xv_dir_site s) (snd ld)) (xv_toplevel_dirs d)
  ++ flat_map (xv_ev_sites s) (xv_doc_events s d).

(* 5.4.1 Argument Names *)
Definition xv_r_argument_names (s : schema) (d : document) : bool :=
  forallb (fun site => match site with
                       | (Some defs, args) => forallb (fun a => xv_is_some (xv_find_iv (fst a) defs)) args
                       | (None, _) => true
                       end) (xv_all_sites s d).

(* 5.4.2 Argument Uniqueness *)
Definition xv_r_argument_unique (s : schema) (d : document) : bool :=
  forallb (fun site => xv_nodup (map fst (snd site))) (xv_all_sites s d).

(* 5.4.2.1 Required Arguments: non-null type and no default value => present and not the literal null *)
Definition xv_iv_required (f : inputvaldef) : bool := is_non_null (iv_ty f) && negb (xv_is_some (iv_default f)).
Definition xv_r_required_arguments (s : schema) (d : document) : bool :=
  forallb (fun site => match site with
                       | (Some defs, args) =>
                           forallb (fun f => negb (xv_iv_required f) ||
                                             match xv_assoc (iv_name f) args with
                                             | Some VNull | None => false
                                             | Some _ => true
                                             end) defs
                       | (None, _) => true
                       end) (xv_all_sites s d).

(* ------------------------------------------------------------------------------------------------ *)
(* fragments *)
(* 5.5.1.1 Fragment Name Uniqueness *)
Definition xv_r_fragment_name_unique (d : document) : bool := xv_nodup (map fst (xv_frags d)).

(* 5.5.1.2 Fragment Spread Type Existence (named fragments and inline fragments with a type condition) *)
Definition xv_type_conditions (s : schema) (d : document) : list str :=
  map (fun nf => xv_frag_cond (snd nf)) (xv_frags d)
  ++ flat_map (fun e => match e with XeInline _ (Some c) _ => [c] | _ => [] end) (xv_doc_events s d).
Definition xv_r_fragment_type_exists (s : schema) (d : document) : bool :=
  forallb (fun c => xv_is_some (sch_get_type s c)) (xv_type_conditions s d).

(* 5.5.1.3 Fragments On Composite Types (an undefined type is the previous rule's business) *)
Definition xv_r_fragment_on_composite (s : schema) (d : document) : bool :=
  forallb (fun c => match sch_get_type s c with Some t => xv_is_composite t | None => true end)
          (xv_type_conditions s d).

(* 5.5.1.4 Fragments Must Be Used.  By the letter "the target of at least one spread in the document";
   graphql-js (NoUnusedFragmentsRule) and apollo read it as "reachable from some operation".  The two readings
   give the same verdict for the whole document (if every unreachable fragment is the target of a spread, the
   spreads come from unreachable fragments and these form a cycle, rejected by 5.5.2.2); graphql-js's is taken. *)
Definition xv_used_fragments (d : document) : list str :=
  xv_reach (xv_frags d) (flat_map (fun o => xv_spreads (xo_sels o)) (xv_ops d)).
Definition xv_r_fragments_used (d : document) : bool :=
  forallb (fun nf => xv_mem (fst nf) (xv_used_fragments d)) (xv_frags d).

(* 5.5.2.1 Fragment spread target defined *)
Definition xv_r_spread_target_defined (s : schema) (d : document) : bool :=
  forallb (fun e => match e with
                    | XeSpread _ n _ => xv_is_some (xv_assoc n (xv_frags d))
                    | _ => true
                    end) (xv_doc_events s d).

(* 5.5.2.2 Fragment spreads must not form cycles: no fragment is reachable from its own spreads *)
Definition xv_frag_cyclic (frags : list (str * xv_frag)) (nf : str * xv_frag) : bool :=
  xv_mem (fst nf) (xv_reach frags (xv_spreads (xv_frag_sels (snd nf)))).
Definition xv_r_no_fragment_cycles (d : document) : bool :=
  forallb (fun nf => negb (xv_frag_cyclic (xv_frags d) nf)) (xv_frags d).

(* 5.5.2.3 Fragment spread is possible *)
Definition xv_spread_possible (p : xv_params) (s : schema) (parent cond : str) : bool :=
  (xp_same_type_spread_always_possible p && streq parent cond)
  || negb (xv_composite_name s parent) || negb (xv_composite_name s cond)
  || xv_inter_nonempty (xv_possible s parent) (xv_possible s cond).
Definition xv_r_spread_possible (p : xv_params) (s : schema) (d : document) : bool :=
  forallb (fun e => match e with
                    | XeSpread (Some parent) n _ =>
                        match xv_assoc n (xv_frags d) with
                        | Some f => xv_spread_possible p s parent (xv_frag_cond f)
                        | None => true
                        end
                    | XeInline (Some parent) (Some c) _ => xv_spread_possible p s parent c
                    | _ => true
                    end) (xv_doc_events s d).

(* ------------------------------------------------------------------------------------------------ *)
(* 5.6 Values *)
Definition xv_digit_val (c : N) : option N := if is_digit c then Some (c - 48) else None.
Fixpoint xv_digits_val (acc : N) (s : str) : option N :=
  match s with
  | [] => Some acc
  | c :: r => match xv_digit_val c with Some v => xv_digits_val (acc * 10 + v) r | None => None end
  end.

(* 3.5.1 Int: "less than -2^31 or greater than or equal to 2^31" is an error *)
Definition xv_int_in_range (text : str) : bool :=
  match text with
  | 45 :: r => match xv_digits_val 0 r with Some v => v <=? 2147483648 | None => false end
  | _ => match xv_digits_val 0 text with Some v => v <? 2147483648 | None => false end
  end.

(* 3.5.2 Float: the value must be representable as a finite IEEE 754 double.  Decimal reading of the literal:
   digits D (integer and fraction part, leading zeros dropped) and the decimal exponent E of the leading
   digit.  The largest double is 1.7976931348623157e308 and literals up to 1.797693134862315807...e308 round
   to it.  The test below is exact except for literals whose first 17 significant digits are exactly
   17976931348623158 with E = 308, which it takes as finite (the generator stays away from them). *)
Fixpoint xv_take_digits (s : str) : str * str :=
  match s with
  | c :: r => if is_digit c then let '(a, b) := xv_take_digits r in (c :: a, b) else ([], s)
  | [] => ([], [])
  end.
Fixpoint xv_drop_zeros (s : str) : str :=
  match s with 48 :: r => xv_drop_zeros r | _ => s end.
Fixpoint xv_prefix_val (n : nat) (acc : N) (s : str) : N :=
  match n with
  | O => acc
  | S n => match s with
           | c :: r => xv_prefix_val n (acc * 10 + (c - 48)) r
           | [] => xv_prefix_val n (acc * 10) []
           end
  end.
Definition xv_float_finite (text : str) : bool :=
  let text := match text with 45 :: r => r | _ => text end in
  let '(ip, rest) := xv_take_digits text in
  let '(fp, rest) := match rest with 46 :: r => xv_take_digits r | _ => ([], rest) end in
  let ex : Z :=
    match rest with
    | (101 | 69) :: 45 :: r => match xv_digits_val 0 r with Some v => Z.opp (Z.of_N v) | None => 0%Z end
    | (101 | 69) :: 43 :: r | (101 | 69) :: r => match xv_digits_val 0 r with Some v => Z.of_N v | None => 0%Z end
    | _ => 0%Z
    end in
  let digits := ip ++ fp in
  let sig := xv_drop_zeros digits in
  match sig with
  | [] => true
  | _ =>
      (* exponent of the leading significant digit *)
      let e := (Z.of_nat (length ip) - 1 - (Z.of_nat (length digits) - Z.of_nat (length sig)) + ex)%Z in
      (e <? 308)%Z || ((e =? 308)%Z && (xv_prefix_val 17 0 sig <=? 17976931348623158))
  end.

Definition xv_builtin_scalar (name : str) (builtin : bool) : bool :=
  builtin && (streq name xs_Int || streq name xs_Float || streq name xs_String || streq name xs_Boolean
              || streq name xs_ID).

(* 3.5 input coercion of a literal that is not null, a variable, a list or an object, for a named type *)
Definition xv_leaf_ok (s : schema) (n : str) (v : value) : bool :=
  match sch_get_type s n with
  | None => true
  | Some (EScalar _ name _ builtin) =>
      if xv_builtin_scalar name builtin then
        if streq name xs_Int then match v with VInt t => xv_int_in_range t | _ => false end
        else if streq name xs_Float then
          match v with VInt t | VFloat t => xv_float_finite t | _ => false end
        else if streq name xs_String then match v with VString _ => true | _ => false end
        else if streq name xs_Boolean then match v with VBool _ => true | _ => false end
        else match v with VString _ | VInt _ => true | _ => false end                       (* ID *)
      else true                                              (* 3.5.6 custom scalars: any literal *)
  | Some (EEnum _ _ _ values _) =>
      match v with VEnum e => xv_mem e (map (fun c => ev_value (c_val c)) values) | _ => false end
  | Some (EInput _ _ _ _ _) => false
  | Some _ => true                                           (* not an input type: the schema's business *)
  end.

Definition xv_custom_scalar (s : schema) (n : str) : bool :=
  match sch_get_type s n with
  | Some (EScalar _ name _ builtin) => negb (xv_builtin_scalar name builtin)
  | _ => false
  end.

Definition xv_input_fields (s : schema) (n : str) : option (list inputvaldef) :=
  match sch_get_type s n with
  | Some (EInput _ _ _ fields _) => Some (map c_val fields)
  | _ => None
  end.

(* which of the four rules of 5.6 a traversal of a value checks *)
Inductive xv_vmode := XmCorrectType | XmFieldNames | XmRequiredFields.

(* 5.6.1 Values of Correct Type (3.11 list input coercion: a non-list, non-null value for a list type is
   coerced as the single item; 3.12 non-null: null is not accepted), 5.6.2 Input Object Field Names,
   5.6.4 Input Object Required Fields.  A variable is accepted here whatever its type: its position is checked
   by 5.8.5.  Nothing is checked inside a literal given for a custom scalar. *)
Fixpoint xv_value_chk (m : xv_vmode) (s : schema) (v : value) (t : ty) {struct v} : bool :=
  match v with
  | VVar _ => true
  | VNull => match m with XmCorrectType => negb (is_non_null t) | _ => true end
  | VList l =>
      match t with
      | TList i | TNonNullList i => forallb (fun x => xv_value_chk m s x i) l
      | TNamed n | TNonNullNamed n =>
          match m with
          | XmCorrectType => xv_custom_scalar s n || negb (xv_is_some (sch_get_type s n))
          | _ => true
          end
      end
  | VObject fs =>
      let n := inner_named_type t in
      match xv_input_fields s n with
      | Some defs =>
          match m with
          | XmCorrectType => true
          | XmFieldNames => forallb (fun kv => xv_is_some (xv_find_iv (fst kv) defs)) fs
          | XmRequiredFields =>
              forallb (fun f => negb (xv_iv_required f) ||
                                match xv_assoc (iv_name f) fs with Some VNull | None => false | Some _ => true end)
                      defs
          end
          && forallb (fun kv => match kv with
                                | (k, x) => match xv_find_iv k defs with
                                            | Some f => xv_value_chk m s x (iv_ty f)
                                            | None => true
                                            end
                                end) fs
      | None =>
          match m with
          | XmCorrectType => xv_custom_scalar s n || negb (xv_is_some (sch_get_type s n))
          | _ => true
          end
      end
  | _ => match m with XmCorrectType => xv_leaf_ok s (inner_named_type t) v | _ => true end
  end.

(* 5.6.3 Input Object Field Uniqueness: every object literal, whatever the type expected *)
Fixpoint xv_value_unique (v : value) : bool :=
  match v with
  | VList l => forallb xv_value_unique l
  | VObject fs => xv_nodup (map fst fs) && forallb (fun kv => match kv with (_, x) => xv_value_unique x end) fs
  | _ => true
  end.

(* the (value, expected type) pairs of the document: arguments whose definition is known, and the default
   values of variables whose type is an input type *)
Definition xv_site_values (site : xv_argsite) : list (value * ty) :=
  match site with
  | (Some defs, args) =>
      flat_map (fun a => match xv_find_iv (fst a) defs with Some f => [(snd a, iv_ty f)] | None => [] end) args
  | (None, _) => []
  end.
Definition xv_var_input_type (s : schema) (v : vardef) : bool :=
  match sch_get_type s (inner_named_type (v_ty v)) with Some t => xv_is_input t | None => false end.
Definition xv_default_values (s : schema) (d : document) : list (value * ty) :=
  flat_map (fun o => flat_map (fun v => match v_default v with
                                        | Some dv => if xv_var_input_type s v then [(dv, v_ty v)] else []
                                        | None => []
                                        end) (xo_vars o)) (xv_ops d).
Definition xv_typed_values (s : schema) (d : document) : list (value * ty) :=
  xv_default_values s d ++ flat_map xv_site_values (xv_all_sites s d).
(* every value written in the document *)
Definition xv_all_values (s : schema) (d : document) : list value :=
  flat_map (fun o => flat_map (fun v => match v_default v with Some dv => [dv] | None => [] end) (xo_vars o))
           (xv_ops d)
  ++ flat_map (fun site => map snd (snd site)) (xv_all_sites s d).

Definition xv_r_values_correct_type (s : schema) (d : document) : bool :=
  forallb (fun vt => xv_value_chk XmCorrectType s (fst vt) (snd vt)) (xv_typed_values s d).
Definition xv_r_input_field_names (s : schema) (d : document) : bool :=
  forallb (fun vt => xv_value_chk XmFieldNames s (fst vt) (snd vt)) (xv_typed_values s d).
Definition xv_r_input_field_unique (s : schema) (d : document) : bool :=
  forallb xv_value_unique (xv_all_values s d).
Definition xv_r_input_required_fields (s : schema) (d : document) : bool :=
  forallb (fun vt => xv_value_chk XmRequiredFields s (fst vt) (snd vt)) (xv_typed_values s d).

(* ------------------------------------------------------------------------------------------------ *)
(* 5.7 Directives *)
Definition xv_loc_index (l : dirloc) : N :=
  match l with
  | LQuery => 0 | LMutation => 1 | LSubscription => 2 | LField => 3 | LFragmentDefinition => 4
  | LFragmentSpread => 5 | LInlineFragment => 6 | LVariableDefinition => 7 | LSchema => 8 | LScalar => 9
  | LObject => 10 | LFieldDefinition => 11 | LArgumentDefinition => 12 | LInterface => 13 | LUnion => 14
  | LEnum => 15 | LEnumValue => 16 | LInputObject => 17 | LInputFieldDefinition => 18
  end.
Definition xv_loc_eqb (a b : dirloc) : bool := xv_loc_index a =? xv_loc_index b.

Definition xv_dirdef (s : schema) (n : str) : option dirdef := sch_find_dirdef n (sch_dirdefs s).

(* 5.7.1 Directives Are Defined *)
Definition xv_r_directives_defined (s : schema) (d : document) : bool :=
  forallb (fun ld => forallb (fun dr => xv_is_some (xv_dirdef s (d_name dr))) (snd ld)) (xv_all_dirs s d).

(* 5.7.2 Directives Are In Valid Locations *)
Definition xv_r_directive_locations (s : schema) (d : document) : bool :=
  forallb (fun ld => forallb (fun dr => match xv_dirdef s (d_name dr) with
                                        | Some dd => existsb (xv_loc_eqb (fst ld)) (dd_locs dd)
                                        | None => true
                                        end) (snd ld)) (xv_all_dirs s d).

(* 5.7.3 Directives Are Unique Per Location (defined, non-repeatable directives) *)
Fixpoint xv_dirs_unique (s : schema) (dirs : list directive) : bool :=
  match dirs with
  | [] => true
  | dr :: r =>
      match xv_dirdef s (d_name dr) with
      | Some dd => dd_repeatable dd || negb (existsb (fun x => streq (d_name x) (d_name dr)) r)
      | None => true
      end && xv_dirs_unique s r
  end.
Definition xv_r_directives_unique (s : schema) (d : document) : bool :=
  forallb (fun ld => xv_dirs_unique s (snd ld)) (xv_all_dirs s d).

(* ------------------------------------------------------------------------------------------------ *)
(* 5.8 Variables *)
(* 5.8.1 Variable Uniqueness *)
Definition xv_r_variable_unique (d : document) : bool :=
  forallb (fun o => xv_nodup (map v_name (xo_vars o))) (xv_ops d).

(* 5.8.2 Variables Are Input Types (an undefined type is not an input type) *)
Definition xv_r_variables_input_types (s : schema) (d : document) : bool :=
  forallb (fun o => forallb (xv_var_input_type s) (xo_vars o)) (xv_ops d).

(* a variable usage: the name and, where the position has an expected type, that type and whether the
   position (argument or input object field) has a default value.  Two facts about the position are recorded
   for Exec/Known.v (the rules of this file do not read them): whether the usage is nested inside a list or
   object literal, and whether it is inside an object literal written for a custom scalar (both are read only by
   the records of repaired defects, xk_old_r_variable_usages_allowed and xk_old_r_variables_defined). *)
Record xv_usage := { xu_name : str; xu_loc : option (ty * bool); xu_nested : bool; xu_in_scalar_object : bool }.

(* the usages inside a value written where `expected` is expected.  5.8.5: "the expected type of the Argument,
   ObjectField, or ListValue entry where variableUsage is located".  Where the text is silent graphql-js's
   TypeInfo is followed: an entry of a list literal written for a type that is not a list type is expected to
   have that same type, made nullable (ListValue: `listType = getNullableType(getInputType())`,
   `isListType(listType) ? listType.ofType : listType`; as for the literals of 5.6.1, where `[null]` is a value
   of a custom scalar `JSON!`, so is `[$v]` with a nullable `$v: JSON`); a field of an object
   literal written for a type that is not an input object type (a custom scalar) has no expected type. *)
Fixpoint xv_value_usages (s : schema) (expected : option (ty * bool)) (nested in_so : bool) (v : value)
    {struct v} : list xv_usage :=
  match v with
  | VVar n => [ {| xu_name := n; xu_loc := expected; xu_nested := nested; xu_in_scalar_object := in_so |} ]
  | VList l =>
      let item := match expected with
                  | Some (TList i, _) | Some (TNonNullList i, _) => Some (i, false)
                  | Some (t, _) => Some (compat_nullable t, false)
                  | None => None
                  end in
      flat_map (xv_value_usages s item true in_so) l
  | VObject fs =>
      let defs := match expected with
                  | Some (t, _) => xv_input_fields s (inner_named_type t)
                  | None => None
                  end in
      let in_so' := in_so || match expected with
                             | Some (t, _) => xv_custom_scalar s (inner_named_type t)
                             | None => false
                             end in
      flat_map (fun kv => match kv with
                          | (k, x) =>
                              xv_value_usages s
                                match defs with
                                | Some defs => match xv_find_iv k defs with
                                               | Some f => Some (iv_ty f, xv_is_some (iv_default f))
                                               | None => None
                                               end
                                | None => None
                                end true in_so' x
                          end) fs
  | _ => []
  end.

Definition xv_site_usages (s : schema) (site : xv_argsite) : list xv_usage :=
  flat_map (fun a => xv_value_usages s
                       match fst site with
                       | Some defs => match xv_find_iv (fst a) defs with
                                      | Some f => Some (iv_ty f, xv_is_some (iv_default f))
                                      | None => None
                                      end
                       | None => None
                       end false false (snd a)) (snd site).

(* the usages in scope of an operation: its own directives and selections, and the directives and selections
   of every fragment it reaches *)
Definition xv_op_usages (s : schema) (frags : list (str * xv_frag)) (o : xv_op) : list xv_usage :=
  flat_map (fun dr => xv_site_usages s (xv_dir_site s dr)) (xo_dirs o)
  ++ flat_map (fun e => flat_map (xv_site_usages s) (xv_ev_sites s e)) (xv_op_events s o)
  ++ flat_map (fun n => match xv_assoc n frags with
                        | Some f =>
                            flat_map (fun dr => xv_site_usages s (xv_dir_site s dr)) (xv_frag_dirs f)
                            ++ flat_map (fun e => flat_map (xv_site_usages s) (xv_ev_sites s e))
                                        (xv_frag_events s f)
                        | None => []
                        end) (xv_reach frags (xv_spreads (xo_sels o))).

Fixpoint xv_find_var (n : str) (l : list vardef) : option vardef :=
  match l with
  | [] => None
  | v :: r => if streq n (v_name v) then Some v else xv_find_var n r
  end.

(* 5.8.3 All Variable Uses Defined *)
Definition xv_r_variables_defined (s : schema) (d : document) : bool :=
  forallb (fun o => forallb (fun u => xv_is_some (xv_find_var (xu_name u) (xo_vars o)))
                            (xv_op_usages s (xv_frags d) o)) (xv_ops d).

(* 5.8.4 All Variables Used *)
Definition xv_r_variables_used (s : schema) (d : document) : bool :=
  forallb (fun o => forallb (fun v => xv_mem (v_name v) (map xu_name (xv_op_usages s (xv_frags d) o))) (xo_vars o))
          (xv_ops d).

(* 5.8.5 All Variable Usages Are Allowed: IsVariableUsageAllowed is Exec/Compat.v's compat_usage_allowed,
   proved equal to the specification's IsVariableUsageAllowed / AreTypesCompatible in Props/C29.v *)
Definition xv_cv (v : value) : compat_value := match v with VNull => CvNull | _ => CvOther end.
Definition xv_usage_allowed (vd : vardef) (loc : ty * bool) : bool :=
  compat_usage_allowed {| cv_ty := v_ty vd; cv_default := option_map xv_cv (v_default vd) |}
                       {| cu_ty := fst loc; cu_default := if snd loc then Some CvOther else None |}.
Definition xv_r_variable_usages_allowed (s : schema) (d : document) : bool :=
  forallb (fun o => forallb (fun u => match xv_find_var (xu_name u) (xo_vars o), xu_loc u with
                                      | Some vd, Some loc => xv_usage_allowed vd loc
                                      | _, _ => true
                                      end) (xv_op_usages s (xv_frags d) o)) (xv_ops d).

(* ------------------------------------------------------------------------------------------------ *)
(* 5.3.2 Field Selection Merging *)
Record xv_cfield := {
  xf_parent : str;                 (* the type of the selection set the field is written in *)
  xf_key : str;                    (* response name *)
  xf_name : str;
  xf_args : list argument;
  xf_def : fielddef;
  xf_sub : list selection }.

(* "the set of selections with a given response name in set including visiting fragments and inline fragments":
   all field selections of a selection set, fragments expanded.  A field that is not defined on its parent is
   not collected (no return type; 5.3.1 reports it).  Fuel: one unit per named fragment entered; with acyclic
   fragments S (length frags) is enough; None = out of fuel. *)
Fixpoint xv_opt_concat {A} (l : list (option (list A))) : option (list A) :=
  match l with
  | [] => Some []
  | None :: _ => None
  | Some a :: r => match xv_opt_concat r with Some b => Some (a ++ b) | None => None end
  end.

Fixpoint xv_collect (fuel : nat) (s : schema) (frags : list (str * xv_frag)) (parent : str)
    (sels : list selection) {struct fuel} : option (list xv_cfield) :=
  match fuel with
  | O => None
  | S fuel' =>
      xv_opt_concat (map
        ((fix go (parent : str) (x : selection) {struct x} : option (list xv_cfield) :=
            match x with
            | SField a n args _ sub =>
                match xv_lookup_field s parent n with
                | Some fd => Some [ {| xf_parent := parent; xf_key := match a with Some k => k | None => n end;
                                       xf_name := n; xf_args := args; xf_def := fd; xf_sub := sub |} ]
                | None => Some []
                end
            | SSpread n _ =>
                match xv_assoc n frags with
                | Some f => xv_collect fuel' s frags (xv_frag_cond f) (xv_frag_sels f)
                | None => Some []
                end
            | SInline c _ sub => xv_opt_concat (map (go (match c with Some c => c | None => parent end)) sub)
            end) parent) sels)
  end.

(* "identical sets of arguments".  Values are compared as graphql-js does (the printed text with object fields
   sorted): same kind and text; lists item by item with the same length; objects as sets of fields. *)
Fixpoint xv_value_same (a b : value) {struct a} : bool :=
  match a, b with
  | VNull, VNull => true
  | VEnum x, VEnum y | VVar x, VVar y | VString x, VString y | VFloat x, VFloat y | VInt x, VInt y => streq x y
  | VBool x, VBool y => Bool.eqb x y
  | VList la, VList lb =>
      (fix go (la lb : list value) {struct la} : bool :=
         match la, lb with
         | [], [] => true
         | x :: la', y :: lb' => xv_value_same x y && go la' lb'
         | _, _ => false
         end) la lb
  | VObject fa, VObject fb =>
      forallb (fun kv => match kv with
                         | (k, x) => existsb (fun kv' => streq k (fst kv') && xv_value_same x (snd kv')) fb
                         end) fa
      && forallb (fun kv' => existsb (fun kv => match kv with
                                                | (k, x) => streq k (fst kv') && xv_value_same x (snd kv')
                                                end) fa) fb
  | _, _ => false
  end.

Definition xv_args_same (a b : list argument) : bool :=
  forallb (fun x => existsb (fun y => streq (fst x) (fst y) && xv_value_same (snd x) (snd y)) b) a
  && forallb (fun y => existsb (fun x => streq (fst x) (fst y)) a) b.

(* three-valued conjunction: None (out of fuel) wins *)
Definition xv_and3 (a b : option bool) : option bool :=
  match a, b with
  | Some x, Some y => Some (x && y)
  | _, _ => None
  end.
Fixpoint xv_all3 {A} (f : A -> option bool) (l : list A) : option bool :=
  match l with
  | [] => Some true
  | x :: r => xv_and3 (f x) (xv_all3 f r)
  end.
(* "given each pair of members": every unordered pair of distinct members *)
Fixpoint xv_pairs3 {A} (f : A -> A -> option bool) (l : list A) : option bool :=
  match l with
  | [] => Some true
  | x :: r => xv_and3 (xv_all3 (f x) r) (xv_pairs3 f r)
  end.

(* the selection sets of two fields added together and collected *)
Definition xv_merged (fuel : nat) (s : schema) (frags : list (str * xv_frag)) (a b : xv_cfield)
    : option (list xv_cfield) :=
  match xv_collect fuel s frags (inner_named_type (fd_ty (xf_def a))) (xf_sub a),
        xv_collect fuel s frags (inner_named_type (fd_ty (xf_def b))) (xf_sub b) with
  | Some x, Some y => Some (x ++ y)
  | _, _ => None
  end.

(* SameResponseShape(fieldA, fieldB), steps 3-4 on the types, then 5 (leaf types must be the same type) and
   6-9 (composite types: the merged sub-selections pairwise, by response name).  Fuel: one unit per level of
   field nesting; `cfuel` is the fuel of xv_collect. *)
Fixpoint xv_shape_types (s : schema) (ta tb : ty) : option (str * str) :=
  match ta, tb with
  | TNonNullNamed a, TNonNullNamed b | TNamed a, TNamed b => Some (a, b)
  | TNonNullList a, TNonNullList b | TList a, TList b => xv_shape_types s a b
  | _, _ => None                                 (* 3a / 4a: non-null against nullable, list against non-list *)
  end.

Fixpoint xv_same_shape (fuel cfuel : nat) (s : schema) (frags : list (str * xv_frag)) (a b : xv_cfield)
    {struct fuel} : option bool :=
  match fuel with
  | O => None
  | S fuel' =>
      match xv_shape_types s (fd_ty (xf_def a)) (fd_ty (xf_def b)) with
      | None => Some false
      | Some (na, nb) =>
          match sch_get_type s na, sch_get_type s nb with
          | Some ta, Some tb =>
              if xv_is_leaf ta || xv_is_leaf tb then Some (streq na nb)
              else if xv_is_composite ta && xv_is_composite tb then
                match xv_merged cfuel s frags a b with
                | None => None
                | Some merged =>
                    xv_pairs3 (fun x y => if streq (xf_key x) (xf_key y)
                                          then xv_same_shape fuel' cfuel s frags x y else Some true) merged
                end
              else Some false
          | _, _ => Some true                    (* an undefined return type: the schema's business *)
          end
      end
  end.

(* FieldsInSetCanMerge(set) on the collected fields of the set *)
Fixpoint xv_can_merge (fuel cfuel : nat) (s : schema) (frags : list (str * xv_frag)) (fields : list xv_cfield)
    {struct fuel} : option bool :=
  match fuel with
  | O => None
  | S fuel' =>
      xv_pairs3 (fun a b =>
        if streq (xf_key a) (xf_key b) then
          xv_and3 (xv_same_shape fuel' cfuel s frags a b)
            (if streq (xf_parent a) (xf_parent b)
                || negb (xv_object_name s (xf_parent a)) || negb (xv_object_name s (xf_parent b))
             then
               if streq (xf_name a) (xf_name b) && xv_args_same (xf_args a) (xf_args b) then
                 match xv_merged cfuel s frags a b with
                 | None => None
                 | Some merged => xv_can_merge fuel' cfuel s frags merged
                 end
               else Some false
             else Some true)
        else Some true) fields
  end.

(* "Let set be any selection set defined in the GraphQL document": every selection set with the type in scope
   (operations, fragment definitions, fields, inline fragments) *)
Fixpoint xv_sel_sets (s : schema) (parent : option str) (x : selection) : list (option str * list selection) :=
  match x with
  | SField _ n _ _ sub =>
      match sub with
      | [] => []
      | _ => let p := xv_sub_parent s (xv_field_def s parent n) in (p, sub) :: flat_map (xv_sel_sets s p) sub
      end
  | SSpread _ _ => []
  | SInline c _ sub => let p := xv_inline_parent s parent c in (p, sub) :: flat_map (xv_sel_sets s p) sub
  end.
Definition xv_all_sel_sets (s : schema) (d : document) : list (option str * list selection) :=
  flat_map (fun o => let p := xv_root s (xo_type o) in (p, xo_sels o) :: flat_map (xv_sel_sets s p) (xo_sels o))
           (xv_ops d)
  ++ flat_map (fun nf => let p := xv_composite_opt s (xv_frag_cond (snd nf)) in
                         (p, xv_frag_sels (snd nf)) :: flat_map (xv_sel_sets s p) (xv_frag_sels (snd nf)))
              (xv_frags d).

Fixpoint xv_sel_depth (x : selection) : nat :=
  match x with
  | SField _ _ _ _ sub | SInline _ _ sub => S (fold_right (fun y m => Nat.max (xv_sel_depth y) m) O sub)
  | SSpread _ _ => 1%nat
  end.
Definition xv_sels_depth (sels : list selection) : nat :=
  fold_right (fun y m => Nat.max (xv_sel_depth y) m) O sels.
(* enough fuel for the field nesting of the document with fragments expanded, when fragments are acyclic:
   every level either stays in a definition or enters one more of the (acyclic) fragments *)
Definition xv_merge_fuel (d : document) : nat :=
  S (S (length (xv_frags d)) *
     S (fold_right Nat.max O (map (fun o => xv_sels_depth (xo_sels o)) (xv_ops d)
                              ++ map (fun nf => xv_sels_depth (xv_frag_sels (snd nf))) (xv_frags d)))).

(* the verdict of the rule: None = out of fuel (cannot happen when fragments are acyclic; the rule is evaluated
   only then, 5.5.2.2 is checked first) *)
Definition xv_merge_verdict (s : schema) (d : document) : option bool :=
  if xv_r_no_fragment_cycles d then
    let frags := xv_frags d in
    let cfuel := S (length frags) in
    xv_all3 (fun ps => match ps with
                       | (Some p, sels) =>
                           match xv_collect cfuel s frags p sels with
                           | Some fields => xv_can_merge (xv_merge_fuel d) cfuel s frags fields
                           | None => None
                           end
                       | (None, _) => Some true
                       end) (xv_all_sel_sets s d)
  else Some true.
Definition xv_r_fields_merge (s : schema) (d : document) : bool :=
  match xv_merge_verdict s d with Some b => b | None => false end.
(* distinct from a verdict: the merging rule ran out of fuel *)
Definition xv_merge_out_of_fuel (s : schema) (d : document) : bool :=
  match xv_merge_verdict s d with Some _ => false | None => true end.

(* ------------------------------------------------------------------------------------------------ *)
(* apollo-compiler's internal limits (documents beyond them are outside the range of the tie):
   fragment spreads nested more than 100 deep (validation/fragment.rs RecursionStack limit),
   selection nesting with fragments expanded beyond FIELD_DEPTH_LIMIT = 128 (validation/selection.rs).
   A conservative bound: fewer than 100 fragments (a chain of spreads visits distinct fragments), and
   (fragments + 1) * (deepest selection + 1) at most 128. *)
Definition xv_within_limits (d : document) : bool :=
  Nat.ltb (length (xv_frags d)) 100 && Nat.leb (xv_merge_fuel d) 128.

(* ------------------------------------------------------------------------------------------------ *)
(* the verdict *)
Definition xv_rule_vector (p : xv_params) (s : schema) (d : document) : list bool :=
  [ xv_r_executable_definitions d;
    xv_r_operation_name_unique d;
    xv_r_lone_anonymous d;
    xv_r_subscription_single_root p s d;
    xv_r_fields_defined s d;
    xv_r_fields_merge s d;
    xv_r_leaf_selections s d;
    xv_r_argument_names s d;
    xv_r_argument_unique s d;
    xv_r_required_arguments s d;
    xv_r_fragment_name_unique d;
    xv_r_fragment_type_exists s d;
    xv_r_fragment_on_composite s d;
    xv_r_fragments_used d;
    xv_r_spread_target_defined s d;
    xv_r_no_fragment_cycles d;
    xv_r_spread_possible p s d;
    xv_r_values_correct_type s d;
    xv_r_input_field_names s d;
    xv_r_input_field_unique s d;
    xv_r_input_required_fields s d;
    xv_r_variable_unique d;
    xv_r_variables_input_types s d;
    xv_r_variables_defined s d;
    xv_r_variables_used s d;
    xv_r_variable_usages_allowed s d;
    xv_r_directives_defined s d;
    xv_r_directive_locations s d;
    xv_r_directives_unique s d;
    xv_r_root_operation_defined p s d;
    xv_r_subscription_no_skip_include p s d ].

Definition xv_exec_valid (p : xv_params) (s : schema) (d : document) : bool :=
  forallb (fun b => b) (xv_rule_vector p s d).
