(* C17 deepening, part 8: the hypotheses of the document-level equivalence (MergeXingEquivDoc.v: xg_doc, xg_used,
   unique fragment names) from the other rules of section 5 as Valid.v states them, and two facts about the schema.
   - xr_used: 5.5.1.4 (xv_r_fragments_used, computed with xv_reach) gives a spread path from an operation to every
     fragment (xv_reach is sound).
   - xr_doc: 5.3.1, 5.3.3, 5.4.2, 5.6.3, 5.5.1.2, 5.5.1.3 and defined root operation types give xg_doc, over a schema
     whose field types are defined leaf or composite types and whose root operation types are composite.
   - xing_equiv_rules: the document-level theorem with these rules as hypotheses.
   Proofs only; nothing here is extracted. *)
From ApolloVerif Require Import Base.Chars Ast.Ast Schema.Model Exec.Valid Exec.MergeXing Exec.FragCyclesProofs
  Exec.MergeXingProofs Exec.MergeXingEquivExpand Exec.MergeXingEquivBridge Exec.MergeXingEquivSem
  Exec.MergeXingEquivSpec Exec.MergeXingEquivKeys Exec.MergeXingEquivMemo Exec.MergeXingEquivDoc.
From Coq Require Import Arith PeanoNat Lia.

(* ---------- xv_reach only finds what spread paths reach ---------- *)
Lemma xv_union_in a b x : In x (xv_union a b) -> In x a \/ In x b.
Proof.
  revert a. induction b as [|y b IH]; intros a; cbn [xv_union]; [auto|].
  destruct (xv_mem y a).
  - intros H. destruct (IH a H) as [H1|H1]; [left; exact H1|right; right; exact H1].
  - intros H. destruct (IH (a ++ [y]) H) as [H1|H1]; [|right; right; exact H1].
    apply in_app_or in H1. destruct H1 as [H1|[<-|[]]]; [left; exact H1|right; left; reflexivity].
Qed.

Lemma xv_succ_in frags r x : In x (xv_succ frags r) -> exists m, In m r /\ fc_edge frags m x.
Proof. unfold xv_succ. intros H. apply in_flat_map in H. destruct H as (m & Hm & Hx). exists m. split; [exact Hm|exact Hx]. Qed.

Lemma fc_reach_snoc frags a m b : fc_reach frags a m -> fc_edge frags m b -> fc_reach frags a b.
Proof.
  intros H He. induction H as [a m H|a m0 m H _ IH].
  - eapply fcr_trans; [exact H|]. apply fcr_step. exact He.
  - eapply fcr_trans; [exact H|]. exact (IH He).
Qed.

Lemma xv_iter_inv {A} (P : A -> Prop) (f : A -> A) : (forall x, P x -> P (f x)) -> forall n x, P x -> P (xv_iter n f x).
Proof. intros H n. induction n as [|n IH]; intros x Hx; cbn [xv_iter]; [exact Hx|]. apply IH. apply H. exact Hx. Qed.

Lemma xv_reach_sound frags init n : In n (xv_reach frags init) ->
  In n init \/ exists m, In m init /\ fc_reach frags m n.
Proof.
  unfold xv_reach.
  apply (xv_iter_inv (fun r => forall n, In n r -> In n init \/ exists m, In m init /\ fc_reach frags m n)).
  - intros r Hr x Hx. apply xv_union_in in Hx. destruct Hx as [Hx|Hx]; [exact (Hr x Hx)|].
    apply xv_succ_in in Hx. destruct Hx as (m & Hm & He). right. destruct (Hr m Hm) as [Hi|(m0 & Hi & Hreach)].
    + exists m. split; [exact Hi|apply fcr_step; exact He].
    + exists m0. split; [exact Hi|]. eapply fc_reach_snoc; eassumption.
  - intros x Hx. apply xv_union_in in Hx. destruct Hx as [[]|Hx]. left. exact Hx.
Qed.

Lemma xr_used d : xv_r_fragments_used d = true -> xg_used d.
Proof.
  unfold xv_r_fragments_used. rewrite forallb_forall. intros H n f Hnf. specialize (H (n, f) Hnf). cbn [fst] in H.
  apply xv_mem_In in H. unfold xv_used_fragments in H. apply xv_reach_sound in H.
  assert (Hinit : forall m, In m (flat_map (fun o => xv_spreads (xo_sels o)) (xv_ops d)) ->
            exists o, In o (xv_ops d) /\ In m (xv_spreads (xo_sels o))).
  { intros m Hm. apply in_flat_map in Hm. exact Hm. }
  destruct H as [H|(m & Hm & Hr)].
  - destruct (Hinit n H) as (o & Ho & Hs). exists o, n. auto.
  - destruct (Hinit m Hm) as (o & Ho & Hs). exists o, m. auto.
Qed.

Lemma xr_names d : xv_r_fragment_name_unique d = true -> NoDup (map fst (xv_frags d)).
Proof. apply xv_nodup_NoDup. Qed.

(* ---------- the rules, event by event ---------- *)
(* the schema: every field definition returns a defined leaf or composite type; root operation types are composite *)
Definition xr_schema_ok (s : schema) : Prop :=
  (forall p n fd, xv_lookup_field s p n = Some fd -> ty_defined s (fd_ty fd)) /\
  (forall op r, xv_root s op = Some r -> xv_composite_name s r = true).

Definition xr_ev_ok (s : schema) (e : xv_ev) : Prop :=
  match e with
  | XeField parent _ n args _ has_sub =>
      match parent with Some p => xv_is_some (xv_lookup_field s p n) = true | None => True end /\
      match xv_field_def s parent n with
      | Some fd =>
          match sch_get_type s (inner_named_type (fd_ty fd)) with
          | Some t => (if xv_is_leaf t then negb has_sub else if xv_is_composite t then has_sub else true) = true
          | None => True
          end
      | None => True
      end /\
      xv_nodup (map fst args) = true /\ forallb xv_value_unique (map snd args) = true
  | XeSpread _ _ _ => True
  | XeInline _ c _ =>
      match c with Some c' => xv_composite_name s c' = true | None => True end
  end.

Section Rules.
  Variable s : schema.
  Variable d : document.
  Hypothesis Hs : xr_schema_ok s.
  Hypothesis R_defined : xv_r_fields_defined s d = true.
  Hypothesis R_leaf : xv_r_leaf_selections s d = true.
  Hypothesis R_args : xv_r_argument_unique s d = true.
  Hypothesis R_keys : xv_r_input_field_unique s d = true.
  Hypothesis R_exists : xv_r_fragment_type_exists s d = true.
  Hypothesis R_composite : xv_r_fragment_on_composite s d = true.
  Hypothesis R_roots : forall o, In o (xv_ops d) -> xv_is_some (xv_root s (xo_type o)) = true.

  Lemma xr_cond_composite c : In c (xv_type_conditions s d) -> xv_composite_name s c = true.
  Proof.
    intros Hc. unfold xv_r_fragment_type_exists, xv_r_fragment_on_composite in *. rewrite forallb_forall in *.
    specialize (R_exists c Hc). specialize (R_composite c Hc). unfold xv_composite_name.
    destruct (sch_get_type s c); [exact R_composite|discriminate].
  Qed.

  Lemma xr_events_ok e : In e (xv_doc_events s d) -> xr_ev_ok s e.
  Proof.
    intros He. destruct e as [parent a n args dirs has_sub|parent n dirs|parent c dirs]; cbn [xr_ev_ok]; [|exact I|].
    - split; [|split; [|split]].
      + unfold xv_r_fields_defined in R_defined. rewrite forallb_forall in R_defined. specialize (R_defined _ He).
        destruct parent; [exact R_defined|exact I].
      + unfold xv_r_leaf_selections in R_leaf. rewrite forallb_forall in R_leaf. specialize (R_leaf _ He). cbn beta iota in R_leaf.
        destruct (xv_field_def s parent n) as [fd|]; [|exact I].
        destruct (sch_get_type s (inner_named_type (fd_ty fd))); [exact R_leaf|exact I].
      + unfold xv_r_argument_unique in R_args. rewrite forallb_forall in R_args.
        apply (R_args (option_map fd_args (xv_field_def s parent n), args)). unfold xv_all_sites. apply in_or_app. right.
        apply in_flat_map. exists (XeField parent a n args dirs has_sub). split; [exact He|]. cbn [xv_ev_sites app]. left. reflexivity.
      + unfold xv_r_input_field_unique in R_keys. rewrite forallb_forall in R_keys. apply forallb_forall. intros v Hv.
        apply R_keys. unfold xv_all_values. apply in_or_app. right. apply in_flat_map.
        exists (option_map fd_args (xv_field_def s parent n), args). split; [|exact Hv].
        unfold xv_all_sites. apply in_or_app. right.
        apply in_flat_map. exists (XeField parent a n args dirs has_sub). split; [exact He|]. cbn [xv_ev_sites app]. left. reflexivity.
    - destruct c as [c'|]; [|exact I]. apply xr_cond_composite. unfold xv_type_conditions. apply in_or_app. right.
      apply in_flat_map. exists (XeInline parent (Some c') dirs). split; [exact He|]. left. reflexivity.
  Qed.

  (* from the events of a selection to the hereditary statement *)
  Lemma xr_sel_ok x : forall p, xv_composite_name s p = true ->
    (forall e, In e (xv_sel_events s (Some p) x) -> xr_ev_ok s e) -> xg_ok s p x.
  Proof.
    induction x as [a n args dirs sub IH|n dirs|c dirs sub IH] using selection_ind_nested; intros p Hp Hev.
    - cbn [xv_sel_events] in Hev.
      pose proof (Hev _ (or_introl eq_refl)) as H0. cbn [xr_ev_ok xv_field_def] in H0. destruct H0 as (Hdef & Hleaf & Hnd & Hval).
      destruct (xv_lookup_field s p n) as [fd|] eqn:L; [|discriminate Hdef].
      destruct (proj1 Hs p n fd L) as (d0 & G & K). rewrite G in Hleaf.
      apply xg_ok_field. exists fd. split; [exact L|]. split; [exact Hp|]. split; [|split; [|split]].
      + split; [apply xv_nodup_NoDup; exact Hnd|]. intros k v Hkv. rewrite forallb_forall in Hval. apply Hval.
        apply in_map_iff. exists (k, v). auto.
      + exists d0. auto.
      + unfold mxb_leaf_name. rewrite G. intros Hl. rewrite Hl in Hleaf.
        destruct sub as [|y0 r0]; [reflexivity|]. cbn in Hleaf. discriminate Hleaf.
      + apply Forall_forall. intros y Hy. rewrite Forall_forall in IH.
        destruct (xv_is_leaf d0) eqn:El.
        * destruct sub as [|y0 r0]; [destruct Hy|]. cbn in Hleaf. discriminate Hleaf.
        * destruct K as [K|K]; [congruence|].
          apply (IH y Hy); [unfold xv_composite_name; rewrite G; exact K|].
          intros e He. apply Hev. right. apply in_flat_map. exists y. split; [exact Hy|].
          cbn [xv_field_def xv_sub_parent]. rewrite L. cbn [xv_sub_parent]. unfold xv_composite_opt, xv_composite_name. rewrite G, K. exact He.
    - exact I.
    - cbn [xv_sel_events] in Hev. pose proof (Hev _ (or_introl eq_refl)) as H0. cbn [xr_ev_ok] in H0.
      apply xg_ok_inline. split; [exact H0|]. apply Forall_forall. intros y Hy. rewrite Forall_forall in IH.
      assert (Hp' : xv_composite_name s (xg_inline_ty p c) = true) by (destruct c as [c'|]; [exact H0|exact Hp]).
      apply (IH y Hy _ Hp'). intros e He. apply Hev. right. apply in_flat_map. exists y. split; [exact Hy|].
      destruct c as [c'|]; cbn [xv_inline_parent xg_inline_ty] in *; [|exact He].
      unfold xv_composite_opt. rewrite H0. exact He.
  Qed.

  Lemma xr_sels_ok p sels : xv_composite_name s p = true ->
    (forall e, In e (xv_events s (Some p) sels) -> xr_ev_ok s e) -> Forall (xg_ok s p) sels.
  Proof.
    intros Hp Hev. apply Forall_forall. intros x Hx. apply (xr_sel_ok x p Hp). intros e He. apply Hev.
    unfold xv_events. apply in_flat_map. exists x. auto.
  Qed.

  Lemma xr_doc : xg_doc s d.
  Proof.
    split.
    - intros o Ho. specialize (R_roots o Ho). destruct (xv_root s (xo_type o)) as [r|] eqn:Er; [|discriminate].
      exists r. split; [reflexivity|]. apply (xr_sels_ok r (xo_sels o) (proj2 Hs _ _ Er)). intros e He. apply xr_events_ok.
      unfold xv_doc_events. apply in_or_app. left. apply in_flat_map. exists o. split; [exact Ho|]. unfold xv_op_events. rewrite Er. exact He.
    - intros n f Hnf.
      assert (Hc : xv_composite_name s (xv_frag_cond f) = true).
      { apply xr_cond_composite. unfold xv_type_conditions. apply in_or_app. left. apply in_map_iff. exists (n, f). auto. }
      split; [exact Hc|]. apply (xr_sels_ok _ _ Hc). intros e He. apply xr_events_ok.
      unfold xv_doc_events. apply in_or_app. right. apply in_flat_map. exists (n, f). split; [exact Hnf|].
      unfold xv_frag_events. cbn [snd]. unfold xv_composite_opt. rewrite Hc. exact He.
  Qed.
End Rules.

(* the document-level equivalence with the rules of Valid.v as hypotheses *)
Theorem xing_equiv_rules s d b hi :
  xr_schema_ok s ->
  xv_r_fields_defined s d = true -> xv_r_leaf_selections s d = true -> xv_r_argument_unique s d = true ->
  xv_r_input_field_unique s d = true -> xv_r_fragment_type_exists s d = true -> xv_r_fragment_on_composite s d = true ->
  xv_r_root_operation_defined xv_apollo_params s d = true ->
  xv_r_fragment_name_unique d = true -> xv_r_fragments_used d = true -> xv_r_no_fragment_cycles d = true ->
  xv_merge_out_of_fuel s d = false ->
  mxn_document s d = Some (b, hi) -> (hi <= mx_field_depth_limit)%nat ->
  mx_document_ok s d = Some (xv_r_fields_merge s d).
Proof.
  intros Hs R1 R2 R3 R4 R5 R6 R7 R8 R9 R10 Hfuel En Hhi.
  assert (Hroots : forall o, In o (xv_ops d) -> xv_is_some (xv_root s (xo_type o)) = true).
  { unfold xv_r_root_operation_defined in R7. cbn [xv_apollo_params xp_reject_undefined_root_operation negb orb] in R7.
    rewrite forallb_forall in R7. exact R7. }
  exact (xing_equiv_doc s d (xr_doc s d Hs R1 R2 R3 R4 R5 R6 Hroots) (xr_names d R8) (xr_used d R9) b hi R10 Hfuel En Hhi).
Qed.

(* the same for the variant without memo guards *)
Theorem xing_equiv_nomemo_rules s d b hi :
  xr_schema_ok s ->
  xv_r_fields_defined s d = true -> xv_r_leaf_selections s d = true -> xv_r_argument_unique s d = true ->
  xv_r_input_field_unique s d = true -> xv_r_fragment_type_exists s d = true -> xv_r_fragment_on_composite s d = true ->
  xv_r_root_operation_defined xv_apollo_params s d = true ->
  xv_r_fragment_name_unique d = true -> xv_r_fragments_used d = true -> xv_r_no_fragment_cycles d = true ->
  xv_merge_out_of_fuel s d = false ->
  mxn_document s d = Some (b, hi) -> (hi <= mx_field_depth_limit)%nat ->
  b = xv_r_fields_merge s d.
Proof.
  intros Hs R1 R2 R3 R4 R5 R6 R7 R8 R9 R10 Hfuel En Hhi.
  assert (Hroots : forall o, In o (xv_ops d) -> xv_is_some (xv_root s (xo_type o)) = true).
  { unfold xv_r_root_operation_defined in R7. cbn [xv_apollo_params xp_reject_undefined_root_operation negb orb] in R7.
    rewrite forallb_forall in R7. exact R7. }
  unfold xv_merge_out_of_fuel in Hfuel. unfold xv_r_fields_merge.
  destruct (xv_merge_verdict s d) as [v|] eqn:Ev; [|discriminate].
  exact (xing_equiv_nomemo_doc s d (xr_doc s d Hs R1 R2 R3 R4 R5 R6 Hroots) (xr_names d R8) (xr_used d R9) v R10 Ev b hi En Hhi).
Qed.

(* goal 1 against the specification's own collection (Valid.v xv_collect on the parsed selections): the fields
   expand_selections yields for a selection set of the built document are, each seen as the specification sees a
   field (mxb_proj), exactly the members of the specification's collection *)
Theorem mx_expand_eq_xv_collect s afrags p sels out fuel L :
  (forall k f, In (k, f) afrags -> xv_is_some (sch_get_type s (xv_frag_cond f)) = true /\
                                    Forall (xb_ok s (xv_frag_cond f)) (xv_frag_sels f)) ->
  Forall (xb_ok s p) sels ->
  mx_expand (mx_fragments s afrags []) [(p, mx_from_ast s p sels)] = Some out ->
  xv_collect fuel s afrags p sels = Some L ->
  forall c, In c L <-> exists f, In f out /\ mxb_proj f = c.
Proof.
  intros Hfr Hok Ex Ec c. pose proof (mx_fragments_rel s afrags Hfr) as Hrel.
  destruct (xb_from_ast_list s p sels Hok) as [T O]. rewrite <- T in Ec.
  rewrite (xvc_bridge s afrags _ Hrel fuel p _ O) in Ec.
  destruct (mxc_collect fuel (mx_fragments s afrags []) p (mx_from_ast s p sels)) as [L'|] eqn:Ec'; [|discriminate].
  cbn [option_map] in Ec. injection Ec as <-. rewrite in_map_iff.
  assert (HF : Forall2 (fun st L0 => mxc_collect fuel (mx_fragments s afrags []) (fst st) (snd st) = Some L0)
                 [(p, mx_from_ast s p sels)] [L']) by (constructor; [exact Ec'|constructor]).
  pose proof (mx_expand_eq_collect _ _ _ Ex fuel [L'] HF) as Hm. cbn [concat] in Hm. split.
  - intros (f & E & Hf). exists f. split; [|exact E]. apply Hm. rewrite app_nil_r. exact Hf.
  - intros (f & Hf & E). exists f. split; [exact E|]. apply Hm in Hf. rewrite app_nil_r in Hf. exact Hf.
Qed.
