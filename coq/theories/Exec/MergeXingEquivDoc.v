(* C17 deepening, part 7: the whole document.
   - xg_ok / xg_doc: what the other rules of section 5 (and a valid schema) guarantee for the selections of a
     document, stated hereditarily on the parsed selections: root operation types defined, every field defined on
     the type in scope (5.3.1), that type composite, no sub-selection under a leaf field (5.3.3), the return type of
     the field defined as a leaf or composite type, no repeated argument names (5.4.2) nor repeated object keys in
     argument values (5.6.3), inline and fragment type conditions composite (5.5.1.2, 5.5.1.3).
   - xd_all_in_hset / xd_hset_in_all: the selection sets the specification quantifies over (Valid.v
     xv_all_sel_sets: "any selection set defined in the document") are the selection sets under the operations,
     when fragment names are unique (5.5.1.1) and every fragment is used (5.5.1.4).
   - xing_equiv_nomemo_doc: the walk without memo guards, within the depth limit, gives the verdict of the
     specification's rule, whenever the latter is defined (does not run out of its fuel).
   Proofs only; nothing here is extracted. *)
From ApolloVerif Require Import Base.Chars Ast.Ast Schema.Model Exec.Valid Exec.MergeXing Exec.FragCyclesProofs
  Exec.MergeXingProofs Exec.MergeXingEquivExpand Exec.MergeXingEquivBridge Exec.MergeXingEquivSem
  Exec.MergeXingEquivSpec Exec.MergeXingEquivKeys Exec.MergeXingEquivMemo.
From Coq Require Import Arith PeanoNat Lia.

(* ---------- the hypotheses on the parsed selections ---------- *)
Definition xg_args_wf (args : list argument) : Prop :=
  NoDup (map fst args) /\ forall k v, In (k, v) args -> xv_value_unique v = true.

Fixpoint xg_ok (s : schema) (ty : str) (x : selection) {struct x} : Prop :=
  match x with
  | SField a n args dirs sub =>
      match xv_lookup_field s ty n with
      | None => False
      | Some fd =>
          let tn := inner_named_type (fd_ty fd) in
          xv_composite_name s ty = true /\ xg_args_wf args /\ ty_defined s (fd_ty fd) /\
          (mxb_leaf_name s tn = true -> sub = []) /\
          (fix all (l : list selection) : Prop := match l with [] => True | y :: r => xg_ok s tn y /\ all r end) sub
      end
  | SSpread _ _ => True
  | SInline c dirs sub =>
      match c with
      | Some c' =>
          xv_composite_name s c' = true /\
          (fix all (l : list selection) : Prop := match l with [] => True | y :: r => xg_ok s c' y /\ all r end) sub
      | None =>
          (fix all (l : list selection) : Prop := match l with [] => True | y :: r => xg_ok s ty y /\ all r end) sub
      end
  end.

Lemma xg_all_forall s ty l :
  (fix all (l : list selection) : Prop := match l with [] => True | y :: r => xg_ok s ty y /\ all r end) l
  <-> Forall (xg_ok s ty) l.
Proof.
  induction l as [|y r IH]; [split; [constructor|exact (fun _ => I)]|]. rewrite IH. split.
  - intros [H1 H2]. constructor; assumption.
  - intros H. inversion H; subst. split; assumption.
Qed.

Lemma xg_ok_field s ty a n args dirs sub :
  xg_ok s ty (SField a n args dirs sub) <->
  exists fd, xv_lookup_field s ty n = Some fd /\ xv_composite_name s ty = true /\ xg_args_wf args /\
             ty_defined s (fd_ty fd) /\ (mxb_leaf_name s (inner_named_type (fd_ty fd)) = true -> sub = []) /\
             Forall (xg_ok s (inner_named_type (fd_ty fd))) sub.
Proof.
  cbn [xg_ok]. destruct (xv_lookup_field s ty n) as [fd|].
  - cbn zeta. rewrite xg_all_forall. split.
    + intros H. exists fd. tauto.
    + intros (fd' & [= <-] & H). tauto.
  - split; [intros []|intros (fd & E & _); discriminate].
Qed.

Definition xg_inline_ty (ty : str) (c : option str) : str := match c with Some c' => c' | None => ty end.

Lemma xg_ok_inline s ty c dirs sub :
  xg_ok s ty (SInline c dirs sub) <->
  match c with Some c' => xv_composite_name s c' = true | None => True end /\
  Forall (xg_ok s (xg_inline_ty ty c)) sub.
Proof. cbn [xg_ok]. destruct c as [c'|]; cbn [xg_inline_ty]; rewrite xg_all_forall; tauto. Qed.

Lemma xv_composite_is_some s c : xv_composite_name s c = true -> xv_is_some (sch_get_type s c) = true.
Proof. unfold xv_composite_name. destruct (sch_get_type s c); [reflexivity|discriminate]. Qed.

Lemma xg_xb s x : forall ty, xg_ok s ty x -> xb_ok s ty x.
Proof.
  induction x as [a n args dirs sub IH|n dirs|c dirs sub IH] using selection_ind_nested; intros ty H.
  - apply xg_ok_field in H. destruct H as (fd & L & _ & _ & _ & Hl & Hall). cbn [xb_ok]. rewrite L. cbn zeta.
    split; [exact Hl|]. apply xb_all_forall. rewrite Forall_forall in *. intros y Hy. apply (IH y Hy). apply Hall. exact Hy.
  - exact I.
  - apply xg_ok_inline in H. destruct H as [Hc Hall]. cbn [xb_ok]. rewrite Forall_forall in *. destruct c as [c'|]; cbn [xg_inline_ty] in Hall.
    + split; [apply xv_composite_is_some; exact Hc|]. apply xb_all_forall. apply Forall_forall. intros y Hy. apply (IH y Hy). apply Hall. exact Hy.
    + apply xb_all_forall. apply Forall_forall. intros y Hy. apply (IH y Hy). apply Hall. exact Hy.
Qed.

Lemma xg_xb_list s ty sels : Forall (xg_ok s ty) sels -> Forall (xb_ok s ty) sels.
Proof. intros H. rewrite Forall_forall in *. intros x Hx. apply xg_xb. apply H. exact Hx. Qed.

(* the executable selection built from such a selection *)
Lemma xg_from_ast_field s p a n args dirs sub fd : xv_lookup_field s p n = Some fd ->
  (mxb_leaf_name s (inner_named_type (fd_ty fd)) = true -> sub = []) ->
  mx_from_ast_sel s p (SField a n args dirs sub) =
  [MxField a n args dirs fd (inner_named_type (fd_ty fd)) (mx_from_ast s (inner_named_type (fd_ty fd)) sub)].
Proof.
  intros L Hl. cbn [mx_from_ast_sel]. rewrite L. unfold mxb_leaf_name in Hl. unfold mx_from_ast.
  destruct (sch_get_type s (inner_named_type (fd_ty fd))) as [t|]; [|reflexivity].
  destruct t; cbn [xv_is_leaf] in Hl; try reflexivity; rewrite (Hl eq_refl); reflexivity.
Qed.

Lemma xg_from_ast_inline s p c dirs sub : match c with Some c' => xv_composite_name s c' = true | None => True end ->
  mx_from_ast_sel s p (SInline c dirs sub) = [MxInline c dirs (xg_inline_ty p c) (mx_from_ast s (xg_inline_ty p c) sub)].
Proof.
  intros Hc. cbn [mx_from_ast_sel]. destruct c as [c'|]; cbn [xg_inline_ty]; [|reflexivity].
  rewrite (xv_composite_is_some s c' Hc). reflexivity.
Qed.

(* which parsed selection an executable selection of a built set comes from *)
Lemma xg_from_ast_in s p sels m : Forall (xg_ok s p) sels -> In m (mx_from_ast s p sels) ->
  exists x, In x sels /\ mx_from_ast_sel s p x = [m].
Proof.
  intros Hok Hm. unfold mx_from_ast in Hm. apply in_flat_map in Hm. destruct Hm as (x & Hx & Hm).
  exists x. split; [exact Hx|]. rewrite Forall_forall in Hok.
  destruct (xb_from_ast s x p (xg_xb s x p (Hok x Hx))) as (m' & E & _). rewrite E in Hm. destruct Hm as [<-|[]]. exact E.
Qed.

Lemma xg_from_ast_mem s p sels x m : In x sels -> mx_from_ast_sel s p x = [m] -> In m (mx_from_ast s p sels).
Proof. intros Hx E. unfold mx_from_ast. apply in_flat_map. exists x. split; [exact Hx|]. rewrite E. left. reflexivity. Qed.

(* ---------- the document ---------- *)
Definition xg_doc (s : schema) (d : document) : Prop :=
  (forall o, In o (xv_ops d) -> exists root, xv_root s (xo_type o) = Some root /\ Forall (xg_ok s root) (xo_sels o)) /\
  (forall n f, In (n, f) (xv_frags d) ->
     xv_composite_name s (xv_frag_cond f) = true /\ Forall (xg_ok s (xv_frag_cond f)) (xv_frag_sels f)).

(* every fragment is reachable from an operation through spreads (what 5.5.1.4 means, see Valid.v) *)
Definition xg_used (d : document) : Prop :=
  forall n f, In (n, f) (xv_frags d) ->
    exists o m, In o (xv_ops d) /\ In m (xv_spreads (xo_sels o)) /\ (m = n \/ fc_reach (xv_frags d) m n).

Lemma xv_assoc_in {A} n (l : list (str * A)) v : xv_assoc n l = Some v -> In (n, v) l.
Proof.
  induction l as [|[k w] l IH]; cbn [xv_assoc]; [discriminate|]. destruct (streq n k) eqn:E.
  - intros [= <-]. apply streq_eq in E. subst. left. reflexivity.
  - intros H. right. exact (IH H).
Qed.

Lemma xv_assoc_nodup {A} n (l : list (str * A)) v : NoDup (map fst l) -> In (n, v) l -> xv_assoc n l = Some v.
Proof.
  induction l as [|[k w] l IH]; intros Hnd Hin; [destruct Hin|]. cbn [xv_assoc]. cbn [map fst] in Hnd.
  inversion Hnd as [|? ? Hnot Hnd']; subst. destruct Hin as [E|Hin].
  - injection E as -> ->. rewrite streq_refl. reflexivity.
  - destruct (streq n k) eqn:E; [|exact (IH Hnd' Hin)]. apply streq_eq in E. subst k. exfalso. apply Hnot.
    apply in_map_iff. exists (n, v). auto.
Qed.

Lemma fc_reach_defined frags a b : fc_reach frags a b -> exists f, xv_assoc a frags = Some f.
Proof.
  assert (He : forall a b, fc_edge frags a b -> exists f, xv_assoc a frags = Some f).
  { intros a0 b0 H. unfold fc_edge, fc_body in H. destruct (xv_assoc a0 frags) as [f|]; [exists f; reflexivity|destruct H]. }
  intros H. destruct H as [a b H|a m b H _]; exact (He _ _ H).
Qed.

Section DocSets.
  Variable s : schema.
  Variable d : document.
  Hypothesis Hdoc : xg_doc s d.
  Hypothesis Hnd : NoDup (map fst (xv_frags d)).

  Notation afrags := (xv_frags d).
  Notation mfrags := (mx_fragments s (xv_frags d) []).

  Definition xd_fragset (f : xv_frag) : mx_set := (xv_frag_cond f, mx_from_ast s (xv_frag_cond f) (xv_frag_sels f)).

  Lemma xd_conds_defined : forall k f, In (k, f) afrags -> xv_is_some (sch_get_type s (xv_frag_cond f)) = true.
  Proof. intros k f H. apply xv_composite_is_some. apply (proj2 Hdoc k f H). Qed.

  Lemma xd_mfrags_assoc n : xv_assoc n mfrags = option_map xd_fragset (xv_assoc n afrags).
  Proof. rewrite (mx_fragments_assoc s afrags [] n xd_conds_defined). reflexivity. Qed.

  Lemma xd_frags_rel : mxb_frags_rel s afrags mfrags.
  Proof.
    apply mx_fragments_rel. intros k f H. split; [exact (xd_conds_defined k f H)|].
    apply xg_xb_list. apply (proj2 Hdoc k f H).
  Qed.

  (* a field with a sub-selection returns a composite type *)
  Lemma xd_field_composite fd (sub : list selection) : ty_defined s (fd_ty fd) ->
    (mxb_leaf_name s (inner_named_type (fd_ty fd)) = true -> sub = []) -> sub <> [] ->
    xv_composite_name s (inner_named_type (fd_ty fd)) = true.
  Proof.
    intros (d0 & G & K) Hl Hne. unfold xv_composite_name. rewrite G. destruct K as [K|K]; [|exact K].
    exfalso. apply Hne. apply Hl. unfold mxb_leaf_name. rewrite G. exact K.
  Qed.

  Section Under.
    Variable root : mx_set.

    (* the selection sets the specification lists below a selection are selection sets under the root *)
    Lemma xd_nested_hset x : forall p msels, xg_ok s p x ->
      (forall m, mx_from_ast_sel s p x = [m] -> In m msels) -> mxq_hset mfrags root (p, msels) ->
      forall q qs, In (q, qs) (xv_sel_sets s (Some p) x) ->
        exists q', q = Some q' /\ Forall (xg_ok s q') qs /\ mxq_hset mfrags root (q', mx_from_ast s q' qs).
    Proof.
      induction x as [a n args dirs sub IH|n dirs|c dirs sub IH] using selection_ind_nested; intros p msels Hok Hm Hset q qs Hin.
      - apply xg_ok_field in Hok. destruct Hok as (fd & L & _ & _ & Hty & Hl & Hall).
        set (tn := inner_named_type (fd_ty fd)) in *.
        pose proof (Hm _ (xg_from_ast_field s p a n args dirs sub fd L Hl)) as Hmem.
        assert (Hsub : mxq_hset mfrags root (tn, mx_from_ast s tn sub)) by (eapply mxq_hs_field; eassumption).
        cbn [xv_sel_sets] in Hin. destruct sub as [|y0 r0] eqn:Esub; [destruct Hin|]. rewrite <- Esub in *.
        assert (Hne : sub <> []) by (rewrite Esub; discriminate).
        cbn [xv_field_def xv_sub_parent] in Hin. rewrite L in Hin. cbn [xv_sub_parent] in Hin. unfold xv_composite_opt in Hin.
        rewrite (xd_field_composite fd sub Hty Hl Hne) in Hin.
        destruct Hin as [E|Hin].
        + injection E as <- <-. exists tn. auto.
        + apply in_flat_map in Hin. destruct Hin as (y & Hy & Hin). rewrite Forall_forall in IH, Hall.
          apply (IH y Hy tn (mx_from_ast s tn sub) (Hall y Hy)); [|exact Hsub|exact Hin].
          intros m Em. eapply xg_from_ast_mem; eassumption.
      - destruct Hin.
      - apply xg_ok_inline in Hok. destruct Hok as [Hc Hall].
        set (sty := xg_inline_ty p c) in *.
        pose proof (Hm _ (xg_from_ast_inline s p c dirs sub Hc)) as Hmem. fold sty in Hmem.
        assert (Hsub : mxq_hset mfrags root (sty, mx_from_ast s sty sub)) by (eapply mxq_hs_inline; eassumption).
        assert (Ep : xv_inline_parent s (Some p) c = Some sty).
        { unfold sty. destruct c as [c'|]; cbn [xv_inline_parent xg_inline_ty]; [|reflexivity].
          unfold xv_composite_opt. rewrite Hc. reflexivity. }
        cbn [xv_sel_sets] in Hin. cbn zeta in Hin. rewrite Ep in Hin. destruct Hin as [E|Hin].
        + injection E as <- <-. exists sty. auto.
        + apply in_flat_map in Hin. destruct Hin as (y & Hy & Hin). rewrite Forall_forall in IH, Hall.
          apply (IH y Hy sty (mx_from_ast s sty sub) (Hall y Hy)); [|exact Hsub|exact Hin].
          intros m Em. eapply xg_from_ast_mem; eassumption.
    Qed.

    (* the fragments spread anywhere below a selection are selection sets under the root *)
    Lemma xd_spread_hset x : forall p msels, xg_ok s p x ->
      (forall m, mx_from_ast_sel s p x = [m] -> In m msels) -> mxq_hset mfrags root (p, msels) ->
      forall n f, In n (xv_sel_spreads x) -> xv_assoc n afrags = Some f -> mxq_hset mfrags root (xd_fragset f).
    Proof.
      induction x as [a n0 args dirs sub IH|n0 dirs|c dirs sub IH] using selection_ind_nested; intros p msels Hok Hm Hset n f Hin Ha.
      - apply xg_ok_field in Hok. destruct Hok as (fd & L & _ & _ & Hty & Hl & Hall).
        set (tn := inner_named_type (fd_ty fd)) in *.
        pose proof (Hm _ (xg_from_ast_field s p a n0 args dirs sub fd L Hl)) as Hmem.
        assert (Hsub : mxq_hset mfrags root (tn, mx_from_ast s tn sub)) by (eapply mxq_hs_field; eassumption).
        cbn [xv_sel_spreads] in Hin. apply in_flat_map in Hin. destruct Hin as (y & Hy & Hin).
        rewrite Forall_forall in IH, Hall.
        apply (IH y Hy tn (mx_from_ast s tn sub) (Hall y Hy)) with (n := n); [|exact Hsub|exact Hin|exact Ha].
        intros m Em. eapply xg_from_ast_mem; eassumption.
      - cbn [xv_sel_spreads] in Hin. destruct Hin as [<-|[]].
        assert (Hmem : In (MxSpread n0 dirs) msels) by (apply Hm; reflexivity).
        eapply mxq_hs_spread; [exact Hset|exact Hmem|]. rewrite xd_mfrags_assoc, Ha. reflexivity.
      - apply xg_ok_inline in Hok. destruct Hok as [Hc Hall].
        set (sty := xg_inline_ty p c) in *.
        pose proof (Hm _ (xg_from_ast_inline s p c dirs sub Hc)) as Hmem. fold sty in Hmem.
        assert (Hsub : mxq_hset mfrags root (sty, mx_from_ast s sty sub)) by (eapply mxq_hs_inline; eassumption).
        cbn [xv_sel_spreads] in Hin. apply in_flat_map in Hin. destruct Hin as (y & Hy & Hin).
        rewrite Forall_forall in IH, Hall.
        apply (IH y Hy sty (mx_from_ast s sty sub) (Hall y Hy)) with (n := n); [|exact Hsub|exact Hin|exact Ha].
        intros m Em. eapply xg_from_ast_mem; eassumption.
    Qed.

    Lemma xd_spreads_hset p sels : Forall (xg_ok s p) sels -> mxq_hset mfrags root (p, mx_from_ast s p sels) ->
      forall n f, In n (xv_spreads sels) -> xv_assoc n afrags = Some f -> mxq_hset mfrags root (xd_fragset f).
    Proof.
      intros Hok Hset n f Hin Ha. unfold xv_spreads in Hin. apply in_flat_map in Hin. destruct Hin as (y & Hy & Hin).
      rewrite Forall_forall in Hok.
      apply (xd_spread_hset y p (mx_from_ast s p sels) (Hok y Hy)) with (n := n); [|exact Hset|exact Hin|exact Ha].
      intros m Em. eapply xg_from_ast_mem; eassumption.
    Qed.

    Lemma xd_reach_hset a b : fc_reach afrags a b -> forall fa fb, xv_assoc a afrags = Some fa -> xv_assoc b afrags = Some fb ->
      mxq_hset mfrags root (xd_fragset fa) -> mxq_hset mfrags root (xd_fragset fb).
    Proof.
      assert (Hedge : forall a b fa fb, fc_edge afrags a b -> xv_assoc a afrags = Some fa -> xv_assoc b afrags = Some fb ->
                mxq_hset mfrags root (xd_fragset fa) -> mxq_hset mfrags root (xd_fragset fb)).
      { intros a0 b0 fa fb He Ea Eb Hs. unfold fc_edge, fc_body in He. rewrite Ea in He.
        apply (xd_spreads_hset (xv_frag_cond fa) (xv_frag_sels fa)) with (n := b0); [|exact Hs|exact He|exact Eb].
        apply (proj2 Hdoc a0 fa). apply xv_assoc_in. exact Ea. }
      intros H. induction H as [a b He|a m b He Hr IH]; intros fa fb Ea Eb Hs.
      - exact (Hedge a b fa fb He Ea Eb Hs).
      - destruct (fc_reach_defined _ _ _ Hr) as [fm Em]. apply (IH fm fb Em Eb). exact (Hedge a m fa fm He Ea Em Hs).
    Qed.

    Lemma xd_sets_hset p sels : Forall (xg_ok s p) sels -> mxq_hset mfrags root (p, mx_from_ast s p sels) ->
      forall q qs, In (q, qs) ((Some p, sels) :: flat_map (xv_sel_sets s (Some p)) sels) ->
        exists q', q = Some q' /\ Forall (xg_ok s q') qs /\ mxq_hset mfrags root (q', mx_from_ast s q' qs).
    Proof.
      intros Hok Hset q qs [E|Hin].
      - injection E as <- <-. exists p. auto.
      - apply in_flat_map in Hin. destruct Hin as (y & Hy & Hin). rewrite Forall_forall in Hok.
        apply (xd_nested_hset y p (mx_from_ast s p sels) (Hok y Hy)); [|exact Hset|exact Hin].
        intros m Em. eapply xg_from_ast_mem; eassumption.
    Qed.
  End Under.

  Definition xd_rootset (o : xv_op) (r : str) : mx_set := (r, mx_from_ast s r (xo_sels o)).

  (* every selection set of the document is a selection set under one of the operations *)
  Theorem xd_all_in_hset : xg_used d -> forall q qs, In (q, qs) (xv_all_sel_sets s d) ->
    exists o r q', In o (xv_ops d) /\ xv_root s (xo_type o) = Some r /\ q = Some q' /\ Forall (xg_ok s q') qs /\
                   mxq_hset mfrags (xd_rootset o r) (q', mx_from_ast s q' qs).
  Proof.
    intros Hused q qs Hin. unfold xv_all_sel_sets in Hin. apply in_app_or in Hin. destruct Hin as [Hin|Hin].
    - apply in_flat_map in Hin. destruct Hin as (o & Ho & Hin). cbn zeta in Hin.
      destruct (proj1 Hdoc o Ho) as (r & Er & Hok). rewrite Er in Hin.
      destruct (xd_sets_hset (xd_rootset o r) r (xo_sels o) Hok (mxq_hs_init _ _) q qs Hin) as (q' & Eq & Hq & Hs).
      exists o, r, q'. auto.
    - apply in_flat_map in Hin. destruct Hin as ([n f] & Hnf & Hin). cbn zeta in Hin. cbn [snd] in Hin.
      destruct (proj2 Hdoc n f Hnf) as [Hc Hok]. unfold xv_composite_opt in Hin. rewrite Hc in Hin.
      destruct (Hused n f Hnf) as (o & m & Ho & Hm & Hreach).
      destruct (proj1 Hdoc o Ho) as (r & Er & Hoko).
      pose proof (xv_assoc_nodup n afrags f Hnd Hnf) as Ea.
      assert (Hfs : mxq_hset mfrags (xd_rootset o r) (xd_fragset f)).
      { destruct Hreach as [->|Hr].
        - exact (xd_spreads_hset (xd_rootset o r) r (xo_sels o) Hoko (mxq_hs_init _ _) n f Hm Ea).
        - destruct (fc_reach_defined _ _ _ Hr) as [fm Em].
          apply (xd_reach_hset (xd_rootset o r) m n Hr fm f Em Ea).
          exact (xd_spreads_hset (xd_rootset o r) r (xo_sels o) Hoko (mxq_hs_init _ _) m fm Hm Em). }
      destruct (xd_sets_hset (xd_rootset o r) (xv_frag_cond f) (xv_frag_sels f) Hok Hfs q qs Hin) as (q' & Eq & Hq & Hs).
      exists o, r, q'. auto.
  Qed.
End DocSets.

Section DocSetsBack.
  Variable s : schema.
  Variable d : document.
  Hypothesis Hdoc : xg_doc s d.

  Notation afrags := (xv_frags d).
  Notation mfrags := (mx_fragments s (xv_frags d) []).
  Notation ASS := (xv_all_sel_sets s d).

  Lemma xd_sel_sets_field p a n args dirs sub fd : xv_lookup_field s p n = Some fd -> ty_defined s (fd_ty fd) ->
    (mxb_leaf_name s (inner_named_type (fd_ty fd)) = true -> sub = []) -> sub <> [] ->
    xv_sel_sets s (Some p) (SField a n args dirs sub) =
    (Some (inner_named_type (fd_ty fd)), sub) :: flat_map (xv_sel_sets s (Some (inner_named_type (fd_ty fd)))) sub.
  Proof.
    intros L Hty Hl Hne. cbn [xv_sel_sets]. destruct sub as [|y0 r0] eqn:Esub; [contradiction|]. rewrite <- Esub in *.
    cbn [xv_field_def xv_sub_parent]. rewrite L. cbn [xv_sub_parent]. unfold xv_composite_opt.
    rewrite (xd_field_composite s fd sub Hty Hl Hne). reflexivity.
  Qed.

  Lemma xd_sel_sets_inline p c dirs sub : match c with Some c' => xv_composite_name s c' = true | None => True end ->
    xv_sel_sets s (Some p) (SInline c dirs sub) =
    (Some (xg_inline_ty p c), sub) :: flat_map (xv_sel_sets s (Some (xg_inline_ty p c))) sub.
  Proof.
    intros Hc. cbn [xv_sel_sets]. cbn zeta.
    assert (Ep : xv_inline_parent s (Some p) c = Some (xg_inline_ty p c)).
    { destruct c as [c'|]; cbn [xv_inline_parent xg_inline_ty]; [|reflexivity]. unfold xv_composite_opt. rewrite Hc. reflexivity. }
    rewrite Ep. reflexivity.
  Qed.

  (* a selection set under an operation, as the specification lists it: the set built from parsed selections that
     are listed (or are empty), with everything below them listed too *)
  Definition xd_in_all (q' : str) (qs : list selection) : Prop :=
    Forall (xg_ok s q') qs /\ (qs = [] \/ In (Some q', qs) ASS) /\ incl (flat_map (xv_sel_sets s (Some q')) qs) ASS.

  Lemma xd_ass_op o r : In o (xv_ops d) -> xv_root s (xo_type o) = Some r ->
    incl ((Some r, xo_sels o) :: flat_map (xv_sel_sets s (Some r)) (xo_sels o)) ASS.
  Proof.
    intros Ho Er x Hx. unfold xv_all_sel_sets. apply in_or_app. left. apply in_flat_map. exists o. split; [exact Ho|].
    cbn zeta. rewrite Er. exact Hx.
  Qed.

  Lemma xd_ass_frag n f : In (n, f) afrags ->
    incl ((Some (xv_frag_cond f), xv_frag_sels f) :: flat_map (xv_sel_sets s (Some (xv_frag_cond f))) (xv_frag_sels f)) ASS.
  Proof.
    intros Hnf x Hx. unfold xv_all_sel_sets. apply in_or_app. right. apply in_flat_map. exists (n, f). split; [exact Hnf|].
    cbn zeta. cbn [snd]. unfold xv_composite_opt. rewrite (proj1 (proj2 Hdoc n f Hnf)). exact Hx.
  Qed.

  Lemma xd_in_all_member q' qs x : xd_in_all q' qs -> In x qs -> incl (xv_sel_sets s (Some q') x) ASS.
  Proof. intros (_ & _ & Hi) Hx y Hy. apply Hi. apply in_flat_map. exists x. auto. Qed.

  Theorem xd_hset_in_all o r : In o (xv_ops d) -> xv_root s (xo_type o) = Some r ->
    forall st, mxq_hset mfrags (xd_rootset s o r) st -> exists q' qs, st = (q', mx_from_ast s q' qs) /\ xd_in_all q' qs.
  Proof.
    intros Ho Er st H.
    induction H as [|ty sels c dirs sty sub _ IH Hin|ty sels n dirs st1 _ IH Hin Ha|ty sels a n args dirs def sty sub _ IH Hin].
    - exists r, (xo_sels o). split; [reflexivity|]. destruct (proj1 Hdoc o Ho) as (r' & Er' & Hok). rewrite Er in Er'. injection Er' as <-.
      pose proof (xd_ass_op o r Ho Er) as Hi. split; [exact Hok|]. split.
      + right. apply Hi. left. reflexivity.
      + intros x Hx. apply Hi. right. exact Hx.
    - destruct IH as (q' & qs & E & Hall). injection E as -> ->. pose proof Hall as (Hok & _ & _).
      destruct (xg_from_ast_in s q' qs _ Hok Hin) as (x & Hx & Ex).
      pose proof (xd_in_all_member q' qs x Hall Hx) as Hi.
      rewrite Forall_forall in Hok. specialize (Hok x Hx). destruct x as [a0 n0 args0 dirs0 asub|n0 dirs0|c0 dirs0 asub].
      + apply xg_ok_field in Hok. destruct Hok as (fd & L & _ & _ & _ & Hl & _).
        rewrite (xg_from_ast_field s q' a0 n0 args0 dirs0 asub fd L Hl) in Ex. discriminate.
      + cbn [mx_from_ast_sel] in Ex. discriminate.
      + apply xg_ok_inline in Hok. destruct Hok as [Hc Hsub].
        rewrite (xg_from_ast_inline s q' c0 dirs0 asub Hc) in Ex. injection Ex as <- <- <- <-.
        rewrite (xd_sel_sets_inline q' c0 dirs0 asub Hc) in Hi.
        exists (xg_inline_ty q' c0), asub. split; [reflexivity|]. split; [exact Hsub|]. split.
        * right. apply Hi. left. reflexivity.
        * intros y Hy. apply Hi. right. exact Hy.
    - destruct IH as (q' & qs & E & Hall). injection E as -> ->. pose proof Hall as (Hok & _ & _).
      destruct (xg_from_ast_in s q' qs _ Hok Hin) as (x & Hx & Ex).
      rewrite Forall_forall in Hok. specialize (Hok x Hx). destruct x as [a0 n0 args0 dirs0 asub|n0 dirs0|c0 dirs0 asub].
      + apply xg_ok_field in Hok. destruct Hok as (fd & L & _ & _ & _ & Hl & _).
        rewrite (xg_from_ast_field s q' a0 n0 args0 dirs0 asub fd L Hl) in Ex. discriminate.
      + cbn [mx_from_ast_sel] in Ex. injection Ex as <- <-.
        rewrite (xd_mfrags_assoc s d Hdoc) in Ha. destruct (xv_assoc n0 afrags) as [f|] eqn:Ea; [|discriminate].
        cbn [option_map] in Ha. injection Ha as <-. apply xv_assoc_in in Ea.
        pose proof (xd_ass_frag n0 f Ea) as Hi.
        exists (xv_frag_cond f), (xv_frag_sels f). split; [reflexivity|]. split; [apply (proj2 Hdoc n0 f Ea)|]. split.
        * right. apply Hi. left. reflexivity.
        * intros y Hy. apply Hi. right. exact Hy.
      + apply xg_ok_inline in Hok. destruct Hok as [Hc _].
        rewrite (xg_from_ast_inline s q' c0 dirs0 asub Hc) in Ex. discriminate.
    - destruct IH as (q' & qs & E & Hall). injection E as -> ->. pose proof Hall as (Hok & _ & _).
      destruct (xg_from_ast_in s q' qs _ Hok Hin) as (x & Hx & Ex).
      pose proof (xd_in_all_member q' qs x Hall Hx) as Hi.
      rewrite Forall_forall in Hok. specialize (Hok x Hx). destruct x as [a0 n0 args0 dirs0 asub|n0 dirs0|c0 dirs0 asub].
      + apply xg_ok_field in Hok. destruct Hok as (fd & L & _ & _ & Hty & Hl & Hsub).
        rewrite (xg_from_ast_field s q' a0 n0 args0 dirs0 asub fd L Hl) in Ex. injection Ex as <- <- <- <- <- <- <-.
        exists (inner_named_type (fd_ty fd)), asub. split; [reflexivity|]. split; [exact Hsub|].
        destruct asub as [|y0 r0] eqn:Easub; [split; [left; reflexivity|intros y []]|]. rewrite <- Easub in *.
        assert (Hne : asub <> []) by (rewrite Easub; discriminate).
        rewrite (xd_sel_sets_field q' a0 n0 args0 dirs0 asub fd L Hty Hl Hne) in Hi. split.
        * right. apply Hi. left. reflexivity.
        * intros y Hy. apply Hi. right. exact Hy.
      + cbn [mx_from_ast_sel] in Ex. discriminate.
      + apply xg_ok_inline in Hok. destruct Hok as [Hc _].
        rewrite (xg_from_ast_inline s q' c0 dirs0 asub Hc) in Ex. discriminate.
  Qed.
End DocSetsBack.

Lemma xv_all3_some_each {A} (f : A -> option bool) l v : xv_all3 f l = Some v -> forall x, In x l -> exists r, f x = Some r.
Proof.
  revert v. induction l as [|x0 l IH]; intros v; cbn [xv_all3]; [intros _ ? []|].
  intros E. destruct (xv_and3_some _ _ _ E) as (r1 & r2 & E1 & E2 & _). intros x [<-|Hx]; [exists r1; exact E1|exact (IH r2 E2 x Hx)].
Qed.

Lemma xv_all3_all_true {A} (f : A -> option bool) l : (forall x, In x l -> f x = Some true) -> xv_all3 f l = Some true.
Proof.
  induction l as [|x0 l IH]; intros H; cbn [xv_all3]; [reflexivity|].
  rewrite (H x0 (or_introl eq_refl)), IH; [reflexivity|]. intros x Hx. apply H. right. exact Hx.
Qed.

Section DocEquiv.
  Variable s : schema.
  Variable d : document.
  Hypothesis Hdoc : xg_doc s d.
  Hypothesis Hnd : NoDup (map fst (xv_frags d)).
  Hypothesis Hused : xg_used d.

  Notation afrags := (xv_frags d).
  Notation mfrags := (mx_fragments s (xv_frags d) []).
  Notation ASS := (xv_all_sel_sets s d).
  Notation cfuel := (S (length (xv_frags d))).
  Notation fuel := (xv_merge_fuel d).
  Notation limit := mx_field_depth_limit.

  (* the specification's rule on one listed selection set *)
  Definition xd_entry (ps : option str * list selection) : option bool :=
    match ps with
    | (Some p, sels) =>
        match xv_collect cfuel s afrags p sels with
        | Some fields => xv_can_merge fuel cfuel s afrags fields
        | None => None
        end
    | (None, _) => Some true
    end.

  Lemma xd_verdict : xv_r_no_fragment_cycles d = true -> xv_merge_verdict s d = xv_all3 xd_entry ASS.
  Proof. intros H. unfold xv_merge_verdict. rewrite H. reflexivity. Qed.

  Let Hrel : mxb_frags_rel s afrags mfrags := xd_frags_rel s d Hdoc.

  Lemma xd_entry_bridge q' qs : Forall (xg_ok s q') qs ->
    xd_entry (Some q', qs) =
    match mxc_collect cfuel mfrags q' (mx_from_ast s q' qs) with
    | Some L => mxs_can_merge s mfrags fuel cfuel L
    | None => None
    end.
  Proof.
    intros Hok. destruct (xb_from_ast_list s q' qs (xg_xb_list s q' qs Hok)) as [T O]. cbn [xd_entry].
    rewrite <- T at 1. rewrite (xvc_bridge s afrags mfrags Hrel cfuel q' _ O).
    destruct (mxc_collect cfuel mfrags q' (mx_from_ast s q' qs)) as [L|] eqn:Ec; cbn [option_map]; [|reflexivity].
    apply (xvs_can_merge_bridge s afrags mfrags Hrel). intros f Hf.
    apply (mxb_coll_fok s afrags mfrags Hrel [(q', mx_from_ast s q' qs)]).
    - intros ty sels [[= <- <-]|[]]. exact O.
    - apply (mxc_collect_coll _ _ _ _ _ Ec). exact Hf.
  Qed.

  Lemma xd_empty_set q' : mxc_collect cfuel mfrags q' (mx_from_ast s q' []) = Some [] /\
                          mxs_can_merge s mfrags fuel cfuel [] = Some true.
  Proof. split; reflexivity. Qed.

  (* the fields under an operation are as the other rules leave them *)
  Lemma xd_good o r : In o (xv_ops d) -> xv_root s (xo_type o) = Some r ->
    forall f, mxq_hfield mfrags (xd_rootset s o r) f -> mxq_good s f.
  Proof.
    intros Ho Er f (ty & sels & Hs & Hf).
    destruct (xd_hset_in_all s d Hdoc o r Ho Er _ Hs) as (q' & qs & E & (Hok & _ & _)). injection E as -> ->.
    split; [apply (mxb_fields_fok s q' (mx_from_ast s q' qs) f (mx_from_ast_ok s q' qs) Hf)|].
    apply mxe_fields_in in Hf. destruct Hf as (a & n & args & dirs & def & sty & sub & Hx & ->).
    destruct (xg_from_ast_in s q' qs _ Hok Hx) as (x & Hxq & Ex). rewrite Forall_forall in Hok. specialize (Hok x Hxq).
    destruct x as [a0 n0 args0 dirs0 asub|n0 dirs0|c0 dirs0 asub].
    - apply xg_ok_field in Hok. destruct Hok as (fd & L & Hc & Ha & Hty & Hl & _).
      rewrite (xg_from_ast_field s q' a0 n0 args0 dirs0 asub fd L Hl) in Ex. injection Ex as <- <- <- <- <- <- <-.
      split; [exact Ha|]. split; [exact Hty|exact Hc].
    - cbn [mx_from_ast_sel] in Ex. discriminate.
    - apply xg_ok_inline in Hok. destruct Hok as [Hc _]. rewrite (xg_from_ast_inline s q' c0 dirs0 asub Hc) in Ex. discriminate.
  Qed.

  Section WithVerdict.
    Variable v : bool.
    Hypothesis Hacyc : xv_r_no_fragment_cycles d = true.
    Hypothesis Hv : xv_merge_verdict s d = Some v.          (* the specification's rule does not run out of fuel *)

    Lemma xd_all3 : xv_all3 xd_entry ASS = Some v.
    Proof. rewrite <- (xd_verdict Hacyc). exact Hv. Qed.

    Lemma xd_defined o r : In o (xv_ops d) -> xv_root s (xo_type o) = Some r ->
      mxq_spec_defined s mfrags cfuel fuel (xd_rootset s o r).
    Proof.
      intros Ho Er st Hs. destruct (xd_hset_in_all s d Hdoc o r Ho Er st Hs) as (q' & qs & -> & (Hok & Hin & _)).
      cbn [fst snd]. destruct Hin as [->|Hin].
      - exists [], true. apply xd_empty_set.
      - destruct (xv_all3_some_each _ _ _ xd_all3 _ Hin) as [r0 E0]. rewrite (xd_entry_bridge q' qs Hok) in E0.
        destruct (mxc_collect cfuel mfrags q' (mx_from_ast s q' qs)) as [L|]; [|discriminate]. exists L, r0. auto.
    Qed.

    (* all operations: the rule holds of every selection set under them iff the verdict is true *)
    Lemma xd_true_iff :
      (forall o r, In o (xv_ops d) -> xv_root s (xo_type o) = Some r -> mxq_spec_true s mfrags cfuel fuel (xd_rootset s o r))
      <-> v = true.
    Proof.
      split.
      - intros H. assert (E : xv_all3 xd_entry ASS = Some true); [|rewrite xd_all3 in E; congruence].
        apply xv_all3_all_true. intros [q qs] Hin.
        destruct (xd_all_in_hset s d Hdoc Hnd Hused q qs Hin) as (o & r & q' & Ho & Er & -> & Hok & Hs).
        rewrite (xd_entry_bridge q' qs Hok).
        destruct (xd_defined o r Ho Er _ Hs) as (L & r0 & Ec & _). cbn [fst snd] in Ec. rewrite Ec.
        exact (H o r Ho Er _ Hs L Ec).
      - intros Ev o r Ho Er st Hs L Ec. pose proof xd_all3 as A. rewrite Ev in A.
        destruct (xd_hset_in_all s d Hdoc o r Ho Er st Hs) as (q' & qs & -> & (Hok & Hin & _)). cbn [fst snd] in Ec.
        destruct Hin as [->|Hin].
        + destruct (xd_empty_set q') as [E1 E2]. rewrite E1 in Ec. injection Ec as <-. exact E2.
        + pose proof (xv_all3_true_inv _ _ A _ Hin) as E0. rewrite (xd_entry_bridge q' qs Hok), Ec in E0. exact E0.
    Qed.

    Lemma xd_fold ops : incl ops (xv_ops d) -> forall st st',
      fold_left (mxd_stepn s d) ops (Some st) = Some st' -> (snd st' <= limit)%nat ->
      (fst st' = true <->
       fst st = true /\
       forall o r, In o ops -> xv_root s (xo_type o) = Some r -> mxq_spec_true s mfrags cfuel fuel (xd_rootset s o r)).
    Proof.
      induction ops as [|o ops IH]; intros Hincl st st'; cbn [fold_left].
      - intros [= <-] _. split; [intros H; split; [exact H|intros ? ? []]|intros [H _]; exact H].
      - assert (Ho : In o (xv_ops d)) by (apply Hincl; left; reflexivity).
        destruct (proj1 Hdoc o Ho) as (r & Er & _). unfold mxd_stepn at 2. rewrite Er.
        destruct (mxn_validate_operation s mfrags st (r, mx_from_ast s r (xo_sels o))) as [st1|] eqn:E;
          [|rewrite mxd_foldn_none; discriminate].
        intros Ef Hlim. pose proof (mxd_foldn_mono s d ops st1 st' Ef) as Hm.
        destruct (mxq_operation_equiv s mfrags cfuel fuel (xd_rootset s o r) st st1 (xd_good o r Ho Er) (xd_defined o r Ho Er) E
                    ltac:(lia)) as [_ Hop].
        rewrite (IH (fun x Hx => Hincl x (or_intror Hx)) st1 st' Ef Hlim), Hop. split.
        + intros [[H1 H2] H3]. split; [exact H1|]. intros o' r' [<-|Ho'] Er'.
          * rewrite Er in Er'. injection Er' as <-. exact H2.
          * exact (H3 o' r' Ho' Er').
        + intros [H1 H2]. split; [split; [exact H1|exact (H2 o r (or_introl eq_refl) Er)]|].
          intros o' r' Ho' Er'. exact (H2 o' r' (or_intror Ho') Er').
    Qed.

    (* goal 2, for the document: the walk without memo guards gives the specification's verdict *)
    Theorem xing_equiv_nomemo_doc b hi : mxn_document s d = Some (b, hi) -> (hi <= limit)%nat -> b = v.
    Proof.
      rewrite mxn_document_fold. intros E Hlim.
      pose proof (xd_fold (xv_ops d) (incl_refl _) mxn_initial (b, hi) E Hlim) as H. cbn [fst mxn_initial] in H.
      assert (Hb : b = true <-> v = true).
      { rewrite <- xd_true_iff, H. split.
        - intros [_ H2] o r Ho Er. exact (H2 o r Ho Er).
        - intros H2. split; [reflexivity|exact H2]. }
      clear H E. destruct b; destruct v; try reflexivity; [symmetry|]; apply Hb; reflexivity.
    Qed.
  End WithVerdict.

  (* goals 2-4 assembled: the literal algorithm = the specification's rule 5.3.2, for documents as the other rules
     leave them, on which the specification's evaluation is defined and the walk stays within the depth limit *)
  Theorem xing_equiv_doc b hi :
    xv_r_no_fragment_cycles d = true -> xv_merge_out_of_fuel s d = false ->
    mxn_document s d = Some (b, hi) -> (hi <= limit)%nat ->
    mx_document_ok s d = Some (xv_r_fields_merge s d).
  Proof.
    intros Hacyc Hfuel En Hlim. unfold xv_merge_out_of_fuel in Hfuel. unfold xv_r_fields_merge.
    destruct (xv_merge_verdict s d) as [v|] eqn:Ev; [|discriminate].
    rewrite <- (xing_equiv_nomemo_doc v Hacyc Ev b hi En Hlim). exact (mx_document_memo_sound s d b hi En Hlim).
  Qed.
End DocEquiv.

(* the walk without guards always returns (its fuel is never exhausted) *)
Lemma mxn_validate_some s frags st (root : mx_set) : mxn_validate_operation s frags st root <> None.
Proof.
  unfold mxn_validate_operation. destruct (mx_expand frags [root]) as [fields|] eqn:Ex; [|exfalso; exact (mx_expand_some _ _ Ex)].
  rewrite mxn_shape_walk.
  destruct (mxn_walk mxn_shape_parts (mx_same_output_type_shape s) frags mx_fuel 0 st fields) as [st1|] eqn:E1.
  - rewrite mxn_parents_walk.
    destruct (mxn_walk (mxn_parents_parts s) mx_same_name_and_arguments frags mx_fuel 0 st1 fields) as [st2|] eqn:E2; [discriminate|].
    exfalso. revert E2. apply mxn_walk_some; unfold mx_fuel, mx_field_depth_limit; lia.
  - exfalso. revert E1. apply mxn_walk_some; unfold mx_fuel, mx_field_depth_limit; lia.
Qed.

Lemma mxn_document_some s d : mxn_document s d <> None.
Proof.
  rewrite mxn_document_fold. generalize mxn_initial. induction (xv_ops d) as [|o ops IH]; intros st; cbn [fold_left]; [discriminate|].
  unfold mxd_stepn at 2. destruct (xv_root s (xo_type o)) as [root|]; [|apply IH].
  destruct (mxn_validate_operation s (mx_fragments s (xv_frags d) []) st (root, mx_from_ast s root (xo_sels o))) as [st1|] eqn:E; [apply IH|].
  exfalso. exact (mxn_validate_some _ _ _ _ E).
Qed.
