(* C17 deepening, part 1: expand_selections (MergeXing.v: mx_expand with its queue and one visit per named
   fragment) against a declarative collection of the fields of selection sets, and against the in-place
   collection the specification uses (Valid.v xv_collect: every spread expanded where it is written).
   - mxe_coll: the fields of all selection sets reachable from the given sets through inline fragments and
     fragment spreads (declarative, no order, no visited set).
   - mxe_expand_coll: the output of mx_expand has exactly the members mxe_coll (any fragment map, cyclic or not).
   - mx_expand_some: the fuel of mx_expand is never exhausted.
   - mxc_collect: the specification's collection, transcribed for the executable document (not extracted);
     mxc_collect_coll: its output has exactly the members mxe_coll.
   - mx_expand_eq_collect: the two have the same members.
   Proofs only; nothing here is extracted. *)
From ApolloVerif Require Import Base.Chars Ast.Ast Schema.Model Exec.Valid Exec.MergeXing Exec.FragCyclesProofs
  Exec.MergeXingProofs.
From Coq Require Import Arith PeanoNat Lia.

(* ---------- induction on executable selections (nested lists) ---------- *)
Section MxSelInd.
  Variable P : mx_sel -> Prop.
  Hypothesis HF : forall a n args dirs def sty sub, Forall P sub -> P (MxField a n args dirs def sty sub).
  Hypothesis HS : forall n dirs, P (MxSpread n dirs).
  Hypothesis HI : forall c dirs sty sub, Forall P sub -> P (MxInline c dirs sty sub).
  Fixpoint mx_sel_ind_nested (x : mx_sel) : P x :=
    match x with
    | MxField a n args dirs def sty sub =>
        HF a n args dirs def sty sub
          ((fix go (l : list mx_sel) : Forall P l :=
              match l with [] => Forall_nil P | y :: r => Forall_cons y (mx_sel_ind_nested y) (go r) end) sub)
    | MxSpread n dirs => HS n dirs
    | MxInline c dirs sty sub =>
        HI c dirs sty sub
          ((fix go (l : list mx_sel) : Forall P l :=
              match l with [] => Forall_nil P | y :: r => Forall_cons y (mx_sel_ind_nested y) (go r) end) sub)
    end.
End MxSelInd.

(* ---------- xv_opt_concat ---------- *)
Lemma opt_concat_map_some {A B} (g : A -> option (list B)) (xs : list A) (L : list B) :
  xv_opt_concat (map g xs) = Some L ->
  (forall x, In x xs -> exists out, g x = Some out) /\
  (forall f, In f L <-> exists x out, In x xs /\ g x = Some out /\ In f out).
Proof.
  revert L. induction xs as [|x xs IH]; intros L; cbn [map xv_opt_concat].
  - intros [= <-]. split; [intros ? []|]. intros f. split; [intros []|intros (x & out & [] & _)].
  - destruct (g x) as [a|] eqn:E; [|discriminate].
    destruct (xv_opt_concat (map g xs)) as [b|] eqn:E'; [|discriminate]. intros [= <-].
    destruct (IH b eq_refl) as [H1 H2]. split.
    + intros y [<-|Hy]; [exists a; exact E|apply H1; exact Hy].
    + intros f. rewrite in_app_iff, H2. split.
      * intros [Hf|(y & out & Hy & Ey & Hf)].
        -- exists x, a. split; [left; reflexivity|]. split; [exact E|exact Hf].
        -- exists y, out. split; [right; exact Hy|]. split; [exact Ey|exact Hf].
      * intros (y & out & [<-|Hy] & Ey & Hf).
        -- left. rewrite E in Ey. injection Ey as ->. exact Hf.
        -- right. exists y, out. split; [exact Hy|]. split; [exact Ey|exact Hf].
Qed.

Lemma opt_concat_map_total {A B} (g : A -> option (list B)) (xs : list A) :
  (forall x, In x xs -> g x <> None) -> xv_opt_concat (map g xs) <> None.
Proof.
  induction xs as [|x xs IH]; intros H; cbn [map xv_opt_concat]; [discriminate|].
  destruct (g x) as [a|] eqn:E; [|exfalso; apply (H x); [left; reflexivity|exact E]].
  destruct (xv_opt_concat (map g xs)) as [b|] eqn:E'; [discriminate|].
  exfalso. apply IH; [|reflexivity]. intros y Hy. apply H. right. exact Hy.
Qed.

Lemma opt_concat_map_ext {A B} (g h : A -> option (list B)) (xs : list A) :
  (forall x, In x xs -> g x = h x) -> xv_opt_concat (map g xs) = xv_opt_concat (map h xs).
Proof.
  induction xs as [|x xs IH]; intros H; cbn [map xv_opt_concat]; [reflexivity|].
  rewrite (H x) by (left; reflexivity). rewrite IH; [reflexivity|]. intros y Hy. apply H. right. exact Hy.
Qed.

(* ---------- the fields written directly in a selection set ---------- *)
Definition mxe_field (ty : str) (x : mx_sel) : list mx_fs :=
  match x with
  | MxField a n args dirs def sty sub =>
      [ {| mf_parent := ty; mf_alias := a; mf_name := n; mf_args := args; mf_dirs := dirs; mf_def := def;
           mf_sub_ty := sty; mf_sub := sub |} ]
  | _ => []
  end.
Definition mxe_fields (ty : str) (sels : list mx_sel) : list mx_fs := flat_map (mxe_field ty) sels.

Lemma mxe_fields_in ty sels f :
  In f (mxe_fields ty sels) <->
  exists a n args dirs def sty sub, In (MxField a n args dirs def sty sub) sels /\
    f = {| mf_parent := ty; mf_alias := a; mf_name := n; mf_args := args; mf_dirs := dirs; mf_def := def;
           mf_sub_ty := sty; mf_sub := sub |}.
Proof.
  unfold mxe_fields. rewrite in_flat_map. split.
  - intros (x & Hx & Hf). destruct x as [a n args dirs def sty sub| |]; cbn [mxe_field] in Hf; try contradiction.
    destruct Hf as [<-|[]]. exists a, n, args, dirs, def, sty, sub. auto.
  - intros (a & n & args & dirs & def & sty & sub & Hx & ->). eexists. split; [exact Hx|]. left. reflexivity.
Qed.

(* ---------- the specification's in-place collection, for the executable document ---------- *)
(* Valid.v xv_collect with mx_sel in place of selection: a spread is expanded where it is written, every time;
   fuel: one unit per named fragment entered; None = out of fuel *)
Definition mxc_go (rec : str -> list mx_sel -> option (list mx_fs)) (frags : list (str * mx_set))
    : str -> mx_sel -> option (list mx_fs) :=
  fix go (parent : str) (x : mx_sel) {struct x} : option (list mx_fs) :=
    match x with
    | MxField a n args dirs def sty sub =>
        Some [ {| mf_parent := parent; mf_alias := a; mf_name := n; mf_args := args; mf_dirs := dirs;
                  mf_def := def; mf_sub_ty := sty; mf_sub := sub |} ]
    | MxSpread n _ =>
        match xv_assoc n frags with
        | Some st => rec (fst st) (snd st)
        | None => Some []
        end
    | MxInline _ _ sty sub => xv_opt_concat (map (go sty) sub)
    end.
Fixpoint mxc_collect (fuel : nat) (frags : list (str * mx_set)) (parent : str) (sels : list mx_sel) {struct fuel}
    : option (list mx_fs) :=
  match fuel with
  | O => None
  | S fuel' => xv_opt_concat (map (mxc_go (mxc_collect fuel' frags) frags parent) sels)
  end.

Section Expand.
  Variable frags : list (str * mx_set).

  (* the selection sets reachable from `sets` through inline fragments and fragment spreads *)
  Inductive mxe_reach (sets : list mx_set) : mx_set -> Prop :=
  | mxe_r_init st : In st sets -> mxe_reach sets st
  | mxe_r_inline ty sels c dirs sty sub :
      mxe_reach sets (ty, sels) -> In (MxInline c dirs sty sub) sels -> mxe_reach sets (sty, sub)
  | mxe_r_spread ty sels n dirs st :
      mxe_reach sets (ty, sels) -> In (MxSpread n dirs) sels -> xv_assoc n frags = Some st -> mxe_reach sets st.

  (* the fields of these sets, each with the type of the set it is written in *)
  Definition mxe_coll (sets : list mx_set) (f : mx_fs) : Prop :=
    exists ty sels, mxe_reach sets (ty, sels) /\ In f (mxe_fields ty sels).

  Lemma mxe_reach_mono sets sets' :
    (forall st, In st sets' -> mxe_reach sets st) -> forall st, mxe_reach sets' st -> mxe_reach sets st.
  Proof.
    intros H st R. induction R as [st Hin|ty sels c dirs sty sub _ IH Hin|ty sels n dirs st _ IH Hin Ha].
    - apply H. exact Hin.
    - eapply mxe_r_inline; [exact IH|exact Hin].
    - eapply mxe_r_spread; [exact IH|exact Hin|exact Ha].
  Qed.

  Lemma mxe_coll_mono sets sets' :
    (forall st, In st sets' -> mxe_reach sets st) -> forall f, mxe_coll sets' f -> mxe_coll sets f.
  Proof.
    intros H f (ty & sels & R & Hf). exists ty, sels. split; [|exact Hf]. eapply mxe_reach_mono; eassumption.
  Qed.

  Lemma mxe_coll_incl sets sets' : incl sets' sets -> forall f, mxe_coll sets' f -> mxe_coll sets f.
  Proof. intros H. apply mxe_coll_mono. intros st Hst. apply mxe_r_init. apply H. exact Hst. Qed.

  (* reachable from a list of sets = reachable from one of them *)
  Lemma mxe_reach_split sets st : mxe_reach sets st -> exists s0, In s0 sets /\ mxe_reach [s0] st.
  Proof.
    intros R. induction R as [st Hin|ty sels c dirs sty sub _ IH Hin|ty sels n dirs st _ IH Hin Ha].
    - exists st. split; [exact Hin|]. apply mxe_r_init. left. reflexivity.
    - destruct IH as (s0 & H0 & R0). exists s0. split; [exact H0|]. eapply mxe_r_inline; eassumption.
    - destruct IH as (s0 & H0 & R0). exists s0. split; [exact H0|]. eapply mxe_r_spread; eassumption.
  Qed.

  Lemma mxe_coll_split sets f : mxe_coll sets f <-> exists s0, In s0 sets /\ mxe_coll [s0] f.
  Proof.
    split.
    - intros (ty & sels & R & Hf). destruct (mxe_reach_split _ _ R) as (s0 & H0 & R0).
      exists s0. split; [exact H0|]. exists ty, sels. auto.
    - intros (s0 & H0 & Hc). revert Hc. apply mxe_coll_incl. intros x [<-|[]]. exact H0.
  Qed.

  (* ---------- one selection set popped from the queue ---------- *)
  Lemma mxe_set_spec ty sels : forall queue seen,
    exists new sn,
      mx_expand_set frags ty sels queue seen = (mxe_fields ty sels, queue ++ new, sn)
      /\ incl seen sn
      /\ (forall n dirs, In (MxSpread n dirs) sels -> In n sn)
      /\ (forall c dirs sty sub, In (MxInline c dirs sty sub) sels -> In (sty, sub) new)
      /\ (forall n st, In n sn -> ~ In n seen -> xv_assoc n frags = Some st -> In st new)
      /\ (forall st, In st new ->
            (exists c dirs, In (MxInline c dirs (fst st) (snd st)) sels) \/
            (exists n dirs, In (MxSpread n dirs) sels /\ xv_assoc n frags = Some st)).
  Proof.
    induction sels as [|x r IH]; intros queue seen.
    - exists [], seen. cbn [mx_expand_set mxe_fields flat_map]. rewrite app_nil_r.
      split; [reflexivity|]. split; [apply incl_refl|]. split; [intros ? ? []|]. split; [intros ? ? ? ? []|].
      split; [intros n st H1 H2; contradiction|intros ? []].
    - destruct x as [a n args dirs def sty sub|n dirs|c dirs sty sub]; cbn [mx_expand_set].
      + destruct (IH queue seen) as (new & sn & E & H1 & H2 & H3 & H4 & H5). rewrite E.
        exists new, sn. split; [reflexivity|]. split; [exact H1|]. split; [|split; [|split]].
        * intros n' d' [Hx|Hx]; [discriminate|eapply H2; exact Hx].
        * intros c' d' s' b' [Hx|Hx]; [discriminate|eapply H3; exact Hx].
        * exact H4.
        * intros st Hst. destruct (H5 st Hst) as [(c' & d' & Hx)|(n' & d' & Hx & Ha)].
          -- left. exists c', d'. right. exact Hx.
          -- right. exists n', d'. split; [right; exact Hx|exact Ha].
      + destruct (xv_mem n seen) eqn:M.
        * destruct (IH queue seen) as (new & sn & E & H1 & H2 & H3 & H4 & H5). rewrite E.
          exists new, sn. split; [reflexivity|]. split; [exact H1|]. split; [|split; [|split]].
          -- intros n' d' [Hx|Hx]; [|eapply H2; exact Hx]. injection Hx as <- <-. apply H1. apply xv_mem_In. exact M.
          -- intros c' d' s' b' [Hx|Hx]; [discriminate|eapply H3; exact Hx].
          -- exact H4.
          -- intros st Hst. destruct (H5 st Hst) as [(c' & d' & Hx)|(n' & d' & Hx & Ha)].
             ++ left. exists c', d'. right. exact Hx.
             ++ right. exists n', d'. split; [right; exact Hx|exact Ha].
        * apply xv_mem_false in M. destruct (xv_assoc n frags) as [st0|] eqn:A.
          -- destruct (IH (queue ++ [st0]) (n :: seen)) as (new & sn & E & H1 & H2 & H3 & H4 & H5). rewrite E.
             exists (st0 :: new), sn. split; [rewrite <- app_assoc; reflexivity|].
             split; [intros y Hy; apply H1; right; exact Hy|]. split; [|split; [|split]].
             ++ intros n' d' [Hx|Hx]; [|eapply H2; exact Hx]. injection Hx as <- <-. apply H1. left. reflexivity.
             ++ intros c' d' s' b' [Hx|Hx]; [discriminate|right; eapply H3; exact Hx].
             ++ intros m st Hm Hns Ha. destruct (list_eq_dec N.eq_dec m n) as [->|Hne].
                ** left. congruence.
                ** right. apply (H4 m st Hm); [|exact Ha]. intros [Heq|Hin]; [apply Hne; symmetry; exact Heq|apply Hns; exact Hin].
             ++ intros st [<-|Hst].
                ** right. exists n, dirs. split; [left; reflexivity|exact A].
                ** destruct (H5 st Hst) as [(c' & d' & Hx)|(n' & d' & Hx & Ha)].
                   --- left. exists c', d'. right. exact Hx.
                   --- right. exists n', d'. split; [right; exact Hx|exact Ha].
          -- destruct (IH queue (n :: seen)) as (new & sn & E & H1 & H2 & H3 & H4 & H5). rewrite E.
             exists new, sn. split; [reflexivity|].
             split; [intros y Hy; apply H1; right; exact Hy|]. split; [|split; [|split]].
             ++ intros n' d' [Hx|Hx]; [|eapply H2; exact Hx]. injection Hx as <- <-. apply H1. left. reflexivity.
             ++ intros c' d' s' b' [Hx|Hx]; [discriminate|eapply H3; exact Hx].
             ++ intros m st Hm Hns Ha. destruct (list_eq_dec N.eq_dec m n) as [->|Hne]; [congruence|].
                apply (H4 m st Hm); [|exact Ha]. intros [Heq|Hin]; [apply Hne; symmetry; exact Heq|apply Hns; exact Hin].
             ++ intros st Hst. destruct (H5 st Hst) as [(c' & d' & Hx)|(n' & d' & Hx & Ha)].
                ** left. exists c', d'. right. exact Hx.
                ** right. exists n', d'. split; [right; exact Hx|exact Ha].
      + destruct (IH (queue ++ [(sty, sub)]) seen) as (new & sn & E & H1 & H2 & H3 & H4 & H5). rewrite E.
        exists ((sty, sub) :: new), sn. split; [rewrite <- app_assoc; reflexivity|]. split; [exact H1|].
        split; [|split; [|split]].
        * intros n' d' [Hx|Hx]; [discriminate|eapply H2; exact Hx].
        * intros c' d' s' b' [Hx|Hx]; [injection Hx as _ _ <- <-; left; reflexivity|right; eapply H3; exact Hx].
        * intros m st Hm Hns Ha. right. exact (H4 m st Hm Hns Ha).
        * intros st [<-|Hst].
          -- left. exists c, dirs. left. reflexivity.
          -- destruct (H5 st Hst) as [(c' & d' & Hx)|(n' & d' & Hx & Ha)].
             ++ left. exists c', d'. right. exact Hx.
             ++ right. exists n', d'. split; [right; exact Hx|exact Ha].
  Qed.

  (* ---------- the loop: the sets popped form a closed family ---------- *)
  Lemma mxe_loop_spec : forall fuel queue seen out,
    mx_expand_loop fuel frags queue seen = Some out ->
    exists P seen',
      incl queue P /\ incl seen seen'
      /\ (forall ty sels c dirs sty sub, In (ty, sels) P -> In (MxInline c dirs sty sub) sels -> In (sty, sub) P)
      /\ (forall ty sels n dirs, In (ty, sels) P -> In (MxSpread n dirs) sels -> In n seen')
      /\ (forall n st, In n seen' -> ~ In n seen -> xv_assoc n frags = Some st -> In st P)
      /\ (forall st, In st P -> mxe_reach queue st)
      /\ (forall f, In f out <-> exists ty sels, In (ty, sels) P /\ In f (mxe_fields ty sels)).
  Proof.
    induction fuel as [|fuel IH]; intros queue seen out H; destruct queue as [|[ty sels] rest]; cbn [mx_expand_loop] in H;
      try discriminate.
    1,2: injection H as <-; exists [], seen; split; [apply incl_refl|]; split; [apply incl_refl|];
      split; [intros ? ? ? ? ? ? []|]; split; [intros ? ? ? ? []|]; split; [intros n st H1 H2; contradiction|];
      split; [intros ? []|]; intros f; split; [intros []|intros (? & ? & [] & _)].
    destruct (mxe_set_spec ty sels rest seen) as (new & sn & E & S1 & S2 & S3 & S4 & S5). rewrite E in H.
    destruct (mx_expand_loop fuel frags (rest ++ new) sn) as [more|] eqn:L; [|discriminate]. injection H as <-.
    destruct (IH _ _ _ L) as (P & seen' & I1 & I2 & I3 & I4 & I5 & I6 & I7).
    exists ((ty, sels) :: P), seen'. split; [|split; [|split; [|split; [|split; [|split]]]]].
    - intros st [<-|Hst]; [left; reflexivity|right; apply I1; apply in_or_app; left; exact Hst].
    - intros n Hn. apply I2. apply S1. exact Hn.
    - intros ty' sels' c dirs sty sub [Heq|Hin] Hx.
      + injection Heq as <- <-. right. apply I1. apply in_or_app. right. eapply S3. exact Hx.
      + right. eapply I3; eassumption.
    - intros ty' sels' n dirs [Heq|Hin] Hx.
      + injection Heq as <- <-. apply I2. eapply S2. exact Hx.
      + eapply I4; eassumption.
    - intros n st Hn Hns Ha. right.
      destruct (in_dec (list_eq_dec N.eq_dec) n sn) as [Hsn|Hsn].
      + apply I1. apply in_or_app. right. exact (S4 n st Hsn Hns Ha).
      + exact (I5 n st Hn Hsn Ha).
    - assert (Hq : forall st, In st (rest ++ new) -> mxe_reach ((ty, sels) :: rest) st).
      { intros st Hst. apply in_app_or in Hst. destruct Hst as [Hst|Hst]; [apply mxe_r_init; right; exact Hst|].
        destruct (S5 st Hst) as [(c & dirs & Hx)|(n & dirs & Hx & Ha)].
        - destruct st as [sty sub]. cbn [fst snd] in Hx. eapply mxe_r_inline; [|exact Hx]. apply mxe_r_init. left. reflexivity.
        - eapply mxe_r_spread; [|exact Hx|exact Ha]. apply mxe_r_init. left. reflexivity. }
      intros st [<-|Hst]; [apply mxe_r_init; left; reflexivity|].
      eapply mxe_reach_mono; [exact Hq|]. apply I6. exact Hst.
    - intros f. rewrite in_app_iff, I7. split.
      + intros [Hf|(ty' & sels' & Hin & Hf)]; [exists ty, sels; split; [left; reflexivity|exact Hf]|].
        exists ty', sels'. split; [right; exact Hin|exact Hf].
      + intros (ty' & sels' & [Heq|Hin] & Hf); [injection Heq as <- <-; left; exact Hf|].
        right. exists ty', sels'. auto.
  Qed.

  (* expand_selections produces exactly the fields of the reachable sets *)
  Theorem mxe_expand_coll sets out : mx_expand frags sets = Some out -> forall f, In f out <-> mxe_coll sets f.
  Proof.
    unfold mx_expand. intros H. destruct (mxe_loop_spec _ _ _ _ H) as (P & seen' & I1 & I2 & I3 & I4 & I5 & I6 & I7).
    assert (Hall : forall st, mxe_reach sets st -> In st P).
    { intros st R. induction R as [st Hin|ty sels c dirs sty sub _ IH Hin|ty sels n dirs st _ IH Hin Ha].
      - apply I1. exact Hin.
      - eapply I3; eassumption.
      - apply (I5 n st); [eapply I4; eassumption|intros []|exact Ha]. }
    intros f. rewrite I7. unfold mxe_coll. split.
    - intros (ty & sels & Hin & Hf). exists ty, sels. split; [apply I6; exact Hin|exact Hf].
    - intros (ty & sels & R & Hf). exists ty, sels. split; [apply Hall; exact R|exact Hf].
  Qed.

  (* ---------- the fuel of mx_expand is never exhausted ---------- *)
  Fixpoint mxe_sels_sz (l : list mx_sel) : nat :=
    match l with [] => O | y :: r => (mx_sel_size y + mxe_sels_sz r)%nat end.
  Fixpoint mxe_sz (l : list mx_set) : nat :=
    match l with [] => O | st :: r => (S (mxe_sels_sz (snd st)) + mxe_sz r)%nat end.
  (* the weight of the fragments not yet visited *)
  Fixpoint mxe_unseen_l (l : list (str * mx_set)) (seen : list str) : nat :=
    match l with
    | [] => O
    | kv :: r => ((if xv_mem (fst kv) seen then O else S (mxe_sels_sz (snd (snd kv)))) + mxe_unseen_l r seen)%nat
    end.

  Lemma mxe_sels_sz_fold l : fold_right (fun y m => mx_sel_size y + m)%nat O l = mxe_sels_sz l.
  Proof. induction l as [|y r IH]; cbn [fold_right mxe_sels_sz]; [reflexivity|]. rewrite IH. reflexivity. Qed.

  Lemma mxe_sel_size_sub x :
    mx_sel_size x = match x with
                    | MxField _ _ _ _ _ _ sub | MxInline _ _ _ sub => S (mxe_sels_sz sub)
                    | MxSpread _ _ => 1%nat
                    end.
  Proof. destruct x; cbn [mx_sel_size]; try rewrite mxe_sels_sz_fold; reflexivity. Qed.

  Lemma mxe_sz_fold l : fold_right (fun st m => mx_set_size st + m)%nat O l = mxe_sz l.
  Proof.
    induction l as [|st r IH]; cbn [fold_right mxe_sz]; [reflexivity|]. rewrite IH. unfold mx_set_size.
    rewrite mxe_sels_sz_fold. reflexivity.
  Qed.

  Lemma mxe_sz_app a b : mxe_sz (a ++ b) = (mxe_sz a + mxe_sz b)%nat.
  Proof. induction a as [|x a IH]; cbn [app mxe_sz]; [reflexivity|]. rewrite IH. lia. Qed.

  Lemma xv_mem_cons k n seen : xv_mem k (n :: seen) = streq k n || xv_mem k seen.
  Proof. reflexivity. Qed.

  Lemma mxe_unseen_mono l n seen : (mxe_unseen_l l (n :: seen) <= mxe_unseen_l l seen)%nat.
  Proof.
    induction l as [|[k v] l IH]; cbn [mxe_unseen_l fst snd]; [lia|]. rewrite xv_mem_cons.
    destruct (streq k n); destruct (xv_mem k seen); cbn [orb]; lia.
  Qed.

  Lemma mxe_unseen_drop l n seen st : ~ In n seen -> xv_assoc n l = Some st ->
    (mxe_unseen_l l (n :: seen) + S (mxe_sels_sz (snd st)) <= mxe_unseen_l l seen)%nat.
  Proof.
    intros Hns. apply xv_mem_false in Hns. induction l as [|[k v] l IH]; cbn [xv_assoc]; [discriminate|].
    cbn [mxe_unseen_l fst snd]. rewrite xv_mem_cons. destruct (streq n k) eqn:E.
    - intros [= ->]. apply streq_eq in E. subst k. rewrite streq_refl, Hns. cbn [orb].
      pose proof (mxe_unseen_mono l n seen). lia.
    - intros Ha. specialize (IH Ha). rewrite (streq_sym k n), E. cbn [orb]. destruct (xv_mem k seen); lia.
  Qed.

  Lemma mxe_set_measure ty sels : forall queue seen out q sn,
    mx_expand_set frags ty sels queue seen = (out, q, sn) ->
    (mxe_sz q + mxe_unseen_l frags sn <= mxe_sz queue + mxe_sels_sz sels + mxe_unseen_l frags seen)%nat.
  Proof.
    induction sels as [|x r IH]; intros queue seen out q sn; cbn [mx_expand_set].
    - intros [= <- <- <-]. cbn [mxe_sels_sz]. lia.
    - cbn [mxe_sels_sz]. rewrite (mxe_sel_size_sub x).
      destruct x as [a n args dirs def sty sub|n dirs|c dirs sty sub].
      + destruct (mx_expand_set frags ty r queue seen) as [[out' q'] sn'] eqn:E. intros [= <- <- <-].
        specialize (IH _ _ _ _ _ E). lia.
      + destruct (xv_mem n seen) eqn:M.
        * intros E. specialize (IH _ _ _ _ _ E). lia.
        * apply xv_mem_false in M. destruct (xv_assoc n frags) as [st0|] eqn:A.
          -- intros E. specialize (IH _ _ _ _ _ E). rewrite mxe_sz_app in IH. cbn [mxe_sz] in IH.
             pose proof (mxe_unseen_drop frags n seen st0 M A). lia.
          -- intros E. specialize (IH _ _ _ _ _ E). pose proof (mxe_unseen_mono frags n seen). lia.
      + intros E. specialize (IH _ _ _ _ _ E). rewrite mxe_sz_app in IH. cbn [mxe_sz snd] in IH. lia.
  Qed.

  Lemma mxe_loop_some : forall fuel queue seen,
    (mxe_sz queue + mxe_unseen_l frags seen < fuel)%nat -> mx_expand_loop fuel frags queue seen <> None.
  Proof.
    induction fuel as [|fuel IH]; intros queue seen Hm; [lia|].
    destruct queue as [|[ty sels] rest]; cbn [mx_expand_loop]; [discriminate|].
    destruct (mx_expand_set frags ty sels rest seen) as [[out q] sn] eqn:E.
    pose proof (mxe_set_measure _ _ _ _ _ _ _ E) as Hs.
    cbn [mxe_sz snd] in Hm.
    destruct (mx_expand_loop fuel frags q sn) eqn:L; [discriminate|]. exfalso. revert L. apply IH. lia.
  Qed.

  Lemma mxe_unseen_nil l : mxe_unseen_l l [] = mxe_sz (map snd l).
  Proof. induction l as [|[k v] l IH]; cbn [mxe_unseen_l mxe_sz map fst snd xv_mem existsb]; [reflexivity|]. rewrite IH. reflexivity. Qed.

  Theorem mx_expand_some sets : mx_expand frags sets <> None.
  Proof.
    unfold mx_expand. apply mxe_loop_some.
    assert (E : mx_expand_fuel frags sets = S (mxe_sz sets + mxe_sz (map snd frags))).
    { unfold mx_expand_fuel. rewrite <- mxe_sz_app. reflexivity. }
    rewrite E, mxe_unseen_nil. lia.
  Qed.

  (* ---------- the in-place collection has the same members ---------- *)
  Lemma mxc_go_sound (rec : str -> list mx_sel -> option (list mx_fs)) :
    (forall ty sels L, rec ty sels = Some L ->
       forall sets, mxe_reach sets (ty, sels) -> forall f, In f L -> mxe_coll sets f) ->
    forall x ty out, mxc_go rec frags ty x = Some out ->
    forall sets sels0, mxe_reach sets (ty, sels0) -> In x sels0 -> forall f, In f out -> mxe_coll sets f.
  Proof.
    intros Hrec x. induction x as [a n args dirs def sty sub _|n dirs|c dirs sty sub IH] using mx_sel_ind_nested;
      intros ty out; cbn [mxc_go].
    - intros [= <-] sets sels0 R Hx f [<-|[]]. exists ty, sels0. split; [exact R|].
      apply mxe_fields_in. exists a, n, args, dirs, def, sty, sub. auto.
    - destruct (xv_assoc n frags) as [st|] eqn:A.
      + intros E sets sels0 R Hx f Hf. destruct st as [fty fsels]. cbn [fst snd] in E.
        apply (Hrec _ _ _ E sets); [|exact Hf]. eapply mxe_r_spread; eassumption.
      + intros [= <-] sets sels0 R Hx f [].
    - intros E sets sels0 R Hx f Hf.
      destruct (opt_concat_map_some _ _ _ E) as [_ H2]. apply H2 in Hf. destruct Hf as (y & o & Hy & Ey & Hf).
      rewrite Forall_forall in IH. apply (IH y Hy sty o Ey sets sub); [|exact Hy|exact Hf].
      eapply mxe_r_inline; eassumption.
  Qed.

  Lemma mxc_collect_sound : forall fuel ty sels L, mxc_collect fuel frags ty sels = Some L ->
    forall sets, mxe_reach sets (ty, sels) -> forall f, In f L -> mxe_coll sets f.
  Proof.
    induction fuel as [|fuel IH]; intros ty sels L; cbn [mxc_collect]; [discriminate|].
    intros E sets R f Hf. destruct (opt_concat_map_some _ _ _ E) as [_ H2]. apply H2 in Hf.
    destruct Hf as (x & o & Hx & Ex & Hf). exact (mxc_go_sound _ IH x ty o Ex sets sels R Hx f Hf).
  Qed.

  (* every reachable set is collected as a part of the whole *)
  Lemma mxc_collect_reach : forall st0 st, mxe_reach [st0] st ->
    forall fuel L, mxc_collect fuel frags (fst st0) (snd st0) = Some L ->
    exists fuel' L', mxc_collect fuel' frags (fst st) (snd st) = Some L' /\ incl L' L.
  Proof.
    intros st0 st R. induction R as [st Hin|ty sels c dirs sty sub _ IH Hin|ty sels n dirs st _ IH Hin Ha];
      intros fuel L E.
    - destruct Hin as [<-|[]]. exists fuel, L. split; [exact E|apply incl_refl].
    - destruct (IH fuel L E) as (fuel1 & L1 & E1 & I1). cbn [fst snd] in *.
      destruct fuel1 as [|fuel1]; [discriminate|]. cbn [mxc_collect] in E1.
      destruct (opt_concat_map_some _ _ _ E1) as [H1 H2].
      destruct (H1 _ Hin) as [o Eo]. cbn [mxc_go] in Eo.
      exists (S fuel1), o. split; [exact Eo|]. intros f Hf. apply I1. apply H2.
      exists (MxInline c dirs sty sub), o. auto.
    - destruct (IH fuel L E) as (fuel1 & L1 & E1 & I1). cbn [fst snd] in *.
      destruct fuel1 as [|fuel1]; [discriminate|]. cbn [mxc_collect] in E1.
      destruct (opt_concat_map_some _ _ _ E1) as [H1 H2].
      destruct (H1 _ Hin) as [o Eo]. pose proof Eo as Eo'. cbn [mxc_go] in Eo. rewrite Ha in Eo.
      exists fuel1, o. split; [exact Eo|]. intros f Hf. apply I1. apply H2.
      exists (MxSpread n dirs), o. auto.
  Qed.

  Theorem mxc_collect_coll fuel ty sels L : mxc_collect fuel frags ty sels = Some L ->
    forall f, In f L <-> mxe_coll [(ty, sels)] f.
  Proof.
    intros E f. split.
    - apply (mxc_collect_sound _ _ _ _ E). apply mxe_r_init. left. reflexivity.
    - intros (ty' & sels' & R & Hf).
      destruct (mxc_collect_reach (ty, sels) (ty', sels') R fuel L E) as (fuel' & L' & E' & I'). cbn [fst snd] in E'.
      apply I'. destruct fuel' as [|fuel']; [discriminate|]. cbn [mxc_collect] in E'.
      destruct (opt_concat_map_some _ _ _ E') as [_ H2]. apply H2.
      apply mxe_fields_in in Hf. destruct Hf as (a & n & args & dirs & def & sty & sub & Hx & ->).
      eexists. eexists. split; [exact Hx|]. split; [reflexivity|]. left. reflexivity.
  Qed.

  (* goal 1, for the executable document: whatever the fragment map, the queue walk with one visit per fragment
     and the in-place expansion of every spread yield the same (parent type, field) pairs; they differ in order,
     and in multiplicity when a fragment is spread more than once *)
  Theorem mx_expand_eq_collect sets out : mx_expand frags sets = Some out ->
    forall fuel Ls, Forall2 (fun st L => mxc_collect fuel frags (fst st) (snd st) = Some L) sets Ls ->
    forall f, In f out <-> In f (concat Ls).
  Proof.
    intros E fuel Ls HF f. rewrite (mxe_expand_coll _ _ E), mxe_coll_split, in_concat. clear E. split.
    - intros (s0 & H0 & Hc). revert H0. induction HF as [|st L sets Ls Hst _ IH]; intros H0; [destruct H0|].
      destruct H0 as [<-|H0].
      + exists L. split; [left; reflexivity|]. destruct st as [ty sels]. apply (mxc_collect_coll _ _ _ _ Hst). exact Hc.
      + destruct (IH H0) as (L' & HL' & Hf). exists L'. split; [right; exact HL'|exact Hf].
    - intros (L & HL & Hf). revert HL. induction HF as [|st L0 sets Ls Hst _ IH]; intros HL; [destruct HL|].
      destruct HL as [<-|HL].
      + exists st. split; [left; reflexivity|]. destruct st as [ty sels]. apply (mxc_collect_coll _ _ _ _ Hst). exact Hf.
      + destruct (IH HL) as (s0 & H0 & Hc). exists s0. split; [right; exact H0|exact Hc].
  Qed.
End Expand.
